#!/bin/sh
# tools/verify_all.sh id... : tools/verify_mutant.sh for each /tmp/mut/<id> in parallel (results in /tmp/mut/<id>.verify)
cd /verif
for id in "$@"; do
  ( tools/verify_mutant.sh /tmp/mut/$id $id > /tmp/mut/$id.verify 2>&1 ) &
done
wait
for id in "$@"; do echo "$(grep -o "^$id: SUITE.*" /tmp/mut/$id.verify | sed 's/test result: ok. 0 passed; 0 failed; 0 ignored; 0 measured; 0 filtered out; finished in 0.00s //g' | cut -c1-330)"; done

#!/usr/bin/env python3
"""tools/mutant_prompt.py <ID> [--no-known] : the brief handed to a fresh sub-agent that is asked to write a change to
joaquinbejar/PriceLevel which breaks property <ID> while compiling and passing the existing tests. It contains the
property text and the location of the agent's own scratch worktree; with the (default) known list it also contains
one-line descriptions of the changes earlier agents already wrote for this property, so that this one writes a
different change (no description of the checks, of the model or of /verif is included)."""
import json, os, sys, glob
pid = sys.argv[1]
root = os.path.dirname(os.path.dirname(os.path.abspath(__file__)))
prop = None
for l in open(os.path.join(root, "properties.jsonl")):
    p = json.loads(l)
    if p["id"] == pid:
        prop = p
known = []
if "--no-known" not in sys.argv:
    for d in sorted(glob.glob(os.path.join(root, "seeded", pid + "-*"))):
        try:
            m = json.load(open(os.path.join(d, "meta.json")))
            known.append("- " + (m.get("breaks") or "")[:260].replace("\n", " "))
        except Exception:
            pass
lc = pid.lower()
print(f"""You are helping to test a verification effort for the Rust crate joaquinbejar/PriceLevel (one limit-order-book price
level: concurrent order queue, per-order-type matching, atomic aggregates, checksummed snapshots, text/JSON codecs).

Your own scratch git worktree of the crate is /tmp/mut/{pid} (already created; work ONLY there; never touch /repo or
/verif, never read /verif). Build and test offline: always `export CARGO_NET_OFFLINE=true CARGO_TARGET_DIR=/tmp/mut/{pid}/target`
and pass `--offline` to cargo. The existing suite is `cargo test --workspace --no-fail-fast --offline` (361 unit tests in the
`tests` integration target + 4 doc tests; it passes on the unchanged tree).

The property (a semantic guarantee users of the crate rely on):

{json.dumps({k: prop[k] for k in ("id", "title", "statement", "quantifier", "why_tests_cant", "anchors")}, indent=1)}

Your task: write ONE realistic change to the crate's source (under src/, the kind of edit a maintainer could plausibly
make: an optimisation, a refactor, a 'simplification', a hardening, a fast path) that BREAKS this property while the crate
still compiles (with and without `--features verif`) and the whole existing test suite still passes unedited. The change
must need something specific to manifest - a particular interleaving, a multi-step sequence of operations, an unusual
but legal input, a boundary value, a particular state, or two cooperating sites that each look fine alone - and must NOT be
something ordinary use would expose at once. Do not touch tests/, Cargo.toml or src/verif.rs; keep the public API unchanged.
The breakage must lie inside the property's quantifier (legal inputs as the property describes them).
{"Changes other agents already wrote for this property (write something DIFFERENT in mechanism and in what it needs to manifest):" if known else ""}
{chr(10).join(known)}

Deliver, in /tmp/mut/{pid}/out/ (create it):
1. patch.diff  - `git diff` of your change against the worktree's HEAD (src/ only), applying cleanly with `git apply`.
2. demo_{lc}.rs - a demonstration: a Rust test module (plain `#[test]` functions, `use pricelevel::...;`) that will be copied to
   tests/unit/demo_{lc}.rs and registered with `mod demo_{lc};` in tests/unit/mod.rs. It must FAIL with your change applied and
   PASS on the unchanged tree (run `cargo test --offline --test tests demo_{lc}` both ways yourself and confirm). For
   interleaving-dependent changes the demo may use the crate's `verif` feature hooks only if it compiles without the
   feature too; otherwise make it deterministic by construction (e.g. many iterations, barriers) or demonstrate the
   sequential consequence.
3. meta.json - {{"summary": "<what was changed and why it breaks the property>", "needs": "<what exactly it needs in order to
   manifest>", "files": ["src/..."]}}

Before you finish: confirm (a) the full existing suite passes with the change, (b) `cargo build --offline --features verif`
succeeds with the change, (c) the demo fails with the change and passes without it; then leave the worktree with your change
REVERTED (`git checkout -- . && git clean -fdq tests src`) and only the out/ directory added. Reply with a short report: the
idea, what it needs to manifest, and the three confirmations.""")

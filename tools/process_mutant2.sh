#!/bin/sh
# tools/process_mutant2.sh <ID> <n> <old-checkout> : as process_mutant.sh, but the change is first run against an older
# checkout of /verif (the checks "as they were" before anticipatory strengthening), then against the current ones
id="$1"; n="$2"; old="$3"
tools/verify_mutant.sh /tmp/mut/$id $id > /tmp/mut/$id.verify 2>&1
cd /repo || exit 2
git diff --quiet || { echo "repo dirty"; exit 2; }
git apply /tmp/mut/$id/out/patch.diff || { echo "patch does not apply"; exit 2; }
out=$(cd $old && VERIF_OP_TIMEOUT=3 timeout 900 bin/check "$id" 2>&1); rc=$?
echo "== $id (checks as they were at $(git -C $old rev-parse --short HEAD)) rc=$rc :: $(echo "$out" | grep -E 'VIOLATION|quick:' | tr '\n' ' ' | cut -c1-400)" > /tmp/mut/$id.old
out=$(cd /verif && VERIF_OP_TIMEOUT=3 timeout 900 bin/check "$id" 2>&1); rc2=$?
echo "== $id rc=$rc2 :: $(echo "$out" | grep -E 'VIOLATION|quick:' | tr '\n' ' ' | cut -c1-400)" > /tmp/mut/$id.try
git -C /repo checkout -- .
cd /verif
if [ $rc -eq 1 ]; then hist="caught by the check as it was"; else hist="missed by the check as it was ($(cat /tmp/mut/$id.old | cut -c1-200)); see DESIGN 11.5 for the strengthening"; fi
python3 tools/save_mutant.py $id $n "$hist"
grep -o "SUITE.*" /tmp/mut/$id.verify | sed 's/test result: ok. 0 passed; 0 failed; 0 ignored; 0 measured; 0 filtered out; finished in 0.00s //g' | cut -c1-400
cat /tmp/mut/$id.old /tmp/mut/$id.try

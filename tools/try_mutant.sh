#!/bin/sh
# tools/try_mutant.sh <patch.diff> <property>... : apply a seeded change to /repo, run the quick
# checks of the named properties, undo the change. Prints one line per check.
patch="$1"; shift
cd /repo || exit 2
git diff --quiet || { echo "repo dirty"; exit 2; }
git apply "$patch" || { echo "patch does not apply"; exit 2; }
for p in "$@"; do
  out=$(cd /verif && VERIF_OP_TIMEOUT=${VERIF_OP_TIMEOUT:-3} timeout 900 bin/check "$p" 2>&1); rc=$?
  echo "== $p rc=$rc :: $(echo "$out" | grep -E 'VIOLATION|quick:' | tr '\n' ' ' | cut -c1-400)"
done
git -C /repo checkout -- .

#!/bin/sh
# tools/verify_mutant.sh <worktree> <id> : confirms a seeded change independently:
#  (1) with the change the whole existing suite passes, (2) the demo fails with it, (3) passes without it.
# Prints one summary line. The worktree is left with the change reverted and no demo installed.
wt="$1"; id="$2"; lc=$(echo "$id" | tr 'A-Z' 'a-z')
cd "$wt" || exit 2
export CARGO_NET_OFFLINE=true CARGO_TARGET_DIR="$wt/target"
git checkout -q -- . ; git clean -fdq tests src
git apply out/patch.diff || { echo "$id: patch does not apply"; exit 1; }
suite=$(timeout 1500 cargo test --workspace --no-fail-fast --offline 2>&1 | grep -E "^test result" | tr '\n' ' ')
demo=$(ls out/*.rs | head -1)
cp "$demo" tests/unit/demo_$lc.rs; echo "mod demo_$lc;" >> tests/unit/mod.rs
with=$(timeout 1500 cargo test --offline --test tests demo_$lc 2>&1 | grep -E "^test result" | tr '\n' ' ')
git apply -R out/patch.diff
without=$(timeout 1500 cargo test --offline --test tests demo_$lc 2>&1 | grep -E "^test result" | tr '\n' ' ')
git checkout -q -- . ; rm -f tests/unit/demo_$lc.rs
echo "$id: SUITE[$suite] DEMO-WITH[$with] DEMO-WITHOUT[$without]"

#!/bin/sh
# tools/recheck_parallel.sh [N=6] : re-runs EVERY seeded change against its property's quick check, N at a time,
# without touching /repo: worker k gets its own git worktree of /repo's HEAD (/tmp/recheck/r<k>) and its own copy of
# /verif (/tmp/recheck/v<k>, harness path rewritten, VERIF_REPO set). One line per change in seeded/RESULTS.txt.
# Everything under /tmp/recheck is removed at the end.
N=${1:-6}
set -e
rm -rf /tmp/recheck; mkdir -p /tmp/recheck
cd /verif
ls -d seeded/C*-*/ | sed 's#seeded/##; s#/##' > /tmp/recheck/all.txt
k=0
while [ $k -lt $N ]; do
  git -C /repo worktree add -q --detach /tmp/recheck/r$k HEAD
  rsync -a --exclude .git --exclude replays /verif/ /tmp/recheck/v$k/ || true
  sed -i "s#path = \"/repo\"#path = \"/tmp/recheck/r$k\"#" /tmp/recheck/v$k/harness/Cargo.toml
  awk -v n=$N -v k=$k 'NR % n == k' /tmp/recheck/all.txt > /tmp/recheck/list$k.txt
  k=$((k+1))
done
set +e
k=0
while [ $k -lt $N ]; do
  (
    export VERIF_REPO=/tmp/recheck/r$k VERIF_OP_TIMEOUT=${VERIF_OP_TIMEOUT:-5}
    while read n; do
      p=${n%-*}
      ( cd /tmp/recheck/r$k && git apply /verif/seeded/$n/patch.diff ) || { echo "$n patch-does-not-apply" >> /tmp/recheck/out$k.txt; continue; }
      out=$(cd /tmp/recheck/v$k && timeout 1500 bin/check $p 2>&1); rc=$?
      ( cd /tmp/recheck/r$k && git checkout -q -- . && git clean -fdq src )
      echo "$n == $p rc=$rc :: $(echo "$out" | grep -E 'VIOLATION|quick:' | tr '\n' ' ' | sed "s#/tmp/recheck/v$k#/verif#g" | cut -c1-230)" >> /tmp/recheck/out$k.txt
    done < /tmp/recheck/list$k.txt
  ) &
  k=$((k+1))
done
wait
cat /tmp/recheck/out*.txt | sort > /verif/seeded/RESULTS.txt
k=0
while [ $k -lt $N ]; do git -C /repo worktree remove --force /tmp/recheck/r$k; k=$((k+1)); done
git -C /repo worktree prune
rm -rf /tmp/recheck
echo "rechecked $(wc -l < /verif/seeded/RESULTS.txt) changes; not exit 1: $(grep -vc 'rc=1' /verif/seeded/RESULTS.txt)"

#!/bin/sh
# tools/try_all.sh <patch.diff> : apply a change to /repo, run EVERY property's quick check, undo. One line per check.
patch="$1"
cd /repo || exit 2
git diff --quiet || { echo "repo dirty"; exit 2; }
git apply "$patch" || { echo "patch does not apply"; exit 2; }
for p in C01 C02 C03 C04 C05 C06 C07 C08 C09 C10 C11 C12 C13 C14 C15 C16 C17 C18 C19; do
  out=$(cd /verif && VERIF_OP_TIMEOUT=${VERIF_OP_TIMEOUT:-3} timeout 1200 bin/check "$p" 2>&1); rc=$?
  echo "== $p rc=$rc :: $(echo "$out" | grep -E 'VIOLATION|quick:' | tr '\n' ' ' | cut -c1-300)"
done
git -C /repo checkout -- .

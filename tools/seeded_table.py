#!/usr/bin/env python3
"""prints the markdown table of DESIGN §11.5 from seeded/*/meta.json"""
import json, glob, os, re
ROOT = os.path.dirname(os.path.dirname(os.path.abspath(__file__)))
rows = []
for d in sorted(glob.glob(os.path.join(ROOT, "seeded", "C*-*"))):
    m = json.load(open(os.path.join(d, "meta.json")))
    name = os.path.basename(d)
    what = re.sub(r"\s+", " ", (m.get("breaks") or "")).strip()
    what = what[:150] + ("…" if len(what) > 150 else "")
    h = (m.get("caught_by", {}).get("history") or "caught by the check as it was").strip()
    res = m.get("caught_by", {}).get("result") or ""
    prop = re.search(r"== (C\d\d) rc=1", res)
    if h.lower().startswith("not caught"):
        status = "**not by this property's check** — " + re.sub(r"\s+", " ", h)[:300] + ("…" if len(h) > 300 else "")
    elif h.lower().startswith("missed") or "strengthened" in h.lower() or h.lower().startswith("first"):
        status = "**strengthened** — " + re.sub(r"\s+", " ", h)[:260] + ("…" if len(h) > 260 else "")
    else:
        status = "as it was"
    rows.append("| %s | %s | %s |" % (name, what.replace("|", "/"), status.replace("|", "/")))
print("| seeded | change | caught by the property's quick check |")
print("|---|---|---|")
print("\n".join(rows))

#!/bin/sh
# tools/psweep.sh N id[:prop]... : runs the seeded changes /tmp/mut/<id>/out/patch.diff against their property's quick check, N at a
# time, in private copies (a git worktree of /repo's HEAD + a copy of /verif per worker, as tools/recheck_parallel.sh does);
# /repo is not touched. Writes /tmp/mut/<id>.try (one line) for tools/save_mutant.py.
N=$1; shift
rm -rf /tmp/psweep; mkdir -p /tmp/psweep
for id in "$@"; do echo $id; done > /tmp/psweep/all.txt
k=0
while [ $k -lt $N ]; do
  git -C /repo worktree add -q --detach /tmp/psweep/r$k HEAD
  rsync -a --exclude .git --exclude replays ${VERIF_SRC:-/verif}/ /tmp/psweep/v$k/ || true
  sed -i "s#path = \"/repo\"#path = \"/tmp/psweep/r$k\"#" /tmp/psweep/v$k/harness/Cargo.toml
  awk -v n=$N -v k=$k 'NR % n == k' /tmp/psweep/all.txt > /tmp/psweep/list$k.txt
  k=$((k+1))
done
k=0
while [ $k -lt $N ]; do
  (
    export VERIF_REPO=/tmp/psweep/r$k VERIF_OP_TIMEOUT=${VERIF_OP_TIMEOUT:-5}
    while read spec; do
      id=${spec%%:*}; prop=${spec##*:}   # "C02" or "C02:C03" (change C02 against the check of C03)
      ( cd /tmp/psweep/r$k && git apply /tmp/mut/$id/out/patch.diff ) || { echo "== $id patch-does-not-apply" > /tmp/mut/$id.try; continue; }
      s=$(date +%s)
      out=$(cd /tmp/psweep/v$k && timeout 1500 bin/check $prop 2>&1); rc=$?
      e=$(date +%s)
      ( cd /tmp/psweep/r$k && git checkout -q -- . && git clean -fdq src )
      mkdir -p /verif/replays; cp /tmp/psweep/v$k/replays/$prop-*.json /verif/replays/ 2>/dev/null
      f=/tmp/mut/$id.try; [ "$id" != "$prop" ] && f=/tmp/mut/$id.$prop.try
      echo "== $prop rc=$rc :: $(echo "$out" | grep -E 'VIOLATION|quick:' | tr '\n' ' ' | sed "s#/tmp/psweep/v$k#/verif#g" | cut -c1-400)" > $f
      echo "$spec $(cut -c1-330 $f) [$((e-s))s]"
    done < /tmp/psweep/list$k.txt
  ) &
  k=$((k+1))
done
wait
k=0
while [ $k -lt $N ]; do git -C /repo worktree remove --force /tmp/psweep/r$k; k=$((k+1)); done
git -C /repo worktree prune
rm -rf /tmp/psweep

#!/usr/bin/env python3
"""Writes MANIFEST.json from the table below (kept in one place so that claimed checks, engines and
not_applicable entries stay consistent)."""
import json, os
ROOT = os.path.dirname(os.path.dirname(os.path.abspath(__file__)))

NOTE = ("Trusted: Lean 4.33 kernel + propext/Quot.sound/Classical.choice (audited on every run); the model is hand-written and "
        "tied to /repo by the correspondence engines (sampled, exhaustive on the small grids named in the evidence); harness, bin/check, "
        "extract_constants.py; dashmap/crossbeam/atomics/serde/uuid/sha2 modelled, not verified.")

CLAIMS = {
 "C01": ("Theorems over all admissible histories (List Op of any length): Level.Inv is preserved by add, match (induction over the "
         "well-founded match loop), the five updates and reads, so the wrapping 64-bit counters equal the sums over the listed orders and never wrap; "
         "every constructor derives the aggregates. Tie: E-seq/E-seq0 differential runs; C01.ok (the theorem's predicate) judges the real crate after every op.",
         "Lean 4 proof by invariant + induction over histories; differential correspondence with in-driver Lean judge", "DESIGN §6 C01"),
 "C02": ("Theorems for every match from every well-formed state: executed+remaining=requested, completion flag, transaction fields, consecutive fresh ids, "
         "filled list = makers that traded and left, per-call and lifetime no-overfill ledger, add_transaction law. Tie: E-seq/E-seq0/E-pure; C02.ok judges each real MatchResult.",
         "Lean 4 proof by loop invariants (TxInv/ExhInv) + induction over histories; differential correspondence with Lean judge", "DESIGN §6 C02"),
 "C05": ("Theorems for every order and incoming quantity: the documented rule field by field (C05.ok), conservation, identity, per-kind rules, default 80 regenerated from source. "
         "Also the exported tranche helper refresh_iceberg (rule, min(hidden, amount), hidden conserved; match_against's replenish steps are the helper on the capped amount) and the time-in-force predicates. "
         "Tie: exhaustive grid + boundary + random E-pure; C05.ok judges the real match_against, C05.refreshOk the real refresh_iceberg.",
         "Lean 4 proof (grind/omega over the model) + exhaustive-grid differential correspondence with Lean judge", "DESIGN §6 C05"),
 "C06": ("The model's match loop is a total function accepted with a lexicographic measure (remaining + hidden, tickets) for every state; theorems: exhaustion of displayed "
         "liquidity and executed >= min(requested, displayed) from every well-formed state and over histories. Tie: E-seq0 with a per-op watchdog (a call that does not return is a violation with replay) and E-deep (one call re-queueing the same maker 66 000-90 000 times); C06.ok judges every real match.",
         "Lean 4 termination proof + loop invariant; differential correspondence with hang detection", "DESIGN §6 C06"),
 "C07": ("Theorems: cancel/move return and remove exactly the stored order, absent id changes nothing, same-price price update rejected, amend result per kind with identity fields and other orders untouched, "
         "a removed id never trades again along any history that does not re-add it, reads are the identity. Tie: E-seq/E-seq0 with all five update kinds and reads inserted at random; C07.ok judges every real update.",
         "Lean 4 proof over histories; differential (metamorphic for reads) correspondence with Lean judge", "DESIGN §6 C07"),
 "C15": ("Theorems: (sequential) over all admissible histories with orders at the level's price the four counters equal (mod 2^64, exactly while they fit) the event counts an observer derives from return values; (concurrent) over EVERY schedule of any number of threads and calls of the small-step model, at every point the counters equal the events so far corrected by what calls in progress recorded early or still owe (SInv), and at quiescence they equal the events exactly (C15_concurrent) — every update is one fetch_add, none is lost. "
         "Tie: E-seq/E-seq0 (C15.ok judged after every op) and E-conc (statistics steps compared event for event under the scheduler, C15.ok judged at quiescence of every concurrent run).",
         "Lean 4 proof by loop invariant + induction over histories, and an inductive invariant over all schedules; differential correspondence with Lean judge", "DESIGN §6 C15, §11.3"),
 "C04": ("The full property is false of the crate (two characterised deviations, recorded as known findings F1/F2 with Lean counterexamples evaluated on the model and replayed on the crate). Proved: C04_partial — every maker visit takes the head of the hand-out order; leave / replenish-requeue / add / cancel / same-price amend act on the hand-out order exactly as the property prescribes unless F1 or F2. "
         "Composed over a whole match call of any length (C04_loop_sweeps, C04_match_composed): the loop's visits are exactly successive heads of the hand-out order, each visited maker leaving, going to the tail (refresh / replenish / partial fill) or being set aside, and the set-aside orders return behind everything else in the order they were met. Tie: E-seq maker sequences compared with the model, deviations classified by the driver.",
         "Lean 4 proof (refinement lemmas on the hand-out order, counterexamples by evaluation) + differential correspondence; known findings", "DESIGN §6 C04"),
 "C19": ("Theorems: refinement of the ticket queue to an abstract FIFO for every operation sequence whose pushes do not re-use a ticketed id (C19_refines/C19_history); for all sequences find/remove/len/is_empty/to_vec see exactly the queued orders; from_vec hands out in list order; decide'd counterexample for the stale-ticket re-push (known finding). "
         "Tie: E-seq on the exported OrderQueue incl. rebuilds through from_vec / From<Vec> / text / JSON (from_str, from_value, from_reader, escaped text), every answer compared with the model and judged against the abstract FIFO run by the driver.",
         "Lean 4 refinement proof + differential correspondence with Lean FIFO judge; known finding", "DESIGN §6 C19"),
 "C10": ("Theorems: for every well-formed level (hence every state reachable by an admissible history) rebuilding from its own snapshot or by re-adding its listing yields the same price, the same orders (as a permutation / same lookup for every id), the same aggregates and a well-formed level; carried aggregates are ignored; the listing is a duplicate-free permutation of the map sorted by timestamp. "
         "Tie: E-seq with seven constructor routes + lying data at random points of random histories; judged on the real crate. The byte-level codecs the routes pass through are C16/C17.",
         "Lean 4 proof (permutation/sum lemmas over constructors) + differential correspondence with judge", "DESIGN §6 C10"),
 "C11": ("The full property is false of the crate (known finding, Lean counterexample evaluated on the model and replayed on the crate). Proved: C11_partial — the restored level hands out its orders exactly in snapshot (timestamp) order, so it reproduces the original's order iff the original's hand-out order equals its listing. "
         "Lifted to continuations (C11_matches, by a lockstep simulation of the two match loops): whenever the original's hand-out order equals its listing and ids are unique, ANY sequence of later matches yields the same transactions, remaining quantities, filled lists and final order sets on both levels (statistics aside, which a snapshot does not carry); and (C11_continuations) the same for ANY continuation of adds, cancels, amends, price moves, replaces and matches that does not re-add an id whose stale ticket the original still queues. Tie: E-seq with a forked real level restored from the snapshot and fed the same continuation; differences classified by the driver.",
         "Lean 4 proof (partial) + counterexample by evaluation + differential correspondence on two real levels; known finding", "DESIGN §6 C11"),
 "C03": ("Theorems over the Lean small-step model for EVERY schedule, any number of threads/ops: the inductive invariant CInv (each 64-bit counter = sum over the map + every thread's credit, modulo 2^64; every order id in exactly one place), the supply potential never grows (BInv), hence at every point the stored counters are the exact un-wrapped quantities and at quiescence the aggregates equal the sums over the resting orders (C03_quiescent); and the per-order ledger (C03_ledger, C03_ledger_prefix): for every order id, at every point of every schedule, resting + held by threads + executed + handed back by cancels + discarded hidden (+ amended down) = initial + supplied by adds (+ amended up), with nothing held at quiescence — no unit executed twice, handed to two cancellers, or lost. "
         "Events of the ledger are counted where they happen in the model; on real executions the same ledger is judged from return values (C03.idOk). Tie: real threads under a deterministic scheduler, event traces compared step by step with the model. The two semantics are proved equal where both apply (C03_solo_eq_seq, C03_serial): a call run alone by the small-step machine reaches exactly the state and the result of the big-step function, so a serial schedule is a sequential history. E-concx: enumerated two-thread programs under every schedule of a two-context-switch grid.",
         "Lean 4 proof: inductive invariants over an interleaving transition system (45 program-counter kinds), induction over schedules; trace-level correspondence on real threads under a deterministic scheduler", "DESIGN §6 C03, §11.3"),
 "C08": ("Theorems for every schedule: the ticket-cover invariant (every key has a ticket, or a thread owes/holds it), ownership (handed out at most once), and at quiescence the configuration is a well-formed level — so the sequential theorems apply: a draining match exhausts displayed liquidity and leaves exact aggregates (C08_drain). Tie: E-conc traces + a draining match after the join, judged by C08.scan / C06.ok / C01.ok on the real crate. C08_drain_is_sequential: that draining match, issued in the interleaved machine by a thread running alone, is the big-step match (Conc.solo_eq_seq).",
         "Lean 4 proof: cover + ownership invariants over all schedules, composition with the sequential termination/exhaustion theorems; E-conc correspondence", "DESIGN §6 C08"),
 "C12": ("Theorem for every schedule and every prefix: the stored counters equal sum over the map + credits (natural numbers, nothing owed) and are bounded by the total ever supplied (< 2^64), so a reader's load, schedulable anywhere, never sees a wrapped value. Tie: the scheduler reads the three aggregates after every single step of every thread; judged by C12.ok.",
         "Lean 4 proof: potential-function bound + congruence invariant over all schedules; E-conc with per-step observation", "DESIGN §6 C12"),
 "C13": ("First half false of the crate (known finding C13/in-flight, Lean counterexample by evaluation of the small-step model, replayed on the crate under the scheduler). Proved for every schedule: a successful cancel is final (the id is never again in the map or in any thread's hands), a lookup while the order is in the map finds it, not-found is answered exactly when the order is not in the map at that instant. Tie: E-conc traces judged per lookup.",
         "Lean 4 proof (ownership monotonicity over all schedules) + counterexample; E-conc correspondence; known finding", "DESIGN §6 C13"),
 "C14": ("Theorems for every schedule and any number of threads/calls: a draw is one atomic step; the values drawn along any interleaving are g, g+1, … (mod 2^64) in draw order, pairwise distinct below 2^64 draws, and depend only on the starting counter and the number of draws (reproducibility). Assumed: Uuid::new_v5 injective on distinct decimal strings. Tie: E-conc trace must show exactly one fetch_add(1) per draw; ids mapped back to counters via v5(ns,k) computed by the harness. The ids themselves: an executable Lean model of SHA-1 and the UUID-v5 construction (Sha1.txId) equals the real generator bit for bit on every v5 line; C14_name_injective + C14_distinct_or_collision reduce id uniqueness to collision resistance of the stamped SHA-1 on explicit messages; C14_ids_reproducible.",
         "Lean 4 proof by induction over schedules; E-conc + E-seq correspondence", "DESIGN §6 C14"),
 "C16": ("Theorems: parse(show v) = v for EVERY value whose numeric fields fit their Rust types, for every text codec of the crate: ids (UUID and ULID forms), u64/i64 numbers, side, time-in-force, peg reference, orders (all seven kinds incl. absent replenish amount), order updates (five kinds), transactions, statistics, snapshot summaries, and the four list-carrying encodings for lists of any length — order queue, transaction list (bracket-depth splitter), level (substring search, bracket-aware order splitting, header map) and match result (the field loop with its position arithmetic and the bracket scanner). "
         "Tie: E-codec — the crate's Display output compared byte for byte with the model's, the crate's parse compared with the model's parse and with the value (incl. levels whose orders carry other prices, empty and multi-element lists).",
         "Lean 4 proof (round-trip theorems over List Char codecs, 92 theorems) + byte-for-byte differential correspondence", "DESIGN §6 C16, §11.3"),
 "C18": ("Theorems: every text parser of the model is a total function (structural or fuel-bounded recursion accepted by Lean's kernel) returning a value or an error for EVERY List Char; every index the repaired MatchResult parser slices at is in range (C18_scan_in_range). The Rust-specific half — no panic at a non-character boundary, no arithmetic overflow in debug builds, no hang — is not expressible in the model and is tied by the run: "
         "every from_str of the crate runs under catch_unwind with a watchdog on mutated encodings (incl. multi-byte characters) and the outcome class is compared with the model's. Defect D found by this check and repaired (fix: 8ee3412).",
         "Lean 4 totality (kernel-accepted definitions + range lemma) + differential correspondence on mutated encodings with panic/hang detection", "DESIGN §6 C18"),
 "C17": ("Theorems for EVERY value whose numeric fields fit their Rust types: (tree level) dec(enc v) = v on the serde data model rendered as JSON trees — side, time-in-force (incl. externally tagged GTD), peg, ids, orders (seven kinds), order lists of any length, updates, transactions, transaction lists, match results, statistics (hand-written visitor), snapshots (strict visitor), level data, packages; (text level) reading back the compact text printed for any clean tree gives the tree (parseJson_render, by mutual structural induction, fuel bound proved), every encoder produces clean trees, hence dec(parse(print(enc v))) = v with exact integers (no float in between); a package validates after the trip exactly as before it. "
         "Modelled: that render/parseJson are what serde_json prints/reads — compared byte for byte and tree for tree on every run (E-json).",
         "Lean 4 proof (decoder/encoder round-trip over JSON trees + reader-inverts-printer over JSON text) + byte-for-byte differential correspondence", "DESIGN §6 C17, §11.3"),
 "C09": ("Theorems for EVERY package and every hash function: a restore succeeds iff the version equals the supported one (regenerated from the source) and the stored checksum equals the hash of the serialized content, through both constructor routes, and then yields exactly the packaged content (C09_decision, C09_json_route, C09_text_route, C09_exact via C10); the serializer the checksum covers is injective on well-typed snapshots — price, aggregates, every field of every order, their number and sequence reach the bytes (C09_ser_injective) — so an accepted package with different content under an unchanged checksum exhibits a hash collision (C09_tamper, C09_tamper_content); every proper prefix of the serialized text (a torn write at any offset) is rejected (C09_truncated: a proper prefix of a printed object is never a JSON document, by mutual induction with the cut falling anywhere). "
         "Modelled: that render/parseJson are serde_json's printer/reader — compared on every run (every truncation point, every deletion, sampled/exhaustive substitutions and insertions, structural mutations of every node and all pairs at the top levels). Tie: E-snap/E-snapx/E-json; the crate's SHA-256 checksums equal the model's own SHA-256.",
         "Lean 4 proof (decision theorem, serializer injectivity, collision reduction, truncation theorem) + exhaustive/sampled fault-injection correspondence with Lean judge", "DESIGN §6 C09, §11.3"),
}
PENDING = {
}
ALL = ["C%02d" % i for i in range(1, 20)]

def chk(pid):
    text, tech, ref = CLAIMS[pid]
    return {"property_id": pid, "quick_cmd": "bin/check %s --tier quick" % pid,
            "thorough_cmd": "bin/check %s --tier thorough" % pid,
            "evidence_file": "/verif/evidence/%s.json" % pid,
            "replay_cmd_template": "bin/check %s --replay {path}" % pid,
            "engine": "lean4-proof+correspondence",
            "level_claimed": {"category": "proof", "text": text, "design_ref": ref},
            "level_note": NOTE, "technique": tech}

extra = json.load(open(os.path.join(ROOT, "tools", "manifest_extra.json")))
claimed = sorted(CLAIMS)
m = {"version": 1, "setup_cmd": "bin/setup",
     "hooks": extra["hooks"],
     "engines": [
        {"name": "lean-model", "path": "lean/", "serves_properties": claimed, "kind_free_text": "Lean 4 model, theorems (PLV/Props), judges, compiled line-protocol driver"},
        {"name": "harness", "path": "harness/", "serves_properties": claimed, "kind_free_text": "Rust correspondence harness calling the real crate in-process (engines pure, seq, seq0, …)"}],
     "checks": [chk(p) for p in claimed],
     "notes": extra["notes"],
     "not_applicable": [{"property_id": p, "reason": extra["pending_reason"].get(p, "not yet claimed: check under construction (DESIGN.md §9 order of work); to be claimed at level proof")}
                        for p in ALL if p not in CLAIMS]}
json.dump(m, open(os.path.join(ROOT, "MANIFEST.json"), "w"), indent=1)
print("MANIFEST: claimed", claimed)

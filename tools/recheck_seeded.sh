#!/bin/sh
# tools/recheck_seeded.sh : runs every seeded change against its property's quick check (apply, run, undo);
# one line per change in seeded/RESULTS.txt. /repo must be clean and nothing else may use it meanwhile.
cd /verif
: > seeded/RESULTS.txt
for d in seeded/C*-*/; do
  n=$(basename $d); p=${n%-*}
  cp $d/patch.diff /tmp/recheck.patch
  r=$(tools/try_mutant.sh /tmp/recheck.patch $p 2>&1 | cut -c1-260)
  echo "$n $r" >> seeded/RESULTS.txt
done
n=harmless-1
cp seeded/$n/patch.diff /tmp/recheck.patch
tools/try_all.sh /tmp/recheck.patch 2>&1 | sed "s/^/$n /" >> seeded/RESULTS.txt
rm -f /tmp/recheck.patch

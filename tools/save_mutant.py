#!/usr/bin/env python3
"""tools/save_mutant.py <ID> <n> [history] : files a confirmed seeded change from /tmp/mut/<ID>/out as seeded/<ID>-<n>/
(using /tmp/mut/<ID>.verify and /tmp/mut/<ID>.try written by verify_mutant.sh / try_mutant.sh)."""
import json, os, shutil, sys, glob
pid, n = sys.argv[1], sys.argv[2]
hist = sys.argv[3] if len(sys.argv) > 3 else "caught by the check as it was"
src = "/tmp/mut/%s/out" % pid
dst = os.path.join(os.path.dirname(os.path.dirname(os.path.abspath(__file__))), "seeded", "%s-%s" % (pid, n))
os.makedirs(dst, exist_ok=True)
shutil.copy(os.path.join(src, "patch.diff"), dst)
for f in glob.glob(os.path.join(src, "demo_*.rs")):
    shutil.copy(f, dst)
m = json.load(open(os.path.join(src, "meta.json")))
ver = open("/tmp/mut/%s.verify" % pid).read().strip()
tr = open("/tmp/mut/%s.try" % pid).read().strip()
out = {"property": pid, "breaks": m.get("summary") or m.get("breaks"), "needs": m.get("needs"), "files": m.get("files"),
       "author": "fresh sub-agent given only the property text and its own worktree",
       "confirmed_by_me": {"how": "tools/verify_mutant.sh in the scratch worktree: existing suite with the change, demo with the change, demo without", "result": ver},
       "caught_by": {"check": "bin/check %s --tier quick" % pid, "how": "apply patch to /repo, run, revert (tools/try_mutant.sh)",
                     "result": tr, "history": hist}}
json.dump(out, open(os.path.join(dst, "meta.json"), "w"), indent=1)
print("saved", dst)

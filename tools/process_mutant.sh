#!/bin/sh
# tools/process_mutant.sh <ID> <n> [prop-to-check...] : verify a sub-agent's change in its worktree, run the check(s), file it, drop the worktree
id="$1"; n="$2"; shift 2
props="${*:-$id}"
tools/verify_mutant.sh /tmp/mut/$id $id > /tmp/mut/$id.verify 2>&1
tools/try_mutant.sh /tmp/mut/$id/out/patch.diff $props > /tmp/mut/$id.try 2>&1
python3 tools/save_mutant.py $id $n
grep -o "SUITE.*" /tmp/mut/$id.verify | sed 's/test result: ok. 0 passed; 0 failed; 0 ignored; 0 measured; 0 filtered out; finished in 0.00s //g' | cut -c1-400
cat /tmp/mut/$id.try

"""Per-property configuration of bin/check: engines, footprint (which observables are compared
with the model), the rule that makes a case non-trivial, assumptions (DESIGN §2.2, §6)."""

ENGINES = {
    "pure": {"shards_thorough": 8},
    "seq": {"shards_thorough": 14},
    "seq0": {"shards_thorough": 14},
}

PROPS = {
    "C05": {
        "engines": ["pure"],
        "footprint": {"ma": "*", "wr": "*"},
        "nontrivial": r"^ma c=[1-9]\d* u=[A-Z]",   # a fill that leaves the order in the book
        "rule": "E-pure: exhaustive grid (7 kinds x displayed/hidden 0..4(6) x threshold x amount x auto x incoming 0..7(9)) "
                "+ 64-bit boundary values + random orders; a case is non-trivial when the real match_against consumed "
                "a positive quantity and returned an updated order (partial fill or replenishment); distinct = distinct (order, incoming) text",
        "assumptions": ["displayed + hidden <= u64::MAX (the property's quantifier)"],
    },
    "C06": {
        "engines": ["seq0"],
        "footprint": {"match": "*", "state": ["vis", "list"]},
        "hang_is_violation": True,
        "nontrivial": r"^match txs=\[[^\]]+\] rem=[1-9]",   # a match that executed something and still had quantity left
        "rule": "E-seq with zero quantities allowed: random histories (1-40 ops, thorough 1-120) of add/match/cancel/amend/price-move/replace over all "
                "seven order kinds on a pool of 3-7 ids, then three draining matches; a case is non-trivial when some match executed "
                "at least one transaction and returned with quantity remaining; distinct = distinct op list",
        "assumptions": ["ids unique among resting orders; sums below 2^63 (the property's quantifier)"],
    },
}

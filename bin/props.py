"""Per-property configuration of bin/check: engines, footprint (which observables are compared
with the model), the rule that makes a case non-trivial, assumptions (DESIGN §2.2, §6)."""

ENGINES = {
    "json": {"shards_thorough": 14},
    "snap": {"shards_thorough": 14},
    "snapx": {"shards_thorough": 1},
    "codec": {"shards_thorough": 14},
    "conc": {"shards_thorough": 14},
    "concx": {"shards_thorough": 14},
    "seqr": {"shards_thorough": 14},
    "queue": {"shards_thorough": 8},
    "pure": {"shards_thorough": 8},
    "seq": {"shards_thorough": 14},
    "seq0": {"shards_thorough": 14},
    "seqp": {"shards_thorough": 14},
    "seqx": {"shards_thorough": 14},
    "seqrb": {"shards_thorough": 14},
    "deep": {"shards_thorough": 2},
}

PROPS = {
    "C05": {
        "engines": ["pure"],
        "footprint": {"ma": "*", "wr": "*"},
        "nontrivial": r"^ma c=[1-9]\d* u=[A-Z]",   # a fill that leaves the order in the book
        "rule": "E-pure: exhaustive grid (7 kinds x displayed/hidden 0..4(6) x threshold x amount x auto x incoming 0..7(9)) "
                "+ 64-bit boundary values + random orders; a case is non-trivial when the real match_against consumed "
                "a positive quantity and returned an updated order (partial fill or replenishment); distinct = distinct (order, incoming) text",
        "assumptions": ["displayed + hidden <= u64::MAX (the property's quantifier)"],
    },
    "C06": {
        "engines": ["seq0", "deep", "seqx"],
        "footprint": {"match": "*", "state": ["vis", "list"]},
        "hang_is_violation": True,
        "nontrivial": r"^match txs=\[[^\]]+\] rem=[1-9]",   # a match that executed something and still had quantity left
        "rule": "E-seq with zero quantities allowed: random histories (1-40 ops, thorough 1-120) of add/match/cancel/amend/price-move/replace over all "
                "seven order kinds on a pool of 3-7 ids, then three draining matches; a case is non-trivial when some match executed "
                "at least one transaction and returned with quantity remaining; distinct = distinct op list. E-deep: one sweep per run (thorough: two) of an "
                "iceberg / auto-replenishing reserve order displaying 1-2 units over 66 000-90 000 tranches with a plain order behind it: a "
                "single call that re-queues the same maker tens of thousands of times",
        "assumptions": ["ids unique among resting orders; sums below 2^63 (the property's quantifier)"],
    },
    "C01": {
        "engines": ["seq", "seq0", "seqr", "seqx"],
        "footprint": {"state": ["vis", "hid", "cnt", "list"]},
        "nontrivial": r"^match txs=\[[^\]]+\]",
        "rule": "E-seq (positive quantities) and E-seq0 (zero quantities allowed): random histories (1-40 ops, thorough 1-120) of "
                "add/match/cancel/price-move/amend/replace/read over all seven order kinds, ids from a pool of 3-7, then three draining "
                "matches; aggregates and listing observed after every op; non-trivial = the history contains a match that executed; distinct = distinct op list",
        "assumptions": ["ids unique among resting orders; price*quantity sums below 2^63 (the property's quantifier)"],
    },
    "C02": {
        "engines": ["seq", "seq0", "seqp", "pure", "seqx"],
        "footprint": {"match": "*", "atx": "*"},
        "nontrivial": r"^match txs=\[[^\]]*,[^\]]*\]|^atx \d+:\d+ \d",
        "rule": "E-seq/E-seq0 histories as for C01, every match result compared field by field and judged by C02.ok on the real "
                "MatchResult (accounting, transaction fields, id freshness, filled list, per-maker ledger); E-pure add_transaction sequences; "
                "non-trivial = a match with at least two transactions, or an add_transaction sequence of length >= 2",
        "assumptions": ["as C01; transaction ids are mapped back to counter values through v5(namespace, k) computed by the harness"],
    },
    "C07": {
        "engines": ["seq", "seq0", "seqp", "seqx"],
        "purity_probe": True,
        "footprint": {"upd": "*", "state": ["vis", "hid", "cnt", "list"], "add": "*", "match": "*", "read": "*"},
        "nontrivial": r"^upd ok=[A-Z]",
        "rule": "E-seq/E-seq0 histories with all five update kinds x present/absent ids x equal/different price and read-only calls "
                "(snapshot, package, JSON, Display, serde, statistics, listing, aggregates) inserted at random points; every update judged "
                "by C07.ok against the listing before and after; non-trivial = the history contains an update that found its order",
        "assumptions": ["as C01"],
    },
    "C15": {
        "engines": ["seq", "seqrb", "conc", "seqx", "concx"],   # (E-seq0 - zero quantities throughout - left out: C15 quantifies over positive quantities)
        "footprint": {"state": ["stats"]},
        "nontrivial": r"^match txs=\[[^\]]+\]",
        "rule": "E-seq histories (positive quantities) and E-seqrb (with rebuilds); the four counters compared after every op and judged by C15.ok against the events the harness "
                "counted from the calls' return values; non-trivial = the history contains a match that executed",
        "assumptions": ["every order carries the level's price (what an order book guarantees); sequential half only so far"],
    },
    "C19": {
        "engines": ["queue"],
        "footprint": {"q.push": "*", "q.pop": "*", "q.find": "*", "q.remove": "*", "q.len": "*", "q.isempty": "*",
                      "q.tovec": "*", "q.fromvec": "*", "q.rt": "*", "qnew": "*"},
        "nontrivial": r"^q\.(pop|remove) [A-Z]",
        "rule": "E-seq on the exported OrderQueue: random sequences (1-30 ops, thorough 1-60) of push/pop/find/remove/len/is_empty/to_vec and rebuilds (q.rt: a second queue built from "
                "the current one via from_vec / From<Vec> / Display->FromStr / serde JSON by from_str, from_value, from_reader and from an all-escaped text, "
                "then listed, counted and drained) on a "
                "pool of 2-7 ids, ids pushed once or (one third of the cases) re-pushed after removal, a quarter of the queues built by from_vec, "
                "then a drain; every answer compared with the model and judged against the abstract FIFO run by the driver; non-trivial = a pop "
                "or remove that returned an order; distinct = distinct op list",
        "assumptions": ["no push of an id that is currently queued (the property's quantifier: pushed once or re-pushed after removal)"],
    },
    "C04": {
        "engines": ["seq", "seq0", "seqx"],
        "footprint": {"match": ["txs"]},
        "nontrivial": r"^match txs=\[[^\]]*,[^\]]*\]",
        "rule": "E-seq/E-seq0 histories (adds, matches of any size, cancels, re-adds of cancelled ids, same-price amends, all order kinds) "
                "followed by three draining matches; the maker sequence of every match is compared with the model's and judged: equal to the "
                "model's, and the model's hand-out order after the op compared with the order the property's rules give from the order before it "
                "(deviations classified F1 / F2 are the known findings); non-trivial = a match with at least two transactions",
        "assumptions": ["as C01"],
    },
    "C10": {
        "engines": ["seqr"],
        "footprint": {"rebuild": "*", "state": ["vis", "hid", "cnt", "list"], "read": "*"},
        "nontrivial": r"^rebuild ok",
        "rule": "E-seq with constructor ops: at random points of random histories (zero quantities allowed) the level is rebuilt from its own "
                "snapshot / From<&Snapshot> / package / package JSON / PriceLevelData / serde JSON / Display->FromStr, and from lying external "
                "data (snapshot and PriceLevelData whose aggregate fields disagree with their orders); content and aggregates before/after judged "
                "equal, the raw listing judged sorted by timestamp and duplicate-free; non-trivial = the history contains a successful rebuild",
        "assumptions": ["as C01; the listing order the real level produced among equal timestamps (DashMap hash order) is passed to the model, which checks it is an admissible listing"],
    },
    "C11": {
        "engines": ["seqr"],
        "footprint": {"fork": "*", "match": ["txs"]},
        "nontrivial": r"^fork ok",
        "rule": "E-seq with a fork: at a random point a second real level is restored from the first one's snapshot (direct or via package JSON) "
                "and both are fed the same continuation; the maker sequences of every later match on both levels are compared with each other and "
                "with the model's two levels; non-trivial = the history contains a fork",
        "assumptions": ["as C01"],
    },
    "C03": {
        "engines": ["conc", "concx"],
        "search_engines": ["concx"],
        "footprint": {"conc.run": ["trace", "rets", "done"], "state": ["vis", "hid", "cnt", "list"]},
        "nontrivial": r"^conc\.run .*trace=[^ ]*t0:[^ ]*t1:[^ ]*t0:",
        "rule": "E-conc: a level pre-loaded with 1-4 Standard/PostOnly/Iceberg/Reserve orders, 2-4 real threads each issuing 1-3 add/match/cancel/quantity-amend/read/next operations, run under a deterministic scheduler that admits one shared-memory operation (atomic, map or queue op) at a time following a random schedule (single steps or bursts); 150 programs x 12 schedules (thorough: 3000 x 40 per shard); the logged event trace, every return value and the aggregates read by the controller after every step are compared with the Lean small-step model run under the same schedule; non-trivial = an execution in which thread 0 and thread 1 actually interleave; judged by C03.ok: aggregates equal the sums over the resting orders at quiescence and per-order conservation (supplied = executed + returned + resting + discarded hidden of an exhausted non-replenishing reserve) for every id no thread amends",
        "assumptions": ["sequentially consistent memory; DashMap and SegQueue operations atomic (linearizable); weak-memory reorderings and library internals are not exhibited"],
    },
    "C08": {
        "engines": ["conc", "concx"],
        "search_engines": ["concx"],
        "footprint": {"conc.run": ["trace", "done"], "match": "*", "state": ["vis", "hid", "cnt", "list"]},
        "nontrivial": r"^conc\.run .*trace=[^ ]*t0:[^ ]*t1:[^ ]*t0:",
        "rule": "E-conc: a level pre-loaded with 1-4 Standard/PostOnly/Iceberg/Reserve orders, 2-4 real threads each issuing 1-3 add/match/cancel/quantity-amend/read/next operations, run under a deterministic scheduler that admits one shared-memory operation (atomic, map or queue op) at a time following a random schedule (single steps or bursts); 150 programs x 12 schedules (thorough: 3000 x 40 per shard); the logged event trace, every return value and the aggregates read by the controller after every step are compared with the Lean small-step model run under the same schedule; followed by a draining match issued after all threads have returned; judged: per key, inserts and successful removes alternate and never replace (C08.scan over the real trace), the drain leaves nothing displayed and the aggregates describe exactly what remains (C06.ok, C01.ok)",
        "assumptions": ["as C03"],
    },
    "C12": {
        "engines": ["conc", "concx"],
        "search_engines": ["concx"],
        "footprint": {"conc.run": ["obs", "trace"]},
        "nontrivial": r"^conc\.run .*trace=[^ ]*t0:[^ ]*t1:[^ ]*t0:",
        "rule": "E-conc: a level pre-loaded with 1-4 Standard/PostOnly/Iceberg/Reserve orders, 2-4 real threads each issuing 1-3 add/match/cancel/quantity-amend/read/next operations, run under a deterministic scheduler that admits one shared-memory operation (atomic, map or queue op) at a time following a random schedule (single steps or bursts); 150 programs x 12 schedules (thorough: 3000 x 40 per shard); the logged event trace, every return value and the aggregates read by the controller after every step are compared with the Lean small-step model run under the same schedule; the three aggregates read after every single step judged by C12.ok to lie within [0, total ever supplied] (a wrapped value is close to 2^64)",
        "assumptions": ["as C03"],
    },
    "C13": {
        "engines": ["conc", "concx"],
        "search_engines": ["concx"],
        "footprint": {"conc.run": ["trace", "rets"]},
        "nontrivial": r"^conc\.run .*(cancel|map\.get)",
        "rule": "E-conc: a level pre-loaded with 1-4 Standard/PostOnly/Iceberg/Reserve orders, 2-4 real threads each issuing 1-3 add/match/cancel/quantity-amend/read/next operations, run under a deterministic scheduler that admits one shared-memory operation (atomic, map or queue op) at a time following a random schedule (single steps or bursts); 150 programs x 12 schedules (thorough: 3000 x 40 per shard); the logged event trace, every return value and the aggregates read by the controller after every step are compared with the Lean small-step model run under the same schedule; every not-found answer of a cancel / amend judged against the trace: justified unless another thread holds the order in flight and re-inserts it (known finding C13/in-flight); every successful cancel judged final (nobody takes or re-inserts the order afterwards)",
        "assumptions": ["as C03"],
    },
    "C14": {
        "engines": ["conc", "seq"],
        "footprint": {"conc.run": ["trace", "rets"], "match": ["txs"], "v5": "*"},
        "nontrivial": r"uuid\.fetch_add[^ ]*uuid\.fetch_add",
        "rule": "E-conc: a level pre-loaded with 1-4 Standard/PostOnly/Iceberg/Reserve orders, 2-4 real threads each issuing 1-3 add/match/cancel/quantity-amend/read/next operations, run under a deterministic scheduler that admits one shared-memory operation (atomic, map or queue op) at a time following a random schedule (single steps or bursts); 150 programs x 12 schedules (thorough: 3000 x 40 per shard); the logged event trace, every return value and the aggregates read by the controller after every step are compared with the Lean small-step model run under the same schedule; every id-generator step must be exactly one fetch_add(1) on the counter, and the values handed out across all threads judged by C14.ok to be pairwise distinct and to form the range starting at the counter's previous value; transaction ids are mapped back to counters through v5(namespace, k) computed independently by the harness (reproducibility); E-seq: the ids a real generator (built or restored at boundary counters, over the standard / nil / all-ones / random namespaces) returns are compared bit for bit with the Lean model's SHA-1 + version-5 construction (`v5` lines)",
        "assumptions": ["as C03; collision resistance of SHA-1 truncated to 122 bits on the messages namespace ++ decimal(counter) (C14_distinct_or_collision makes the reduction explicit)"],
    },
    "C16": {
        "engines": ["codec", "seqr"],
        "footprint": {"txt": "*", "parsed": "*", "read": "*"},
        "nontrivial": r"^parsed ok ",
        "rule": "E-codec valid stream: for each of the 13 text codec types (order, update, id, side, tif, peg, transaction, transaction list, "
                "match result, statistics, snapshot summary, queue, level) 300 (thorough 3000 per shard) type-directed values with boundary "
                "numbers (0, 1, 2^53+1, u64::MAX, i64::MIN/MAX, GTD at the limits, absent replenish amount, nil/max/random UUID and ULID, "
                "empty and multi-element lists); the printed text compared byte for byte with the model's, the parse of that text compared with "
                "the model's parse and judged equal to the value (C16); non-trivial = a parse that succeeded; distinct = distinct value text",
        "assumptions": ["listings (queue, level) are compared as sets ordered by (timestamp, id); generated queues/levels use distinct timestamps"],
    },
    "C17": {
        "engines": ["json", "seqr"],
        "footprint": {"json": "*", "jparsed": "*", "read": "*"},
        "nontrivial": r"^jparsed ok ",
        "rule": "E-json: for each of the 12 serde types (order, update, id, side, tif, peg, transaction, match result, statistics, snapshot, "
                "level data, snapshot package) 300 (thorough 3000 per shard) type-directed values with the boundary numbers of C16 (2^53+1, u64::MAX, "
                "i64::MIN/MAX, GTD at the limits, absent replenish amount, nil/max/random UUID and ULID, empty and multi-element lists, wrong-version / "
                "wrong-checksum packages); serde_json::to_string compared byte for byte with the model's rendering of the model's tree, "
                "serde_json::from_str of that text compared with the model's decoder and judged equal to the value (C17); packages re-validated after the trip; "
                "non-trivial = a decode that succeeded; distinct = distinct JSON text",
        "assumptions": ["serde_json's text layer is modelled (render / parseJson) and compared on every case, not proved"],
    },
    "C09": {
        "engines": ["snap", "json"],
        "thorough_engines": ["snap", "snapx", "json"],
        "footprint": {"pkg": "*", "restored": "*", "json": "*", "jparsed": "*"},
        "nontrivial": r"^restored ",
        "eval_line": r"^restored |^raw$|^jparsed ",
        "rule": "E-snap: 3 (thorough 4 per shard, 14 shards) levels of 0-3 orders over all seven kinds, both id formats, twin ids and boundary values; for the serialized package of each: "
                "EVERY truncation point, every single-byte deletion, 1500 (thorough 5000) substitutions and as many insertions at random offsets (structural "
                "characters, digits, hex letters, random bytes), the structural edits swap / drop / duplicate an order, edit a number / the price / an aggregate, "
                "unknown field, replaced key, version 0..4, one checksum character, pairs of substitutions, and the systematic structural mutations: every node of the "
                "document x {delete, null, 9 boundary numbers, other strings, empty container} and ALL pairs of them among the package's and the snapshot's own fields; "
                "thorough adds E-snapx: all 128 byte values at every offset of one package. The crate's checksum is compared with the model's SHA-256; each restore "
                "outcome is compared with the model's and judged by the decision theorem's predicate (accepted => supported version, checksum = SHA-256 of the content, "
                "restored content = packaged content = snapshotted content); one evaluation = one damaged text handed to the restore (distinct = distinct damaged text); "
                "E-json adds the package / snapshot values of C17 (wrong version, wrong checksum, unsorted order vectors, overflowing sums)",
        "assumptions": ["SHA-256 collision resistance (the property's own assumption); that render/parseJson are serde_json's printer/reader is compared on every case, not proved"],
    },
    "C18": {
        "engines": ["codec", "json", "snap"],
        "thorough_engines": ["codec", "json", "snap", "snapx"],
        "footprint": {"parsed": "*", "jparsed": "*", "restored": "*"},
        "hang_is_violation": True,   # "never panics, loops or aborts": a parse that does not return is a failing input
        "nontrivial": r"^parsed err |^restored err|^jparsed err",
        "rule": "E-codec malformed stream: 1500 (thorough 20000 per shard) strings per type obtained from a valid encoding by character-level "
                "deletion, insertion, substitution (structural characters, digits, letters, multi-byte characters), duplication or removal of a "
                "field, truncation, and repeated edits; every from_str runs under catch_unwind with a per-op watchdog; the outcome class "
                "(ok value / error variant) is compared with the model's and a panic or hang is a violation; non-trivial = a string the parser rejected. "
                "JSON entry points: E-json (every serde type's from_str on generated documents) and E-snap (from_snapshot_json on every truncation, deletion, "
                "substitution, insertion and on the systematic structural mutations — every node x {delete, null, boundary numbers incl. 2^60, 2^63, 2^64-1, -1, 1e30, "
                "other strings, empty container} and all pairs of them among the package's and snapshot's own fields), each under catch_unwind",
        "assumptions": ["serde_json's own totality is assumed; allocation failure (abort) is only reachable through a capacity request, which shows as a panic for the sizes generated"],
    },
}

# engines added in the third session: described once, appended to the rule text of every property that uses them
_SEQX = (" E-seqx (systematic, no random choice inside a history): add o1 ; [add o2] ; k operations ; one draining match, with o1 over 15 "
         "representative orders (all seven kinds; zero display; hidden smaller / larger than the display; reserve with replenish amount 0, "
         "the default and a threshold above the display), o2 over {none, Standard, Iceberg, Reserve} and an alphabet of 22 operations; "
         "quick: all 1320 histories with k=1 and a seeded sample of 1500 with k=2; thorough: all with k=2 (29040) and k=3 (638880) over 14 shards."
         " Churn scenario (one random case in thirty): 18-70 makers, then 15-257 cancels / amends / price moves / small matches."
         " Sparse observation (one random case in five): the harness reads nothing of its own between the calls, incl. pairs of amendments "
         "that cancel out in every aggregate.")
_CONCX = (" E-concx (systematic): 1120 enumerated two-thread programs (7 target shapes x with/without a second order x 8 calls x 10 calls; all five update kinds and snapshot() occur), each "
          "under every schedule 'thread 0 runs k steps, thread 1 runs m steps, thread 0 finishes, thread 1 finishes' of a grid; quick: a seeded "
          "stratified sample of 160 programs (every pair of calls, two target blocks each) x 6 x 5 schedules, thorough: all programs x 9 x 18. In half of all scheduled executions worker 0 is the thread "
          "that built the level and the id generator.")
for _p, _spec in PROPS.items():
    if "seqx" in _spec["engines"]:
        _spec["rule"] += _SEQX
    if "concx" in _spec["engines"]:
        _spec["rule"] += _CONCX

//! Executes protocol ops against the real crate, in-process, and produces for every op the line
//! handed to the model driver and the implementation's canonical output line.
use crate::proto::*;
use pricelevel::{MatchResult, OrderId, OrderQueue, PriceLevel, Side, Transaction, UuidGenerator};
use std::sync::Arc;
use std::collections::HashMap;
use std::panic::{AssertUnwindSafe, catch_unwind};
use uuid::Uuid;

pub const NS: u128 = 0x6ba7b810_9dad_11d1_80b4_00c04fd430c8;

pub struct TxIds {
    pub ns: Uuid,
    known: HashMap<Uuid, u64>,
    upto: u64,
    filled: u64,
}

impl TxIds {
    pub fn new() -> Self {
        TxIds { ns: Uuid::from_u128(NS), known: HashMap::new(), upto: 0, filled: 0 }
    }
    /// the generator was (re)started at counter `c`: ids are looked up from there on (wrapping)
    pub fn rebase(&mut self, c: u64) {
        self.known.clear();
        self.upto = c;
        self.filled = 0;
    }
    /// maps a transaction id back to the counter value it was derived from (v5(ns, k) computed
    /// independently here)
    pub fn counter_of(&mut self, id: &Uuid) -> String {
        for _ in 0..4 {
            if let Some(k) = self.known.get(id) {
                return k.to_string();
            }
            for _ in 0..4096 {
                let u = Uuid::new_v5(&self.ns, self.upto.to_string().as_bytes());
                self.known.entry(u).or_insert(self.upto);
                self.upto = self.upto.wrapping_add(1);
                self.filled += 1;
            }
        }
        "?".to_string()
    }
}

pub struct Exec {
    /// handles a caller keeps: the Arcs returned by add / update / listings stay alive during the case
    pub held: Vec<Arc<Order>>,
    pub lvl: Arc<PriceLevel>,
    pub generator: Arc<UuidGenerator>,
    /// E-conc: the threads' programs of the case being assembled
    pub cprog: Vec<Vec<crate::conc::COp>>,
    pub last_prog: Vec<Vec<crate::conc::COp>>,
    pub txids: TxIds,
    pub out: Vec<(String, String)>,
    pub hung: bool,
    pub after_conc: bool,
    pub pkg_text: String,
    pub pkg_content: String,
    pub queue: OrderQueue,
    /// C11: a level restored from a snapshot of `lvl`, fed the same continuation
    pub fork: Option<(PriceLevel, UuidGenerator)>,
    // what the observer has counted so far on this level (for the judges)
    pub price: u64,
    pub issued: u64,
    pub n_adds: u64,
    pub n_removed: u64,
    pub sum_exec: u128,
    /// sparse observation: while set, add / match / update report their return values only - the harness reads
    /// no listing, no snapshot and no statistics of its own between the calls (so that a read the HISTORY contains
    /// is the only read that happens), and no judge that needs such a read is asked
    pub quiet: bool,
}

pub fn listing(l: &PriceLevel) -> String {
    let mut list: Vec<Order> = l.iter_orders().iter().map(|a| **a).collect();
    canon_sort(&mut list);
    show_list(&list, show_order)
}

/// price, aggregates and canonical listing in one token (what a round-trip must preserve)
pub fn show_state_content(l: &PriceLevel) -> String {
    format!("{}/{}/{}/{}/{}", l.price(), l.visible_quantity(), l.hidden_quantity(), l.order_count(), listing(l))
}

pub fn show_stats(l: &PriceLevel) -> String {
    let st = l.stats();
    format!(
        "{},{},{},{},{}",
        st.orders_added(),
        st.orders_removed(),
        st.orders_executed(),
        st.quantity_executed(),
        st.value_executed()
    )
}

pub fn show_tx(t: &Transaction, txids: &mut TxIds) -> String {
    format!(
        "{}:{}:{}:{}:{}:{}",
        txids.counter_of(&t.transaction_id),
        show_id(&t.taker_order_id),
        show_id(&t.maker_order_id),
        t.price,
        t.quantity,
        show_side(t.taker_side)
    )
}

pub fn show_match(r: &MatchResult, txids: &mut TxIds) -> String {
    let txs: Vec<String> = r.transactions.as_vec().iter().map(|t| show_tx(t, txids)).collect();
    format!(
        "txs=[{}] rem={} complete={} filled={}",
        txs.join(","),
        r.remaining_quantity,
        if r.is_complete { 1 } else { 0 },
        show_list(&r.filled_order_ids, show_id)
    )
}

pub fn show_state(l: &PriceLevel) -> String {
    format!(
        "vis={} hid={} cnt={} list={} stats={}",
        l.visible_quantity(),
        l.hidden_quantity(),
        l.order_count(),
        listing(l),
        show_stats(l)
    )
}

impl Exec {
    /// hands a (damaged) package text to the restore entry points and emits outcome + judge lines. The three roads a
    /// caller can take from a package text to a level - `PriceLevel::from_snapshot_json`; `PriceLevelSnapshotPackage::
    /// from_json` + `into_snapshot` + `PriceLevel::from(&snapshot)`; `from_json` + `PriceLevel::from_snapshot_package` -
    /// must all decide alike; each outcome that differs from the first is compared with the model and judged as well.
    fn restore_bytes(&mut self, f: &[u8], honest: bool) {
        let show = |r: Result<Result<PriceLevel, pricelevel::PriceLevelError>, Box<dyn std::any::Any + Send>>| match r {
            Ok(Ok(l)) => format!("restored ok {}", show_state_content(&l)),
            Ok(Err(_)) => "restored err".to_string(),
            Err(_) => "PANIC".to_string(),
        };
        let outcomes: Vec<String> = match std::str::from_utf8(f) {
            Err(_) => vec!["restored err".to_string()],
            Ok(t) => {
                let mut v = vec![show(catch_unwind(AssertUnwindSafe(|| PriceLevel::from_snapshot_json(t))))];
                let o2 = show(catch_unwind(AssertUnwindSafe(|| {
                    pricelevel::PriceLevelSnapshotPackage::from_json(t).and_then(|p| p.into_snapshot()).map(|s| PriceLevel::from(&s))
                })));
                let o3 = show(catch_unwind(AssertUnwindSafe(|| {
                    pricelevel::PriceLevelSnapshotPackage::from_json(t).and_then(PriceLevel::from_snapshot_package)
                })));
                for o in [o2, o3] {
                    if !v.contains(&o) {
                        v.push(o);
                    }
                }
                v
            }
        };
        for outcome in outcomes {
            // the model is asked only when the damaged text is still a JSON document
            let mut asked = false;
            if let Ok(t) = std::str::from_utf8(f) {
                if serde_json::from_str::<serde_json::Value>(t).is_ok() {
                    self.emit(format!("pkg.restore {}", crate::codec::hex(t)), outcome.clone());
                    asked = true;
                }
            }
            if !asked {
                self.emit(format!("pkg.raw h{}", crate::codec::hex_bytes(f)), "raw");
            }
            let fhex = match std::str::from_utf8(f) { Ok(t) => crate::codec::hex(t), Err(_) => "-".to_string() };
            // an honest package of OTHER content (`pkg.honest`) is not a damaged copy of the one made: C09's judge is not asked
            if !honest {
                self.emit(format!("judge.C09 {} {} {}", self.pkg_content, fhex, outcome), "J C09 ok");
            }
            self.emit(format!("judge.C18 {}", outcome), "J C18 ok");
        }
    }
    pub fn new() -> Self {
        Exec {
            held: Vec::new(),
            lvl: Arc::new(PriceLevel::new(0)),
            generator: Arc::new(UuidGenerator::new(Uuid::from_u128(NS))),
            cprog: Vec::new(),
            last_prog: Vec::new(),
            txids: TxIds::new(),
            out: Vec::new(),
            hung: false,
            after_conc: false,
            pkg_text: String::new(),
            pkg_content: String::new(),
            queue: OrderQueue::new(),
            fork: None,
            price: 0,
            issued: 0,
            quiet: false,
            n_adds: 0,
            n_removed: 0,
            sum_exec: 0,
        }
    }

    fn emit(&mut self, model_in: impl Into<String>, impl_out: impl Into<String>) {
        let model_in: String = model_in.into();
        if self.quiet && model_in.starts_with("judge.") && !model_in.starts_with("judge.C14s") {
            return;
        }
        self.out.push((model_in, impl_out.into()));
    }

    fn listing_now(&self) -> String {
        if self.quiet { "[]".to_string() } else { listing(&self.lvl) }
    }

    fn judge_stats(&mut self) {
        if self.quiet {
            return;
        }
        let st = show_stats(&self.lvl);
        self.emit(
            format!("judge.C15 {} {} {} {} {}", self.price, st, self.n_adds, self.n_removed, self.sum_exec),
            "J C15 ok",
        );
    }

    /// one op; returns false if the line is not understood
    pub fn op(&mut self, line: &str) -> bool {
        let t: Vec<&str> = line.split(' ').collect();
        match t.as_slice() {
            ["case", _] => self.emit(line, line),
            ["ma", o, q] => {
                let (Some(o), Ok(q)) = (parse_order(o), q.parse::<u64>()) else { return false };
                match catch_unwind(AssertUnwindSafe(|| o.match_against(q))) {
                    Ok((c, u, hr, rem)) => {
                        self.emit(
                            line,
                            format!("ma c={} u={} hr={} rem={}", c, show_opt_order(u.as_ref()), hr, rem),
                        );
                        self.emit(
                            format!("judge.C05 {} {} {} {} {} {}", show_order(&o), q, c, show_opt_order(u.as_ref()), hr, rem),
                            "J C05 ok",
                        );
                    }
                    Err(_) => self.emit(line, "PANIC"),
                }
            }
            ["wr", o, n] => {
                let (Some(o), Ok(n)) = (parse_order(o), n.parse::<u64>()) else { return false };
                match catch_unwind(AssertUnwindSafe(|| o.with_reduced_quantity(n))) {
                    Ok(r) => self.emit(line, format!("wr {}", show_order(&r))),
                    Err(_) => self.emit(line, "PANIC"),
                }
            }
            ["ri", o, n] => {
                let (Some(o), Ok(n)) = (parse_order(o), n.parse::<u64>()) else { return false };
                match catch_unwind(AssertUnwindSafe(|| o.refresh_iceberg(n))) {
                    Ok((r, used)) => {
                        self.emit(line, format!("ri {} used={}", show_order(&r), used));
                        self.emit(format!("judge.C05r {} {} {} {}", show_order(&o), n, show_order(&r), used), "J C05 ok");
                    }
                    Err(_) => self.emit(line, "PANIC"),
                }
            }
            ["tf", o, now, close] => {
                let (Some(o), Ok(now)) = (parse_order(o), now.parse::<u64>()) else { return false };
                let close: Option<u64> = if *close == "-" { None } else { match close.parse::<u64>() { Ok(c) => Some(c), Err(_) => return false } };
                match catch_unwind(AssertUnwindSafe(|| {
                    let t = o.time_in_force();
                    format!(
                        "tf imm={} fok={} po={} hasexp={} exp={}",
                        o.is_immediate(), o.is_fill_or_kill(), o.is_post_only(), t.has_expiry(), t.is_expired(now, close)
                    )
                })) {
                    Ok(r) => self.emit(line, r),
                    Err(_) => self.emit(line, "PANIC"),
                }
            }
            ["atx", q, qs @ ..] => {
                let Ok(q) = q.parse::<u64>() else { return false };
                let mut r = MatchResult::new(OrderId::from_u64(0), q);
                let mut outs = Vec::new();
                for s in qs {
                    let Ok(n) = s.parse::<u64>() else { return false };
                    r.add_transaction(Transaction::new(
                        Uuid::nil(),
                        OrderId::from_u64(0),
                        OrderId::from_u64(0),
                        0,
                        n,
                        Side::Buy,
                    ));
                    outs.push(format!("{}:{}", r.remaining_quantity, if r.is_complete { 1 } else { 0 }));
                }
                self.emit(line, format!("atx {}", outs.join(" ")));
            }
            ["new", p] => {
                let Ok(p) = p.parse::<u64>() else { return false };
                self.lvl = Arc::new(PriceLevel::new(p));
                self.held.clear();
                self.generator = Arc::new(UuidGenerator::new(Uuid::from_u128(NS)));
                self.txids.ns = Uuid::from_u128(NS);
                self.cprog.clear();
                self.after_conc = false;
                self.txids.rebase(0);
                self.price = p;
                self.quiet = false;
                self.fork = None;
                self.issued = 0;
                self.n_adds = 0;
                self.n_removed = 0;
                self.sum_exec = 0;
                self.emit(line, "new");
            }
            ["newgen", c] | ["newgen", c, _] => {
                // a generator with the counter at `c` over a chosen namespace: built by the constructor
                // when c = 0, restored from its serialized form otherwise
                let Ok(c) = c.parse::<u64>() else { return false };
                let ns = match t.get(2).copied() {
                    None | Some("std") => Uuid::from_u128(NS),
                    Some("nil") => Uuid::nil(),
                    Some("max") => Uuid::from_u128(u128::MAX),
                    Some(h) => match u128::from_str_radix(h, 16) { Ok(v) => Uuid::from_u128(v), Err(_) => return false },
                };
                let built = if c == 0 {
                    Ok(UuidGenerator::new(ns))
                } else {
                    serde_json::from_str::<UuidGenerator>(&format!("{{\"namespace\":\"{}\",\"counter\":{}}}", ns, c))
                };
                match built {
                    Ok(g) => {
                        self.generator = Arc::new(g);
                        self.txids.ns = ns;
                        self.txids.rebase(c);
                        self.issued = c;
                        self.emit(line, "newgen");
                    }
                    Err(e) => self.emit(line, format!("newgen err={}", e.to_string().replace(' ', "_"))),
                }
            }
            ["add", o] => {
                let Some(o) = parse_order(o) else { return false };
                if let Some((f, _)) = &self.fork {
                    let _ = catch_unwind(AssertUnwindSafe(|| f.add_order(o)));
                }
                match catch_unwind(AssertUnwindSafe(|| self.lvl.add_order(o))) {
                    Ok(r) => {
                        self.n_adds += 1;
                        self.emit(line, format!("add ret={}", show_order(&r)));
                        self.held.push(r);
                        self.judge_stats();
                    }
                    Err(_) => self.emit(line, "PANIC"),
                }
            }
            ["match", q, taker] => {
                let (Ok(q), Some(taker)) = (q.parse::<u64>(), parse_id(taker)) else { return false };
                let pre = self.listing_now();
                match catch_unwind(AssertUnwindSafe(|| self.lvl.match_order(q, taker, &self.generator))) {
                    Ok(r) => {
                        let post = self.listing_now();
                        let txs: Vec<String> = r.transactions.as_vec().iter().map(|t| show_tx(t, &mut self.txids)).collect();
                        let txs = format!("[{}]", txs.join(","));
                        let complete = if r.is_complete { 1 } else { 0 };
                        let filled = show_list(&r.filled_order_ids, show_id);
                        // the accessors a caller reads the result through
                        let exq = catch_unwind(AssertUnwindSafe(|| r.executed_quantity())).map(|v| v.to_string()).unwrap_or("PANIC".into());
                        let exv = catch_unwind(AssertUnwindSafe(|| r.executed_value())).map(|v| v.to_string()).unwrap_or("PANIC".into());
                        let acc_ok = catch_unwind(AssertUnwindSafe(|| {
                            let per_tx = r.transactions.as_vec().iter().all(|t| {
                                t.maker_side() == (match t.taker_side { Side::Buy => Side::Sell, Side::Sell => Side::Buy })
                                    && t.total_value() == t.price.wrapping_mul(t.quantity)
                            });
                            let (q_, v_) = (r.executed_quantity(), r.executed_value());
                            let avg = r.average_price();
                            per_tx && avg.is_some() == (q_ > 0) && avg.map(|a| a == v_ as f64 / q_ as f64).unwrap_or(true)
                        })).unwrap_or(false);
                        self.emit(line, format!("match txs={} rem={} complete={} filled={} exq={} exv={} acc={}", txs, r.remaining_quantity, complete, filled,
                            exq, exv, if acc_ok { "ok" } else { "bad" }));
                        self.emit(
                            format!(
                                "judge.C02 {} {} {} {} {} {} {} {} {} {}",
                                q, show_id(&taker), self.price, self.issued, txs, r.remaining_quantity, complete, filled, pre, post
                            ),
                            "J C02 ok",
                        );
                        self.emit(format!("judge.C06 {} {} {} {} {}", q, txs, r.remaining_quantity, pre, post), "J C06 ok");
                        let makers: Vec<String> = r.transactions.as_vec().iter().map(|t| format!("{}:{}", show_id(&t.maker_order_id), t.quantity)).collect();
                        self.emit(format!("judge.C04 [{}]", makers.join(",")), "J C04 ok");
                        self.emit(format!("judge.C14s {} {}", self.issued, txs), "J C14 ok");
                        if self.after_conc {
                            // the draining match after a concurrent run: nothing displayed may be left
                            // and the aggregates must describe exactly what remains (C08)
                            self.emit(
                                format!(
                                    "judge.C08d {} {} {} {} {} {} {} {}",
                                    q, txs, r.remaining_quantity, pre, post,
                                    self.lvl.visible_quantity(), self.lvl.hidden_quantity(), self.lvl.order_count()
                                ),
                                "J C08 ok",
                            );
                        }
                        if let Some((f, g)) = &self.fork {
                            if let Ok(fr) = catch_unwind(AssertUnwindSafe(|| f.match_order(q, taker, g))) {
                                let fm: Vec<String> = fr.transactions.as_vec().iter().map(|t| format!("{}:{}", show_id(&t.maker_order_id), t.quantity)).collect();
                                self.emit(format!("judge.C11 [{}] [{}]", makers.join(","), fm.join(",")), "J C11 ok");
                            }
                        }
                        self.issued = self.issued.wrapping_add(r.transactions.as_vec().len() as u64);
                        self.sum_exec += r.transactions.as_vec().iter().map(|t| t.quantity as u128).sum::<u128>();
                        self.judge_stats();
                    }
                    Err(_) => self.emit(line, "PANIC"),
                }
            }
            ["upd", rest @ ..] => {
                let Some(u) = parse_update(rest) else { return false };
                let pre = self.listing_now();
                // the caller still looks at what it read before amending
                if !self.quiet {
                    self.held.extend(self.lvl.iter_orders());
                }
                let removal = match u {
                    pricelevel::OrderUpdate::Cancel { .. } => true,
                    pricelevel::OrderUpdate::UpdatePrice { new_price, .. } => new_price != self.price,
                    pricelevel::OrderUpdate::UpdatePriceAndQuantity { new_price, .. } => new_price != self.price,
                    pricelevel::OrderUpdate::Replace { price, .. } => price != self.price,
                    pricelevel::OrderUpdate::UpdateQuantity { .. } => false,
                };
                if let Some((f, _)) = &self.fork {
                    let _ = catch_unwind(AssertUnwindSafe(|| f.update_order(u)));
                }
                let outtok = match catch_unwind(AssertUnwindSafe(|| self.lvl.update_order(u))) {
                    Ok(Ok(o)) => {
                        if removal && o.is_some() {
                            self.n_removed += 1;
                        }
                        let tok = format!("ok={}", show_opt_order(o.as_deref()));
                        self.held.extend(o);
                        tok
                    }
                    Ok(Err(pricelevel::PriceLevelError::InvalidOperation { .. })) => "err=SamePrice".to_string(),
                    Ok(Err(e)) => format!("err=Other:{}", e.to_string().replace(' ', "_")),
                    Err(_) => {
                        self.emit(line, "PANIC");
                        return true;
                    }
                };
                self.emit(line, format!("upd {outtok}"));
                let post = self.listing_now();
                self.emit(format!("judge.C07 {} {} {} {} {}", self.price, pre, post, outtok, rest.join(" ")), "J C07 ok");
                self.judge_stats();
            }
            ["conc.thread", k, ops] => {
                let Ok(k) = k.parse::<usize>() else { return false };
                let mut prog = Vec::new();
                for o in ops.split(';') {
                    let Some(cs) = crate::conc::parse_cops(&o.replace('~', " ")) else { return false };
                    prog.extend(cs);
                }
                if k < self.cprog.len() { self.cprog[k] = prog } else { self.cprog.push(prog) }
                self.emit(line, "conc.thread");
            }
            ["conc.run", rest @ ..] => {
                let home0 = rest.last() == Some(&"h");
                let rest: Vec<&str> = rest.iter().copied().filter(|t| *t != "h").collect();
                let want: Vec<usize> = rest.first().map(|s| s.split(',').filter_map(|x| x.parse().ok()).collect()).unwrap_or_default();
                let progs = std::mem::take(&mut self.cprog);
                self.last_prog = progs.clone();
                let pre_listing = listing(&self.lvl);
                let budget = std::env::var("VERIF_STEP_BUDGET").ok().and_then(|s| s.parse().ok()).unwrap_or(20_000);
                let r = crate::conc::run_conc(self.lvl.clone(), self.generator.clone(), progs, &want, home0, &mut self.txids, budget);
                let sched: Vec<String> = r.schedule.iter().map(|x| x.to_string()).collect();
                let rets: Vec<String> = r.rets.iter().enumerate().map(|(i, v)| format!("t{}:{}", i, v.join("&"))).collect();
                let line_in = format!("conc.run {}{}", sched.join(","), if home0 { " h" } else { "" }).trim_end().to_string();
                if r.hung {
                    self.emit(line_in, "TIMEOUT");
                    self.hung = true;
                } else {
                    // what the observer counted from the return values (for the judges that follow)
                    for (ti, v) in r.rets.iter().enumerate() {
                        for (oi, s) in v.iter().enumerate() {
                            let kind = self.last_prog.get(ti).and_then(|p| p.get(oi));
                            match kind {
                                Some(crate::conc::COp::Add(_)) => self.n_adds += 1,
                                Some(crate::conc::COp::Cancel(_)) | Some(crate::conc::COp::Upd { away: true, .. }) => {
                                    if s.starts_with("ok=") && s != "ok=-" {
                                        self.n_removed += 1;
                                    }
                                }
                                Some(crate::conc::COp::Match(_, _)) => {
                                    if let Some(txs) = s.strip_prefix("txs=[") {
                                        let inner = txs.split(']').next().unwrap_or("");
                                        for t in inner.split(',').filter(|x| !x.is_empty()) {
                                            let f: Vec<&str> = t.split(':').collect();
                                            if f.len() == 6 {
                                                self.issued = self.issued.wrapping_add(1);
                                                self.sum_exec += f[4].parse::<u128>().unwrap_or(0);
                                            }
                                        }
                                    }
                                }
                                Some(crate::conc::COp::Next) => self.issued = self.issued.wrapping_add(1),
                                _ => {}
                            }
                        }
                    }
                    self.emit(
                        line_in,
                        format!(
                            "conc.run sched={} trace={} rets={} obs={} done=1",
                            sched.join(","),
                            r.trace.join(";"),
                            rets.join("#"),
                            r.obs.join(",")
                        ),
                    );
                    self.after_conc = true;
                    let post_listing = listing(&self.lvl);
                    let tr = r.trace.join(";");
                    let rets_s = rets.join("#");
                    self.emit(
                        format!(
                            "judge.C03 {pre_listing} {post_listing} {rets_s} {} {} {}",
                            self.lvl.visible_quantity(),
                            self.lvl.hidden_quantity(),
                            self.lvl.order_count()
                        ),
                        "J C03 ok",
                    );
                    self.emit(format!("judge.C03a {tr}"), "J C03 ok");
                    self.emit(format!("judge.C08 {tr}"), "J C08 ok");
                    self.emit(format!("judge.C12 {}", r.obs.join(",")), "J C12 ok");
                    self.emit(format!("judge.C13 {tr} {rets_s}"), "J C13 ok");
                    self.emit(format!("judge.C14 {tr} {rets_s}"), "J C14 ok");
                    self.judge_stats();
                }
            }
            ["rebuild", kind, ..] | ["fork", kind, ..] => {
                let is_fork = t[0] == "fork";
                let pre = show_state_content(&self.lvl);
                let snap = self.lvl.snapshot();
                let ids: Vec<OrderId> = snap.orders.iter().map(|o| o.id()).collect();
                let raw_listing: Vec<Order> = snap.orders.iter().map(|a| **a).collect();
                let lvl: &PriceLevel = &self.lvl;
                // how big the lies of the lying routes are: a few units off, zero, the 64-bit maximum, or 2^40
                let lie_sel = (self.issued as usize + self.n_adds as usize + ids.len()) % 4;
                let lie = |v: u64, off: u64| -> u64 { match lie_sel { 0 => v.wrapping_add(off), 1 => 0, 2 => u64::MAX, _ => (1u64 << 40) + off } };
                let lie_n = |v: usize, off: usize| -> usize { match lie_sel { 0 => v.wrapping_add(off), 1 => 0, 2 => usize::MAX, _ => (1usize << 40) + off } };
                let res = catch_unwind(AssertUnwindSafe(|| -> Result<PriceLevel, String> {
                    match *kind {
                        "snapshot" => PriceLevel::from_snapshot(snap.clone()).map_err(|e| e.to_string()),
                        "from" => Ok(PriceLevel::from(&snap)),
                        "package" => lvl.snapshot_package().and_then(PriceLevel::from_snapshot_package).map_err(|e| e.to_string()),
                        "json" => lvl.snapshot_to_json().and_then(|j| PriceLevel::from_snapshot_json(&j)).map_err(|e| e.to_string()),
                        "data" => PriceLevel::try_from(pricelevel::PriceLevelData::from(lvl)).map_err(|e| e.to_string()),
                        "serde" => serde_json::to_string(lvl).map_err(|e| e.to_string()).and_then(|j| serde_json::from_str::<PriceLevel>(&j).map_err(|e| e.to_string())),
                        "text" => {
                            use std::str::FromStr;
                            PriceLevel::from_str(&lvl.to_string()).map_err(|e| e.to_string())
                        }
                        // the same JSON reaching serde by other roads: a `Value`, a reader, and the same document with
                        // the characters of every string written as \uXXXX escapes (no borrowed strings possible)
                        "serde-value" => serde_json::to_value(lvl).map_err(|e| e.to_string())
                            .and_then(|v| serde_json::from_value::<PriceLevel>(v).map_err(|e| e.to_string())),
                        "serde-reader" => serde_json::to_vec(lvl).map_err(|e| e.to_string())
                            .and_then(|b| serde_json::from_reader::<_, PriceLevel>(std::io::Cursor::new(b)).map_err(|e| e.to_string())),
                        "json-escaped" => lvl.snapshot_to_json().map_err(|e| e.to_string())
                            .and_then(|j| PriceLevel::from_snapshot_json(&crate::jsonc::escape_strings(&j)).map_err(|e| e.to_string())),
                        "serde-escaped" => serde_json::to_string(lvl).map_err(|e| e.to_string())
                            .and_then(|j| serde_json::from_str::<PriceLevel>(&crate::jsonc::escape_strings(&j)).map_err(|e| e.to_string())),
                        // aggregates that lie while the order count is right
                        "lying-count-ok" => {
                            let mut s2 = snap.clone();
                            s2.visible_quantity = s2.visible_quantity.wrapping_add(6);
                            s2.hidden_quantity = s2.hidden_quantity.wrapping_add(11);
                            match self.issued % 3 {
                                0 => PriceLevel::from_snapshot(s2).map_err(|e| e.to_string()),
                                1 => Ok(PriceLevel::from(&s2)),
                                _ => pricelevel::PriceLevelSnapshotPackage::new(s2)
                                    .and_then(|p| p.to_json())
                                    .and_then(|j| PriceLevel::from_snapshot_json(&j))
                                    .map_err(|e| e.to_string()),
                            }
                        }
                        "lying-snapshot" => {
                            let mut s2 = snap.clone();
                            s2.visible_quantity = lie(s2.visible_quantity, 17);
                            s2.hidden_quantity = lie(3, 0);
                            s2.order_count = lie_n(s2.order_count, 2);
                            PriceLevel::from_snapshot(s2).map_err(|e| e.to_string())
                        }
                        "lying-from" | "lying-package" | "lying-json" => {
                            let mut s2 = snap.clone();
                            s2.visible_quantity = lie(s2.visible_quantity, 23);
                            s2.hidden_quantity = lie(s2.hidden_quantity, 5);
                            s2.order_count = lie_n(s2.order_count, 1);
                            match *kind {
                                // the lying snapshot as a JSON document of its own (an externally supplied snapshot:
                                // its carried figures are whatever the sender wrote), decoded and then restored
                                "lying-from" if lie_sel >= 2 => serde_json::to_string(&s2).map_err(|e| e.to_string())
                                    .and_then(|j| serde_json::from_str::<pricelevel::PriceLevelSnapshot>(&j).map_err(|e| e.to_string()))
                                    .map(|s3| PriceLevel::from(&s3)),
                                "lying-from" => Ok(PriceLevel::from(&s2)),
                                "lying-package" => pricelevel::PriceLevelSnapshotPackage::new(s2)
                                    .and_then(PriceLevel::from_snapshot_package)
                                    .map_err(|e| e.to_string()),
                                _ => pricelevel::PriceLevelSnapshotPackage::new(s2)
                                    .and_then(|p| p.to_json())
                                    .and_then(|j| PriceLevel::from_snapshot_json(&j))
                                    .map_err(|e| e.to_string()),
                            }
                        }
                        "lying-serde" => {
                            let mut d = pricelevel::PriceLevelData::from(lvl);
                            d.visible_quantity = lie(d.visible_quantity, 4);
                            d.hidden_quantity = lie(d.hidden_quantity, 40);
                            d.order_count = lie_n(0, 0);
                            serde_json::to_string(&d)
                                .map_err(|e| e.to_string())
                                .and_then(|j| serde_json::from_str::<PriceLevel>(&j).map_err(|e| e.to_string()))
                        }
                        "lying-text" => {
                            use std::str::FromStr;
                            let orders: Vec<String> = raw_listing.iter().map(|o| o.to_string()).collect();
                            let txt = format!(
                                "PriceLevel:price={};visible_quantity={};hidden_quantity={};order_count={};orders=[{}]",
                                lvl.price(), lie(lvl.visible_quantity(), 3), lie(77, 0), lie_n(12345, 0), orders.join(","));
                            PriceLevel::from_str(&txt).map_err(|e| e.to_string())
                        }
                        "lying-data" => {
                            let mut d = pricelevel::PriceLevelData::from(lvl);
                            d.visible_quantity = lie(d.visible_quantity, 9);
                            d.hidden_quantity = lie(1, 0);
                            d.order_count = lie_n(77, 0);
                            PriceLevel::try_from(d).map_err(|e| e.to_string())
                        }
                        _ => Err("unknown rebuild kind".to_string()),
                    }
                }));
                let line_in = format!("{} {} {}", t[0], kind, show_list(&ids, show_id));
                match res {
                    Ok(Ok(newl)) => {
                        if is_fork {
                            // the fork's generator must be at the same counter as the main one
                            let js = format!("{{\"namespace\":\"{}\",\"counter\":{}}}", self.txids.ns, self.issued);
                            let g: UuidGenerator = serde_json::from_str(&js).expect("generator json");
                            self.fork = Some((newl, g));
                            self.emit(line_in, "fork ok");
                        } else {
                            self.lvl = Arc::new(newl);
                            // statistics start afresh in a rebuilt level
                            self.n_removed = 0;
                            self.sum_exec = 0;
                            // (the roads that rebuild by `new` + `add_order` count every order as added; the snapshot roads start at zero)
                            self.n_adds = if matches!(*kind, "data" | "serde" | "text" | "lying-data" | "lying-serde" | "lying-text"
                                | "serde-value" | "serde-reader" | "serde-escaped") { ids.len() as u64 } else { 0 };
                            self.emit(line_in, "rebuild ok");
                            let post = show_state_content(&self.lvl);
                            self.emit(format!("judge.C10 {pre} {post}"), "J C10 ok");
                        }
                        self.emit(format!("judge.C10list {}", show_list(&raw_listing, show_order)), "J C10 ok");
                    }
                    Ok(Err(e)) => {
                        self.emit(line_in, format!("{} err={}", t[0], e.replace(' ', "_")));
                        // C10: rebuilding a level from its own form always succeeds
                        self.emit(format!("judge.C10err {kind}"), "J C10 ok");
                    }
                    Err(_) => self.emit(line_in, "PANIC"),
                }
            }
            ["qnew"] => {
                self.queue = OrderQueue::new();
                self.emit(line, "qnew");
            }
            [qop, rest @ ..] if qop.starts_with("q.") => {
                let r = catch_unwind(AssertUnwindSafe(|| -> Option<String> {
                    Some(match (*qop, rest) {
                        ("q.push", [o]) => {
                            self.queue.push(Arc::new(parse_order(o)?));
                            "q.push".to_string()
                        }
                        ("q.fromvec", [l]) => {
                            let inner = l.strip_prefix('[')?.strip_suffix(']')?;
                            let mut v = Vec::new();
                            if !inner.is_empty() {
                                for t in inner.split(',') {
                                    v.push(Arc::new(parse_order(t)?));
                                }
                            }
                            self.queue = OrderQueue::from_vec(v);
                            "q.fromvec".to_string()
                        }
                        ("q.pop", []) => format!("q.pop {}", show_opt_order(self.queue.pop().as_deref())),
                        ("q.find", [id]) => format!("q.find {}", show_opt_order(self.queue.find(parse_id(id)?).as_deref())),
                        ("q.remove", [id]) => format!("q.remove {}", show_opt_order(self.queue.remove(parse_id(id)?).as_deref())),
                        ("q.rt", [route]) => {
                            // a second queue built from this one by the named road; this one stays as it is
                            use std::str::FromStr;
                            let e = |x: serde_json::Error| x.to_string();
                            let built: Result<OrderQueue, String> = match *route {
                                "vec" => Ok(OrderQueue::from_vec(self.queue.to_vec())),
                                "from" => Ok(OrderQueue::from(self.queue.to_vec())),
                                "text" => OrderQueue::from_str(&self.queue.to_string()).map_err(|x| x.to_string()),
                                "json" => serde_json::to_string(&self.queue).and_then(|j| serde_json::from_str(&j)).map_err(e),
                                "json-value" => serde_json::to_value(&self.queue).and_then(serde_json::from_value).map_err(e),
                                "json-reader" => serde_json::to_vec(&self.queue)
                                    .and_then(|b| serde_json::from_reader(std::io::Cursor::new(b))).map_err(e),
                                "json-escaped" => serde_json::to_string(&self.queue)
                                    .and_then(|j| serde_json::from_str(&crate::jsonc::escape_strings(&j))).map_err(e),
                                _ => return None,
                            };
                            match built {
                                Err(_) => "q.rt err".to_string(),
                                Ok(q2) => {
                                    let mut v: Vec<Order> = q2.to_vec().iter().map(|a| **a).collect();
                                    canon_sort(&mut v);
                                    let n = q2.len();
                                    let mut drained: Vec<Order> = Vec::new();
                                    while let Some(o) = q2.pop() {
                                        drained.push(*o);
                                        if drained.len() > n + 8 { break; }
                                    }
                                    canon_sort(&mut drained);
                                    if drained != v {
                                        format!("q.rt drained-differs {}", show_list(&drained, show_order))
                                    } else {
                                        format!("q.rt ok {} {}", show_list(&v, show_order), n)
                                    }
                                }
                            }
                        }
                        ("q.len", []) => format!("q.len {}", self.queue.len()),
                        ("q.isempty", []) => format!("q.isempty {}", if self.queue.is_empty() { 1 } else { 0 }),
                        ("q.tovec", []) => {
                            let mut v: Vec<Order> = self.queue.to_vec().iter().map(|a| **a).collect();
                            canon_sort(&mut v);
                            format!("q.tovec {}", show_list(&v, show_order))
                        }
                        _ => return None,
                    })
                }));
                match r {
                    Ok(Some(outl)) => {
                        self.emit(line, outl.clone());
                        self.emit(format!("judge.C19 {outl}"), "J C19 ok");
                    }
                    Ok(None) => return false,
                    Err(_) => self.emit(line, "PANIC"),
                }
            }
            ["txt.rt", ty, v] => {
                // round trip of one value: show, then parse the shown text (C16)
                let Some(text) = crate::codec::show_by_type(ty, v) else { return false };
                // a queue / level prints its orders by timestamp, orders that share one in the map's (unspecified,
                // per-instance) iteration order: the printed text is then compared through its parse only
                if !((*ty == "queue" || *ty == "level") && crate::codec::has_tied_timestamps(ty, v)) {
                    self.emit(format!("txt.show {ty} {v}"), format!("txt {}", crate::codec::hex(&text)));
                }
                let out = crate::codec::parse_by_type(ty, &text).unwrap_or_else(|| "?".into());
                self.emit(format!("txt.parse {ty} {}", crate::codec::hex(&text)).trim_end().to_string(), format!("parsed {out}"));
                // listings: the value the queue/level hands back is canonicalised by (timestamp, id)
                let want = if *ty == "queue" || *ty == "level" { crate::codec::canon_value(ty, v) } else { v.to_string() };
                self.emit(format!("judge.C16 {ty} {want} {out}"), "J C16 ok");
                self.emit(format!("judge.C18 {out}"), "J C18 ok");
            }
            ["txt.parse", ty, rest @ ..] => {
                let h = rest.first().copied().unwrap_or("");
                let Some(text) = crate::codec::unhex(h) else { return false };
                let out = crate::codec::parse_by_type(ty, &text).unwrap_or_else(|| "?".into());
                self.emit(line, format!("parsed {out}"));
                self.emit(format!("judge.C18 {out}"), "J C18 ok");
            }
            ["json.dec", ty, rest @ ..] => {
                // a (damaged) JSON text handed to the decoder of `ty`
                let h = rest.first().copied().unwrap_or("");
                let Some(text) = crate::codec::unhex(h) else { return false };
                let out = crate::jsonc::dec_by_type(ty, &text).unwrap_or_else(|| "?".into());
                self.emit(line, format!("jparsed {out}"));
                self.emit(format!("judge.C18 {out}"), "J C18 ok");
            }
            ["json.rt", ty, v] => {
                let Some(text) = crate::jsonc::enc_by_type(ty, v) else { return false };
                self.emit(format!("json.enc {ty} {v}"), format!("json {}", crate::codec::hex(&text)));
                let out = crate::jsonc::dec_by_type(ty, &text).unwrap_or_else(|| "?".into());
                self.emit(format!("json.dec {ty} {}", crate::codec::hex(&text)), format!("jparsed {out}"));
                // the same text through a `Value`, through a reader, and with its strings escaped
                for route in 1..=3u8 {
                    let o2 = crate::jsonc::dec_by_type_road(ty, &text, route).unwrap_or_else(|| "?".into());
                    if o2 != out {
                        self.emit(format!("json.dec {ty} {}", crate::codec::hex(&text)), format!("jparsed road{route} {o2}"));
                        let want = if *ty == "leveldata" { crate::jsonc::leveldata_expect(v) } else { v.to_string() };
                        self.emit(format!("judge.C17 {ty} {want} {o2}"), "J C17 ok");
                    }
                }
                // a level's aggregates are derived and its listing canonical
                let want = if *ty == "leveldata" { crate::jsonc::leveldata_expect(v) } else { v.to_string() };
                self.emit(format!("judge.C17 {ty} {want} {out}"), "J C17 ok");
                self.emit(format!("judge.C18 {out}"), "J C18 ok");
            }
            ["pkg.make"] | ["pkg.make", _] => {
                let snap = self.lvl.snapshot();
                let ids: Vec<OrderId> = snap.orders.iter().map(|o| o.id()).collect();
                match catch_unwind(AssertUnwindSafe(|| self.lvl.snapshot_to_json())) {
                    Ok(Ok(text)) => {
                        self.pkg_content = show_state_content(&self.lvl);
                        self.emit(format!("pkg.make {}", show_list(&ids, show_id)), format!("pkg {}", crate::codec::hex(&text)));
                        self.pkg_text = text;
                    }
                    Ok(Err(e)) => self.emit(line, format!("pkg err={}", e.to_string().replace(' ', "_"))),
                    Err(_) => self.emit(line, "PANIC"),
                }
            }
            ["pkg.fault", kind, args @ ..] => {
                let Some(f) = crate::jsonc::apply_fault(&self.pkg_text, kind, args) else {
                    return true; // the fault does not apply to this package (e.g. no order to swap)
                };
                if f == self.pkg_text.as_bytes() {
                    return true; // not a change
                }
                self.restore_bytes(&f, false);
            }
            // replay forms: the damaged text itself (what `pkg.fault` handed to the model)
            ["pkg.restore", h] | ["pkg.raw", h] => {
                match crate::codec::unhex_bytes(h.strip_prefix('h').unwrap_or(h)) {
                    Some(f) => self.restore_bytes(&f, false),
                    None => self.emit(line, "harness-bad-op"),
                }
            }
            ["pkg.honest", h] => {
                match crate::codec::unhex_bytes(h) {
                    Some(f) => self.restore_bytes(&f, true),
                    None => self.emit(line, "harness-bad-op"),
                }
            }
            ["read", kind] => {
                // read-only calls: must not change any later result (C07). For the serialized forms the text / JSON /
                // package the live level hands out is decoded again and what it decodes to is compared with the model
                // (a stale or lossy rendering of a level that has a history shows here)
                use std::str::FromStr;
                let r = catch_unwind(AssertUnwindSafe(|| -> Option<Result<PriceLevel, String>> {
                    match *kind {
                        "snapshot" => Some(PriceLevel::from_snapshot(self.lvl.snapshot()).map_err(|e| e.to_string())),
                        "package" => Some(self.lvl.snapshot_package().and_then(PriceLevel::from_snapshot_package).map_err(|e| e.to_string())),
                        "json" => Some(self.lvl.snapshot_to_json().and_then(|j| PriceLevel::from_snapshot_json(&j)).map_err(|e| e.to_string())),
                        "display" => Some(PriceLevel::from_str(&self.lvl.to_string()).map_err(|e| e.to_string())),
                        "serde" => Some(serde_json::to_string(&*self.lvl).map_err(|e| e.to_string())
                            .and_then(|j| serde_json::from_str::<PriceLevel>(&j).map_err(|e| e.to_string()))),
                        "stats" => { let st = self.lvl.stats(); let _ = (st.to_string(), st.average_execution_price(), st.average_waiting_time(), st.time_since_last_execution()); None }
                        "list" => { let _ = self.lvl.iter_orders(); None }
                        _ => { let _ = (self.lvl.price(), self.lvl.visible_quantity(), self.lvl.hidden_quantity(), self.lvl.total_quantity(), self.lvl.order_count()); None }
                    }
                }));
                match r {
                    Ok(None) => self.emit(line, "read"),
                    Ok(Some(Ok(l))) => {
                        let c = show_state_content(&l);
                        self.emit(line, format!("read {c}"));
                        // judged as a round trip of the level's own encoding: C16 (text), C17 (serde), C10 (snapshot roads)
                        let want = format!("{}/{}", self.lvl.price(), listing(&self.lvl));
                        let got = format!("{}/{}", l.price(), listing(&l));
                        let j = match *kind { "display" => "C16", "serde" => "C17", _ => "C10r" };
                        self.emit(format!("judge.{j} live-{kind} {want} ok {got}"), format!("J {} ok", &j[..3]));
                    }
                    Ok(Some(Err(e))) => {
                        self.emit(line, format!("read err={}", e.replace(' ', "_")));
                        let j = match *kind { "display" => "C16", "serde" => "C17", _ => "C10r" };
                        self.emit(format!("judge.{j} live-{kind} - err"), format!("J {} ok", &j[..3]));
                    }
                    Err(_) => self.emit(line, "PANIC"),
                }
            }
            ["big", kind, n] => {
                // a value with MANY elements (well past 10 000 / 65 536): encode with the library, decode what it wrote,
                // encode again - the two texts must be equal and nothing may be lost; judged without the model
                // (the model's list-of-characters parser would take minutes on a megabyte)
                let Ok(n) = n.parse::<u64>() else { return false };
                let outcome = catch_unwind(AssertUnwindSafe(|| crate::codec::big_round_trip(kind, n))).unwrap_or_else(|_| "PANIC".to_string());
                self.emit(line, "big");
                let j = if kind.ends_with("text") { "C16" } else { "C17" };
                self.emit(format!("judge.{j} big-{kind} {n} {outcome}"), format!("J {j} ok"));
                self.emit(format!("judge.C18 {outcome}"), "J C18 ok");
            }
            ["v5", ns, c] => {
                // the id the REAL generator over `ns`, restored at counter `c` (built by the constructor for 0), hands out
                let (Ok(nsv), Ok(c)) = (ns.parse::<u128>(), c.parse::<u64>()) else { return false };
                let nsu = Uuid::from_u128(nsv);
                let built = if c == 0 { Ok(UuidGenerator::new(nsu)) } else {
                    serde_json::from_str::<UuidGenerator>(&format!("{{\"namespace\":\"{}\",\"counter\":{}}}", nsu, c))
                };
                match built {
                    Ok(g) => match catch_unwind(AssertUnwindSafe(|| g.next())) {
                        Ok(u) => self.emit(line, format!("v5 {}", u.as_u128())),
                        Err(_) => self.emit(line, "PANIC"),
                    },
                    Err(e) => self.emit(line, format!("v5 err={}", e.to_string().replace(' ', "_"))),
                }
            }
            ["quiet", v] => {
                self.quiet = *v == "on";
                self.emit(line, "quiet");
            }
            ["state"] => {
                let s = show_state(&self.lvl);
                self.emit(line, format!("state {s}"));
                self.emit(
                    format!(
                        "judge.C01 {} {} {} {}",
                        self.lvl.visible_quantity(),
                        self.lvl.hidden_quantity(),
                        self.lvl.order_count(),
                        listing(&self.lvl)
                    ),
                    "J C01 ok",
                );
            }
            _ => return false,
        }
        true
    }
}

//! Executes protocol ops against the real crate, in-process, and produces for every op the line
//! handed to the model driver and the implementation's canonical output line.
use crate::proto::*;
use pricelevel::{MatchResult, OrderId, PriceLevel, Side, Transaction, UuidGenerator};
use std::collections::HashMap;
use std::panic::{AssertUnwindSafe, catch_unwind};
use uuid::Uuid;

pub const NS: u128 = 0x6ba7b810_9dad_11d1_80b4_00c04fd430c8;

pub struct TxIds {
    ns: Uuid,
    known: HashMap<Uuid, u64>,
    upto: u64,
}

impl TxIds {
    pub fn new() -> Self {
        TxIds { ns: Uuid::from_u128(NS), known: HashMap::new(), upto: 0 }
    }
    /// maps a transaction id back to the counter value it was derived from (v5(ns, k) computed
    /// independently here)
    pub fn counter_of(&mut self, id: &Uuid) -> String {
        for _ in 0..4 {
            if let Some(k) = self.known.get(id) {
                return k.to_string();
            }
            for _ in 0..4096 {
                let u = Uuid::new_v5(&self.ns, self.upto.to_string().as_bytes());
                self.known.insert(u, self.upto);
                self.upto += 1;
            }
        }
        "?".to_string()
    }
}

pub struct Exec {
    pub lvl: PriceLevel,
    pub generator: UuidGenerator,
    pub txids: TxIds,
    pub out: Vec<(String, String)>,
}

pub fn show_tx(t: &Transaction, txids: &mut TxIds) -> String {
    format!(
        "{}:{}:{}:{}:{}:{}",
        txids.counter_of(&t.transaction_id),
        show_id(&t.taker_order_id),
        show_id(&t.maker_order_id),
        t.price,
        t.quantity,
        show_side(t.taker_side)
    )
}

pub fn show_match(r: &MatchResult, txids: &mut TxIds) -> String {
    let txs: Vec<String> = r.transactions.as_vec().iter().map(|t| show_tx(t, txids)).collect();
    format!(
        "txs=[{}] rem={} complete={} filled={}",
        txs.join(","),
        r.remaining_quantity,
        if r.is_complete { 1 } else { 0 },
        show_list(&r.filled_order_ids, show_id)
    )
}

pub fn show_state(l: &PriceLevel) -> String {
    let mut list: Vec<Order> = l.iter_orders().iter().map(|a| **a).collect();
    canon_sort(&mut list);
    let st = l.stats();
    format!(
        "vis={} hid={} cnt={} list={} stats={},{},{},{},{}",
        l.visible_quantity(),
        l.hidden_quantity(),
        l.order_count(),
        show_list(&list, show_order),
        st.orders_added(),
        st.orders_removed(),
        st.orders_executed(),
        st.quantity_executed(),
        st.value_executed()
    )
}

impl Exec {
    pub fn new() -> Self {
        Exec {
            lvl: PriceLevel::new(0),
            generator: UuidGenerator::new(Uuid::from_u128(NS)),
            txids: TxIds::new(),
            out: Vec::new(),
        }
    }

    fn emit(&mut self, model_in: impl Into<String>, impl_out: impl Into<String>) {
        self.out.push((model_in.into(), impl_out.into()));
    }

    /// one op; returns false if the line is not understood
    pub fn op(&mut self, line: &str) -> bool {
        let t: Vec<&str> = line.split(' ').collect();
        match t.as_slice() {
            ["case", _] => self.emit(line, line),
            ["ma", o, q] => {
                let (Some(o), Ok(q)) = (parse_order(o), q.parse::<u64>()) else { return false };
                match catch_unwind(AssertUnwindSafe(|| o.match_against(q))) {
                    Ok((c, u, hr, rem)) => {
                        self.emit(
                            line,
                            format!("ma c={} u={} hr={} rem={}", c, show_opt_order(u.as_ref()), hr, rem),
                        );
                        self.emit(
                            format!("judge.C05 {} {} {} {} {} {}", show_order(&o), q, c, show_opt_order(u.as_ref()), hr, rem),
                            "J C05 ok",
                        );
                    }
                    Err(_) => self.emit(line, "PANIC"),
                }
            }
            ["wr", o, n] => {
                let (Some(o), Ok(n)) = (parse_order(o), n.parse::<u64>()) else { return false };
                match catch_unwind(AssertUnwindSafe(|| o.with_reduced_quantity(n))) {
                    Ok(r) => self.emit(line, format!("wr {}", show_order(&r))),
                    Err(_) => self.emit(line, "PANIC"),
                }
            }
            ["atx", q, qs @ ..] => {
                let Ok(q) = q.parse::<u64>() else { return false };
                let mut r = MatchResult::new(OrderId::from_u64(0), q);
                let mut outs = Vec::new();
                for s in qs {
                    let Ok(n) = s.parse::<u64>() else { return false };
                    r.add_transaction(Transaction::new(
                        Uuid::nil(),
                        OrderId::from_u64(0),
                        OrderId::from_u64(0),
                        0,
                        n,
                        Side::Buy,
                    ));
                    outs.push(format!("{}:{}", r.remaining_quantity, if r.is_complete { 1 } else { 0 }));
                }
                self.emit(line, format!("atx {}", outs.join(" ")));
            }
            ["new", p] => {
                let Ok(p) = p.parse::<u64>() else { return false };
                self.lvl = PriceLevel::new(p);
                self.generator = UuidGenerator::new(Uuid::from_u128(NS));
                self.emit(line, "new");
            }
            ["add", o] => {
                let Some(o) = parse_order(o) else { return false };
                match catch_unwind(AssertUnwindSafe(|| self.lvl.add_order(o))) {
                    Ok(r) => self.emit(line, format!("add ret={}", show_order(&r))),
                    Err(_) => self.emit(line, "PANIC"),
                }
            }
            ["match", q, taker] => {
                let (Ok(q), Some(taker)) = (q.parse::<u64>(), parse_id(taker)) else { return false };
                match catch_unwind(AssertUnwindSafe(|| self.lvl.match_order(q, taker, &self.generator))) {
                    Ok(r) => {
                        let s = show_match(&r, &mut self.txids);
                        self.emit(line, format!("match {s}"));
                    }
                    Err(_) => self.emit(line, "PANIC"),
                }
            }
            ["upd", rest @ ..] => {
                let Some(u) = parse_update(rest) else { return false };
                match catch_unwind(AssertUnwindSafe(|| self.lvl.update_order(u))) {
                    Ok(Ok(o)) => self.emit(line, format!("upd ok={}", show_opt_order(o.as_deref()))),
                    Ok(Err(pricelevel::PriceLevelError::InvalidOperation { .. })) => self.emit(line, "upd err=SamePrice"),
                    Ok(Err(e)) => self.emit(line, format!("upd err=Other:{e}")),
                    Err(_) => self.emit(line, "PANIC"),
                }
            }
            ["state"] => {
                let s = show_state(&self.lvl);
                self.emit(line, format!("state {s}"));
            }
            _ => return false,
        }
        true
    }
}

//! E-codec (DESIGN §4.3), text half: every `Display` / `FromStr` pair of the crate on a valid stream
//! (type-directed values with boundary numbers) and on a malformed stream (character-level edits).
use crate::proto::*;
use crate::rng::Rng;
use pricelevel::{
    MatchResult, OrderId, OrderQueue, OrderType, OrderUpdate, PegReferenceType, PriceLevel, PriceLevelError, PriceLevelSnapshot,
    PriceLevelStatistics, Side, TimeInForce, Transaction,
};
use std::panic::{catch_unwind, AssertUnwindSafe};
use std::str::FromStr;
use std::sync::Arc;
use uuid::Uuid;

pub fn hex(s: &str) -> String {
    s.as_bytes().iter().map(|b| format!("{b:02x}")).collect()
}

pub fn hex_bytes(b: &[u8]) -> String {
    b.iter().map(|b| format!("{b:02x}")).collect()
}

pub fn unhex_bytes(h: &str) -> Option<Vec<u8>> {
    if h.len() % 2 != 0 || !h.is_ascii() {
        return None;
    }
    let mut v = Vec::new();
    for i in (0..h.len()).step_by(2) {
        v.push(u8::from_str_radix(&h[i..i + 2], 16).ok()?);
    }
    Some(v)
}

pub fn unhex(h: &str) -> Option<String> {
    if h.len() % 2 != 0 {
        return None;
    }
    let mut v = Vec::new();
    for i in (0..h.len()).step_by(2) {
        v.push(u8::from_str_radix(&h[i..i + 2], 16).ok()?);
    }
    String::from_utf8(v).ok()
}

fn err_kind(e: &PriceLevelError) -> &'static str {
    match e {
        PriceLevelError::ParseError { .. } => "ParseError",
        PriceLevelError::InvalidFormat => "InvalidFormat",
        PriceLevelError::UnknownOrderType(_) => "UnknownOrderType",
        PriceLevelError::MissingField(_) => "MissingField",
        PriceLevelError::InvalidFieldValue { .. } => "InvalidFieldValue",
        PriceLevelError::InvalidOperation { .. } => "InvalidOperation",
        PriceLevelError::SerializationError { .. } => "SerializationError",
        PriceLevelError::DeserializationError { .. } => "DeserializationError",
        PriceLevelError::ChecksumMismatch { .. } => "ChecksumMismatch",
    }
}

pub fn show_upd(u: &OrderUpdate) -> String {
    match u {
        OrderUpdate::UpdatePrice { order_id, new_price } => format!("price:{}:{}", show_id(order_id), new_price),
        OrderUpdate::UpdateQuantity { order_id, new_quantity } => format!("qty:{}:{}", show_id(order_id), new_quantity),
        OrderUpdate::UpdatePriceAndQuantity { order_id, new_price, new_quantity } => {
            format!("pq:{}:{}:{}", show_id(order_id), new_price, new_quantity)
        }
        OrderUpdate::Cancel { order_id } => format!("cancel:{}", show_id(order_id)),
        OrderUpdate::Replace { order_id, price, quantity, side } => {
            format!("replace:{}:{}:{}:{}", show_id(order_id), price, quantity, show_side(*side))
        }
    }
}

fn parse_upd(s: &str) -> Option<OrderUpdate> {
    let t: Vec<&str> = s.split(':').collect();
    crate::proto::parse_update(&t)
}

pub fn show_txrec(t: &Transaction) -> String {
    format!(
        "{}:{}:{}:{}:{}:{}:{}",
        t.transaction_id.as_u128(),
        show_id(&t.taker_order_id),
        show_id(&t.maker_order_id),
        t.price,
        t.quantity,
        show_side(t.taker_side),
        t.timestamp
    )
}

pub fn parse_txrec_pub(s: &str) -> Option<Transaction> {
    parse_txrec(s)
}

fn parse_txrec(s: &str) -> Option<Transaction> {
    let f: Vec<&str> = s.split(':').collect();
    if f.len() != 7 {
        return None;
    }
    Some(Transaction {
        transaction_id: Uuid::from_u128(f[0].parse().ok()?),
        taker_order_id: parse_id(f[1])?,
        maker_order_id: parse_id(f[2])?,
        price: f[3].parse().ok()?,
        quantity: f[4].parse().ok()?,
        taker_side: parse_side(f[5])?,
        timestamp: f[6].parse().ok()?,
    })
}

fn parse_list<T>(s: &str, f: impl Fn(&str) -> Option<T>) -> Option<Vec<T>> {
    let inner = s.strip_prefix('[')?.strip_suffix(']')?;
    if inner.is_empty() {
        return Some(Vec::new());
    }
    inner.split(',').map(|x| f(x)).collect()
}

pub fn show_mr(r: &MatchResult) -> String {
    format!(
        "{};{};{};{};{}",
        show_id(&r.order_id),
        r.remaining_quantity,
        if r.is_complete { 1 } else { 0 },
        show_list(r.transactions.as_vec(), show_txrec),
        show_list(&r.filled_order_ids, show_id)
    )
}

pub fn parse_mr_pub(s: &str) -> Option<MatchResult> {
    parse_mr(s)
}

fn parse_mr(s: &str) -> Option<MatchResult> {
    let f: Vec<&str> = s.split(';').collect();
    if f.len() != 5 {
        return None;
    }
    let mut r = MatchResult::new(parse_id(f[0])?, 0);
    for t in parse_list(f[3], parse_txrec)? {
        r.transactions.add(t);
    }
    r.remaining_quantity = f[1].parse().ok()?;
    r.is_complete = f[2] == "1";
    r.filled_order_ids = parse_list(f[4], parse_id)?;
    Some(r)
}

fn stats_of(v: &[u64]) -> PriceLevelStatistics {
    let s = PriceLevelStatistics::new();
    use std::sync::atomic::Ordering::Relaxed;
    s.orders_added.store(v[0] as usize, Relaxed);
    s.orders_removed.store(v[1] as usize, Relaxed);
    s.orders_executed.store(v[2] as usize, Relaxed);
    s.quantity_executed.store(v[3], Relaxed);
    s.value_executed.store(v[4], Relaxed);
    s.last_execution_time.store(v[5], Relaxed);
    s.first_arrival_time.store(v[6], Relaxed);
    s.sum_waiting_time.store(v[7], Relaxed);
    s
}

fn show_stats_rec(s: &PriceLevelStatistics) -> String {
    format!(
        "{},{},{},{},{},{},{},{}",
        s.orders_added.verif_raw(),
        s.orders_removed.verif_raw(),
        s.orders_executed.verif_raw(),
        s.quantity_executed.verif_raw(),
        s.value_executed.verif_raw(),
        s.last_execution_time.verif_raw(),
        s.first_arrival_time.verif_raw(),
        s.sum_waiting_time.verif_raw()
    )
}

/// the crate's `to_string()` of the value given in protocol form
pub fn show_by_type(ty: &str, v: &str) -> Option<String> {
    Some(match ty {
        "order" => parse_order(v)?.to_string(),
        "update" => parse_upd(v)?.to_string(),
        "id" => parse_id(v)?.to_string(),
        "side" => parse_side(v)?.to_string(),
        "tif" => parse_tif(v)?.to_string(),
        "peg" => parse_peg(v)?.to_string(),
        "tx" => parse_txrec(v)?.to_string(),
        "txlist" => {
            let mut r = MatchResult::new(OrderId::from_u64(0), 0);
            for t in parse_list(v, parse_txrec)? {
                r.transactions.add(t);
            }
            r.transactions.to_string()
        }
        "mr" => parse_mr(v)?.to_string(),
        "stats" => {
            let n: Vec<u64> = v.split(',').map(|x| x.parse().ok()).collect::<Option<Vec<u64>>>()?;
            if n.len() != 8 {
                return None;
            }
            stats_of(&n).to_string()
        }
        "snap" => {
            let n: Vec<u64> = v.split(',').map(|x| x.parse().ok()).collect::<Option<Vec<u64>>>()?;
            if n.len() != 4 {
                return None;
            }
            PriceLevelSnapshot { price: n[0], visible_quantity: n[1], hidden_quantity: n[2], order_count: n[3] as usize, orders: Vec::new() }
                .to_string()
        }
        "queue" => {
            let q = OrderQueue::from_vec(parse_list(v, parse_order)?.into_iter().map(Arc::new).collect());
            q.to_string()
        }
        "level" => {
            let (p, os) = v.split_once(';')?;
            let l = PriceLevel::new(p.parse().ok()?);
            for o in parse_list(os, parse_order)? {
                l.add_order(o);
            }
            l.to_string()
        }
        _ => return None,
    })
}

fn res<T>(r: Result<T, PriceLevelError>, f: impl Fn(&T) -> String) -> String {
    match r {
        Ok(v) => format!("ok {}", f(&v)),
        Err(e) => format!("err {}", err_kind(&e)),
    }
}

/// the crate's `from_str` outcome in canonical form (or PANIC)
pub fn parse_by_type(ty: &str, text: &str) -> Option<String> {
    let r = catch_unwind(AssertUnwindSafe(|| -> Option<String> {
        Some(match ty {
            "order" => res(Order::from_str(text), show_order),
            "update" => res(OrderUpdate::from_str(text), show_upd),
            "id" => res(OrderId::from_str(text), show_id),
            "side" => res(Side::from_str(text), |s| show_side(*s).to_string()),
            "tif" => res(TimeInForce::from_str(text), |t| show_tif(*t)),
            "peg" => res(PegReferenceType::from_str(text), |p| show_peg(*p).to_string()),
            "tx" => res(Transaction::from_str(text), show_txrec),
            "txlist" => {
                // TransactionList is not exported; reach its FromStr through a value's type
                let probe = MatchResult::new(OrderId::from_u64(0), 0).transactions;
                fn parse_as<T: FromStr>(_w: &T, s: &str) -> Result<T, T::Err> {
                    s.parse::<T>()
                }
                res(parse_as(&probe, text), |l| show_list(l.as_vec(), show_txrec))
            }
            "mr" => res(MatchResult::from_str(text), show_mr),
            "stats" => res(PriceLevelStatistics::from_str(text), show_stats_rec),
            "snap" => res(PriceLevelSnapshot::from_str(text), |s| {
                format!("{},{},{},{}", s.price, s.visible_quantity, s.hidden_quantity, s.order_count)
            }),
            "queue" => res(OrderQueue::from_str(text), |q| {
                let mut v: Vec<Order> = q.to_vec().iter().map(|a| **a).collect();
                canon_sort(&mut v);
                show_list(&v, show_order)
            }),
            "level" => res(PriceLevel::from_str(text), |l| {
                let mut v: Vec<Order> = l.iter_orders().iter().map(|a| **a).collect();
                canon_sort(&mut v);
                format!("{};{}", l.price(), show_list(&v, show_order))
            }),
            _ => return None,
        })
    }));
    match r {
        Ok(x) => x,
        Err(_) => Some("PANIC".to_string()),
    }
}

// ------------------------------------------------------------------------------------------ generators

const BOUNDS: [u64; 10] = [0, 1, 2, 9, 10, 80, 255, (1 << 53) + 1, u64::MAX - 1, u64::MAX];

fn num(r: &mut Rng) -> u64 {
    match r.below(4) {
        0 => *r.pick(&BOUNDS),
        1 => r.below(1000),
        2 => r.next() >> r.below(64),
        _ => r.below(20),
    }
}

fn rid(r: &mut Rng) -> OrderId {
    match r.below(6) {
        0 => OrderId::nil(),
        1 => OrderId::Ulid(ulid::Ulid(0)),
        2 => OrderId::Uuid(Uuid::from_u128(u128::MAX)),
        3 => OrderId::Ulid(ulid::Ulid(u128::MAX)),
        4 => OrderId::Uuid(Uuid::from_u128(((r.next() as u128) << 64) | r.next() as u128)),
        _ => OrderId::Ulid(ulid::Ulid(((r.next() as u128) << 64) | r.next() as u128)),
    }
}

fn rside(r: &mut Rng) -> Side {
    if r.chance(1, 2) { Side::Buy } else { Side::Sell }
}

fn rtif(r: &mut Rng) -> TimeInForce {
    match r.below(6) {
        0 => TimeInForce::Gtc,
        1 => TimeInForce::Ioc,
        2 => TimeInForce::Fok,
        3 => TimeInForce::Day,
        4 => TimeInForce::Gtd(*r.pick(&[0, 1, u64::MAX])),
        _ => TimeInForce::Gtd(num(r)),
    }
}

pub fn rorder(r: &mut Rng, ts: Option<u64>) -> Order {
    use pricelevel::OrderType::*;
    let (id, price, q, side, timestamp, time_in_force) = (rid(r), num(r), num(r), rside(r), ts.unwrap_or_else(|| num(r)), rtif(r));
    match r.below(7) {
        0 => Standard { id, price, quantity: q, side, timestamp, time_in_force, extra_fields: () },
        1 => PostOnly { id, price, quantity: q, side, timestamp, time_in_force, extra_fields: () },
        2 => MarketToLimit { id, price, quantity: q, side, timestamp, time_in_force, extra_fields: () },
        3 => TrailingStop { id, price, quantity: q, side, timestamp, time_in_force, trail_amount: num(r), last_reference_price: num(r), extra_fields: () },
        4 => PeggedOrder {
            id, price, quantity: q, side, timestamp, time_in_force,
            reference_price_offset: *r.pick(&[0i64, 1, -1, i64::MIN, i64::MAX, -42, 1234567]),
            reference_price_type: *r.pick(&[PegReferenceType::BestBid, PegReferenceType::BestAsk, PegReferenceType::MidPrice, PegReferenceType::LastTrade]),
            extra_fields: (),
        },
        5 => IcebergOrder { id, price, visible_quantity: q, hidden_quantity: num(r), side, timestamp, time_in_force, extra_fields: () },
        _ => ReserveOrder {
            id, price, visible_quantity: q, hidden_quantity: num(r), side, timestamp, time_in_force,
            replenish_threshold: num(r),
            replenish_amount: if r.chance(1, 3) { None } else { Some(num(r)) },
            auto_replenish: r.chance(1, 2),
            extra_fields: (),
        },
    }
}

fn rtx(r: &mut Rng) -> Transaction {
    Transaction {
        transaction_id: match r.below(3) { 0 => Uuid::nil(), 1 => Uuid::from_u128(u128::MAX), _ => Uuid::from_u128(((r.next() as u128) << 64) | r.next() as u128) },
        taker_order_id: rid(r),
        maker_order_id: rid(r),
        price: num(r),
        quantity: num(r),
        taker_side: rside(r),
        timestamp: num(r),
    }
}

/// one random value of the given codec type, in protocol form
pub fn rvalue(r: &mut Rng, ty: &str) -> String {
    match ty {
        "order" => show_order(&rorder(r, None)),
        "update" => show_upd(&match r.below(5) {
            0 => OrderUpdate::UpdatePrice { order_id: rid(r), new_price: num(r) },
            1 => OrderUpdate::UpdateQuantity { order_id: rid(r), new_quantity: num(r) },
            2 => OrderUpdate::UpdatePriceAndQuantity { order_id: rid(r), new_price: num(r), new_quantity: num(r) },
            3 => OrderUpdate::Cancel { order_id: rid(r) },
            _ => OrderUpdate::Replace { order_id: rid(r), price: num(r), quantity: num(r), side: rside(r) },
        }),
        "id" => show_id(&rid(r)),
        "side" => show_side(rside(r)).to_string(),
        "tif" => show_tif(rtif(r)),
        "peg" => r.pick(&["BB", "BA", "MP", "LT"]).to_string(),
        "tx" => show_txrec(&rtx(r)),
        "txlist" => {
            // list lengths: 0-3 mostly; one in 150 is long (a sweep of a deep level prints over a thousand)
            let n = if r.chance(1, 150) { r.range(1020, 1100) } else { r.below(4) };
            let v: Vec<Transaction> = (0..n).map(|_| rtx(r)).collect();
            show_list(&v, show_txrec)
        }
        "mr" => {
            // (long lists live in `txlist`, which this parser delegates to: the model's bracket scanner indexes a
            // linked list and would take minutes on a 200 kB match result)
            let n = r.below(3);
            let v: Vec<Transaction> = (0..n).map(|_| rtx(r)).collect();
            let m = r.below(3);
            let ids: Vec<OrderId> = (0..m).map(|_| rid(r)).collect();
            format!("{};{};{};{};{}", show_id(&rid(r)), num(r), r.below(2), show_list(&v, show_txrec), show_list(&ids, show_id))
        }
        "stats" => (0..8).map(|_| num(r).to_string()).collect::<Vec<_>>().join(","),
        "snap" => (0..4).map(|_| num(r).to_string()).collect::<Vec<_>>().join(","),
        "queue" | "level" => {
            // distinct ids and distinct timestamps, sums that fit; one queue value in 150 is long
            let n = if ty == "queue" && r.chance(1, 150) { r.range(1020, 1100) } else { r.below(4) };
            let mut v = Vec::new();
            // one short value in three has orders that SHARE a timestamp (same millisecond, unstamped, u64::MAX),
            // one in six has timestamps that decrease along the list
            let ties = n < 10 && r.chance(1, 3);
            let falling = n < 10 && !ties && r.chance(1, 5);
            let tie_ts = *r.pick(&[0u64, 10, u64::MAX]);
            for i in 0..n {
                let tsv = if ties && r.chance(2, 3) { tie_ts } else if falling { 100 - i * 3 } else { 10 + i * 3 + r.below(3) };
                let mut o = rorder(r, Some(tsv));
                // small quantities so that a level's sums fit in 64 bits; distinct ids
                o = match parse_order(&show_order(&o)) { Some(x) => x, None => o };
                let s = show_order(&o);
                let mut f: Vec<String> = s.split('|').map(|x| x.to_string()).collect();
                f[1] = show_id(&crate::gens::pool_id(100 + i));
                f[3] = r.below(1000).to_string();
                if f[0] == "I" || f[0] == "R" { f[7] = r.below(1000).to_string(); }
                v.push(parse_order(&f.join("|")).unwrap());
            }
            if ty == "queue" { show_list(&v, show_order) } else { format!("{};{}", num(r) % 100000, show_list(&v, show_order)) }
        }
        _ => String::new(),
    }
}

pub const TYPES: [&str; 13] = ["order", "update", "id", "side", "tif", "peg", "tx", "txlist", "mr", "stats", "snap", "queue", "level"];

// incl. characters of the Unicode numeric categories that are not ASCII digits (Arabic-Indic and fullwidth digits,
// superscript, fraction, Roman numeral, circled number): `char::is_numeric` accepts them, `to_digit(10)` does not
const ALPHABET: [&str; 47] = [
    ":", ";", "=", ",", "[", "]", "-", "+", "0", "9", "1", "a", "F", "G", "T", "D", "S", "é", "ſ", "ı", "😀", "ß", " ", "{", "}", "(", ")",
    "None", "true", "GTD-", "orders=[", "Transactions:[", "id=", "price=", "\u{212A}", "ﬁ", "Z", "u", "I", "L",
    "٣", "３", "²", "½", "Ⅷ", "①", "५",
];

/// character-level edits of a valid encoding (deletion, insertion, substitution, duplication of a
/// field, truncation)
pub fn mutate(r: &mut Rng, s: &str) -> String {
    let chars: Vec<char> = s.chars().collect();
    let n = chars.len();
    let mut out: String;
    match r.below(10) {
        0 if n > 0 => {
            let i = r.below(n as u64) as usize;
            out = chars[..i].iter().chain(chars[i + 1..].iter()).collect();
        }
        1 => {
            let i = r.below(n as u64 + 1) as usize;
            out = chars[..i].iter().collect();
            out.push_str(*r.pick(&ALPHABET[..]));
            out.extend(chars[i..].iter());
        }
        2 if n > 0 => {
            let i = r.below(n as u64) as usize;
            out = chars[..i].iter().collect();
            out.push_str(*r.pick(&ALPHABET[..]));
            out.extend(chars[i + 1..].iter());
        }
        3 => {
            let i = r.below(n as u64 + 1) as usize;
            out = chars[..i].iter().collect();
        }
        4 => {
            // duplicate one `;`-separated field (possibly with a changed value)
            let parts: Vec<&str> = s.split(';').collect();
            let k = r.below(parts.len() as u64) as usize;
            let mut p: Vec<String> = parts.iter().map(|x| x.to_string()).collect();
            let dup = if r.chance(1, 2) { parts[k].to_string() } else { format!("{}{}", parts[k], *r.pick(&ALPHABET[..])) };
            p.insert(r.below(p.len() as u64 + 1) as usize, dup);
            out = p.join(";");
        }
        6 => {
            // padding: many extra well-formed `key=value` pairs (repeated and unknown keys) at one field boundary
            let parts: Vec<&str> = s.split(';').collect();
            let k = r.below(parts.len() as u64 + 1) as usize;
            let count = *r.pick(&[1u64, 3, 7, 11, 17, 40, 300]);
            let mut p: Vec<String> = parts.iter().map(|x| x.to_string()).collect();
            for j in 0..count {
                let src = parts[r.below(parts.len() as u64) as usize];
                let pair = if r.chance(1, 2) && src.matches('=').count() == 1 && !src.contains([':', ',', '[', ']']) {
                    src.to_string()
                } else {
                    format!("zz{j}={}", r.below(100))
                };
                p.insert(k.min(p.len()), pair);
            }
            out = p.join(";");
        }
        5 => {
            // drop one field
            let parts: Vec<&str> = s.split(';').collect();
            let k = r.below(parts.len() as u64) as usize;
            out = parts.iter().enumerate().filter(|(i, _)| *i != k).map(|(_, x)| *x).collect::<Vec<_>>().join(";");
        }
        8 => {
            // the same fields in another order: two `;`-separated parts exchanged (the last field first, a list in the
            // middle moved to the very end, …)
            let mut p: Vec<String> = s.split(';').map(|x| x.to_string()).collect();
            if p.len() >= 2 {
                let i = r.below(p.len() as u64) as usize;
                let j = if r.chance(1, 2) { p.len() - 1 } else { r.below(p.len() as u64) as usize };
                // keep the type tag (`Name:first_key=…`) in front when the first part is involved
                if i != j && i.min(j) == 0 {
                    if let (Some((tag, a)), b) = (p[0].split_once(':').map(|(t, a)| (t.to_string(), a.to_string())), p[i.max(j)].clone()) {
                        p[0] = format!("{tag}:{b}");
                        let k = i.max(j);
                        p[k] = a;
                    }
                } else {
                    p.swap(i, j);
                }
            }
            out = p.join(";");
        }
        7 => {
            // replace one ASCII digit (of a number, a timestamp, an id) by a numeric character that is not an ASCII
            // digit, or put a sign in front of it
            let digits: Vec<usize> = (0..n).filter(|i| chars[*i].is_ascii_digit()).collect();
            if digits.is_empty() {
                out = s.to_string();
            } else {
                let i = *r.pick(&digits);
                out = chars[..i].iter().collect();
                out.push_str(*r.pick(&["٣", "３", "²", "½", "Ⅷ", "①", "५", "+", "-", "+1", "0x", "1e", "_"]));
                out.extend(chars[i + if r.chance(1, 2) { 1 } else { 0 }..].iter());
            }
        }
        _ => {
            let i = r.below(n as u64 + 1) as usize;
            let j = r.below(n as u64 + 1) as usize;
            let (a, b) = (i.min(j), i.max(j));
            out = chars[..a].iter().chain(chars[b..].iter()).collect();
        }
    }
    if r.chance(1, 5) {
        out = mutate(r, &out);
    }
    out
}

/// do two orders of a queue / level value carry the same timestamp?
pub fn has_tied_timestamps(ty: &str, v: &str) -> bool {
    let os = if ty == "level" { v.split_once(';').map(|x| x.1).unwrap_or(v) } else { v };
    let l = parse_list(os, parse_order).unwrap_or_default();
    let mut ts: Vec<u64> = l.iter().map(|o| o.timestamp()).collect();
    ts.sort_unstable();
    ts.windows(2).any(|w| w[0] == w[1])
}

/// protocol value of a queue / level with its orders in canonical order
pub fn canon_value(ty: &str, v: &str) -> String {
    let (pre, os) = if ty == "level" { match v.split_once(';') { Some((p, o)) => (format!("{p};"), o), None => (String::new(), v) } } else { (String::new(), v) };
    let mut l = parse_list(os, parse_order).unwrap_or_default();
    canon_sort(&mut l);
    format!("{pre}{}", show_list(&l, show_order))
}

/// E-codec op stream: valid round trips for every type, then malformed parses
pub fn gen_codec(seed: u64, n_valid: u64, n_bad: u64, out: &crate::gens::Sink) {
    let mut r = Rng::new(seed ^ 0x434f_4443);
    let mut case = 0u64;
    // every run holds two long lists (a sweep of a deep level prints over a thousand transactions)
    for (ty, n) in [("txlist", 1025u64), ("txlist", 1500)] {
        let v: Vec<Transaction> = (0..n).map(|_| rtx(&mut r)).collect();
        out.push(format!("case {case}"));
        case += 1;
        out.push(format!("txt.rt {ty} {}", show_list(&v, show_txrec)));
    }
    for ty in TYPES {
        for _ in 0..n_valid {
            let v = rvalue(&mut r, ty);
            out.push(format!("case {case}"));
            case += 1;
            out.push(format!("txt.rt {ty} {v}"));
        }
    }
    // values with very many elements (past 10 000 and past 65 536), one size per kind and run
    for kind in ["level-text", "queue-text", "mr-text"] {
        out.push(format!("case {case}"));
        case += 1;
        out.push(format!("big {kind} {}", r.pick(&[10_001u64, 20_000, 70_000])));
    }
    for ty in TYPES {
        for _ in 0..n_bad {
            let v = rvalue(&mut r, ty);
            let Some(text) = show_by_type(ty, &v) else { continue };
            let bad = mutate(&mut r, &text);
            out.push(format!("case {case}"));
            case += 1;
            out.push(format!("txt.parse {ty} {}", hex(&bad)).trim_end().to_string());
        }
    }
    // a list in which one order id occurs twice: an element repeated at the end, next to itself, or the whole list
    // doubled (every element parses; the queue / the level is built by pushing them in turn)
    for ty in ["queue", "level"] {
        for k in 0..60u64 {
            let v = rvalue(&mut r, ty);
            let Some(text) = show_by_type(ty, &v) else { continue };
            if text.len() > 4000 || !text.ends_with(']') { continue; }
            let Some(open) = text.rfind('[') else { continue };
            let body = &text[open + 1..text.len() - 1];
            if body.is_empty() { continue; }
            let els: Vec<&str> = body.split(',').collect();
            let i = r.below(els.len() as u64) as usize;
            let mut w: Vec<&str> = els.clone();
            match k % 3 {
                0 => w.push(els[i]),
                1 => w.insert(i, els[i]),
                _ => w.extend(els.iter().copied()),
            }
            let dup = format!("{}[{}]", &text[..open], w.join(","));
            out.push(format!("case {case}"));
            case += 1;
            out.push(format!("txt.parse {ty} {}", hex(&dup)));
        }
    }
    // every prefix of one valid encoding per type (a text cut right after a list, a field, a separator …)
    for ty in TYPES {
        let v = rvalue(&mut r, ty);
        let Some(text) = show_by_type(ty, &v) else { continue };
        let chars: Vec<char> = text.chars().collect();
        if chars.len() > 900 { continue; }
        for n in 0..chars.len() {
            let pre: String = chars[..n].iter().collect();
            out.push(format!("case {case}"));
            case += 1;
            out.push(format!("txt.parse {ty} {}", hex(&pre)).trim_end().to_string());
        }
    }
    // a second valid pass AFTER the rejected texts, on the same thread: a parser must not remember a failure
    for ty in TYPES {
        for _ in 0..(n_valid / 8).max(20) {
            let v = rvalue(&mut r, ty);
            if v.len() > 4000 { continue; }
            out.push(format!("case {case}"));
            case += 1;
            // a rejected text of the same type right before
            if let Some(text) = show_by_type(ty, &rvalue(&mut r, ty)) {
                if text.len() < 4000 {
                    out.push(format!("txt.parse {ty} {}", hex(&mutate(&mut r, &text))).trim_end().to_string());
                }
            }
            out.push(format!("txt.rt {ty} {v}"));
        }
    }
}

/// `big <kind> <n>`: round trip of a value with `n` elements through the library's own encoder and decoder.
/// Returns "ok <n>" when decode(encode v) has `n` elements and encodes to the same text again, otherwise what went wrong.
pub fn big_round_trip(kind: &str, n: u64) -> String {
    use std::str::FromStr;
    let order = |i: u64| -> Order {
        let id = OrderId::from_u64(i + 1);
        match i % 3 {
            0 => OrderType::Standard { id, price: 100, quantity: i % 97 + 1, side: Side::Sell, timestamp: i, time_in_force: TimeInForce::Gtc, extra_fields: () },
            1 => OrderType::IcebergOrder { id, price: 100, visible_quantity: i % 7 + 1, hidden_quantity: i % 11, side: Side::Buy, timestamp: i, time_in_force: TimeInForce::Day, extra_fields: () },
            _ => OrderType::ReserveOrder { id, price: 100, visible_quantity: i % 5 + 1, hidden_quantity: i % 13, side: Side::Sell, timestamp: i, time_in_force: TimeInForce::Gtc,
                                           replenish_threshold: 1, replenish_amount: Some(i % 4), auto_replenish: i % 2 == 0, extra_fields: () },
        }
    };
    let tx = |i: u64| Transaction { transaction_id: Uuid::from_u128(i as u128 + 7), taker_order_id: OrderId::from_u64(900), maker_order_id: OrderId::from_u64(i + 1),
                                    price: 100, quantity: i % 9 + 1, taker_side: Side::Buy, timestamp: i };
    let level = || { let l = PriceLevel::new(100); for i in 0..n { l.add_order(order(i)); } l };
    let verdict = |got: Result<(usize, String), String>, first: &str| match got {
        Err(e) => format!("err {}", e.replace(' ', "_").chars().take(80).collect::<String>()),
        Ok((len, again)) => if len as u64 != n { format!("lost {len}") } else if again != first { "differs".to_string() } else { format!("ok {n}") },
    };
    match kind {
        "snap-json" => {
            let l = level();
            let first = serde_json::to_string(&l.snapshot()).unwrap_or_default();
            verdict(serde_json::from_str::<pricelevel::PriceLevelSnapshot>(&first).map_err(|e| e.to_string())
                .and_then(|s| serde_json::to_string(&s).map(|t| (s.orders.len(), t)).map_err(|e| e.to_string())), &first)
        }
        "pkg-json" => {
            let l = level();
            let first = l.snapshot_to_json().unwrap_or_default();
            verdict(PriceLevel::from_snapshot_json(&first).map_err(|e| e.to_string())
                .and_then(|l2| l2.snapshot_to_json().map(|t| (l2.order_count(), t)).map_err(|e| e.to_string())), &first)
        }
        "level-json" => {
            let l = level();
            let first = serde_json::to_string(&l).unwrap_or_default();
            verdict(serde_json::from_str::<PriceLevel>(&first).map_err(|e| e.to_string())
                .and_then(|l2| serde_json::to_string(&l2).map(|t| (l2.order_count(), t)).map_err(|e| e.to_string())), &first)
        }
        "queue-json" => {
            let q = OrderQueue::from_vec((0..n).map(|i| Arc::new(order(i))).collect());
            let first = q.to_string();
            let j = serde_json::to_string(&q).unwrap_or_default();
            verdict(serde_json::from_str::<OrderQueue>(&j).map(|q2| (q2.to_vec().len(), q2.to_string())).map_err(|e| e.to_string()), &first)
        }
        "mr-json" => {
            let mut m = MatchResult::new(OrderId::from_u64(900), 0);
            for i in 0..n { m.add_transaction(tx(i)); m.filled_order_ids.push(OrderId::from_u64(i + 1)); }
            let first = serde_json::to_string(&m).unwrap_or_default();
            verdict(serde_json::from_str::<MatchResult>(&first).map_err(|e| e.to_string())
                .and_then(|m2| serde_json::to_string(&m2).map(|t| (m2.transactions.as_vec().len(), t)).map_err(|e| e.to_string())), &first)
        }
        "level-text" => {
            let first = level().to_string();
            verdict(PriceLevel::from_str(&first).map(|l2| (l2.order_count(), l2.to_string())).map_err(|e| e.to_string()), &first)
        }
        "queue-text" => {
            let first = OrderQueue::from_vec((0..n).map(|i| Arc::new(order(i))).collect()).to_string();
            verdict(OrderQueue::from_str(&first).map(|q2| (q2.to_vec().len(), q2.to_string())).map_err(|e| e.to_string()), &first)
        }
        "mr-text" => {
            let mut m = MatchResult::new(OrderId::from_u64(900), 0);
            for i in 0..n { m.add_transaction(tx(i)); m.filled_order_ids.push(OrderId::from_u64(i + 1)); }
            let first = m.to_string();
            verdict(MatchResult::from_str(&first).map(|m2| (m2.transactions.as_vec().len(), m2.to_string())).map_err(|e| e.to_string()), &first)
        }
        _ => "bad-kind".to_string(),
    }
}

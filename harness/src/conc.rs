//! E-conc (DESIGN §4.5): real threads under a deterministic scheduler. With feature `verif` every
//! shared-memory operation of the crate calls `before` (the scheduling point) and `after` (the
//! log). A controller admits exactly one worker per step, following a schedule; between steps it
//! reads the three aggregates directly.
use crate::proto::*;
use crate::run::{show_match, TxIds};
use pricelevel::verif::{set_hook, set_worker, Hook};
use pricelevel::{OrderId, OrderUpdate, PriceLevel, UuidGenerator};
use std::collections::HashMap;
use std::sync::{Arc, Condvar, Mutex};

#[derive(Clone, Copy, PartialEq, Debug)]
enum WState {
    Running,
    Waiting,
    Finished,
}

struct Shared {
    states: Vec<WState>,
    granted: Option<usize>,
    trace: Vec<(usize, usize, &'static str, String)>,
    /// the controller gave up (step budget / no progress): workers run on unscheduled and unlogged
    abort: bool,
}

pub struct Sched {
    m: Mutex<Shared>,
    cv: Condvar,
}

impl Hook for Sched {
    fn before(&self, w: usize, _obj: usize, _op: &'static str) {
        let mut g = self.m.lock().unwrap();
        if g.abort {
            return;
        }
        g.states[w] = WState::Waiting;
        self.cv.notify_all();
        while g.granted != Some(w) && !g.abort {
            g = self.cv.wait(g).unwrap();
        }
        if g.abort {
            return;
        }
        g.granted = None;
        g.states[w] = WState::Running;
    }
    fn after(&self, w: usize, obj: usize, op: &'static str, detail: String) {
        let mut g = self.m.lock().unwrap();
        if !g.abort {
            g.trace.push((w, obj, op, detail));
        }
    }
}

#[derive(Clone, Debug)]
pub enum COp {
    Add(Order),
    Match(u64, OrderId),
    Cancel(OrderId),
    Amend(OrderId, u64),
    /// the other update kinds: `away` = with a price different from the level's (removes like a cancel), otherwise
    /// the level's own price (amends like UpdateQuantity). kind: 0 UpdatePrice, 1 UpdatePriceAndQuantity, 2 Replace
    Upd { kind: u8, id: OrderId, price: u64, qty: u64, side: pricelevel::Side, away: bool },
    Read(String),
    /// `PriceLevel::snapshot()` is one call with four shared-memory steps (three loads, one map iteration); it is run
    /// as four program entries - part 0 makes the call, parts 1-3 hand out the other three figures it returned - so
    /// that the model's four one-step reads line up with it step for step
    Snap(u8),
    Next,
}

/// one program entry of the line protocol, possibly several entries of the worker's program
pub fn parse_cops(s: &str) -> Option<Vec<COp>> {
    if s == "read snap" {
        return Some(vec![COp::Snap(0), COp::Snap(1), COp::Snap(2), COp::Snap(3)]);
    }
    parse_cop(s).map(|c| vec![c])
}

pub fn parse_cop(s: &str) -> Option<COp> {
    let t: Vec<&str> = s.split(' ').collect();
    Some(match t.as_slice() {
        ["add", o] => COp::Add(parse_order(o)?),
        ["match", q, id] => COp::Match(q.parse().ok()?, parse_id(id)?),
        ["cancel", id] => COp::Cancel(parse_id(id)?),
        ["amend", id, n] => COp::Amend(parse_id(id)?, n.parse().ok()?),
        ["mv.price", id, p] => COp::Upd { kind: 0, id: parse_id(id)?, price: p.parse().ok()?, qty: 0, side: pricelevel::Side::Buy, away: true },
        ["mv.pq", id, p, n] => COp::Upd { kind: 1, id: parse_id(id)?, price: p.parse().ok()?, qty: n.parse().ok()?, side: pricelevel::Side::Buy, away: true },
        ["mv.replace", id, p, n, sd] => COp::Upd { kind: 2, id: parse_id(id)?, price: p.parse().ok()?, qty: n.parse().ok()?, side: parse_side(sd)?, away: true },
        ["same.pq", id, n] => COp::Upd { kind: 1, id: parse_id(id)?, price: 0, qty: n.parse().ok()?, side: pricelevel::Side::Buy, away: false },
        ["same.replace", id, n, sd] => COp::Upd { kind: 2, id: parse_id(id)?, price: 0, qty: n.parse().ok()?, side: parse_side(sd)?, away: false },
        ["read", k] => COp::Read(k.to_string()),
        ["next"] => COp::Next,
        _ => return None,
    })
}

/// `Uuid(xxxxxxxx-xxxx-…)` / `Ulid(Ulid(n))` (Debug of OrderId) -> canonical `u<dec>` / `l<dec>`
fn canon_id_debug(s: &str) -> String {
    if let Some(h) = s.strip_prefix("Uuid(").and_then(|x| x.strip_suffix(')')) {
        let hex: String = h.chars().filter(|c| *c != '-').collect();
        if let Ok(n) = u128::from_str_radix(&hex, 16) {
            return format!("u{n}");
        }
    }
    if let Some(h) = s.strip_prefix("Ulid(Ulid(").and_then(|x| x.strip_suffix("))")) {
        return format!("l{h}");
    }
    s.to_string()
}

fn canon_detail(op: &str, d: &str) -> String {
    match op {
        "fetch_add" | "fetch_sub" => d.replace(" -> ", "->"),
        "load" => d.replace("-> ", "->"),
        "store" => String::new(),
        "map.insert" | "map.remove" | "map.get" => {
            let (k, r) = d.split_once(" -> ").unwrap_or((d, ""));
            format!("{}->{}", canon_id_debug(k), r)
        }
        "q.push" => canon_id_debug(d),
        "q.pop" => {
            let r = d.strip_prefix("-> ").unwrap_or(d);
            format!("->{}", if r == "none" { "none".to_string() } else { canon_id_debug(r) })
        }
        _ => d.replace(' ', ""),
    }
}

pub struct ConcResult {
    pub schedule: Vec<usize>,
    pub trace: Vec<String>,
    pub rets: Vec<Vec<String>>,
    pub obs: Vec<String>,
    pub hung: bool,
}

type Results = Arc<Mutex<Vec<Vec<(String, Option<pricelevel::MatchResult>)>>>>;

/// one worker: registers, runs its program call by call (every call under catch_unwind), reports Finished
fn worker(w: usize, prog: Vec<COp>, lvl: &PriceLevel, generator: &UuidGenerator, sched: &Sched, results: &Results) {
    set_worker(Some(w));
    let mut snap: Option<pricelevel::PriceLevelSnapshot> = None;
    for op in prog {
        if let COp::Snap(part) = &op {
            if *part == 0 {
                snap = std::panic::catch_unwind(std::panic::AssertUnwindSafe(|| lvl.snapshot())).ok();
            }
            let r = match (&snap, part) {
                (None, _) => "PANIC".to_string(),
                (Some(s), 0) => s.visible_quantity.to_string(),
                (Some(s), 1) => s.hidden_quantity.to_string(),
                (Some(s), 2) => s.order_count.to_string(),
                (Some(s), _) => {
                    let mut v: Vec<Order> = s.orders.iter().map(|a| **a).collect();
                    canon_sort(&mut v);
                    show_list(&v, show_order)
                }
            };
            results.lock().unwrap()[w].push((r, None));
            continue;
        }
        let r = std::panic::catch_unwind(std::panic::AssertUnwindSafe(|| -> (String, Option<pricelevel::MatchResult>) {
            match &op {
                COp::Add(o) => {
                    lvl.add_order(*o);
                    ("ok".to_string(), None)
                }
                COp::Match(q, t) => ("m".to_string(), Some(lvl.match_order(*q, *t, generator))),
                COp::Cancel(id) => match lvl.update_order(OrderUpdate::Cancel { order_id: *id }) {
                    Ok(o) => (format!("ok={}", show_opt_order(o.as_deref())), None),
                    Err(e) => (format!("err={}", e.to_string().replace(' ', "_")), None),
                },
                COp::Amend(id, n) => match lvl.update_order(OrderUpdate::UpdateQuantity { order_id: *id, new_quantity: *n }) {
                    Ok(o) => (format!("ok={}", show_opt_order(o.as_deref())), None),
                    Err(e) => (format!("err={}", e.to_string().replace(' ', "_")), None),
                },
                COp::Upd { kind, id, price, qty, side, away } => {
                    // `away`: the given price (the generator makes it differ from the level's); otherwise the level's own
                    let p = if *away { *price } else { lvl.price() };
                    let u = match kind {
                        0 => OrderUpdate::UpdatePrice { order_id: *id, new_price: p },
                        1 => OrderUpdate::UpdatePriceAndQuantity { order_id: *id, new_price: p, new_quantity: *qty },
                        _ => OrderUpdate::Replace { order_id: *id, price: p, quantity: *qty, side: *side },
                    };
                    match lvl.update_order(u) {
                        Ok(o) => (format!("ok={}", show_opt_order(o.as_deref())), None),
                        Err(e) => (format!("err={}", e.to_string().replace(' ', "_")), None),
                    }
                }
                COp::Read(k) => (
                    match k.as_str() {
                        "vis" => lvl.visible_quantity().to_string(),
                        "hid" => lvl.hidden_quantity().to_string(),
                        "cnt" => lvl.order_count().to_string(),
                        _ => {
                            let mut v: Vec<Order> = lvl.iter_orders().iter().map(|a| **a).collect();
                            canon_sort(&mut v);
                            show_list(&v, show_order)
                        }
                    },
                    None,
                ),
                COp::Next => (format!("{}", generator.next()), None),
                COp::Snap(_) => unreachable!(),
            }
        }));
        let r = r.unwrap_or_else(|_| ("PANIC".to_string(), None));
        results.lock().unwrap()[w].push(r);
    }
    set_worker(None);
    let mut g = sched.m.lock().unwrap();
    g.states[w] = WState::Finished;
    sched.cv.notify_all();
}

/// the controller: admits one waiting worker per step following `want`, reads the aggregates between steps;
/// returns (schedule followed, aggregates seen, gave up)
fn control(sched: &Sched, lvl: &PriceLevel, n: usize, want: &[usize], step_budget: usize) -> (Vec<usize>, Vec<String>, bool) {
    let mut schedule = Vec::new();
    let mut obs = Vec::new();
    let mut wi = 0usize;
    let mut hung = false;
    loop {
        let mut g = sched.m.lock().unwrap();
        let deadline = std::time::Instant::now() + std::time::Duration::from_secs(10);
        while g.granted.is_some() || g.states.iter().any(|s| *s == WState::Running) {
            let (g2, to) = sched.cv.wait_timeout(g, std::time::Duration::from_millis(200)).unwrap();
            g = g2;
            if to.timed_out() && std::time::Instant::now() > deadline {
                hung = true;
                break;
            }
        }
        if hung {
            g.abort = true;
            sched.cv.notify_all();
            break;
        }
        let (v, h, c) = lvl.verif_raw();
        obs.push(format!("{v}/{h}/{c}"));
        let waiting: Vec<usize> = (0..n).filter(|i| g.states[*i] == WState::Waiting).collect();
        if waiting.is_empty() {
            break;
        }
        if schedule.len() >= step_budget {
            hung = true;
            g.abort = true;
            sched.cv.notify_all();
            break;
        }
        let pick = match want.get(wi) {
            Some(w) if waiting.contains(w) => *w,
            _ => waiting[0],
        };
        wi += 1;
        schedule.push(pick);
        g.granted = Some(pick);
        sched.cv.notify_all();
    }
    (schedule, obs, hung)
}

/// runs the threads' programs on `lvl` under `want` (a list of thread indices; when the wanted
/// thread is not waiting, the lowest waiting one runs instead; the schedule actually followed is
/// returned and is what the model is given)
pub fn run_conc(
    lvl: Arc<PriceLevel>,
    generator: Arc<UuidGenerator>,
    progs: Vec<Vec<COp>>,
    want: &[usize],
    home0: bool,
    txids: &mut TxIds,
    step_budget: usize,
) -> ConcResult {
    let n = progs.len();
    let sched = Arc::new(Sched {
        m: Mutex::new(Shared { states: vec![WState::Running; n], granted: None, trace: Vec::new(), abort: false }),
        cv: Condvar::new(),
    });
    // object names
    let mut names: HashMap<usize, &'static str> = HashMap::new();
    let objs = lvl.verif_objects();
    names.insert(objs[0], "vis");
    names.insert(objs[1], "hid");
    names.insert(objs[2], "cnt");
    names.insert(generator.verif_counter_addr(), "uuid");
    let st = lvl.stats();
    names.insert(st.orders_added.verif_addr(), "st.added");
    names.insert(st.orders_removed.verif_addr(), "st.removed");
    names.insert(st.orders_executed.verif_addr(), "st.executed");
    names.insert(st.quantity_executed.verif_addr(), "st.qty");
    names.insert(st.value_executed.verif_addr(), "st.value");
    names.insert(st.last_execution_time.verif_addr(), "st.last");
    names.insert(st.first_arrival_time.verif_addr(), "st.first");
    names.insert(st.sum_waiting_time.verif_addr(), "st.wait");

    set_hook(Some(sched.clone() as Arc<dyn Hook>));
    let results: Results = Arc::new(Mutex::new(vec![Vec::new(); n]));
    // Thread affinity: with `home0` worker 0 is NOT a fresh thread but the calling thread itself - the thread
    // that constructed (or deserialized) the level and the id generator - and the controller runs on a thread of
    // its own; otherwise all workers are fresh threads and the constructing thread is the controller.
    let home0 = n > 0 && home0;
    let mut handles = Vec::new();
    let mut prog0 = None;
    for (w, prog) in progs.into_iter().enumerate() {
        if w == 0 && home0 {
            prog0 = Some(prog);
            continue;
        }
        let (lvl, generator, sched, results) = (lvl.clone(), generator.clone(), sched.clone(), results.clone());
        handles.push(std::thread::spawn(move || worker(w, prog, &lvl, &generator, &sched, &results)));
    }
    let (schedule, obs, hung) = if let Some(prog) = prog0 {
        let (l2, s2, w2) = (lvl.clone(), sched.clone(), want.to_vec());
        let ctl = std::thread::spawn(move || control(&s2, &l2, n, &w2, step_budget));
        worker(0, prog, &lvl, &generator, &sched, &results);
        ctl.join().unwrap_or((Vec::new(), Vec::new(), true))
    } else {
        control(&sched, &lvl, n, want, step_budget)
    };
    if !hung {
        for h in handles {
            let _ = h.join();
        }
    }
    set_hook(None);
    let g = sched.m.lock().unwrap();
    let trace: Vec<String> = g
        .trace
        .iter()
        .map(|(w, obj, op, d)| {
            let name = names.get(obj).copied().unwrap_or(if op.starts_with("map.") { "map" } else if op.starts_with("q.") { "q" } else { "?" });
            let opn = op.strip_prefix("map.").or(op.strip_prefix("q.")).unwrap_or(op);
            let detail = if name == "st.wait" || name == "st.last" || name == "st.first" { String::new() } else { canon_detail(op, d) };
            format!("t{w}:{name}.{opn}:{detail}")
        })
        .collect();
    let res = results.lock().unwrap();
    let rets: Vec<Vec<String>> = res
        .iter()
        .map(|v| {
            v.iter()
                .map(|(s, m)| match m {
                    Some(mr) => show_match(mr, txids).replace(' ', "~"),
                    None => {
                        // `next` returns a uuid: map it back to its counter
                        if let Ok(u) = uuid::Uuid::parse_str(s) { txids.counter_of(&u) } else { s.clone() }
                    }
                })
                .collect()
        })
        .collect();
    ConcResult { schedule, trace, rets, obs, hung }
}

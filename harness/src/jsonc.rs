//! E-codec JSON half and E-snap (DESIGN §4.3, §4.4): serde_json encodings of every serde-enabled
//! type, and snapshot packages under faults.
use crate::codec::*;
use crate::proto::*;
use crate::rng::Rng;
use pricelevel::{
    MatchResult, OrderId, OrderUpdate, PegReferenceType, PriceLevel, PriceLevelData, PriceLevelSnapshot, PriceLevelSnapshotPackage,
    PriceLevelStatistics, Side, TimeInForce, Transaction,
};
use std::panic::{catch_unwind, AssertUnwindSafe};
use std::sync::Arc;

fn nums(s: &str) -> Option<Vec<u64>> {
    s.split(',').map(|x| x.parse().ok()).collect()
}

fn parse_snap(v: &str) -> Option<PriceLevelSnapshot> {
    let (ns, os) = v.split_once(';')?;
    let n = nums(ns)?;
    if n.len() != 4 {
        return None;
    }
    let inner = os.strip_prefix('[')?.strip_suffix(']')?;
    let mut orders = Vec::new();
    if !inner.is_empty() {
        for t in inner.split(',') {
            orders.push(Arc::new(parse_order(t)?));
        }
    }
    Some(PriceLevelSnapshot { price: n[0], visible_quantity: n[1], hidden_quantity: n[2], order_count: n[3] as usize, orders })
}

fn show_snap(s: &PriceLevelSnapshot) -> String {
    let os: Vec<Order> = s.orders.iter().map(|a| **a).collect();
    format!("{},{},{},{};{}", s.price, s.visible_quantity, s.hidden_quantity, s.order_count, show_list(&os, show_order))
}

fn stats_of(v: &[u64]) -> PriceLevelStatistics {
    let s = PriceLevelStatistics::new();
    use std::sync::atomic::Ordering::Relaxed;
    s.orders_added.store(v[0] as usize, Relaxed);
    s.orders_removed.store(v[1] as usize, Relaxed);
    s.orders_executed.store(v[2] as usize, Relaxed);
    s.quantity_executed.store(v[3], Relaxed);
    s.value_executed.store(v[4], Relaxed);
    s.last_execution_time.store(v[5], Relaxed);
    s.first_arrival_time.store(v[6], Relaxed);
    s.sum_waiting_time.store(v[7], Relaxed);
    s
}

fn js<T: serde::Serialize>(v: &T) -> Option<String> {
    serde_json::to_string(v).ok()
}

/// `serde_json::to_string` of the value given in protocol form
pub fn enc_by_type(ty: &str, v: &str) -> Option<String> {
    match ty {
        "order" => js(&parse_order(v)?),
        "update" => {
            let t: Vec<&str> = v.split(':').collect();
            js(&parse_update(&t)?)
        }
        "id" => js(&parse_id(v)?),
        "side" => js(&parse_side(v)?),
        "tif" => js(&parse_tif(v)?),
        "peg" => js(&parse_peg(v)?),
        "tx" => js(&parse_txrec_pub(v)?),
        "mr" => js(&parse_mr_pub(v)?),
        "stats" => {
            let n = nums(v)?;
            if n.len() != 8 { return None; }
            js(&stats_of(&n))
        }
        "snapj" => js(&parse_snap(v)?),
        "leveldata" => {
            let s = parse_snap(v)?;
            js(&PriceLevelData {
                price: s.price, visible_quantity: s.visible_quantity, hidden_quantity: s.hidden_quantity,
                order_count: s.order_count, orders: s.orders.iter().map(|a| **a).collect(),
            })
        }
        "pkg" => {
            let f: Vec<&str> = v.split('#').collect();
            if f.len() != 3 { return None; }
            js(&PriceLevelSnapshotPackage { version: f[0].parse().ok()?, snapshot: parse_snap(f[1])?, checksum: f[2].to_string() })
        }
        _ => None,
    }
}

fn d<T>(r: Result<T, serde_json::Error>, f: impl Fn(&T) -> String) -> String {
    match r {
        Ok(v) => format!("ok {}", f(&v)),
        Err(_) => "err".to_string(),
    }
}

/// the roads a JSON text can take into serde: 0 = `from_str`, 1 = parsed to a `Value` first, 2 = from a
/// reader, 3 = `from_str` of the same document with every string character written as a \uXXXX escape
fn road<T: serde::de::DeserializeOwned>(text: &str, route: u8) -> Result<T, serde_json::Error> {
    match route {
        0 => serde_json::from_str(text),
        1 => serde_json::from_str::<serde_json::Value>(text).and_then(serde_json::from_value),
        2 => serde_json::from_reader(std::io::Cursor::new(text.as_bytes())),
        _ => serde_json::from_str(&escape_strings(text)),
    }
}

/// `serde_json::from_str` outcome in canonical form (or PANIC)
pub fn dec_by_type(ty: &str, text: &str) -> Option<String> {
    dec_by_type_road(ty, text, 0)
}

pub fn dec_by_type_road(ty: &str, text: &str, route: u8) -> Option<String> {
    let r = catch_unwind(AssertUnwindSafe(|| -> Option<String> {
        Some(match ty {
            "order" => d(road::<Order>(text, route), show_order),
            "update" => d(road::<OrderUpdate>(text, route), show_upd),
            "id" => d(road::<OrderId>(text, route), show_id),
            "side" => d(road::<Side>(text, route), |s| show_side(*s).to_string()),
            "tif" => d(road::<TimeInForce>(text, route), |t| show_tif(*t)),
            "peg" => d(road::<PegReferenceType>(text, route), |p| show_peg(*p).to_string()),
            "tx" => d(road::<Transaction>(text, route), show_txrec),
            "mr" => d(road::<MatchResult>(text, route), show_mr),
            "stats" => d(road::<PriceLevelStatistics>(text, route), |s| {
                format!("{},{},{},{},{},{},{},{}", s.orders_added.verif_raw(), s.orders_removed.verif_raw(), s.orders_executed.verif_raw(),
                    s.quantity_executed.verif_raw(), s.value_executed.verif_raw(), s.last_execution_time.verif_raw(),
                    s.first_arrival_time.verif_raw(), s.sum_waiting_time.verif_raw())
            }),
            "snapj" => d(road::<PriceLevelSnapshot>(text, route), show_snap),
            "leveldata" => d(road::<PriceLevel>(text, route), |l| {
                let mut v: Vec<Order> = l.iter_orders().iter().map(|a| **a).collect();
                canon_sort(&mut v);
                format!("{},{},{},{};{}", l.price(), l.visible_quantity(), l.hidden_quantity(), l.order_count(), show_list(&v, show_order))
            }),
            "pkg" => d(road::<PriceLevelSnapshotPackage>(text, route), |p| format!("{}#{}#{}", p.version, show_snap(&p.snapshot), p.checksum)),
            _ => return None,
        })
    }));
    match r {
        Ok(x) => x,
        Err(_) => Some("PANIC".to_string()),
    }
}

pub const JTYPES: [&str; 12] = ["order", "update", "id", "side", "tif", "peg", "tx", "mr", "stats", "snapj", "leveldata", "pkg"];

fn rsnap(r: &mut Rng, consistent: bool, allow_huge: bool) -> String {
    let n = r.below(4);
    // (not for E-snap: a level whose sums pass 2^64 is outside the snapshot properties' quantifier — its own
    // package saturates what the live counters wrapped)
    let huge = r.chance(1, 8) && allow_huge;
    let mut v: Vec<Order> = Vec::new();
    // one value in three (E-json only) has orders that SHARE a timestamp (same millisecond, unstamped, u64::MAX)
    let ties = allow_huge && r.chance(1, 3);
    let tie_ts = *r.pick(&[0u64, 10, u64::MAX]);
    for i in 0..n {
        let tsv = if ties && r.chance(2, 3) { tie_ts } else { 10 + i * 3 };
        let o = rorder(r, Some(tsv));
        let s = show_order(&o);
        let mut f: Vec<String> = s.split('|').map(|x| x.to_string()).collect();
        f[1] = show_id(&crate::gens::pool_id(100 + i));
        // quantities: mostly small; one value in eight is made of 64-bit giants whose sums pass 2^64 (a live
        // level's counters wrap, so must whatever is rebuilt from its JSON)
        let q = |r: &mut Rng| if huge { u64::MAX - r.below(1000) } else { r.below(1000) };
        f[3] = q(r).to_string();
        if f[0] == "I" || f[0] == "R" { f[7] = q(r).to_string(); }
        v.push(parse_order(&f.join("|")).unwrap());
    }
    // a snapshot value is any vector of orders: half of the time not in timestamp order (a codec must
    // not reorder, drop or merge them)
    if r.chance(1, 2) {
        for i in (1..v.len()).rev() {
            let j = r.below(i as u64 + 1) as usize;
            v.swap(i, j);
        }
    }
    let (vis, hid): (u64, u64) = v.iter().fold((0u64, 0u64), |a, o| (a.0.wrapping_add(o.visible_quantity()), a.1.wrapping_add(o.hidden_quantity())));
    if consistent {
        format!("{},{},{},{};{}", r.below(100000), vis, hid, v.len(), show_list(&v, show_order))
    } else {
        format!("{},{},{},{};{}", r.below(100000), r.below(5000), r.below(5000), r.below(9), show_list(&v, show_order))
    }
}

pub fn rjvalue(r: &mut Rng, ty: &str) -> String {
    match ty {
        "snapj" | "leveldata" => {
            let c = r.chance(1, 2);
            rsnap(r, c, true)
        }
        "pkg" => {
            let s = rsnap(r, true, true);
            let snap = parse_snap(&s).unwrap();
            match PriceLevelSnapshotPackage::new(snap) {
                Ok(p) => format!("{}#{}#{}", if r.chance(1, 6) { 2 } else { p.version }, show_snap(&p.snapshot), if r.chance(1, 6) { "00ff".to_string() } else { p.checksum }),
                Err(_) => format!("1#{s}#00"),
            }
        }
        _ => rvalue(r, ty),
    }
}

/// op stream: JSON round trips for every serde type, then faults on snapshot packages
pub fn gen_json(seed: u64, n_valid: u64, out: &crate::gens::Sink) {
    let mut r = Rng::new(seed ^ 0x4a53_4f4e);
    let mut case = 0u64;
    for ty in JTYPES {
        for _ in 0..n_valid {
            let v = rjvalue(&mut r, ty);
            out.push(format!("case {case}"));
            case += 1;
            out.push(format!("json.rt {ty} {v}"));
        }
    }
    // a decode that FAILS part-way (the library's own JSON cut short) and right after it, on the same thread, a valid
    // round trip: a decoder must not remember a failure
    for ty in JTYPES {
        for _ in 0..(n_valid / 10).max(12) {
            let v = rjvalue(&mut r, ty);
            let Some(text) = enc_by_type(ty, &v) else { continue };
            let chars: Vec<char> = text.chars().collect();
            if chars.len() < 2 { continue; }
            // cut points: biased towards the second half (inside or after the first list elements)
            let cut = if r.chance(2, 3) { chars.len() / 2 + r.below((chars.len() / 2) as u64) as usize } else { r.below(chars.len() as u64) as usize };
            let pre: String = chars[..cut.min(chars.len() - 1).max(1)].iter().collect();
            out.push(format!("case {case}"));
            case += 1;
            out.push(format!("json.dec {ty} {}", crate::codec::hex(&pre)).trim_end().to_string());
            let v2 = rjvalue(&mut r, ty);
            out.push(format!("json.rt {ty} {v2}"));
        }
    }
    // an order array in which one id occurs twice (an element repeated at the end / at the front, the array doubled):
    // every element decodes; the level is built by pushing them in turn
    for ty in ["snapj", "leveldata"] {
        for k in 0..45u64 {
            let v = rjvalue(&mut r, ty);
            let Some(text) = enc_by_type(ty, &v) else { continue };
            if text.len() > 6000 { continue; }
            let Ok(mut doc) = serde_json::from_str::<serde_json::Value>(&text) else { continue };
            let Some(arr) = doc.get_mut("orders").and_then(|a| a.as_array_mut()) else { continue };
            if arr.is_empty() { continue; }
            let i = r.below(arr.len() as u64) as usize;
            let e = arr[i].clone();
            match k % 3 {
                0 => arr.push(e),
                1 => arr.insert(0, e),
                _ => { let c = arr.clone(); arr.extend(c); }
            }
            out.push(format!("case {case}"));
            case += 1;
            out.push(format!("json.dec {ty} {}", crate::codec::hex(&doc.to_string())));
        }
    }
    // values with very many elements (past 10 000 and past 65 536), one size per kind and run
    for kind in ["snap-json", "pkg-json", "level-json", "queue-json", "mr-json"] {
        out.push(format!("case {case}"));
        case += 1;
        out.push(format!("big {kind} {}", r.pick(&[10_001u64, 20_000, 70_000])));
    }
}

/// E-snap: levels, their packages, and faults (kinds named in the op; applied by `run`)
pub fn gen_snap(seed: u64, nlevels: u64, subs_per_level: u64, exhaustive: bool, out: &crate::gens::Sink) {
    let mut r = Rng::new(seed ^ 0x534e_4150);
    let mut case = 0u64;
    for _ in 0..nlevels {
        let s = rsnap(&mut r, true, false);
        let snap = parse_snap(&s).unwrap();
        let header = |out: &crate::gens::Sink, case: &mut u64| {
            out.push(format!("case {case}"));
            *case += 1;
            out.push(format!("new {}", snap.price));
            for o in &snap.orders {
                out.push(format!("add {}", show_order(o)));
            }
            out.push("pkg.make".to_string());
        };
        // length of the package text, to place faults
        let lvl = PriceLevel::new(snap.price);
        for o in &snap.orders { lvl.add_order(**o); }
        let text = lvl.snapshot_to_json().unwrap_or_default();
        let n = text.len() as u64;
        // every truncation point
        header(out, &mut case);
        for k in 0..n { out.push(format!("pkg.fault trunc {k}")); }
        // substitutions, deletions, insertions
        header(out, &mut case);
        if exhaustive {
            for off in 0..n { for b in 0..128u64 { out.push(format!("pkg.fault sub {off} {b}")); } }
        } else {
            for _ in 0..subs_per_level {
                let off = r.below(n);
                let b = match r.below(3) { 0 => r.below(128), 1 => *r.pick(&[b'0' as u64, b'1' as u64, b'9' as u64, b'a' as u64, b'f' as u64, b'A' as u64]), _ => *r.pick(&[b'"' as u64, b',' as u64, b':' as u64, b'{' as u64, b'}' as u64, b'[' as u64, b']' as u64, b' ' as u64, b'-' as u64, b'.' as u64, b'e' as u64]) };
                out.push(format!("pkg.fault sub {off} {b}"));
            }
        }
        header(out, &mut case);
        for off in 0..n { out.push(format!("pkg.fault del {off}")); }
        header(out, &mut case);
        for _ in 0..subs_per_level {
            out.push(format!("pkg.fault ins {} {}", r.below(n + 1), *r.pick(&[b'0' as u64, b'1' as u64, b'"' as u64, b',' as u64, b'}' as u64, b' ' as u64, b'a' as u64, b'\\' as u64])));
        }
        // an honest package (checksum computed by the library over the content it carries) whose order vector
        // holds one order twice / is doubled: every road must still decide alike and return
        if !snap.orders.is_empty() {
            for k in 0..3usize {
                let mut s2 = lvl.snapshot();
                let e = s2.orders[r.below(s2.orders.len() as u64) as usize].clone();
                match k { 0 => s2.orders.push(e), 1 => s2.orders.insert(0, e), _ => { let c = s2.orders.clone(); s2.orders.extend(c); } }
                if let Ok(t) = pricelevel::PriceLevelSnapshotPackage::new(s2).and_then(|p| p.to_json()) {
                    header(out, &mut case);
                    out.push(format!("pkg.honest {}", crate::codec::hex(&t)));
                }
            }
        }
        // structural edits and pairs of faults
        header(out, &mut case);
        for k in ["swap", "drop", "dup", "num", "version", "checksum", "resum", "price", "agg", "field", "key"] {
            for j in 0..6 { out.push(format!("pkg.fault st {k} {j}")); }
        }
        for _ in 0..subs_per_level / 4 {
            out.push(format!("pkg.fault sub2 {} {} {} {}", r.below(n), r.below(128), r.below(n), r.below(128)));
        }
        // systematic structural mutations: every node x {delete, null, boundary numbers, strings, empty};
        // and ALL pairs of them among the nodes of depth <= 2 (version, checksum, the snapshot's own fields)
        header(out, &mut case);
        let n1 = sx_list(&text, 9).len();
        for i in 0..n1 { out.push(format!("pkg.fault sx {i}")); }
        header(out, &mut case);
        let n2 = sx_list(&text, 2).len();
        for i in 0..n2 { for j in 0..n2 + 9 { out.push(format!("pkg.fault sx2 {i} {j}")); } }
    }
}

/// what deserializing a level from its data form must give: derived aggregates, canonical listing
pub fn leveldata_expect(v: &str) -> String {
    let Some(s) = parse_snap(v) else { return String::new() };
    let mut os: Vec<Order> = s.orders.iter().map(|a| **a).collect();
    let vis: u64 = os.iter().fold(0u64, |a, o| a.wrapping_add(o.visible_quantity()));
    let hid: u64 = os.iter().fold(0u64, |a, o| a.wrapping_add(o.hidden_quantity()));
    canon_sort(&mut os);
    format!("{},{},{},{};{}", s.price, vis, hid, os.len(), show_list(&os, show_order))
}


/// structural mutations of a JSON document, enumerated deterministically: every node (by JSON pointer)
/// x {delete, null, boundary numbers, other strings, empty container}
#[derive(Clone, Debug)]
pub enum SMut { Delete, Null, Num(usize), Str(usize), Empty, Hoist, Wide(u32) }

const SX_NUMS: [&str; 9] = ["0", "1", "9007199254740993", "9223372036854775808", "18446744073709551615", "1152921504606846976", "-1", "1e30", "0.5"];
const SX_STRS: [&str; 3] = ["", "x", "BUY"];

fn sx_nodes(v: &serde_json::Value, path: &str, depth: usize, maxdepth: usize, out: &mut Vec<(String, SMut)>) {
    use serde_json::Value;
    if !path.is_empty() {
        if depth == 1 { out.push((path.to_string(), SMut::Hoist)); } // the document becomes this member
        out.push((path.to_string(), SMut::Delete));
        if !v.is_null() { out.push((path.to_string(), SMut::Null)); }
        match v {
            Value::Number(_) => for i in 0..SX_NUMS.len() { out.push((path.to_string(), SMut::Num(i))); },
            Value::String(_) => for i in 0..SX_STRS.len() { out.push((path.to_string(), SMut::Str(i))); },
            Value::Array(a) if !a.is_empty() => out.push((path.to_string(), SMut::Empty)),
            Value::Object(o) if !o.is_empty() => out.push((path.to_string(), SMut::Empty)),
            _ => {}
        }
    }
    if depth >= maxdepth { return; }
    match v {
        Value::Array(a) => for (i, x) in a.iter().enumerate() { sx_nodes(x, &format!("{path}/{i}"), depth + 1, maxdepth, out); },
        Value::Object(o) => for (k, x) in o.iter() { sx_nodes(x, &format!("{path}/{k}"), depth + 1, maxdepth, out); },
        _ => {}
    }
}

/// every unsigned number n also becomes n + 2^k (k = 8, 16, 32, 63) where that still fits 64 bits:
/// the values a narrowing read would confuse with n (listed after all other mutations)
fn sx_wide(v: &serde_json::Value, path: &str, depth: usize, maxdepth: usize, out: &mut Vec<(String, SMut)>) {
    use serde_json::Value;
    if let Some(n) = v.as_u64() {
        for k in [8u32, 16, 32, 63] {
            if n.checked_add(1u64 << k).is_some() { out.push((path.to_string(), SMut::Wide(k))); }
        }
    }
    if depth >= maxdepth { return; }
    match v {
        Value::Array(a) => for (i, x) in a.iter().enumerate() { sx_wide(x, &format!("{path}/{i}"), depth + 1, maxdepth, out); },
        Value::Object(o) => for (k, x) in o.iter() { sx_wide(x, &format!("{path}/{k}"), depth + 1, maxdepth, out); },
        _ => {}
    }
}

pub fn sx_list(text: &str, maxdepth: usize) -> Vec<(String, SMut)> {
    let mut out = Vec::new();
    if let Ok(v) = serde_json::from_str::<serde_json::Value>(text) {
        sx_nodes(&v, "", 0, maxdepth, &mut out);
        sx_wide(&v, "", 0, maxdepth, &mut out);
    }
    out
}

fn sx_apply(v: &mut serde_json::Value, path: &str, m: &SMut) -> Option<()> {
    use serde_json::Value;
    match m {
        SMut::Delete => {
            let cut = path.rfind('/')?;
            let (parent, key) = (&path[..cut], &path[cut + 1..]);
            match v.pointer_mut(parent)? {
                Value::Object(o) => { o.remove(key)?; }
                Value::Array(a) => { let i: usize = key.parse().ok()?; if i < a.len() { a.remove(i); } else { return None; } }
                _ => return None,
            }
        }
        SMut::Hoist => { let inner = v.pointer(path)?.clone(); *v = inner; }
        SMut::Null => *v.pointer_mut(path)? = Value::Null,
        SMut::Num(i) => *v.pointer_mut(path)? = serde_json::from_str(SX_NUMS[*i]).ok()?,
        SMut::Str(i) => *v.pointer_mut(path)? = Value::String(SX_STRS[*i].to_string()),
        SMut::Wide(k) => { let n = v.pointer(path)?.as_u64()?; *v.pointer_mut(path)? = Value::from(n.checked_add(1u64 << k)?); }
        SMut::Empty => {
            let n = v.pointer_mut(path)?;
            *n = if n.is_array() { Value::Array(vec![]) } else { Value::Object(Default::default()) };
        }
    }
    Some(())
}

/// applies one fault to the serialized package; `None` when it does not apply
pub fn apply_fault(text: &str, kind: &str, args: &[&str]) -> Option<Vec<u8>> {
    let b = text.as_bytes();
    let n = b.len();
    let a: Vec<usize> = args.iter().filter_map(|x| x.parse().ok()).collect();
    match kind {
        "trunc" => Some(b[..(*a.first()?).min(n)].to_vec()),
        "sub" => {
            let (off, v) = (*a.first()?, *a.get(1)?);
            if off >= n { return None; }
            let mut f = b.to_vec();
            f[off] = v as u8;
            Some(f)
        }
        "sub2" => {
            let mut f = b.to_vec();
            for k in 0..2 {
                let (off, v) = (*a.get(2 * k)?, *a.get(2 * k + 1)?);
                if off >= n { return None; }
                f[off] = v as u8;
            }
            Some(f)
        }
        "del" => {
            let off = *a.first()?;
            if off >= n { return None; }
            let mut f = b.to_vec();
            f.remove(off);
            Some(f)
        }
        "ins" => {
            let (off, v) = (*a.first()?, *a.get(1)?);
            let mut f = b.to_vec();
            f.insert(off.min(n), v as u8);
            Some(f)
        }
        "sx" | "sx2" => {
            // the i-th structural mutation (and then the j-th of the depth-2 list of the result)
            let mut val: serde_json::Value = serde_json::from_str(text).ok()?;
            let l = sx_list(text, if kind == "sx" { 9 } else { 2 });
            let (path, m) = l.get(*a.first()?)?.clone();
            sx_apply(&mut val, &path, &m)?;
            if kind == "sx2" {
                let t2 = serde_json::to_string(&val).ok()?;
                let l2 = sx_list(&t2, 2);
                let (p2, m2) = l2.get(*a.get(1)?)?.clone();
                sx_apply(&mut val, &p2, &m2)?;
            }
            Some(serde_json::to_string(&val).ok()?.into_bytes())
        }
        "st" => {
            let what = args.first()?;
            let j: usize = args.get(1)?.parse().ok()?;
            let mut val: serde_json::Value = serde_json::from_str(text).ok()?;
            {
                let snap = val.get_mut("snapshot")?;
                let norders = snap.get("orders")?.as_array()?.len();
                match *what {
                    "swap" => {
                        if norders < 2 { return None; }
                        let arr = snap.get_mut("orders")?.as_array_mut()?;
                        arr.swap(j % norders, (j + 1) % norders);
                    }
                    "drop" => {
                        if norders == 0 { return None; }
                        snap.get_mut("orders")?.as_array_mut()?.remove(j % norders);
                    }
                    "dup" => {
                        if norders == 0 { return None; }
                        let arr = snap.get_mut("orders")?.as_array_mut()?;
                        let x = arr[j % norders].clone();
                        arr.push(x);
                    }
                    "num" => {
                        if norders == 0 { return None; }
                        let arr = snap.get_mut("orders")?.as_array_mut()?;
                        let o = arr[j % norders].as_object_mut()?;
                        let inner = o.values_mut().next()?.as_object_mut()?;
                        let keys: Vec<String> = inner.iter().filter(|(_, v)| v.is_u64()).map(|(k, _)| k.clone()).collect();
                        if keys.is_empty() { return None; }
                        let k = &keys[j % keys.len()];
                        let old = inner[k].as_u64()?;
                        inner.insert(k.clone(), serde_json::json!(old.wrapping_add(1 + j as u64)));
                    }
                    "price" => {
                        let old = snap.get("price")?.as_u64()?;
                        snap.as_object_mut()?.insert("price".into(), serde_json::json!(old.wrapping_add(1 + j as u64)));
                    }
                    "agg" => {
                        let k = ["visible_quantity", "hidden_quantity", "order_count"][j % 3];
                        let old = snap.get(k)?.as_u64()?;
                        snap.as_object_mut()?.insert(k.into(), serde_json::json!(old.wrapping_add(1 + j as u64)));
                    }
                    "field" => {
                        // an unknown field inside the snapshot
                        snap.as_object_mut()?.insert(format!("extra{j}"), serde_json::json!(j));
                    }
                    "key" => {
                        if norders == 0 { return None; }
                        let arr = snap.get_mut("orders")?.as_array_mut()?;
                        let o = arr[j % norders].as_object_mut()?;
                        let inner = o.values_mut().next()?.as_object_mut()?;
                        inner.remove("side");
                        inner.insert("side".into(), serde_json::json!(if j % 2 == 0 { "BUY" } else { "sell" }));
                    }
                    "version" | "checksum" | "resum" => {}
                    _ => return None,
                }
            }
            match *what {
                "version" => { val.as_object_mut()?.insert("version".into(), serde_json::json!(j as u64 * 7 % 5)); }
                "checksum" => {
                    let c = val.get("checksum")?.as_str()?.to_string();
                    let mut ch: Vec<char> = c.chars().collect();
                    if ch.is_empty() { return None; }
                    let i = (j * 11) % ch.len();
                    ch[i] = if ch[i] == '0' { '1' } else { '0' };
                    val.as_object_mut()?.insert("checksum".into(), serde_json::json!(ch.into_iter().collect::<String>()));
                }
                "resum" => {
                    // edit the content AND recompute the checksum over the edited content: an honest package
                    // of different content (must be accepted, with the edited content) — judged separately
                    return None;
                }
                _ => {}
            }
            Some(serde_json::to_string(&val).ok()?.into_bytes())
        }
        _ => None,
    }
}

/// The same JSON document with every character of every string (keys included) written as a
/// `\uXXXX` escape; escapes already present are kept. No reader can hand out a borrowed string for it.
pub fn escape_strings(text: &str) -> String {
    let mut out = String::with_capacity(text.len() * 4);
    let mut in_str = false;
    let mut it = text.chars();
    while let Some(c) = it.next() {
        if !in_str {
            if c == '"' {
                in_str = true;
            }
            out.push(c);
        } else if c == '"' {
            in_str = false;
            out.push(c);
        } else if c == '\\' {
            out.push(c);
            if let Some(e) = it.next() {
                out.push(e);
            }
        } else {
            let mut buf = [0u16; 2];
            for u in c.encode_utf16(&mut buf) {
                out.push_str(&format!("\\u{:04x}", u));
            }
        }
    }
    out
}

//! plv-harness: correspondence engines between the Lean model and the real crate (DESIGN §4).
//!   plv-harness gen <engine> <seed> <tier>            -> ops on stdout
//!   plv-harness run <ops-file> <model-in> <impl-out>   -> executes ops against the crate
mod codec;
mod conc;
mod gens;
mod jsonc;
mod proto;
mod rng;
mod run;

use std::io::Write;
use std::sync::atomic::{AtomicUsize, Ordering};
use std::sync::{Arc, Mutex};

fn main() {
    std::panic::set_hook(Box::new(|_| {}));
    let args: Vec<String> = std::env::args().collect();
    match args.get(1).map(|s| s.as_str()) {
        Some("gen") => {
            let engine = args[2].clone();
            let seed: u64 = args[3].parse().expect("seed");
            let thorough = args.get(4).map(|s| s == "thorough").unwrap_or(false);
            // The sequential generators consult a private copy of the real level (to know which
            // ids are live); if a call into the crate does not return, the ops generated so far
            // (ending with the hanging one) are still printed and `run` reports the TIMEOUT.
            let out: Arc<Mutex<Vec<String>>> = Arc::new(Mutex::new(Vec::new()));
            let done = Arc::new(AtomicUsize::new(0));
            let (o2, d2) = (out.clone(), done.clone());
            std::thread::Builder::new()
                .stack_size(256 << 20)
                .spawn(move || {
                    let sink = gens::Sink(o2);
                    match engine.as_str() {
                        "pure" => gens::gen_pure(seed, thorough, &sink),
                        "seq" => gens::gen_seq(seed, if thorough { 8_000 } else { 1_500 }, if thorough { 100 } else { 40 }, false, false, false, &sink),
                        "conc" => gens::gen_conc(seed, if thorough { 600 } else { 150 }, if thorough { 24 } else { 12 }, &sink),
                        "concx" => gens::gen_concx(seed, 160, thorough, &sink),
                        "codec" => codec::gen_codec(seed, if thorough { 1_500 } else { 300 }, if thorough { 6_000 } else { 1_500 }, &sink),
                        "json" => jsonc::gen_json(seed, if thorough { 1_500 } else { 300 }, &sink),
                        "snap" => jsonc::gen_snap(seed, if thorough { 4 } else { 3 }, if thorough { 5_000 } else { 1_500 }, false, &sink),
                        "snapx" => jsonc::gen_snap(seed, 1, 0, true, &sink),
                        "queue" => gens::gen_queue(seed, if thorough { 12_000 } else { 4_000 }, if thorough { 60 } else { 30 }, &sink),
                        "deep" => gens::gen_deep(seed, thorough, &sink),
                        "seqx" => gens::gen_seqx(seed, thorough, &sink),
                        "seq0" => gens::gen_seq(seed, if thorough { 8_000 } else { 1_500 }, if thorough { 100 } else { 40 }, true, false, false, &sink),
                        "seqp" => gens::gen_seq(seed ^ 0x7070, if thorough { 8_000 } else { 1_500 }, if thorough { 100 } else { 40 }, true, false, true, &sink),
                        "seqr" => gens::gen_seq(seed, if thorough { 8_000 } else { 1_500 }, if thorough { 100 } else { 40 }, true, true, true, &sink),
                        // rebuilds at random points, every order at the level's own price (C15: the value counter is judged)
                        "seqrb" => gens::gen_seq(seed ^ 0x7262, if thorough { 4_000 } else { 700 }, if thorough { 100 } else { 40 }, true, true, false, &sink),
                        _ => {
                            eprintln!("unknown engine {engine}");
                            std::process::exit(2);
                        }
                    }
                    d2.store(1, Ordering::SeqCst);
                })
                .unwrap();
            let budget = std::time::Duration::from_secs(
                std::env::var("VERIF_OP_TIMEOUT").ok().and_then(|s| s.parse().ok()).unwrap_or(10),
            );
            let mut last = usize::MAX;
            let mut since = std::time::Instant::now();
            while done.load(Ordering::SeqCst) == 0 {
                let p = out.lock().unwrap().len();
                if p != last {
                    last = p;
                    since = std::time::Instant::now();
                } else if since.elapsed() > budget {
                    break;
                }
                std::thread::sleep(std::time::Duration::from_millis(20));
            }
            let lines = out.lock().unwrap().clone();
            let stdout = std::io::stdout();
            let mut w = std::io::BufWriter::new(stdout.lock());
            for l in lines {
                writeln!(w, "{l}").unwrap();
            }
            w.flush().unwrap();
            std::process::exit(0);
        }
        Some("run") => {
            let ops = std::fs::read_to_string(&args[2]).expect("ops file");
            let model_in = args[3].clone();
            let impl_out = args[4].clone();
            let lines: Vec<String> = ops.lines().map(|s| s.to_string()).collect();
            let progress = Arc::new(AtomicUsize::new(0));
            let results: Arc<Mutex<Vec<(String, String)>>> = Arc::new(Mutex::new(Vec::new()));
            let done = Arc::new(AtomicUsize::new(0));
            let (p2, r2, d2, l2) = (progress.clone(), results.clone(), done.clone(), lines.clone());
            std::thread::Builder::new()
                .stack_size(256 << 20)
                .spawn(move || {
                    let mut ex = run::Exec::new();
                    for (i, line) in l2.iter().enumerate() {
                        p2.store(i, Ordering::SeqCst);
                        if line.is_empty() {
                            continue;
                        }
                        if !ex.op(line) {
                            ex.out.push((line.clone(), format!("harness-bad-op {line}")));
                        }
                        r2.lock().unwrap().append(&mut ex.out);
                    }
                    r2.lock().unwrap().append(&mut ex.out);
                    d2.store(1, Ordering::SeqCst);
                })
                .unwrap();
            // watchdog: an op that does not return within the budget is reported as TIMEOUT
            let budget = std::time::Duration::from_secs(
                std::env::var("VERIF_OP_TIMEOUT").ok().and_then(|s| s.parse().ok()).unwrap_or(10),
            );
            let mut last = usize::MAX;
            let mut since = std::time::Instant::now();
            let mut timed_out = None;
            loop {
                if done.load(Ordering::SeqCst) == 1 {
                    break;
                }
                let p = progress.load(Ordering::SeqCst);
                if p != last {
                    last = p;
                    since = std::time::Instant::now();
                } else if since.elapsed() > budget {
                    timed_out = Some(p);
                    break;
                }
                std::thread::sleep(std::time::Duration::from_millis(20));
            }
            let mut res = results.lock().unwrap().clone();
            if let Some(p) = timed_out {
                res.push((lines[p].clone(), "TIMEOUT".to_string()));
            }
            let mut mi = std::io::BufWriter::new(std::fs::File::create(model_in).unwrap());
            let mut io = std::io::BufWriter::new(std::fs::File::create(impl_out).unwrap());
            for (a, b) in res {
                writeln!(mi, "{a}").unwrap();
                writeln!(io, "{b}").unwrap();
            }
            mi.flush().unwrap();
            io.flush().unwrap();
            if timed_out.is_some() {
                std::process::exit(3);
            }
        }
        _ => {
            eprintln!("usage: plv-harness gen <engine> <seed> [thorough] | run <ops> <model-in> <impl-out>");
            std::process::exit(2);
        }
    }
}

//! Case generators. Everything derives from one SplitMix64 state (seed, engine).
use crate::proto::*;
use crate::rng::Rng;
use pricelevel::{OrderId, OrderType, PegReferenceType, PriceLevel, Side, TimeInForce, UuidGenerator};
use uuid::Uuid;
use std::sync::Arc;

pub const U64MAX: u64 = u64::MAX;

/// where generated op lines go (shared with the watchdog in main)
pub struct Sink(pub std::sync::Arc<std::sync::Mutex<Vec<String>>>);
impl Sink {
    pub fn push(&self, s: String) {
        self.0.lock().unwrap().push(s);
    }
}

fn mk_order(kind: u8, id: OrderId, price: u64, vis: u64, hid: u64, thr: u64, amt: Option<u64>, auto: bool,
            side: Side, ts: u64, tif: TimeInForce) -> Order {
    match kind {
        0 => OrderType::Standard { id, price, quantity: vis, side, timestamp: ts, time_in_force: tif, extra_fields: () },
        1 => OrderType::PostOnly { id, price, quantity: vis, side, timestamp: ts, time_in_force: tif, extra_fields: () },
        2 => OrderType::MarketToLimit { id, price, quantity: vis, side, timestamp: ts, time_in_force: tif, extra_fields: () },
        3 => OrderType::TrailingStop {
            id, price, quantity: vis, side, timestamp: ts, time_in_force: tif,
            trail_amount: thr, last_reference_price: hid, extra_fields: (),
        },
        4 => OrderType::PeggedOrder {
            id, price, quantity: vis, side, timestamp: ts, time_in_force: tif,
            reference_price_offset: (thr as i64) - 3,
            reference_price_type: [PegReferenceType::BestBid, PegReferenceType::BestAsk, PegReferenceType::MidPrice, PegReferenceType::LastTrade][(hid % 4) as usize],
            extra_fields: (),
        },
        5 => OrderType::IcebergOrder {
            id, price, visible_quantity: vis, hidden_quantity: hid, side, timestamp: ts, time_in_force: tif, extra_fields: (),
        },
        _ => OrderType::ReserveOrder {
            id, price, visible_quantity: vis, hidden_quantity: hid, side, timestamp: ts, time_in_force: tif,
            replenish_threshold: thr, replenish_amount: amt, auto_replenish: auto, extra_fields: (),
        },
    }
}

/// E-pure (DESIGN §4.1): exhaustive small grid + 64-bit boundary values + random.
pub fn gen_pure(seed: u64, thorough: bool, out: &Sink) {
    let id = OrderId::from_u64(7);
    let mut case = 0u64;
    let mut push = |out: &Sink, o: &Order, q: u64| {
        out.push(format!("case {case}"));
        out.push(format!("ma {} {}", show_order(o), q));
        case += 1;
    };
    let vmax = if thorough { 6 } else { 4 };
    let qmax = if thorough { 9 } else { 7 };
    let amts: Vec<Option<u64>> = vec![None, Some(0), Some(1), Some(3), Some(80), Some(100)];
    // exhaustive grid
    for kind in 0..7u8 {
        for vis in 0..=vmax {
            let hids: Vec<u64> = if kind >= 5 { (0..=vmax).chain([79, 80, 81, 200]).collect() } else { vec![0] };
            for &hid in &hids {
                let thrs: Vec<u64> = if kind == 6 { vec![0, 1, 2, 5] } else { vec![0] };
                for &thr in &thrs {
                    let amts_k: Vec<Option<u64>> = if kind == 6 { amts.clone() } else { vec![None] };
                    for amt in &amts_k {
                        let autos: Vec<bool> = if kind == 6 { vec![false, true] } else { vec![false] };
                        for &auto in &autos {
                            for q in 0..=qmax {
                                let o = mk_order(kind, id, 100, vis, hid, thr, *amt, auto, Side::Sell, 5, TimeInForce::Gtc);
                                push(out, &o, q);
                            }
                        }
                    }
                }
            }
        }
    }
    // boundary values with displayed + hidden <= u64::MAX
    let big = [U64MAX, U64MAX - 1, 1u64 << 63, (1u64 << 63) - 1, 1u64 << 32];
    for kind in 0..7u8 {
        for &vis in &big {
            for &hid in &[0u64, 1, U64MAX - vis, (U64MAX - vis) / 2] {
                if kind < 5 && hid != 0 { continue; }
                for &q in &[0u64, 1, vis - 1, vis, vis.saturating_add(1), U64MAX] {
                    for amt in [None, Some(0), Some(U64MAX), Some(1)] {
                        if kind != 6 && amt.is_some() { continue; }
                        for auto in [false, true] {
                            if kind != 6 && auto { continue; }
                            for thr in [0u64, 1, U64MAX] {
                                if kind != 6 && thr != 0 { continue; }
                                let o = mk_order(kind, id, U64MAX, vis, hid, thr, amt, auto, Side::Buy, U64MAX, TimeInForce::Gtd(U64MAX));
                                push(out, &o, q);
                            }
                        }
                    }
                }
            }
        }
        // small displayed, huge hidden
        for &hid in &[U64MAX - 3, 1u64 << 63] {
            if kind < 5 { continue; }
            for q in [0u64, 1, 3, 4, U64MAX] {
                for amt in [None, Some(U64MAX), Some(5)] {
                    let o = mk_order(kind, id, 1, 3, hid, 2, amt, true, Side::Buy, 0, TimeInForce::Day);
                    push(out, &o, q);
                }
            }
        }
    }
    // random
    let mut r = Rng::new(seed ^ 0x5055_5245);
    let n = if thorough { 200_000 } else { 20_000 };
    for _ in 0..n {
        let kind = r.below(7) as u8;
        let small = r.chance(3, 4);
        let vis = if small { r.below(30) } else { r.next() >> r.below(64) };
        let hid = if kind < 5 { r.below(4) } else if small { r.below(200) } else { (r.next() >> r.below(64)).min(U64MAX - vis) };
        let thr = if r.chance(1, 2) { r.below(6) } else { r.below(40) };
        // 80 is the crate's DEFAULT_RESERVE_REPLENISH_AMOUNT: `Some(80)` and `None` replenish alike and must stay distinct
        let amt = match r.below(5) { 0 => None, 1 => Some(0), 2 => Some(r.below(100)), 3 => Some(*r.pick(&[80u64, 79, 81, 1])), _ => Some(r.next() >> r.below(64)) };
        let q = match r.below(5) { 0 => vis, 1 => vis.saturating_sub(1), 2 => r.below(40), 3 => vis.saturating_add(r.below(5)), _ => r.next() >> r.below(64) };
        let side = if r.chance(1, 2) { Side::Buy } else { Side::Sell };
        let tif = *r.pick(&[TimeInForce::Gtc, TimeInForce::Ioc, TimeInForce::Fok, TimeInForce::Day, TimeInForce::Gtd(12345)]);
        let idr = if r.chance(1, 2) { OrderId::from_u64(r.below(1000)) } else { OrderId::Ulid(ulid::Ulid(r.next() as u128)) };
        let o = mk_order(kind, idr, r.below(1000), vis, hid, thr, amt, r.chance(1, 2), side, r.below(100), tif);
        push(out, &o, q);
    }
    // with_reduced_quantity and add_transaction
    for kind in 0..7u8 {
        for n in [0u64, 1, 5, U64MAX] {
            let o = mk_order(kind, id, 100, 7, 9, 2, Some(3), true, Side::Sell, 5, TimeInForce::Gtc);
            out.push(format!("case {case}"));
            out.push(format!("wr {} {}", show_order(&o), n));
            case += 1;
        }
    }
    // refresh_iceberg: every kind x displayed x hidden x amount on a small grid, the 64-bit corners, random
    {
        let hs: Vec<u64> = vec![0, 1, 2, 5, 79, 80, 81, U64MAX - 1, U64MAX];
        let ns: Vec<u64> = vec![0, 1, 2, 4, 5, 6, 80, 100, U64MAX - 1, U64MAX];
        for kind in 0..7u8 {
            for &vis in &[0u64, 3, U64MAX] {
                for &hid in &hs {
                    if kind < 5 && hid > 1 { continue; }
                    for &n in &ns {
                        for auto in [false, true] {
                            if kind != 6 && auto { continue; }
                            let o = mk_order(kind, id, 100, vis, hid, 2, Some(3), auto, Side::Buy, 5, TimeInForce::Gtc);
                            out.push(format!("case {case}"));
                            out.push(format!("ri {} {}", show_order(&o), n));
                            case += 1;
                        }
                    }
                }
            }
        }
        for _ in 0..(if thorough { 20_000 } else { 1_500 }) {
            let kind = if r.chance(1, 4) { r.below(5) as u8 } else { 5 + r.below(2) as u8 };
            let hid = if r.chance(1, 6) { r.next() >> r.below(64) } else { r.below(120) };
            let n = match r.below(5) { 0 => hid, 1 => hid.saturating_sub(1), 2 => hid.saturating_add(1), 3 => r.below(120), _ => r.next() >> r.below(64) };
            let amt = match r.below(3) { 0 => None, 1 => Some(r.below(100)), _ => Some(r.next() >> r.below(64)) };
            let tif = *r.pick(&[TimeInForce::Gtc, TimeInForce::Ioc, TimeInForce::Fok, TimeInForce::Day, TimeInForce::Gtd(777)]);
            let idr = if r.chance(1, 2) { OrderId::from_u64(r.below(1000)) } else { OrderId::Ulid(ulid::Ulid(r.next() as u128)) };
            let o = mk_order(kind, idr, r.below(1000), r.below(50), hid, r.below(9), amt, r.chance(1, 2), if r.chance(1, 2) { Side::Buy } else { Side::Sell }, r.below(100), tif);
            out.push(format!("case {case}"));
            out.push(format!("ri {} {}", show_order(&o), n));
            case += 1;
        }
    }
    // time-in-force predicates: every kind x every time in force x instants around the expiry / the close
    for kind in 0..7u8 {
        for tif in [TimeInForce::Gtc, TimeInForce::Ioc, TimeInForce::Fok, TimeInForce::Day, TimeInForce::Gtd(0), TimeInForce::Gtd(500), TimeInForce::Gtd(U64MAX)] {
            let o = mk_order(kind, id, 100, 7, 9, 2, Some(3), true, Side::Sell, 5, tif);
            for now in [0u64, 499, 500, 501, U64MAX] {
                for close in ["-", "0", "500", "501", "18446744073709551615"] {
                    out.push(format!("case {case}"));
                    out.push(format!("tf {} {} {}", show_order(&o), now, close));
                    case += 1;
                }
            }
        }
    }
    for _ in 0..(if thorough { 20_000 } else { 2_000 }) {
        let q = if r.chance(1, 8) { r.next() } else { r.below(60) };
        let k = r.below(6);
        let qs: Vec<String> = (0..k).map(|_| (if r.chance(1, 10) { r.next() >> r.below(64) } else { r.below(25) }).to_string()).collect();
        out.push(format!("case {case}"));
        out.push(format!("atx {} {}", q, qs.join(" ")).trim_end().to_string());
        case += 1;
    }
}

pub fn pool_id(k: u64) -> OrderId {
    // ids 1..: both id families; every id with k % 5 == 3 is the *twin* of its predecessor: the same 128
    // bits in the other format (two different ids: different variant, different text and JSON form)
    if k % 5 == 4 {
        OrderId::Ulid(ulid::Ulid(k as u128))
    } else if k % 5 == 3 {
        let b = OrderId::from_u64(k - 1).as_bytes();
        OrderId::Ulid(ulid::Ulid(u128::from_be_bytes(b)))
    } else {
        OrderId::from_u64(k)
    }
}

pub fn random_order(r: &mut Rng, id: OrderId, price: u64, zero_ok: bool, big: bool) -> Order {
    let kind = r.below(7) as u8;
    let mut vis = if big && r.chance(1, 2) { r.range(1 << 40, 1 << 59) } else if r.chance(1, 10) { r.range(10, 120) } else { r.below(13) };
    if !zero_ok && vis == 0 { vis = 1 + r.below(5); }
    // hidden quantities stay small in histories: a tranche never grows, so a drain of a huge hidden
    // quantity behind a small display takes hidden/display loop iterations (E-pure covers big hidden)
    let hid = if r.chance(1, 5) { 0 } else if r.chance(1, 6) { r.range(50, 250) } else { r.below(25) };
    let thr = if r.chance(1, 3) { 0 } else { r.below(8) };
    let amt = match r.below(7) { 0 | 1 => None, 2 => Some(0), 3 => Some(1), 4 => Some(80), _ => Some(r.below(30)) };
    let auto = r.chance(2, 3);
    let side = if r.chance(1, 2) { Side::Buy } else { Side::Sell };
    // timestamps: small, 0 ("unstamped"), and - one in ten - ahead of any wall clock (a caller's clock skew,
    // micro/nanosecond stamps, u64::MAX): legal values of an unvalidated u64 field
    let ts = if r.chance(1, 8) { 0 } else if r.chance(1, 10) { *r.pick(&[u64::MAX, 4_102_444_800_000, 1_790_000_000_000_000, u64::MAX - 1]) } else { r.below(12) };
    let tif = *r.pick(&[TimeInForce::Gtc, TimeInForce::Gtc, TimeInForce::Ioc, TimeInForce::Fok, TimeInForce::Day, TimeInForce::Gtd(99)]);
    mk_order(kind, id, price, vis, hid, thr, amt, auto, side, ts, tif)
}

/// E-seq (DESIGN §4.2): sequential histories on one level. The generator drives a private copy of
/// the real level only to learn which ids are live (so that ids stay unique among resting orders
/// and sums stay below 2^64, as the properties' quantifier demands).
pub fn gen_seq(seed: u64, ncases: u64, maxlen: u64, zero_ok: bool, rebuilds: bool, offprice: bool, out: &Sink) {
    let mut r0 = Rng::new(seed ^ 0x5345_5100);
    for case in 0..ncases {
        let mut r = r0.fork();
        // level prices: small ones, 0 (legal: every value is then 0) and a large one
        // … and two odd prices whose products with small quantities pass 2^53 (exact 64-bit arithmetic expected)
        let price = *r.pick(&[100u64, 1, 7, 1000, 100, 1000, 0, 1 << 32, 3_002_399_751_580_331, 95_000_000_001]);
        let npool = r.range(3, 7);
        let len = 1 + r.below(maxlen);
        let big = r.chance(1, 25);
        let mut lvl = PriceLevel::new(price);
        let mut forked = false;
        // after a rebuild the order among equal timestamps is the (per-instance, random) hash order
        // of the map, so the generator's private copy may fill different orders than the level
        // under test: from then on adds use ids never used before in the case
        let mut rebuilt = false;
        let mut fresh = 100u64;
        let generator = UuidGenerator::new(Uuid::from_u128(crate::run::NS));
        out.push(format!("case {case}"));
        out.push(format!("new {price}"));
        if r.chance(1, 8) {
            // a generator restored from its serialized form, counter at a boundary
            // … or built by the constructor (counter 0); over the standard, the nil, the all-ones or a random namespace
            // counters just below powers of two and of ten (decimal rendering, truncation), and 0 (constructor route)
            let c = *r.pick(&[(1u64 << 32) - 2, (1u64 << 53) - 1, (1u64 << 63) - 2, 1u64 << 16, 999_999, 999_999_998, 9_999_999_999, 12_000_000_001, 999_999_999_999_999_998, 9_999_999_999_999_999_998, 0, 0]);
            let ns = match r.below(4) { 0 => "std".to_string(), 1 => "nil".to_string(), 2 => "max".to_string(), _ => format!("{:x}", ((r.next() as u128) << 64) | r.next() as u128) };
            out.push(format!("newgen {c} {ns}"));
            // the ids themselves: what the real generator over that namespace returns at and around that counter,
            // against the model's SHA-1 / version-5 construction
            let nsv: u128 = match ns.as_str() { "std" => crate::run::NS, "nil" => 0, "max" => u128::MAX, h => u128::from_str_radix(h, 16).unwrap_or(0) };
            for k in [c, c.wrapping_add(1), c.wrapping_sub(1), r.next()] {
                out.push(format!("v5 {nsv} {k}"));
            }
        }
        let mut total: u128 = 0; // everything ever supplied (upper bound for sums)
        if zero_ok && !rebuilds && r.chance(1, 6) {
            // set-aside scenario: several makers with nothing on display and a hidden part (a match steps over
            // them and re-queues them), a match, then same-price amends that give them a display again, a match
            // (2-4 such makers, sometimes 9, 17 or 40: more than any small fixed buffer would hold)
            let k = *r.pick(&[2u64, 3, 4, 2, 3, 4, 9, 17, 40]);
            let mut idsv = Vec::new();
            for i in 0..k {
                let id = pool_id(300 + i);
                let o = mk_order(5, id, price, 0, r.range(3, 20), 0, None, true, Side::Sell, 1 + i, TimeInForce::Gtc);
                total += o.hidden_quantity() as u128;
                out.push(format!("add {}", show_order(&o)));
                lvl.add_order(o);
                idsv.push(id);
            }
            if r.chance(1, 2) {
                let o = mk_order(0, pool_id(49), price, r.range(1, 6), 0, 0, None, true, Side::Sell, 9, TimeInForce::Gtc);
                total += o.visible_quantity() as u128;
                out.push(format!("add {}", show_order(&o)));
                lvl.add_order(o);
            }
            let taker = pool_id(900);
            let q = r.range(1, 12);
            out.push(format!("match {} {}", q, show_id(&taker)));
            let _ = lvl.match_order(q, taker, &generator);
            if r.chance(1, 2) { idsv.reverse(); }
            for id in &idsv {
                let n = r.range(1, 6);
                total += n as u128;
                out.push(format!("upd qty {} {}", show_id(id), n));
                out.push("state".to_string());
                let _ = lvl.update_order(pricelevel::OrderUpdate::UpdateQuantity { order_id: *id, new_quantity: n });
            }
            let q = r.range(1, 8);
            out.push(format!("match {} {}", q, show_id(&taker)));
            let _ = lvl.match_order(q, taker, &generator);
        }
        if !big && r.chance(1, 30) {
            // churn scenario: a level that has seen many makers and many removals (cancels, amends, price moves)
            // before the history proper - 15..257 of them, around the powers of two - so that any bookkeeping
            // that depends on HOW MANY orders came and went (stale tickets, counters, thresholds) is exercised;
            // user timestamps are not monotone in arrival order
            let n0 = *r.pick(&[18u64, 24, 40, 70]);
            let mut next_id = 200u64;
            for _ in 0..n0 {
                let o = random_order(&mut r, pool_id(next_id), price, zero_ok, false);
                next_id += 1;
                let supplied = o.visible_quantity() as u128 + o.hidden_quantity() as u128;
                if (total + supplied) * (price.max(1 << 20) as u128) >= (1u128 << 63) { continue; }
                total += supplied;
                out.push(format!("add {}", show_order(&o)));
                lvl.add_order(o);
            }
            out.push("state".to_string());
            let nrem = *r.pick(&[15u64, 16, 17, 31, 32, 33, 64, 65, 100, 129, 257]);
            for _ in 0..nrem {
                let live: Vec<OrderId> = lvl.iter_orders().iter().map(|o| o.id()).collect();
                if live.len() < 5 {
                    let o = random_order(&mut r, pool_id(next_id), price, zero_ok, false);
                    next_id += 1;
                    let supplied = o.visible_quantity() as u128 + o.hidden_quantity() as u128;
                    if (total + supplied) * (price.max(1 << 20) as u128) < (1u128 << 63) {
                        total += supplied;
                        out.push(format!("add {}", show_order(&o)));
                        lvl.add_order(o);
                    }
                    continue;
                }
                let id = *r.pick(&live);
                let ids = show_id(&id);
                match r.below(10) {
                    0..=4 => {
                        out.push(format!("upd cancel {ids}"));
                        let _ = lvl.update_order(pricelevel::OrderUpdate::Cancel { order_id: id });
                    }
                    5..=7 => {
                        let n = r.range(1, 12);
                        if (total + n as u128) * (price.max(1 << 20) as u128) >= (1u128 << 63) { continue; }
                        total += n as u128;
                        out.push(format!("upd qty {ids} {n}"));
                        let _ = lvl.update_order(pricelevel::OrderUpdate::UpdateQuantity { order_id: id, new_quantity: n });
                    }
                    8 => {
                        let p = price + 1 + r.below(3);
                        out.push(format!("upd price {ids} {p}"));
                        let _ = lvl.update_order(pricelevel::OrderUpdate::UpdatePrice { order_id: id, new_price: p });
                    }
                    _ => {
                        let q = r.range(1, 4);
                        let taker = pool_id(900);
                        out.push(format!("match {} {}", q, show_id(&taker)));
                        let _ = lvl.match_order(q, taker, &generator);
                    }
                }
                out.push("state".to_string());
            }
            if rebuilds && r.chance(1, 2) {
                out.push(format!("fork {}", r.pick(&["snapshot", "json"])));
                forked = true;
            }
        }
        // sparse observation (one case in five): the harness reads nothing between the calls - no listing, no
        // statistics - except where the history itself contains a read or a `state`; a cache that outlives its
        // validity, or a read that changes later results, needs exactly that to show
        let quiet = !rebuilds && r.chance(1, 5);
        if quiet {
            out.push("quiet on".to_string());
        }
        // (visible delta of the last amendment, if nothing but amendments happened since)
        let mut pending_delta: Option<(OrderId, i128)> = None;
        for _ in 0..len {
            let live: Vec<OrderId> = lvl.iter_orders().iter().map(|o| o.id()).collect();
            if rebuilds && r.chance(1, 12) {
                let kind = *r.pick(&["snapshot", "from", "package", "json", "data", "serde", "text", "lying-snapshot", "lying-data",
                    "lying-from", "lying-package", "lying-json", "lying-serde", "lying-text", "serde-value", "serde-reader",
                    "json-escaped", "serde-escaped", "lying-count-ok"]);
                out.push(format!("rebuild {kind}"));
                out.push("state".to_string());
                // the generator's private level is rebuilt the same way so that liveness and the
                // queue order stay those of the level under test
                let snap = lvl.snapshot();
                lvl = PriceLevel::from_snapshot(snap).unwrap_or_else(|_| PriceLevel::new(price));
                rebuilt = true;
            } else if rebuilds && !forked && r.chance(1, 15) {
                out.push(format!("fork {}", r.pick(&["snapshot", "json"])));
                forked = true;
            }
            if r.chance(1, 8) {
                out.push(format!("read {}", r.pick(&["snapshot", "package", "json", "display", "serde", "stats", "list", "agg"])));
            }
            if (quiet && r.chance(1, 6)) || (!quiet && r.chance(1, 25)) {
                // a read, two amendments that move the same quantity from one order to another (every aggregate and
                // every statistic ends where it started), a read - in sparse cases through `state`, otherwise through
                // one of the read-only calls (snapshot, package, JSON, Display, serde), and with rebuilds a rebuild
                // through the package / JSON road right after
                let am: Vec<(OrderId, u64)> = lvl.iter_orders().iter()
                    .filter(|o| matches!(***o, OrderType::Standard { .. } | OrderType::PostOnly { .. } | OrderType::IcebergOrder { .. }))
                    .map(|o| (o.id(), o.visible_quantity())).collect();
                if am.len() >= 2 {
                    let i = r.below(am.len() as u64) as usize;
                    let mut j = r.below(am.len() as u64 - 1) as usize;
                    if j >= i { j += 1; }
                    let lo = if zero_ok { 0 } else { 1 };
                    if am[j].1 > lo {
                        let d = r.range(1, (am[j].1 - lo).min(6));
                        if (total + d as u128) * (price.max(1 << 20) as u128) < (1u128 << 63) {
                            total += d as u128;
                            let kinds = ["snapshot", "package", "json", "display", "serde", "list"];
                            if quiet { out.push("state".to_string()); } else { out.push(format!("read {}", r.pick(&kinds))); }
                            if r.chance(1, 3) {
                                // … or: one order leaves and a NEW id with the same displayed and hidden quantity comes
                                // (the three aggregates end where they started, the content does not)
                                let victim = lvl.iter_orders().iter().find(|o| o.id() == am[j].0).map(|o| **o);
                                if let Some(v) = victim {
                                    fresh += 1;
                                    let nid = pool_id(fresh + 500);
                                    let twin = match v {
                                        OrderType::IcebergOrder { price: p, visible_quantity, hidden_quantity, side, time_in_force, .. } =>
                                            OrderType::IcebergOrder { id: nid, price: p, visible_quantity, hidden_quantity, side, timestamp: r.below(12), time_in_force, extra_fields: () },
                                        other => OrderType::Standard { id: nid, price: other.price(), quantity: other.visible_quantity(), side: other.side(),
                                                                       timestamp: r.below(12), time_in_force: other.time_in_force(), extra_fields: () },
                                    };
                                    total += twin.visible_quantity() as u128 + twin.hidden_quantity() as u128;
                                    out.push(format!("upd cancel {}", show_id(&am[j].0)));
                                    let _ = lvl.update_order(pricelevel::OrderUpdate::Cancel { order_id: am[j].0 });
                                    out.push(format!("add {}", show_order(&twin)));
                                    lvl.add_order(twin);
                                }
                            } else {
                                for (id, n) in [(am[i].0, am[i].1 + d), (am[j].0, am[j].1 - d)] {
                                    out.push(format!("upd qty {} {}", show_id(&id), n));
                                    let _ = lvl.update_order(pricelevel::OrderUpdate::UpdateQuantity { order_id: id, new_quantity: n });
                                }
                            }
                            if !quiet { out.push(format!("read {}", r.pick(&kinds))); }
                            out.push("state".to_string());
                            if rebuilds && r.chance(2, 3) {
                                out.push(format!("rebuild {}", r.pick(&["package", "json", "snapshot", "serde"])));
                                out.push("state".to_string());
                                let snap = lvl.snapshot();
                                lvl = PriceLevel::from_snapshot(snap).unwrap_or_else(|_| PriceLevel::new(price));
                                rebuilt = true;
                            }
                            pending_delta = None;
                            continue;
                        }
                    }
                }
            }
            let choice = r.below(100);
            if choice < 68 { pending_delta = None; }
            if choice < 38 || live.is_empty() && choice < 70 {
                // add with an id that is not live
                // pool ids 0..npool: 0 is the nil id
                let cands: Vec<OrderId> = (0..=npool).map(pool_id).filter(|i| !live.contains(i)).collect();
                if cands.is_empty() { continue; }
                let id = if rebuilt { fresh += 1; pool_id(fresh) } else { *r.pick(&cands) };
                // with `offprice` (E-seqr, E-seqp) one order in six carries a price other than the level's: legal
                // (add_order does not look at it) and every rebuild route must keep it and the level's own price
                let rnd_price = r.range(1, 1 << 20);
                let oprice = if offprice && r.chance(1, 6) { *r.pick(&[price + 1, price.saturating_sub(1), 0, rnd_price]) } else { price };
                let o = random_order(&mut r, id, oprice, zero_ok, big);
                let supplied = o.visible_quantity() as u128 + o.hidden_quantity() as u128;
                if (total + supplied) * (price.max(oprice).max(1 << 20) as u128) >= (1u128 << 63) { continue; }
                total += supplied;
                out.push(format!("add {}", show_order(&o)));
                lvl.add_order(o);
            } else if choice < 68 {
                let q = match r.below(10) {
                    0 => 0,
                    1 => r.range(40, 400),
                    2 => lvl.visible_quantity(),
                    3 => lvl.visible_quantity().saturating_add(1),
                    4 => if big { r.range(1 << 40, 1 << 60) } else { r.below(50) },
                    5 => if r.chance(1, 3) { u64::MAX } else { r.range(1, 15) },
                    _ => r.range(1, 15),
                };
                // the taker: usually an outside id, sometimes the id of an order resting here (a self-match is
                // not rejected by the level)
                let taker = if !live.is_empty() && r.chance(1, 12) { *r.pick(&live) } else { pool_id(900 + r.below(3)) };
                out.push(format!("match {} {}", q, show_id(&taker)));
                let _ = lvl.match_order(q, taker, &generator);
            } else {
                // update: present or absent id
                let id = if !live.is_empty() && r.chance(4, 5) { *r.pick(&live) } else { pool_id(r.range(1, npool + 2)) };
                let ids = show_id(&id);
                let same_price = r.chance(1, 2);
                let p = if same_price { price } else { price + 1 + r.below(3) };
                let cur = lvl.iter_orders().iter().find(|o| o.id() == id).map(|o| o.visible_quantity()).unwrap_or(5);
                let n = match r.below(6) { 0 => if zero_ok { 0 } else { 1 }, 1 => cur, 2 => cur + r.range(1, 9), 3 => cur.saturating_sub(r.range(1, 4)).max(if zero_ok {0} else {1}), _ => r.range(1, 20) };
                if (total + n as u128) * (price as u128) >= (1u128 << 63) { continue; }
                total += n as u128;
                // compensating amendments (sparse cases): the second of two quantity amendments takes away from
                // one order exactly what the first gave to another, so that every aggregate is back where it was
                let mut n = n;
                let mut kind = r.below(10);
                let amendable = |o: &Arc<Order>| matches!(**o, OrderType::Standard { .. } | OrderType::PostOnly { .. } | OrderType::IcebergOrder { .. });
                let is_amendable = lvl.iter_orders().iter().any(|o| o.id() == id && amendable(o));
                if quiet {
                    if let Some((pid, d)) = pending_delta {
                        let want = cur as i128 - d;
                        if pid != id && is_amendable && want >= (if zero_ok { 0 } else { 1 }) && want < (1 << 40) && r.chance(2, 3) {
                            n = want as u64;
                            kind = 3;
                        }
                    }
                }
                pending_delta = if kind >= 3 && kind <= 5 && is_amendable {
                    let d0 = pending_delta.filter(|(pid, _)| *pid != id).map(|(_, d)| d).unwrap_or(0);
                    Some((id, d0 + n as i128 - cur as i128)).filter(|(_, d)| *d != 0)
                } else { None };
                let (line, upd) = match kind {
                    0 | 1 | 2 => (format!("upd cancel {ids}"), pricelevel::OrderUpdate::Cancel { order_id: id }),
                    3 | 4 | 5 => (format!("upd qty {ids} {n}"), pricelevel::OrderUpdate::UpdateQuantity { order_id: id, new_quantity: n }),
                    6 => (format!("upd price {ids} {p}"), pricelevel::OrderUpdate::UpdatePrice { order_id: id, new_price: p }),
                    7 | 8 => (format!("upd pq {ids} {p} {n}"), pricelevel::OrderUpdate::UpdatePriceAndQuantity { order_id: id, new_price: p, new_quantity: n }),
                    _ => {
                        let sd = if r.chance(1, 2) { Side::Buy } else { Side::Sell };
                        (format!("upd replace {ids} {p} {n} {}", show_side(sd)), pricelevel::OrderUpdate::Replace { order_id: id, price: p, quantity: n, side: sd })
                    }
                };
                out.push(line);
                let _ = lvl.update_order(upd);
            }
            if !quiet || r.chance(1, 4) {
                out.push("state".to_string());
            }
        }
        if quiet {
            out.push("state".to_string());
            out.push("quiet off".to_string());
        }
        // final draining matches reveal the queue order
        for _ in 0..3 {
            out.push(format!("match {} {}", 1u64 << 62, show_id(&pool_id(999))));
            out.push("state".to_string());
        }
    }
}

/// E-seqx: SYSTEMATIC small-scope histories on one level (no random choice inside a history).
/// A history is: add o1 (id A) ; optionally add o2 (id B) ; k operations from a fixed alphabet ; one draining match.
/// o1 ranges over 15 representative orders (all seven kinds; zero display; hidden smaller / larger than the
/// display; every reserve configuration incl. replenish amount 0, the default and a threshold above the display),
/// o2 over {none, Standard, Iceberg, Reserve}, the alphabet has 22 operations (matches of five sizes, cancel,
/// quantity amends up / down / to zero, price moves to the same and to another price, price+quantity and replace
/// both ways, re-adding id A, adding a third id, a read). quick: every history with k = 1 (1 320) plus a seeded
/// sample of 1 500 with k = 2; thorough: every history with k = 2 (29 040) and, split over the shards, every
/// history with k = 3 (638 880).
pub fn gen_seqx(seed: u64, thorough: bool, out: &Sink) {
    let price = 100u64;
    let a = pool_id(1);
    let b = pool_id(2);
    let c = pool_id(6);
    let t = pool_id(900);
    let g = TimeInForce::Gtc;
    let o1s: Vec<Order> = vec![
        mk_order(0, a, price, 5, 0, 0, None, false, Side::Sell, 1, g),
        mk_order(0, a, price, 0, 0, 0, None, false, Side::Sell, 1, g),
        mk_order(1, a, price, 2, 0, 0, None, false, Side::Buy, 1, g),
        mk_order(2, a, price, 3, 0, 0, None, false, Side::Sell, 1, g),
        mk_order(3, a, price, 4, 7, 2, None, false, Side::Sell, 1, g),
        mk_order(4, a, price, 4, 1, 5, None, false, Side::Buy, 1, g),
        mk_order(5, a, price, 2, 3, 0, None, false, Side::Sell, 1, g),
        mk_order(5, a, price, 0, 3, 0, None, false, Side::Sell, 1, g),
        mk_order(5, a, price, 5, 0, 0, None, false, Side::Sell, 1, g),
        mk_order(5, a, price, 2, 1, 0, None, false, Side::Buy, 1, g),
        mk_order(6, a, price, 2, 5, 0, None, true, Side::Sell, 1, g),
        mk_order(6, a, price, 2, 5, 2, Some(2), true, Side::Sell, 1, g),
        mk_order(6, a, price, 2, 5, 1, Some(1), false, Side::Sell, 1, g),
        mk_order(6, a, price, 0, 4, 0, Some(0), true, Side::Sell, 1, g),
        mk_order(6, a, price, 3, 1, 5, Some(80), true, Side::Buy, 1, g),
    ];
    let o2s: Vec<Option<Order>> = vec![
        None,
        Some(mk_order(0, b, price, 5, 0, 0, None, false, Side::Sell, 2, g)),
        Some(mk_order(5, b, price, 2, 3, 0, None, false, Side::Sell, 0, g)),
        Some(mk_order(6, b, price, 1, 3, 1, Some(2), true, Side::Sell, 2, g)),
    ];
    use pricelevel::OrderUpdate as U;
    #[derive(Clone)]
    enum X { Match(u64), Upd(String, U), Add(Order), Read(&'static str) }
    let mut alpha: Vec<X> = Vec::new();
    for q in [1u64, 2, 3, 6, 100] { alpha.push(X::Match(q)); }
    for id in [a, b] { alpha.push(X::Upd(format!("upd cancel {}", show_id(&id)), U::Cancel { order_id: id })); }
    for (id, n) in [(a, 0u64), (a, 1), (a, 4), (a, 9), (b, 0), (b, 4)] {
        alpha.push(X::Upd(format!("upd qty {} {}", show_id(&id), n), U::UpdateQuantity { order_id: id, new_quantity: n }));
    }
    for p in [price + 1, price] {
        alpha.push(X::Upd(format!("upd price {} {}", show_id(&a), p), U::UpdatePrice { order_id: a, new_price: p }));
        alpha.push(X::Upd(format!("upd pq {} {} 3", show_id(&a), p), U::UpdatePriceAndQuantity { order_id: a, new_price: p, new_quantity: 3 }));
    }
    alpha.push(X::Upd(format!("upd replace {} {} 3 {}", show_id(&a), price, show_side(Side::Buy)),
        U::Replace { order_id: a, price, quantity: 3, side: Side::Buy }));
    alpha.push(X::Upd(format!("upd replace {} {} 3 {}", show_id(&a), price + 2, show_side(Side::Sell)),
        U::Replace { order_id: a, price: price + 2, quantity: 3, side: Side::Sell }));
    alpha.push(X::Add(mk_order(0, a, price, 4, 0, 0, None, false, Side::Sell, 5, g)));
    alpha.push(X::Add(mk_order(0, c, price, 1, 0, 0, None, false, Side::Sell, 0, g)));
    alpha.push(X::Read("snapshot"));
    let na = alpha.len() as u64;
    let generator = UuidGenerator::new(Uuid::from_u128(crate::run::NS));
    let mut case = 0u64;
    let mut emit = |i1: usize, i2: usize, ops: &[u64]| {
        let lvl = PriceLevel::new(price);
        out.push(format!("case x{case}"));
        case += 1;
        out.push(format!("new {price}"));
        out.push(format!("add {}", show_order(&o1s[i1])));
        lvl.add_order(o1s[i1].clone());
        if let Some(o) = &o2s[i2] {
            out.push(format!("add {}", show_order(o)));
            lvl.add_order(o.clone());
        }
        out.push("state".to_string());
        for &k in ops {
            match &alpha[k as usize] {
                X::Match(q) => {
                    out.push(format!("match {} {}", q, show_id(&t)));
                    let _ = lvl.match_order(*q, t, &generator);
                }
                X::Upd(line, u) => {
                    out.push(line.clone());
                    let _ = lvl.update_order(u.clone());
                }
                X::Add(o) => {
                    // ids stay unique among resting orders (the properties' quantifier): skip when live
                    if lvl.iter_orders().iter().any(|x| x.id() == o.id()) { continue; }
                    out.push(format!("add {}", show_order(o)));
                    lvl.add_order(o.clone());
                }
                X::Read(what) => { out.push(format!("read {what}")); continue; }
            }
            out.push("state".to_string());
        }
        out.push(format!("match {} {}", 1u64 << 62, show_id(&pool_id(999))));
        out.push("state".to_string());
    };
    let shard = seed % 1000;
    if !thorough {
        for i1 in 0..o1s.len() { for i2 in 0..o2s.len() { for k in 0..na { emit(i1, i2, &[k]); } } }
        let mut r = Rng::new(seed ^ 0x5345_5158);
        for _ in 0..1500 {
            let (i1, i2) = (r.below(o1s.len() as u64) as usize, r.below(o2s.len() as u64) as usize);
            emit(i1, i2, &[r.below(na), r.below(na)]);
        }
    } else {
        let nsh = 14u64;
        let mut n = 0u64;
        for i1 in 0..o1s.len() { for i2 in 0..o2s.len() { for k1 in 0..na { for k2 in 0..na {
            n += 1;
            if n % nsh == shard % nsh { emit(i1, i2, &[k1, k2]); }
            for k3 in 0..na {
                n += 1;
                if n % nsh == shard % nsh { emit(i1, i2, &[k1, k2, k3]); }
            }
        } } } }
    }
}

/// E-seq for the exported OrderQueue (C19): push / pop / find / remove / len / is_empty / to_vec,
/// ids pushed once or re-pushed after removal; queues built from lists. The generator drives a
/// private copy of the real queue only to learn which ids are queued.
/// One match call that needs tens of thousands of refresh / replenish rounds of one maker: an iceberg (or an
/// auto-replenishing reserve) displaying 1-2 units over a hidden quantity of 66 000 - 90 000 tranches, a plain
/// order behind it, one sweep for all of it plus a little, then a draining match. (Quadratic in the model
/// driver, so one case per run; thorough: both kinds.)
pub fn gen_deep(seed: u64, thorough: bool, out: &Sink) {
    let mut r = Rng::new(seed ^ 0x4445_4550);
    {
        // a WIDE level: 1 100 - 5 000 distinct makers (past 1 024 and 4 096), all swept by one call, then listed
        let n = *r.pick(&[1_100u64, 2_200, 4_200, 5_000]);
        out.push("case wide".to_string());
        out.push("new 100".to_string());
        out.push("quiet on".to_string());
        for i in 0..n {
            let o = mk_order(if i % 7 == 3 { 5 } else { 0 }, pool_id(10_000 + i), 100, 1 + i % 3, if i % 7 == 3 { 1 } else { 0 }, 0, None, false, Side::Sell, i % 50, TimeInForce::Gtc);
            out.push(format!("add {}", show_order(&o)));
        }
        out.push("quiet off".to_string());
        out.push("state".to_string());
        out.push(format!("match {} {}", 1u64 << 40, show_id(&pool_id(900))));
        out.push("state".to_string());
    }
    let kinds: Vec<u8> = if thorough { vec![5, 6] } else { vec![if seed % 2 == 0 { 5 } else { 6 }] };
    for (case, kind) in kinds.into_iter().enumerate() {
        let case = case + 1;
        let price = 100u64;
        let vis = r.range(1, 3);
        let tranches = r.range(66_000, 90_000);
        let hid = tranches * vis - r.below(vis);
        let deep = mk_order(kind, pool_id(1), price, vis, hid, r.below(vis + 1), Some(vis), true, Side::Sell, 1, TimeInForce::Gtc);
        let behind = mk_order(0, pool_id(2), price, r.range(1, 9), 0, 0, None, false, Side::Sell, 2, TimeInForce::Gtc);
        out.push(format!("case {case}"));
        out.push(format!("new {price}"));
        out.push(format!("add {}", show_order(&deep)));
        out.push(format!("add {}", show_order(&behind)));
        out.push("state".to_string());
        out.push(format!("match {} {}", vis + hid + behind.visible_quantity() + r.below(3), show_id(&pool_id(900))));
        out.push("state".to_string());
        out.push(format!("match {} {}", 1u64 << 40, show_id(&pool_id(999))));
        out.push("state".to_string());
    }
}

pub fn gen_queue(seed: u64, ncases: u64, maxlen: u64, out: &Sink) {
    use std::sync::Arc;
    let mut r0 = Rng::new(seed ^ 0x5155_4555);
    for case in 0..ncases {
        let mut r = r0.fork();
        let npool = r.range(2, 7);
        let len = 1 + r.below(maxlen);
        let mut shadow = pricelevel::OrderQueue::new();
        let mut ever: Vec<OrderId> = Vec::new();
        let allow_repush = r.chance(1, 3);
        out.push(format!("case {case}"));
        if r.chance(1, 4) {
            let k = r.below(5);
            let mut v = Vec::new();
            for i in 0..k {
                let id = pool_id(1 + i);
                v.push(random_order(&mut r, id, 100, true, false));
                ever.push(id);
            }
            out.push(format!("q.fromvec {}", show_list(&v, show_order)));
            shadow = pricelevel::OrderQueue::from_vec(v.into_iter().map(Arc::new).collect());
            out.push("q.tovec".to_string());
        } else {
            out.push("qnew".to_string());
        }
        if r.chance(1, 40) {
            // churn scenario: many pushes (timestamps not monotone in push order), many removals by id (15..70),
            // a few pops in between, before the history proper
            let n0 = *r.pick(&[18u64, 24, 40, 72]);
            for i in 0..n0 {
                let id = pool_id(200 + i);
                let o = random_order(&mut r, id, 100, true, false);
                out.push(format!("q.push {}", show_order(&o)));
                shadow.push(Arc::new(o));
                ever.push(id);
            }
            let nrem = (*r.pick(&[15u64, 16, 17, 21, 31, 32, 33, 64, 65])).min(n0 - 2);
            for _ in 0..nrem {
                let live: Vec<OrderId> = shadow.to_vec().iter().map(|o| o.id()).collect();
                if live.len() <= 2 { break; }
                if r.chance(1, 12) {
                    out.push("q.pop".to_string());
                    let _ = shadow.pop();
                    continue;
                }
                let id = *r.pick(&live);
                out.push(format!("q.remove {}", show_id(&id)));
                let _ = shadow.remove(id);
            }
            out.push("q.len".to_string());
            out.push("q.tovec".to_string());
        }
        for _ in 0..len {
            let live: Vec<OrderId> = shadow.to_vec().iter().map(|o| o.id()).collect();
            match r.below(100) {
                0..=34 => {
                    let cands: Vec<OrderId> = (1..=npool)
                        .map(pool_id)
                        .filter(|i| !live.contains(i) && (allow_repush || !ever.contains(i)))
                        .collect();
                    if cands.is_empty() { continue; }
                    let id = *r.pick(&cands);
                    let o = random_order(&mut r, id, 100, true, false);
                    out.push(format!("q.push {}", show_order(&o)));
                    shadow.push(Arc::new(o));
                    ever.push(id);
                }
                35..=54 => {
                    out.push("q.pop".to_string());
                    let _ = shadow.pop();
                }
                55..=69 => {
                    let id = if !ever.is_empty() && r.chance(3, 4) { *r.pick(&ever) } else { pool_id(r.range(1, npool + 1)) };
                    out.push(format!("q.remove {}", show_id(&id)));
                    let _ = shadow.remove(id);
                }
                70..=79 => {
                    let id = if !ever.is_empty() && r.chance(3, 4) { *r.pick(&ever) } else { pool_id(r.range(1, npool + 1)) };
                    out.push(format!("q.find {}", show_id(&id)));
                }
                80..=86 => out.push("q.len".to_string()),
                87..=92 => out.push("q.isempty".to_string()),
                93..=96 => out.push(format!("q.rt {}", r.pick(&["vec", "from", "text", "json", "json-value", "json-reader", "json-escaped"]))),
                _ => out.push("q.tovec".to_string()),
            }
        }
        let left = shadow.to_vec().len() as u64;
        for _ in 0..(npool + 1).max(left + 1) {
            out.push("q.pop".to_string());
        }
        out.push("q.len".to_string());
    }
}

/// E-conc programs (DESIGN §4.5): a level pre-loaded with Standard / Iceberg / Reserve orders,
/// 2-4 threads each issuing 1-3 add / match / cancel / quantity-amend / read / next operations,
/// and a schedule (random with bursts, so that both coarse and fine interleavings occur).
pub fn gen_conc(seed: u64, ncases: u64, scheds_per_prog: u64, out: &Sink) {
    let mut r0 = Rng::new(seed ^ 0x434f_4e43);
    let mut case = 0u64;
    for _ in 0..ncases {
        let mut r = r0.fork();
        let price = 100u64;
        let npre = r.range(1, 4);
        let mut pre: Vec<Order> = Vec::new();
        for i in 0..npre {
            let id = pool_id(1 + i);
            let kind = *r.pick(&[0u8, 0, 5, 5, 6, 6, 1]);
            let vis = r.range(1, 12);
            let hid = if kind >= 5 { r.below(20) } else { 0 };
            let thr = r.below(4);
            let amt = match r.below(4) { 0 => None, 1 => Some(0), _ => Some(r.range(1, 9)) };
            let o = mk_order(kind, id, price, vis, hid, thr, amt, r.chance(2, 3), if r.chance(1, 2) { Side::Buy } else { Side::Sell }, r.range(1, 9), TimeInForce::Gtc);
            pre.push(o);
        }
        // one program in four starts on an aged level: a long sequential history of adds and cancels before
        // the threads start (housekeeping that only runs after much churn); one in four has a resting
        // iceberg/reserve order amended to display 0 beforehand (the order a match sets aside)
        let aged = if r.chance(1, 4) { r.range(34, 80) } else { 0 };
        let zeroed = if r.chance(1, 4) { Some(pool_id(1 + r.below(npre))) } else { None };
        let nthreads = r.range(2, 4);
        let mut fresh = 10u64;
        let mut progs: Vec<Vec<String>> = Vec::new();
        for _ in 0..nthreads {
            let nops = r.range(1, 3);
            let mut ops = Vec::new();
            for _ in 0..nops {
                let target = pool_id(1 + r.below(npre));
                ops.push(match r.below(100) {
                    0..=19 => {
                        fresh += 1;
                        let kind = *r.pick(&[0u8, 5, 6]);
                        let o = mk_order(kind, pool_id(fresh), price, r.range(1, 10), if kind >= 5 { r.below(12) } else { 0 }, r.below(3),
                                         if r.chance(1, 2) { None } else { Some(r.range(0, 6)) }, r.chance(2, 3), Side::Sell, r.range(1, 9), TimeInForce::Gtc);
                        format!("add~{}", show_order(&o))
                    }
                    20..=49 => format!("match~{}~{}", r.range(1, 25), show_id(&pool_id(900 + r.below(3)))),
                    // removal: a cancel, or any of the three price-bearing updates with another price
                    50..=69 => match r.below(6) {
                        0 => format!("mv.price~{}~{}", show_id(&target), price + 1 + r.below(3)),
                        1 => format!("mv.pq~{}~{}~{}", show_id(&target), price + 1, r.range(1, 9)),
                        2 => format!("mv.replace~{}~{}~{}~{}", show_id(&target), price - 1, r.range(1, 9), show_side(if r.chance(1, 2) { Side::Buy } else { Side::Sell })),
                        _ => format!("cancel~{}", show_id(&target)),
                    },
                    // same-price quantity amendment, directly or through the two other kinds at the level's own price
                    70..=87 => match r.below(5) {
                        0 => format!("same.pq~{}~{}", show_id(&target), r.range(0, 14)),
                        1 => format!("same.replace~{}~{}~{}", show_id(&target), r.range(0, 14), show_side(if r.chance(1, 2) { Side::Buy } else { Side::Sell })),
                        _ => format!("amend~{}~{}", show_id(&target), r.range(0, 14)),
                    },
                    88..=95 => format!("read~{}", r.pick(&["vis", "hid", "cnt", "list", "snap", "snap"])),
                    _ => "next".to_string(),
                });
            }
            progs.push(ops);
        }
        for _ in 0..scheds_per_prog {
            out.push(format!("case {case}"));
            case += 1;
            out.push(format!("new {price}"));
            for o in &pre {
                out.push(format!("add {}", show_order(o)));
            }
            for j in 0..aged {
                let o = mk_order(0, pool_id(2000 + j), price, 1 + j % 7, 0, 0, None, false, Side::Sell, 1 + j % 9, TimeInForce::Gtc);
                out.push(format!("add {}", show_order(&o)));
                out.push(format!("upd cancel {}", show_id(&pool_id(2000 + j))));
            }
            if let Some(z) = &zeroed {
                out.push(format!("upd qty {} 0", show_id(z)));
            }
            for (k, p) in progs.iter().enumerate() {
                out.push(format!("conc.thread {} {}", k, p.join(";")));
            }
            // schedule: bursts of random length per thread
            let mut sched: Vec<String> = Vec::new();
            let bursty = r.chance(1, 2);
            while sched.len() < 90 {
                let t = r.below(nthreads);
                let len = if bursty { r.range(1, 9) } else { 1 };
                for _ in 0..len {
                    sched.push(t.to_string());
                }
            }
            // half of the executions run worker 0 on the thread that built the level and the generator
            out.push(format!("conc.run {}{}", sched.join(","), if r.chance(1, 2) { " h" } else { "" }));
            out.push("state".to_string());
            out.push(format!("match {} {}", 1u64 << 40, show_id(&pool_id(999))));
            out.push("state".to_string());
        }
    }
}

/// Systematic small-scope schedules. The PROGRAMS are enumerated, not drawn: a level holding one target order X
/// (six shapes: Standard; Iceberg with hidden >= display, with hidden < display, with display 0; auto-replenishing
/// Reserve whose tranche equals its display; manual Reserve), alone or with a Standard order behind it; thread 0
/// issues one of seven calls (add Standard / add Iceberg / amend X up, to the same value, down, to 0 / cancel X),
/// thread 1 one of ten (match 1, match exactly X's display, match 100, cancel X, amend X, list, add Iceberg, move X to
/// another price, replace X at the level's price, snapshot()) and
/// thread 0 may also match; a seventh target shape is the Standard order amended beforehand (two tickets) - 1120 programs.
/// Each runs under every schedule with at most two context switches from a grid: thread 0 runs k steps, thread 1 runs
/// m steps, thread 0 finishes, thread 1 finishes. quick / search: `nprogs` programs drawn without replacement, k in
/// 0..=7, m in {1..6, 8, 10, 12, 14, 16, 40}; thorough: the shard's slice of all programs, k in 0..=8, m in 0..=16 and 40.
pub fn gen_concx(seed: u64, nprogs: u64, thorough: bool, out: &Sink) {
    let price = 100u64;
    let x = pool_id(1);
    let y = pool_id(2);
    let g = TimeInForce::Gtc;
    let xs: Vec<Order> = vec![
        mk_order(0, x, price, 5, 0, 0, None, false, Side::Sell, 1, g),
        mk_order(5, x, price, 4, 9, 0, None, false, Side::Sell, 1, g),
        mk_order(5, x, price, 4, 2, 0, None, false, Side::Sell, 1, g),
        mk_order(5, x, price, 0, 3, 0, None, false, Side::Sell, 1, g),
        mk_order(6, x, price, 3, 6, 1, Some(3), true, Side::Sell, 1, g),
        mk_order(6, x, price, 3, 6, 2, None, false, Side::Sell, 1, g),
    ];
    // a seventh shape: the Standard order amended once before the threads start (two tickets for one order)
    let n_shapes = xs.len() + 1;
    let yo = mk_order(0, y, price, 5, 0, 0, None, false, Side::Sell, 2, g);
    let xi = show_id(&x);
    let mut programs: Vec<(usize, bool, String, String)> = Vec::new();
    for ix in 0..n_shapes {
        let xo = &xs[ix % xs.len()];
        let v = if ix >= xs.len() { 6 } else { xo.visible_quantity() };
        for with_y in [false, true] {
            let op0s = vec![
                format!("add~{}", show_order(&mk_order(0, pool_id(50), price, 4, 0, 0, None, false, Side::Sell, 3, g))),
                format!("add~{}", show_order(&mk_order(5, pool_id(50), price, 2, 3, 0, None, false, Side::Sell, 0, g))),
                format!("amend~{}~{}", xi, v + 3),
                format!("amend~{}~{}", xi, v),
                format!("amend~{}~1", xi),
                format!("amend~{}~0", xi),
                format!("cancel~{}", xi),
                format!("match~2~{}", show_id(&pool_id(901))),
            ];
            let op1s = vec![
                format!("match~1~{}", show_id(&pool_id(900))),
                format!("match~{}~{}", v.max(1), show_id(&pool_id(900))),
                format!("match~100~{}", show_id(&pool_id(900))),
                format!("cancel~{}", xi),
                format!("amend~{}~7", xi),
                "read~list".to_string(),
                format!("add~{}", show_order(&mk_order(5, pool_id(51), price, 3, 2, 0, None, false, Side::Sell, 4, g))),
                format!("mv.price~{}~{}", xi, price + 1),
                format!("same.replace~{}~2~{}", xi, show_side(Side::Buy)),
                "read~snap".to_string(),
            ];
            for a in &op0s { for b in &op1s { programs.push((ix, with_y, a.clone(), b.clone())); } }
        }
    }
    let total = programs.len() as u64;
    let chosen: Vec<usize> = if thorough {
        let shard = seed % 1000 % 14;
        (0..total).filter(|p| p % 14 == shard).map(|p| p as usize).collect()
    } else {
        // a stratified sample: EVERY pair (call of thread 0, call of thread 1) occurs in every run, each on one target
        // shapes drawn for it (two of the 7 shapes x with/without a second order); `nprogs` caps the number of programs
        let mut r = Rng::new(seed ^ 0x434f_4e58);
        let n0 = 8usize; // calls of thread 0
        let n1 = 10usize; // calls of thread 1
        let per_shape = n0 * n1;
        let mut pick = Vec::new();
        for a in 0..n0 {
            for b in 0..n1 {
                // two different (shape, with_y) blocks per pair
                let nblocks = total as usize / per_shape;
                let s1 = r.below(nblocks as u64) as usize;
                let s2 = (s1 + 1 + r.below(nblocks as u64 - 1) as usize) % nblocks;
                pick.push(s1 * per_shape + a * n1 + b);
                pick.push(s2 * per_shape + a * n1 + b);
            }
        }
        // a rotating subset when fewer are asked for
        if (nprogs as usize) < pick.len() {
            let off = r.below(pick.len() as u64) as usize;
            pick = (0..nprogs as usize).map(|i| pick[(off + i * 7) % pick.len()]).collect();
        }
        pick
    };
    let ks: Vec<u64> = if thorough { (0..=8).collect() } else { (0..=5).collect() };
    let ms: Vec<u64> = if thorough { (0..=16).chain([40]).collect() } else { vec![1, 2, 4, 8, 40] };
    let mut case = 0u64;
    for p in chosen {
        let (ix, with_y, op0, op1) = &programs[p];
        for &k in &ks {
            for &m in &ms {
                out.push(format!("case p{p}-{case}"));
                case += 1;
                out.push(format!("new {price}"));
                out.push(format!("add {}", show_order(&xs[*ix % xs.len()])));
                if *ix >= xs.len() {
                    out.push(format!("upd qty {} 6", xi));
                }
                if *with_y {
                    out.push(format!("add {}", show_order(&yo)));
                }
                out.push(format!("conc.thread 0 {op0}"));
                out.push(format!("conc.thread 1 {op1}"));
                let mut sched: Vec<&str> = Vec::new();
                for _ in 0..k { sched.push("0"); }
                for _ in 0..m { sched.push("1"); }
                for _ in 0..30 { sched.push("0"); }
                for _ in 0..60 { sched.push("1"); }
                out.push(format!("conc.run {}{}", sched.join(","), if (k + m) % 2 == 0 { " h" } else { "" }));
                out.push("state".to_string());
                out.push(format!("match {} {}", 1u64 << 40, show_id(&pool_id(999))));
                out.push("state".to_string());
            }
        }
    }
}

//! Canonical text forms of the line protocol (DESIGN §2.4). Orders are printed through the
//! crate's accessors / enum fields by this file, never through the crate's own Display, so a
//! change in a codec does not disturb the properties that are not about codecs.
use pricelevel::{OrderId, OrderType, OrderUpdate, PegReferenceType, Side, TimeInForce};
use ulid::Ulid;
use uuid::Uuid;

pub type Order = OrderType<()>;

pub fn show_id(id: &OrderId) -> String {
    match id {
        OrderId::Uuid(u) => format!("u{}", u.as_u128()),
        OrderId::Ulid(u) => format!("l{}", u.0),
    }
}

pub fn parse_id(s: &str) -> Option<OrderId> {
    let n: u128 = s.get(1..)?.parse().ok()?;
    match s.as_bytes().first()? {
        b'u' => Some(OrderId::Uuid(Uuid::from_u128(n))),
        b'l' => Some(OrderId::Ulid(Ulid(n))),
        _ => None,
    }
}

pub fn show_side(s: Side) -> &'static str {
    match s {
        Side::Buy => "B",
        Side::Sell => "S",
    }
}

pub fn parse_side(s: &str) -> Option<Side> {
    match s {
        "B" => Some(Side::Buy),
        "S" => Some(Side::Sell),
        _ => None,
    }
}

pub fn show_tif(t: TimeInForce) -> String {
    match t {
        TimeInForce::Gtc => "GTC".into(),
        TimeInForce::Ioc => "IOC".into(),
        TimeInForce::Fok => "FOK".into(),
        TimeInForce::Day => "DAY".into(),
        TimeInForce::Gtd(n) => format!("GTD-{n}"),
    }
}

pub fn parse_tif(s: &str) -> Option<TimeInForce> {
    Some(match s {
        "GTC" => TimeInForce::Gtc,
        "IOC" => TimeInForce::Ioc,
        "FOK" => TimeInForce::Fok,
        "DAY" => TimeInForce::Day,
        _ => TimeInForce::Gtd(s.strip_prefix("GTD-")?.parse().ok()?),
    })
}

pub fn show_peg(p: PegReferenceType) -> &'static str {
    match p {
        PegReferenceType::BestBid => "BB",
        PegReferenceType::BestAsk => "BA",
        PegReferenceType::MidPrice => "MP",
        PegReferenceType::LastTrade => "LT",
    }
}

pub fn parse_peg(s: &str) -> Option<PegReferenceType> {
    Some(match s {
        "BB" => PegReferenceType::BestBid,
        "BA" => PegReferenceType::BestAsk,
        "MP" => PegReferenceType::MidPrice,
        "LT" => PegReferenceType::LastTrade,
        _ => return None,
    })
}

pub fn show_order(o: &Order) -> String {
    let common = |id: &OrderId, price: &u64, vis: &u64, side: &Side, ts: &u64, tif: &TimeInForce| {
        format!("{}|{}|{}|{}|{}|{}", show_id(id), price, vis, show_side(*side), ts, show_tif(*tif))
    };
    match o {
        OrderType::Standard { id, price, quantity, side, timestamp, time_in_force, .. } => {
            format!("S|{}", common(id, price, quantity, side, timestamp, time_in_force))
        }
        OrderType::PostOnly { id, price, quantity, side, timestamp, time_in_force, .. } => {
            format!("P|{}", common(id, price, quantity, side, timestamp, time_in_force))
        }
        OrderType::MarketToLimit { id, price, quantity, side, timestamp, time_in_force, .. } => {
            format!("M|{}", common(id, price, quantity, side, timestamp, time_in_force))
        }
        OrderType::TrailingStop {
            id, price, quantity, side, timestamp, time_in_force, trail_amount, last_reference_price, ..
        } => format!(
            "T|{}|{}|{}",
            common(id, price, quantity, side, timestamp, time_in_force),
            trail_amount,
            last_reference_price
        ),
        OrderType::PeggedOrder {
            id, price, quantity, side, timestamp, time_in_force, reference_price_offset, reference_price_type, ..
        } => format!(
            "G|{}|{}|{}",
            common(id, price, quantity, side, timestamp, time_in_force),
            reference_price_offset,
            show_peg(*reference_price_type)
        ),
        OrderType::IcebergOrder {
            id, price, visible_quantity, hidden_quantity, side, timestamp, time_in_force, ..
        } => format!(
            "I|{}|{}",
            common(id, price, visible_quantity, side, timestamp, time_in_force),
            hidden_quantity
        ),
        OrderType::ReserveOrder {
            id, price, visible_quantity, hidden_quantity, side, timestamp, time_in_force,
            replenish_threshold, replenish_amount, auto_replenish, ..
        } => format!(
            "R|{}|{}|{}|{}|{}",
            common(id, price, visible_quantity, side, timestamp, time_in_force),
            hidden_quantity,
            replenish_threshold,
            replenish_amount.map_or("-".to_string(), |v| v.to_string()),
            if *auto_replenish { "1" } else { "0" }
        ),
    }
}

pub fn parse_order(s: &str) -> Option<Order> {
    let p: Vec<&str> = s.split('|').collect();
    if p.len() < 7 {
        return None;
    }
    let id = parse_id(p[1])?;
    let price: u64 = p[2].parse().ok()?;
    let vis: u64 = p[3].parse().ok()?;
    let side = parse_side(p[4])?;
    let timestamp: u64 = p[5].parse().ok()?;
    let time_in_force = parse_tif(p[6])?;
    let rest = &p[7..];
    Some(match (p[0], rest.len()) {
        ("S", 0) => OrderType::Standard { id, price, quantity: vis, side, timestamp, time_in_force, extra_fields: () },
        ("P", 0) => OrderType::PostOnly { id, price, quantity: vis, side, timestamp, time_in_force, extra_fields: () },
        ("M", 0) => {
            OrderType::MarketToLimit { id, price, quantity: vis, side, timestamp, time_in_force, extra_fields: () }
        }
        ("T", 2) => OrderType::TrailingStop {
            id, price, quantity: vis, side, timestamp, time_in_force,
            trail_amount: rest[0].parse().ok()?,
            last_reference_price: rest[1].parse().ok()?,
            extra_fields: (),
        },
        ("G", 2) => OrderType::PeggedOrder {
            id, price, quantity: vis, side, timestamp, time_in_force,
            reference_price_offset: rest[0].parse().ok()?,
            reference_price_type: parse_peg(rest[1])?,
            extra_fields: (),
        },
        ("I", 1) => OrderType::IcebergOrder {
            id, price, visible_quantity: vis, hidden_quantity: rest[0].parse().ok()?,
            side, timestamp, time_in_force, extra_fields: (),
        },
        ("R", 4) => OrderType::ReserveOrder {
            id, price, visible_quantity: vis, hidden_quantity: rest[0].parse().ok()?,
            side, timestamp, time_in_force,
            replenish_threshold: rest[1].parse().ok()?,
            replenish_amount: if rest[2] == "-" { None } else { Some(rest[2].parse().ok()?) },
            auto_replenish: match rest[3] { "1" => true, "0" => false, _ => return None },
            extra_fields: (),
        },
        _ => return None,
    })
}

pub fn show_opt_order(o: Option<&Order>) -> String {
    o.map_or("-".to_string(), show_order)
}

pub fn id_key(id: &OrderId) -> (u8, u128) {
    match id {
        OrderId::Uuid(u) => (0, u.as_u128()),
        OrderId::Ulid(u) => (1, u.0),
    }
}

/// canonical listing order: by (timestamp, id)  (DESIGN §4.7)
pub fn canon_sort(v: &mut Vec<Order>) {
    v.sort_by_key(|o| (o.timestamp(), id_key(&o.id())));
}

pub fn show_list<T>(xs: &[T], f: impl Fn(&T) -> String) -> String {
    format!("[{}]", xs.iter().map(f).collect::<Vec<_>>().join(","))
}

pub fn parse_update(t: &[&str]) -> Option<OrderUpdate> {
    Some(match t {
        ["price", id, p] => OrderUpdate::UpdatePrice { order_id: parse_id(id)?, new_price: p.parse().ok()? },
        ["qty", id, n] => OrderUpdate::UpdateQuantity { order_id: parse_id(id)?, new_quantity: n.parse().ok()? },
        ["pq", id, p, n] => OrderUpdate::UpdatePriceAndQuantity {
            order_id: parse_id(id)?,
            new_price: p.parse().ok()?,
            new_quantity: n.parse().ok()?,
        },
        ["cancel", id] => OrderUpdate::Cancel { order_id: parse_id(id)? },
        ["replace", id, p, n, sd] => OrderUpdate::Replace {
            order_id: parse_id(id)?,
            price: p.parse().ok()?,
            quantity: n.parse().ok()?,
            side: parse_side(sd)?,
        },
        _ => return None,
    })
}

import PLV.Model.Order
import PLV.Model.Level
import PLV.Model.Proto
import PLV.Judge
import PLV.Props.C05

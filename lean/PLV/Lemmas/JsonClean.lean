/-
  Every encoder of `PLV.Model.Json` produces a clean tree (for values that fit their Rust types),
  so the text round trip of `JsonRT` applies to everything the crate serializes.
-/
import PLV.Lemmas.JsonRT
import PLV.Props.Ranges

namespace PLV.J
open PLV PLV.Text

theorem idChar_range {c : Char} (h : idChar c = true) : 45 ≤ c.toNat ∧ c.toNat < 128 ∧ c ≠ '\\' := by
  simp only [idChar, Char.isAlphanum, Char.isAlpha, Char.isUpper, Char.isLower, Char.isDigit, Bool.or_eq_true,
    Bool.and_eq_true, decide_eq_true_eq, UInt32.le_iff_toNat_le] at h
  have hv : c.toNat = c.val.toNat := rfl
  refine ⟨?_, ?_, ?_⟩
  · rcases h with ((⟨h1, h2⟩ | ⟨h1, h2⟩) | ⟨h1, h2⟩) | h
    all_goals first | (simp at h1 h2; omega) | (subst h; decide)
  · rcases h with ((⟨h1, h2⟩ | ⟨h1, h2⟩) | ⟨h1, h2⟩) | h
    all_goals first | (simp at h1 h2; omega) | (subst h; decide)
  · rintro rfl
    revert h; decide

theorem cleanStr_of_id {s : Str} (h : ∀ c ∈ s, idChar c = true) : cleanStr s = true := by
  apply List.all_eq_true.2
  intro c hc
  obtain ⟨h1, h2, h3⟩ := idChar_range (h c hc)
  have h4 : c ≠ '"' := by rintro rfl; simp at h1
  simp [h3, h4, h2]; omega

theorem wlt {n : Nat} (h : n < W) : n < 18446744073709551616 := by simpa only [W] using h

theorem clean_nat {n : Nat} (h : n < W) : clean (.num (n : Int)) = true := by
  simp only [W] at h
  show decide (n < 18446744073709551616) = true
  simpa using h

theorem clean_int {i : Int} (h1 : -9223372036854775808 ≤ i) (h2 : i < 9223372036854775808) : clean (.num i) = true := by
  cases i with
  | ofNat n =>
    show decide (n < 18446744073709551616) = true
    simp only [Int.ofNat_eq_natCast] at h2; simp; omega
  | negSucc n =>
    show decide (n < 9223372036854775808) = true
    simp only [Int.negSucc_eq] at h1; simp; omega

theorem clean_id (i : Id) : clean (encId i) = true := by
  simp only [encId, clean]; exact cleanStr_of_id (showId_chars i)

theorem clean_uuid (v : Nat) : clean (encUuid v) = true := by
  simp only [encUuid, clean]; exact cleanStr_of_id (fun c hc => (showUuid_chars v c hc).1)

theorem clean_side (s : Side) : clean (encSide s) = true := by cases s <;> decide

theorem clean_peg (p : PegRef) : clean (encPeg p) = true := by cases p <;> decide

theorem clean_tif (t : Tif) (h : ∀ n, t = .gtd n → n < W) : clean (encTif t) = true := by
  cases t with
  | gtd n =>
    have hn := h n rfl
    simp only [W] at hn
    have k : cleanStr (lit "GTD") = true := by decide
    simp [encTif, clean, cleanFields, k, hn]
  | _ => decide

theorem clean_bool (b : Bool) : clean (.bool b) = true := rfl

/-- keys are literals: decided once -/
theorem cleanStr_lit_keys : ∀ k ∈ ["id", "price", "quantity", "visible_quantity", "hidden_quantity", "side", "timestamp",
    "time_in_force", "extra_fields", "trail_amount", "last_reference_price", "reference_price_offset",
    "reference_price_type", "replenish_threshold", "replenish_amount", "auto_replenish", "Standard", "PostOnly",
    "MarketToLimit", "TrailingStop", "PeggedOrder", "IcebergOrder", "ReserveOrder", "order_id", "new_price",
    "new_quantity", "UpdatePrice", "UpdateQuantity", "UpdatePriceAndQuantity", "Cancel", "Replace",
    "transaction_id", "taker_order_id", "maker_order_id", "taker_side", "transactions", "remaining_quantity",
    "is_complete", "filled_order_ids", "orders_added", "orders_removed", "orders_executed", "quantity_executed",
    "value_executed", "last_execution_time", "first_arrival_time", "sum_waiting_time", "order_count", "orders",
    "version", "snapshot", "checksum"], cleanStr (lit k) = true := by decide

macro "key_tac" : tactic => `(tactic| exact cleanStr_lit_keys _ (by decide))

theorem clean_order (o : Order) (h : OrderOk o) : clean (encOrder o) = true := by
  obtain ⟨id, price, vis, side, ts, tif, kind⟩ := o
  obtain ⟨_, h2, h3, h4, h5, hk⟩ := h
  have e1 := clean_id id
  have e2 := wlt h2
  have e3 := wlt h3
  have e4 := wlt h4
  have e5 := clean_tif tif h5
  have e6 := clean_side side
  have kid : cleanStr (lit "id") = true := by key_tac
  have kprice : cleanStr (lit "price") = true := by key_tac
  have kq : cleanStr (lit "quantity") = true := by key_tac
  have kvq : cleanStr (lit "visible_quantity") = true := by key_tac
  have khq : cleanStr (lit "hidden_quantity") = true := by key_tac
  have kside : cleanStr (lit "side") = true := by key_tac
  have kts : cleanStr (lit "timestamp") = true := by key_tac
  have ktif : cleanStr (lit "time_in_force") = true := by key_tac
  have kex : cleanStr (lit "extra_fields") = true := by key_tac
  cases kind with
  | standard =>
    have kn : cleanStr (lit "Standard") = true := by key_tac
    simp [encOrder, orderFields, clean, cleanFields, e1, e2, e3, e4, e5, e6, kid, kprice, kq, kside, kts, ktif, kex, kn]
  | postOnly =>
    have kn : cleanStr (lit "PostOnly") = true := by key_tac
    simp [encOrder, orderFields, clean, cleanFields, e1, e2, e3, e4, e5, e6, kid, kprice, kq, kside, kts, ktif, kex, kn]
  | marketToLimit =>
    have kn : cleanStr (lit "MarketToLimit") = true := by key_tac
    simp [encOrder, orderFields, clean, cleanFields, e1, e2, e3, e4, e5, e6, kid, kprice, kq, kside, kts, ktif, kex, kn]
  | trailingStop t r =>
    have kn : cleanStr (lit "TrailingStop") = true := by key_tac
    have k1 : cleanStr (lit "trail_amount") = true := by key_tac
    have k2 : cleanStr (lit "last_reference_price") = true := by key_tac
    have e7 := wlt hk.1
    have e8 := wlt hk.2
    simp [encOrder, orderFields, clean, cleanFields, e1, e2, e3, e4, e5, e6, e7, e8, kid, kprice, kq, kside, kts, ktif, kex, kn, k1, k2]
  | pegged off r =>
    have kn : cleanStr (lit "PeggedOrder") = true := by key_tac
    have k1 : cleanStr (lit "reference_price_offset") = true := by key_tac
    have k2 : cleanStr (lit "reference_price_type") = true := by key_tac
    have e7 := clean_int hk.1 hk.2
    have e8 := clean_peg r
    simp only [encOrder, orderFields]
    generalize (Json.num off) = jo at e7 ⊢
    simp [clean, cleanFields, e1, e2, e3, e4, e5, e6, e7, e8, kid, kprice, kq, kside, kts, ktif, kex, kn, k1, k2]
  | iceberg hq =>
    have kn : cleanStr (lit "IcebergOrder") = true := by key_tac
    have e7 := wlt hk
    simp [encOrder, orderFields, clean, cleanFields, e1, e2, e3, e4, e5, e6, e7, kid, kprice, kvq, khq, kside, kts, ktif, kex, kn]
  | reserve hq thr amt auto =>
    have kn : cleanStr (lit "ReserveOrder") = true := by key_tac
    have k1 : cleanStr (lit "replenish_threshold") = true := by key_tac
    have k2 : cleanStr (lit "replenish_amount") = true := by key_tac
    have k3 : cleanStr (lit "auto_replenish") = true := by key_tac
    have e7 := wlt hk.1
    have e8 := wlt hk.2.1
    cases amt with
    | none =>
      simp [encOrder, orderFields, clean, cleanFields, e1, e2, e3, e4, e5, e6, e7, e8, kid, kprice, kvq, khq, kside, kts, ktif, kex, kn, k1, k2, k3]
    | some a =>
      have e9 := wlt (hk.2.2 a rfl)
      simp [encOrder, orderFields, clean, cleanFields, e1, e2, e3, e4, e5, e6, e7, e8, e9, kid, kprice, kvq, khq, kside, kts, ktif, kex, kn, k1, k2, k3]

theorem cleanList_map {α : Type} (enc : α → Json) (l : List α) (h : ∀ x ∈ l, clean (enc x) = true) :
    cleanList (l.map enc) = true := by
  induction l with
  | nil => rfl
  | cons x rest ih =>
    simp only [List.map_cons, cleanList, Bool.and_eq_true]
    exact ⟨h x (List.mem_cons_self ..), ih (fun y hy => h y (List.mem_cons_of_mem _ hy))⟩

theorem clean_orders (os : List Order) (h : ∀ o ∈ os, OrderOk o) : clean (encOrders os) = true := by
  simp only [encOrders, clean]
  exact cleanList_map encOrder os (fun o ho => clean_order o (h o ho))

theorem clean_snapshot (s : Snapshot) (h : SnapOk s) : clean (encSnapshot s) = true := by
  have e1 := wlt h.price
  have e2 := wlt h.vis
  have e3 := wlt h.hid
  have e4 := wlt h.cnt
  have e5 := clean_orders s.orders h.orders
  have k1 : cleanStr (lit "price") = true := by key_tac
  have k2 : cleanStr (lit "visible_quantity") = true := by key_tac
  have k3 : cleanStr (lit "hidden_quantity") = true := by key_tac
  have k4 : cleanStr (lit "order_count") = true := by key_tac
  have k5 : cleanStr (lit "orders") = true := by key_tac
  simp [encSnapshot, clean, cleanFields, e1, e2, e3, e4, e5, k1, k2, k3, k4, k5]


theorem clean_update (u : Update) (h : UpdateOk u) : clean (encUpdate u) = true := by
  have k0 : cleanStr (lit "order_id") = true := by key_tac
  have k1 : cleanStr (lit "new_price") = true := by key_tac
  have k2 : cleanStr (lit "new_quantity") = true := by key_tac
  have k3 : cleanStr (lit "price") = true := by key_tac
  have k4 : cleanStr (lit "quantity") = true := by key_tac
  have k5 : cleanStr (lit "side") = true := by key_tac
  cases u with
  | price id p =>
    have kn : cleanStr (lit "UpdatePrice") = true := by key_tac
    have e1 := clean_id id; have e2 := wlt h.2
    simp [encUpdate, clean, cleanFields, e1, e2, k0, k1, kn]
  | quantity id n =>
    have kn : cleanStr (lit "UpdateQuantity") = true := by key_tac
    have e1 := clean_id id; have e2 := wlt h.2
    simp [encUpdate, clean, cleanFields, e1, e2, k0, k2, kn]
  | priceQty id p n =>
    have kn : cleanStr (lit "UpdatePriceAndQuantity") = true := by key_tac
    have e1 := clean_id id; have e2 := wlt h.2.1; have e3 := wlt h.2.2
    simp [encUpdate, clean, cleanFields, e1, e2, e3, k0, k1, k2, kn]
  | cancel id =>
    have kn : cleanStr (lit "Cancel") = true := by key_tac
    have e1 := clean_id id
    simp [encUpdate, clean, cleanFields, e1, k0, kn]
  | replace id p n sd =>
    have kn : cleanStr (lit "Replace") = true := by key_tac
    have e1 := clean_id id; have e2 := wlt h.2.1; have e3 := wlt h.2.2; have e4 := clean_side sd
    simp [encUpdate, clean, cleanFields, e1, e2, e3, e4, k0, k3, k4, k5, kn]

theorem clean_tx (t : TxRec) (h : TxOk t) : clean (encTx t) = true := by
  have e0 := clean_uuid t.txid
  have e1 := clean_id t.taker
  have e2 := clean_id t.maker
  have e3 := wlt h.price
  have e4 := wlt h.qty
  have e5 := wlt h.ts
  have e6 := clean_side t.side
  have k0 : cleanStr (lit "transaction_id") = true := by key_tac
  have k1 : cleanStr (lit "taker_order_id") = true := by key_tac
  have k2 : cleanStr (lit "maker_order_id") = true := by key_tac
  have k3 : cleanStr (lit "price") = true := by key_tac
  have k4 : cleanStr (lit "quantity") = true := by key_tac
  have k5 : cleanStr (lit "taker_side") = true := by key_tac
  have k6 : cleanStr (lit "timestamp") = true := by key_tac
  simp [encTx, clean, cleanFields, e0, e1, e2, e3, e4, e5, e6, k0, k1, k2, k3, k4, k5, k6]

theorem clean_txlist (l : List TxRec) (h : ∀ t ∈ l, TxOk t) : clean (encTxList l) = true := by
  have k0 : cleanStr (lit "transactions") = true := by key_tac
  have := cleanList_map encTx l (fun t ht => clean_tx t (h t ht))
  simp [encTxList, clean, cleanFields, k0, this]

theorem clean_mr (r : MRRec) (h : MROk r) : clean (encMR r) = true := by
  have e1 := clean_id r.orderId
  have e2 := clean_txlist r.txs h.txs
  have e3 := wlt h.rem
  have e4 := cleanList_map encId r.filled (fun i _ => clean_id i)
  have k0 : cleanStr (lit "order_id") = true := by key_tac
  have k1 : cleanStr (lit "transactions") = true := by key_tac
  have k2 : cleanStr (lit "remaining_quantity") = true := by key_tac
  have k3 : cleanStr (lit "is_complete") = true := by key_tac
  have k4 : cleanStr (lit "filled_order_ids") = true := by key_tac
  simp only [encMR]
  generalize encTxList r.txs = jt at e2 ⊢
  simp [ clean, cleanFields, e1, e2, e3, e4, k0, k1, k2, k3, k4]

theorem clean_stats (s : StatsRec) (h : s.added < W ∧ s.removed < W ∧ s.executed < W ∧ s.qty < W ∧ s.value < W ∧
    s.last < W ∧ s.first < W ∧ s.wait < W) : clean (encStats s) = true := by
  obtain ⟨h1, h2, h3, h4, h5, h6, h7, h8⟩ := h
  have e1 := wlt h1; have e2 := wlt h2; have e3 := wlt h3; have e4 := wlt h4
  have e5 := wlt h5; have e6 := wlt h6; have e7 := wlt h7; have e8 := wlt h8
  have k1 : cleanStr (lit "orders_added") = true := by key_tac
  have k2 : cleanStr (lit "orders_removed") = true := by key_tac
  have k3 : cleanStr (lit "orders_executed") = true := by key_tac
  have k4 : cleanStr (lit "quantity_executed") = true := by key_tac
  have k5 : cleanStr (lit "value_executed") = true := by key_tac
  have k6 : cleanStr (lit "last_execution_time") = true := by key_tac
  have k7 : cleanStr (lit "first_arrival_time") = true := by key_tac
  have k8 : cleanStr (lit "sum_waiting_time") = true := by key_tac
  simp [encStats, clean, cleanFields, e1, e2, e3, e4, e5, e6, e7, e8, k1, k2, k3, k4, k5, k6, k7, k8]

theorem clean_package (p : Package) (hv : p.version < 4294967296) (hs : SnapOk p.snapshot)
    (hc : cleanStr p.checksum = true) : clean (encPackage p) = true := by
  have e1 : p.version < 18446744073709551616 := by omega
  have e2 := clean_snapshot p.snapshot hs
  have k1 : cleanStr (lit "version") = true := by key_tac
  have k2 : cleanStr (lit "snapshot") = true := by key_tac
  have k3 : cleanStr (lit "checksum") = true := by key_tac
  simp only [encPackage]
  generalize encSnapshot p.snapshot = js at e2 ⊢
  simp [ clean, cleanFields, e1, e2, hc, k1, k2, k3]

end PLV.J

/-
  Global invariants of the small-step model over all schedules (helper lemmas for C03, C08, C12,
  C13): ownership, counter congruence, well-formedness.
-/
import PLV.Lemmas.ConcOwn

namespace PLV.Conc
open PLV

def opHeld : COp → List Id
  | .add o => [o.id]
  | _ => []

def OpOk : COp → Prop
  | .matchQ q _ => q ≠ 0
  | _ => True

/-- ids a thread holds or will bring: those of its current call and of the adds it has yet to issue -/
def theld (t : Thread) : List Id := held t.pc ++ t.todo.flatMap opHeld

def tok (t : Thread) : Prop := PcOk t.pc ∧ ∀ op ∈ t.todo, OpOk op

def sumT (f : Thread → Nat) : List Thread → Nat
  | [] => 0
  | t :: ts => f t + sumT f ts

theorem sumT_set (f : Thread → Nat) (ts : List Thread) (i : Nat) (t t' : Thread) (h : ts[i]? = some t) :
    sumT f (ts.set i t') + f t = sumT f ts + f t' := by
  induction ts generalizing i with
  | nil => simp at h
  | cons x rest ih =>
    cases i with
    | zero => simp at h; subst h; simp [sumT]; omega
    | succ k =>
      simp at h
      have := ih k h
      simp [sumT]; omega

theorem sumT_le_of_mem (f : Thread → Nat) (ts : List Thread) (i : Nat) (t : Thread) (h : ts[i]? = some t) :
    f t ≤ sumT f ts := by
  induction ts generalizing i with
  | nil => simp at h
  | cons x rest ih =>
    cases i with
    | zero => simp at h; subst h; simp [sumT]
    | succ k => simp at h; have := ih k h; simp [sumT]; omega

/-! ### starting the next call changes none of the measures -/

theorem norm_measures {t tn : Thread} (h : t.norm = some tn) (hok : tok t) :
    cV tn.pc = cV t.pc ∧ cH tn.pc = cH t.pc ∧ cC tn.pc = cC t.pc ∧ theld tn = theld t ∧ tok tn := by
  unfold Thread.norm at h
  split at h
  · simp at h
  · rename_i op rest hpc htodo
    simp at h; subst h
    refine ⟨?_, ?_, ?_, ?_, ?_⟩
    · rw [hpc]; cases op <;> rfl
    · rw [hpc]; cases op <;> rfl
    · rw [hpc]; cases op <;> rfl
    · simp only [theld, hpc, htodo, List.flatMap_cons]
      cases op <;> simp [start, held, opHeld]
    · constructor
      · have := hok.2 op (by rw [htodo]; simp)
        cases op <;> simp_all [start, PcOk, OpOk]
      · intro o ho; exact hok.2 o (by rw [htodo]; simp [ho])
  · simp at h; subst h; exact ⟨rfl, rfl, rfl, rfl, hok⟩

theorem after_measures (tn : Thread) (a : After) :
    cV (tn.after a).pc = a.cV ∧ cH (tn.after a).pc = a.cH ∧ cC (tn.after a).pc = a.cC ∧
      theld (tn.after a) = a.held ++ tn.todo.flatMap opHeld := by
  cases a <;> simp [Thread.after, After.cV, After.cH, After.cC, After.held, theld, cV, cH, cC, held]

/-- The inductive invariant of a concurrent execution. -/
structure CInv (c : Cfg) : Prop where
  /-- every id is in exactly one place: the map, or the hands of one thread -/
  own : ∀ x, (ids c.sh.map).count x + sumT (fun t => (theld t).count x) c.ts ≤ 1
  ok : ∀ t ∈ c.ts, tok t
  /-- each counter holds, modulo 2^64, the sum over the map plus every thread's credit -/
  vis : c.sh.vis % W = (sumVis c.sh.map + sumT (fun t => cV t.pc) c.ts) % W
  hid : c.sh.hid % W = (sumHid c.sh.map + sumT (fun t => cH t.pc) c.ts) % W
  cnt : c.sh.cnt % W = (c.sh.map.length + sumT (fun t => cC t.pc) c.ts) % W

theorem CInv.nodup {c : Cfg} (h : CInv c) : (ids c.sh.map).Nodup := by
  rw [List.nodup_iff_count]
  intro x; have := h.own x; omega

theorem CInv.step {c : Cfg} (h : CInv c) (i : Nat) : CInv (Conc.step c i).1 := by
  unfold Conc.step
  cases hti : c.ts[i]? with
  | none => exact h
  | some t =>
    simp only
    cases hn : t.norm with
    | none => exact h
    | some tn =>
      simp only
      have htm : t ∈ c.ts := List.mem_of_getElem? hti
      obtain ⟨e1, e2, e3, e4, hokn⟩ := norm_measures hn (h.ok t htm)
      -- freshness of what this thread holds
      have hfresh : ∀ x ∈ held tn.pc, x ∉ ids c.sh.map := by
        intro x hx hm
        have h1 := h.own x
        have h2 := sumT_le_of_mem (fun t => (theld t).count x) c.ts i t hti
        have h3 : 0 < (theld t).count x := by
          rw [← e4]; exact List.count_pos_iff.2 (by simp [theld, hx])
        have h4 : 0 < (ids c.sh.map).count x := List.count_pos_iff.2 hm
        omega
      obtain ⟨hv, hh, hc⟩ := tstep_counters c.sh tn.pc h.nodup hfresh hokn.1
      obtain ⟨a1, a2, a3, a4⟩ := after_measures tn (tstep c.sh tn.pc).2.1
      have hown := fun x => tstep_own c.sh tn.pc x
      have hok' := tstep_ok c.sh tn.pc hokn.1
      refine ⟨?_, ?_, ?_, ?_, ?_⟩
      · intro x
        have hs := sumT_set (fun t => (theld t).count x) c.ts i t (tn.after (tstep c.sh tn.pc).2.1) hti
        have h1 := h.own x
        have h5 := hown x
        simp only [a4, List.count_append] at hs
        have h6 : (theld t).count x = (held tn.pc).count x + (tn.todo.flatMap opHeld).count x := by
          rw [← e4]; simp [theld, List.count_append]
        dsimp only
        omega
      · intro t' ht'
        rcases List.mem_or_eq_of_mem_set ht' with ht' | rfl
        · exact h.ok t' ht'
        · constructor
          · cases ha : (tstep c.sh tn.pc).2.1 with
            | cont pc' => rw [ha] at hok'; exact hok'
            | done r => simp [Thread.after, PcOk]
          · cases ha : (tstep c.sh tn.pc).2.1 <;> simpa [Thread.after] using hokn.2
      · have hs := sumT_set (fun t => cV t.pc) c.ts i t (tn.after (tstep c.sh tn.pc).2.1) hti
        have h1 := h.vis
        simp only [a1] at hs
        simp only [e1] at hv
        dsimp only
        simp only [W] at *
        omega
      · have hs := sumT_set (fun t => cH t.pc) c.ts i t (tn.after (tstep c.sh tn.pc).2.1) hti
        have h1 := h.hid
        simp only [a2] at hs
        simp only [e2] at hh
        dsimp only
        simp only [W] at *
        omega
      · have hs := sumT_set (fun t => cC t.pc) c.ts i t (tn.after (tstep c.sh tn.pc).2.1) hti
        have h1 := h.cnt
        simp only [a3] at hs
        simp only [e3] at hc
        dsimp only
        simp only [W] at *
        omega

/-- the invariant holds along every schedule -/
theorem CInv.run {c : Cfg} (h : CInv c) (sched : List Nat) : CInv (Conc.run c sched) := by
  induction sched generalizing c with
  | nil => exact h
  | cons i rest ih => exact ih (h.step i)

end PLV.Conc

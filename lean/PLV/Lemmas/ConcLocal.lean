/-
  Local (one thread, one step) lemmas about the small-step model: how a step moves the three
  counters, the map sums and the thread's credits (helper lemmas for C03 / C08 / C12).
-/
import PLV.Lemmas.ConcDefs

namespace PLV.Conc
open PLV

theorem wsub_cong (a b : Nat) : (wsub a b + b) % W = a % W := by unfold wsub W; omega
theorem wadd_cong (a b : Nat) : (wadd a b) % W = (a + b) % W := by unfold wadd W; omega

/-! ### what a match does after a visit -/

theorem afterVisit_c (L : MLoc) :
    (afterVisit L).cV = sumVis L.aside ∧ (afterVisit L).cH = sumHid L.aside ∧ (afterVisit L).cC = L.aside.length := by
  unfold afterVisit
  split
  · cases h : L.aside <;> simp [After.cV, After.cH, After.cC, cV, cH, cC, sumVis, sumHid]; omega
  · simp [After.cV, After.cH, After.cC, cV, cH, cC]

theorem afterVisit_held (L : MLoc) : (afterVisit L).held = ids L.aside := by
  unfold afterVisit
  split
  · cases h : L.aside <;> simp [After.held, held]
  · simp [After.held, held]

theorem afterVisit_ok (L : MLoc) : (afterVisit L).ok := by
  unfold afterVisit
  split
  · cases h : L.aside <;> simp [After.ok, PcOk]
  · rename_i h; simpa [After.ok, PcOk] using h

theorem sumVis_snoc (l : List Order) (u : Order) : sumVis (l ++ [u]) = sumVis l + u.vis := by
  rw [sumVis_append]; simp [sumVis]
theorem sumHid_snoc (l : List Order) (u : Order) : sumHid (l ++ [u]) = sumHid l + u.hid := by
  rw [sumHid_append]; simp [sumHid]

theorem afterStats_c (L : MLoc) (o : Order) (hrem : L.rem ≠ 0) :
    (afterStats L o).cV = o.vis - (matchAgainst o L.rem).consumed + sumVis L.aside ∧
    (afterStats L o).cH = o.hid + sumHid L.aside ∧ (afterStats L o).cC = 1 + L.aside.length := by
  have hc := ma_consumed_le o L.rem
  unfold afterStats
  simp only
  cases hu : (matchAgainst o L.rem).updated with
  | none =>
    have hl := ma_leave o L.rem hu
    simp only [After.cV, After.cH, After.cC, cV, cH, cC]
    refine ⟨by omega, trivial, trivial⟩
  | some u =>
    have hst := ma_stay o u L.rem hu
    simp only
    split
    · rename_i hs
      have has := ma_aside o u L.rem hrem hu hs
      have := afterVisit_c { L with rem := (matchAgainst o L.rem).remaining, aside := L.aside ++ [u] }
      simp only [sumVis_snoc, sumHid_snoc, List.length_append, List.length_cons, List.length_nil] at this
      rw [this.1, this.2.1, this.2.2]
      refine ⟨by omega, by omega, by omega⟩
    · split
      · simp only [After.cV, After.cH, After.cC, cV, cH, cC]
        refine ⟨by omega, by omega, trivial⟩
      · rename_i hs hr
        simp only [After.cV, After.cH, After.cC, cV, cH, cC]
        refine ⟨by omega, by omega, trivial⟩

theorem afterStats_ok (L : MLoc) (o : Order) : (afterStats L o).ok := by
  have hc := ma_consumed_le o L.rem
  unfold afterStats
  simp only
  cases hu : (matchAgainst o L.rem).updated with
  | none => simp only [After.ok, PcOk]; exact hid_of_plain o
  | some u =>
    have hst := ma_stay o u L.rem hu
    simp only
    split
    · exact afterVisit_ok _
    · split
      · simp only [After.ok, PcOk]; omega
      · simp only [After.ok, PcOk]

/-- the ids a match holds after the statistics of a visit: the visited order's id stays held unless
    it leaves the book (count-wise; the position in the list may change) -/
theorem afterStats_held (L : MLoc) (o : Order) (x : Id) :
    (afterStats L o).held.count x ≤ (o.id :: ids L.aside).count x := by
  unfold afterStats
  simp only
  cases hu : (matchAgainst o L.rem).updated with
  | none => simp only [After.held, held]; exact List.count_le_count_cons
  | some u =>
    have hst := ma_stay o u L.rem hu
    simp only
    split
    · rw [afterVisit_held]
      simp only [ids_append, ids_cons, ids_nil, hst.1, List.count_append, List.count_cons, List.count_nil]
      omega
    · split <;> simp only [After.held, held, hst.1] <;> exact Nat.le_refl _

end PLV.Conc

namespace PLV.Conc
open PLV

macro "wom" : tactic => `(tactic| (simp only [W, wadd, wsub] at *; omega))

/-- closes a conjunction of up to three (possibly already simplified away) modular equations -/
macro "fin3" : tactic =>
  `(tactic| first
    | done
    | trivial
    | (refine ⟨?_, ?_, ?_⟩ <;> first | trivial | wom)
    | (refine ⟨?_, ?_⟩ <;> first | trivial | wom)
    | wom)

/-- one step of one thread: each counter moves exactly by the change of the map's sum plus the
    change of the thread's credit, modulo 2^64 -/
theorem tstep_counters (s : Shared) (pc : Pc) (hn : (ids s.map).Nodup)
    (hfresh : ∀ x ∈ held pc, x ∉ ids s.map) (hok : PcOk pc) :
    ((tstep s pc).1.vis + sumVis s.map + cV pc) % W =
        (s.vis + sumVis (tstep s pc).1.map + (tstep s pc).2.1.cV) % W ∧
    ((tstep s pc).1.hid + sumHid s.map + cH pc) % W =
        (s.hid + sumHid (tstep s pc).1.map + (tstep s pc).2.1.cH) % W ∧
    ((tstep s pc).1.cnt + s.map.length + cC pc) % W =
        (s.cnt + (tstep s pc).1.map.length + (tstep s pc).2.1.cC) % W := by
  cases pc with
  | add4 o =>
    have hf : o.id ∉ ids s.map := hfresh o.id (by simp [held])
    have := sum_insert_fresh hf
    simp only [tstep, cV, cH, cC, After.cV, After.cH, After.cC, this.1, this.2.1, this.2.2]
    fin3
  | amIns new =>
    have hf : new.id ∉ ids s.map := hfresh new.id (by simp [held])
    have := sum_insert_fresh hf
    simp only [tstep, cV, cH, cC, After.cV, After.cH, After.cC, this.1, this.2.1, this.2.2]
    fin3
  | mIns L u =>
    have hf : u.id ∉ ids s.map := hfresh u.id (by simp [held])
    have := sum_insert_fresh hf
    simp only [tstep, cV, cH, cC, After.cV, After.cH, After.cC, this.1, this.2.1, this.2.2]
    fin3
  | fIns L u rest =>
    have hf : u.id ∉ ids s.map := hfresh u.id (by simp [held])
    have := sum_insert_fresh hf
    simp only [tstep, cV, cH, cC, After.cV, After.cH, After.cC, this.1, this.2.1, this.2.2]
    fin3
  | can0 id =>
    simp only [tstep]
    cases hf : s.map.find id with
    | none => simp only [cV, cH, cC, After.cV, After.cH, After.cC]; fin3
    | some o =>
      have := erase_find hn hf
      simp only [cV, cH, cC, After.cV, After.cH, After.cC]
      fin3
  | am0 id n =>
    simp only [tstep]
    cases hf : s.map.find id <;> simp only [cV, cH, cC, After.cV, After.cH, After.cC] <;> fin3
  | am1 id n =>
    simp only [tstep]
    cases hf : s.map.find id with
    | none => simp only [cV, cH, cC, After.cV, After.cH, After.cC]; fin3
    | some o1 =>
      have := erase_find hn hf
      simp only [After.cV, After.cH, After.cC]
      by_cases hv : o1.vis ≠ (o1.withReduced n).vis
      · simp only [if_pos hv, cV, cH, cC]; fin3
      · by_cases hh : o1.hid ≠ (o1.withReduced n).hid
        · simp only [if_neg hv, if_pos hh, cV, cH, cC]; fin3
        · simp only [if_neg hv, if_neg hh, cV, cH, cC]; fin3
  | amV o1 new =>
    simp only [tstep]
    by_cases hgt : new.vis > o1.vis <;> by_cases hh : o1.hid ≠ new.hid
    · simp only [if_pos hgt, if_pos hh, cV, cH, cC, After.cV, After.cH, After.cC]; fin3
    · simp only [if_pos hgt, if_neg hh, cV, cH, cC, After.cV, After.cH, After.cC]; fin3
    · simp only [if_neg hgt, if_pos hh, cV, cH, cC, After.cV, After.cH, After.cC]; fin3
    · simp only [if_neg hgt, if_neg hh, cV, cH, cC, After.cV, After.cH, After.cC]; fin3
  | amH o1 new =>
    simp only [tstep]
    by_cases hgt : new.hid > o1.hid
    · simp only [if_pos hgt, cV, cH, cC, After.cV, After.cH, After.cC]; fin3
    · simp only [if_neg hgt, cV, cH, cC, After.cV, After.cH, After.cC]; fin3
  | mPop L =>
    simp only [tstep]
    cases ht : s.tickets with
    | nil =>
      cases ha : L.aside <;> simp only [cV, cH, cC, After.cV, After.cH, After.cC, ha, sumVis, sumHid, List.length_nil, List.length_cons] <;>
        fin3
    | cons t ts => simp only [cV, cH, cC, After.cV, After.cH, After.cC]; fin3
  | mRm L t =>
    simp only [tstep]
    cases hf : s.map.find t with
    | none => simp only [cV, cH, cC, After.cV, After.cH, After.cC]; fin3
    | some o =>
      have := erase_find hn hf
      have hc := ma_consumed_le o L.rem
      by_cases hpos : (matchAgainst o L.rem).consumed > 0
      · simp only [if_pos hpos, cV, cH, cC, After.cV, After.cH, After.cC]; fin3
      · simp only [if_neg hpos, cV, cH, cC, After.cV, After.cH, After.cC]; fin3
  | mSubV L o =>
    have hc := ma_consumed_le o L.rem
    simp only [tstep, cV, cH, cC, After.cV, After.cH, After.cC]
    fin3
  | mSt4 L o =>
    have hrem : L.rem ≠ 0 := hok
    have := afterStats_c L o hrem
    simp only [tstep]
    by_cases hts : o.ts > 0
    · simp only [if_pos hts, cV, cH, cC, After.cV, After.cH, After.cC]; fin3
    · simp only [if_neg hts, cV, cH, cC, this.1, this.2.1, this.2.2]; fin3
  | mSt5 L o =>
    have hrem : L.rem ≠ 0 := hok
    have := afterStats_c L o hrem
    simp only [tstep, cV, cH, cC, this.1, this.2.1, this.2.2]; fin3
  | mTk L u =>
    have := afterVisit_c L
    simp only [tstep, cV, cH, cC, this.1, this.2.1, this.2.2]; fin3
  | mVAdd L u hr =>
    have hle : hr ≤ u.vis := hok
    simp only [tstep, cV, cH, cC, After.cV, After.cH, After.cC]
    fin3
  | mCnt L o =>
    have hplain : o.kind.hasHidden = false → o.hid = 0 := hok
    have := afterVisit_c L
    simp only [tstep]
    by_cases hk : (o.kind.hasHidden && decide (o.hid > 0)) = true
    · simp only [if_pos hk, cV, cH, cC, After.cV, After.cH, After.cC]; fin3
    · have h0 : o.hid = 0 := by
        cases hh : o.kind.hasHidden with
        | false => exact hplain hh
        | true => simp [hh] at hk; exact hk
      rw [if_neg hk]
      simp only [cV, cH, cC, this.1, this.2.1, this.2.2, h0]
      fin3
  | mHLeft L o =>
    have := afterVisit_c L
    simp only [tstep, cV, cH, cC, this.1, this.2.1, this.2.2]
    fin3
  | fTk L u rest =>
    simp only [tstep]
    cases rest <;> simp only [cV, cH, cC, After.cV, After.cH, After.cC, sumVis, sumHid, List.length_nil, List.length_cons] <;>
      fin3
  | _ =>
    simp only [tstep, cV, cH, cC, After.cV, After.cH, After.cC]
    fin3

end PLV.Conc

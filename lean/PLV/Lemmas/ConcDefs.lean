/-
  Measures on the small-step model used by the concurrent invariants (helper definitions):
  credits (what the three counters contain on behalf of a thread that is not, or no longer, in the
  map), held ids, well-formedness of a program counter.
-/
import PLV.Model.Conc
import PLV.Lemmas.Match

namespace PLV.Conc
open PLV

/-- credit of a thread in the visible-quantity counter -/
def cV : Pc → Nat
  | .add1 o | .add2 o | .add3 o | .add4 o => o.vis
  | .can1 o => o.vis
  | .amV o1 _ => o1.vis
  | .amH _ new | .amIns new => new.vis
  | .mPop L | .mRm L _ | .mTk L _ => sumVis L.aside
  | .mSubV L o => o.vis + sumVis L.aside
  | .mUuid L o | .mSt1 L o | .mSt2 L o | .mSt3 L o | .mSt4 L o | .mSt5 L o =>
    o.vis - (matchAgainst o L.rem).consumed + sumVis L.aside
  | .mHSub L u hr | .mVAdd L u hr => u.vis - hr + sumVis L.aside
  | .mIns L u => u.vis + sumVis L.aside
  | .mCnt L _ | .mHLeft L _ => sumVis L.aside
  | .fIns _ u rest => u.vis + sumVis rest
  | .fTk _ _ rest => sumVis rest
  | _ => 0

/-- credit in the hidden-quantity counter -/
def cH : Pc → Nat
  | .add2 o | .add3 o | .add4 o => o.hid
  | .can1 o | .can2 o => o.hid
  | .amV o1 _ | .amH o1 _ => o1.hid
  | .amIns new => new.hid
  | .mPop L | .mRm L _ | .mTk L _ => sumHid L.aside
  | .mSubV L o | .mUuid L o | .mSt1 L o | .mSt2 L o | .mSt3 L o | .mSt4 L o | .mSt5 L o => o.hid + sumHid L.aside
  | .mHSub L u hr => u.hid + hr + sumHid L.aside
  | .mVAdd L u _ | .mIns L u => u.hid + sumHid L.aside
  | .mCnt L o | .mHLeft L o => o.hid + sumHid L.aside
  | .fIns _ u rest => u.hid + sumHid rest
  | .fTk _ _ rest => sumHid rest
  | _ => 0

/-- credit in the order counter -/
def cC : Pc → Nat
  | .add3 _ | .add4 _ => 1
  | .can1 _ | .can2 _ | .can3 _ => 1
  | .amV _ _ | .amH _ _ | .amIns _ => 1
  | .mPop L | .mRm L _ | .mTk L _ => L.aside.length
  | .mSubV L _ | .mUuid L _ | .mSt1 L _ | .mSt2 L _ | .mSt3 L _ | .mSt4 L _ | .mSt5 L _ => 1 + L.aside.length
  | .mHSub L _ _ | .mVAdd L _ _ | .mIns L _ | .mCnt L _ => 1 + L.aside.length
  | .mHLeft L _ => L.aside.length
  | .fIns _ _ rest => 1 + rest.length
  | .fTk _ _ rest => rest.length
  | _ => 0

def After.cV : After → Nat | .cont pc => Conc.cV pc | .done _ => 0
def After.cH : After → Nat | .cont pc => Conc.cH pc | .done _ => 0
def After.cC : After → Nat | .cont pc => Conc.cC pc | .done _ => 0

/-- ids of orders a thread holds outside the map and will (or may) put back into it -/
def held : Pc → List Id
  | .add0 o | .add1 o | .add2 o | .add3 o | .add4 o => [o.id]
  | .amV _ new | .amH _ new | .amIns new => [new.id]
  | .mPop L | .mRm L _ | .mTk L _ | .mCnt L _ | .mHLeft L _ => ids L.aside
  | .mSubV L o | .mUuid L o | .mSt1 L o | .mSt2 L o | .mSt3 L o | .mSt4 L o | .mSt5 L o => o.id :: ids L.aside
  | .mHSub L u _ | .mVAdd L u _ | .mIns L u => u.id :: ids L.aside
  | .fIns _ u rest => u.id :: ids rest
  | .fTk _ _ rest => ids rest
  | _ => []

def After.held : After → List Id | .cont pc => Conc.held pc | .done _ => []

/-- local well-formedness of a program counter -/
def PcOk : Pc → Prop
  | .mPop L | .mRm L _ => L.rem ≠ 0
  | .mSubV L _ | .mUuid L _ | .mSt1 L _ | .mSt2 L _ | .mSt3 L _ | .mSt4 L _ | .mSt5 L _ => L.rem ≠ 0
  | .mHSub _ u hr | .mVAdd _ u hr => hr ≤ u.vis
  | .mCnt _ o => o.kind.hasHidden = false → o.hid = 0
  | _ => True

def After.ok : After → Prop | .cont pc => PcOk pc | .done _ => True

end PLV.Conc

/-
  Helper lemmas for C16 (and C17, C09): round trips of the primitive text forms — numbers, ids,
  small enums — and the structure lemmas of `splitOn` / `joinSep` on which the record codecs rest.
-/
import PLV.Model.Text

namespace PLV.Text
open PLV

/-! ### splitOn -/

theorem splitOn_of_not_mem {c : Char} {s : Str} (h : c ∉ s) : splitOn c s = [s] := by
  induction s with
  | nil => rfl
  | cons x rest ih =>
    simp at h
    have hx : ¬ x = c := fun e => h.1 e.symm
    simp [splitOn, hx, ih h.2]

theorem splitOn_append {c : Char} {a b : Str} (h : c ∉ a) : splitOn c (a ++ c :: b) = a :: splitOn c b := by
  induction a with
  | nil => simp [splitOn]
  | cons x rest ih =>
    simp at h
    have hx : ¬ x = c := fun e => h.1 e.symm
    simp [splitOn, hx, ih h.2]

/-! ### decimal numbers -/

theorem showNat_digits (n : Nat) : ∀ c ∈ showNat n, c.isDigit = true :=
  fun _ hc => Nat.isDigit_of_mem_toDigits (by decide) (by decide) hc

theorem showNat_ne_nil (n : Nat) : showNat n ≠ [] := Nat.toDigits_ne_nil

theorem digitsVal_showNat (n : Nat) : digitsVal (showNat n) = some n := by
  unfold digitsVal
  have h : (showNat n).all Char.isDigit = true := List.all_eq_true.2 (showNat_digits n)
  rw [if_pos h]
  simp only [showNat, Nat.ofDigitChars_ten_toDigits]

theorem isDigit_ne {c d : Char} (hc : c.isDigit = true) (hd : d.isDigit = false) : c ≠ d := by
  intro e; subst e; simp [hc] at hd

theorem stripPlus_cons {c : Char} {rest : Str} (h : c ≠ '+') : stripPlus (c :: rest) = c :: rest := by
  unfold stripPlus
  split
  · rename_i r heq; simp at heq; exact absurd heq.1 h
  · rfl

theorem parseU64_showNat {n : Nat} (h : n < W) : parseU64 (showNat n) = some n := by
  unfold parseU64
  have hne := showNat_ne_nil n
  have hd := digitsVal_showNat n
  cases hs : showNat n with
  | nil => exact absurd hs hne
  | cons c rest =>
    have hc : c.isDigit = true := showNat_digits n c (by rw [hs]; simp)
    rw [hs] at hd
    simp only [stripPlus_cons (isDigit_ne hc (by decide)), hd, h, List.isEmpty_cons, Bool.false_eq_true, if_false, if_true]

theorem showNat_no (n : Nat) (c : Char) (hc : c.isDigit = false) : c ∉ showNat n :=
  fun hm => by have := showNat_digits n c hm; simp [this] at hc

theorem parseI64_showInt {i : Int} (hlo : -9223372036854775808 ≤ i) (hhi : i < 9223372036854775808) :
    parseI64 (showInt i) = some i := by
  cases i with
  | ofNat n =>
    have hlt : n < 9223372036854775808 := by
      have : (Int.ofNat n) = (n : Int) := rfl
      omega
    have hne := showNat_ne_nil n
    have hd := digitsVal_showNat n
    simp only [showInt]
    cases hs : showNat n with
    | nil => exact absurd hs hne
    | cons c rest =>
      have hc : c.isDigit = true := showNat_digits n c (by rw [hs]; simp)
      rw [hs] at hd
      have hminus : c ≠ '-' := isDigit_ne hc (by decide)
      unfold parseI64
      split
      · rename_i r heq; simp at heq; exact absurd heq.1 hminus
      · simp only [stripPlus_cons (isDigit_ne hc (by decide)), hd, hlt, List.isEmpty_cons, Bool.false_eq_true, if_false, if_true]
        rfl
  | negSucc n =>
    have hd := digitsVal_showNat (n + 1)
    have hne := showNat_ne_nil (n + 1)
    have hle : n + 1 ≤ 9223372036854775808 := by
      have : Int.negSucc n = -((n : Int) + 1) := Int.negSucc_eq n
      omega
    simp only [showInt, parseI64]
    cases hs : showNat (n + 1) with
    | nil => exact absurd hs hne
    | cons c rest =>
      rw [hs] at hd
      simp only [hd, hle, List.isEmpty_cons, Bool.false_eq_true, if_false, if_true]
      rw [Int.negSucc_eq]; simp

/-! ### hexadecimal and base-32 -/

theorem hexFixed_length (k n : Nat) : (hexFixed k n).length = k := by
  induction k generalizing n with
  | zero => rfl
  | succ k ih => simp [hexFixed, ih]

theorem hexVal_hexDigit : ∀ d, d < 16 → hexVal (hexDigit d) = some d := by decide

theorem foldl_hex_none (s : Str) :
    s.foldl (fun acc c => match acc, hexVal c with | some a, some d => some (a * 16 + d) | _, _ => none) none = none := by
  induction s with
  | nil => rfl
  | cons x rest ih => simp [List.foldl, ih]

theorem hexValue_eq_foldl (s : Str) :
    hexValue s = s.foldl (fun acc c => match acc, hexVal c with | some a, some d => some (a * 16 + d) | _, _ => none) (some 0) := by
  cases s <;> rfl

theorem hexValue_snoc (s : Str) (c : Char) :
    hexValue (s ++ [c]) = (match hexValue s, hexVal c with | some a, some d => some (a * 16 + d) | _, _ => none) := by
  rw [hexValue_eq_foldl, hexValue_eq_foldl, List.foldl_append]
  rfl

theorem hexValue_hexFixed (k n : Nat) : hexValue (hexFixed k n) = some (n % 16 ^ k) := by
  induction k generalizing n with
  | zero => simp [hexFixed, hexValue, Nat.mod_one]
  | succ k ih =>
    simp only [hexFixed, hexValue_snoc, ih, hexVal_hexDigit (n % 16) (Nat.mod_lt _ (by decide))]
    congr 1
    rw [Nat.pow_succ, Nat.mul_comm (16 ^ k) 16, Nat.mod_mul]
    omega

theorem b32Fixed_length (k n : Nat) : (b32Fixed k n).length = k := by
  induction k generalizing n with
  | zero => rfl
  | succ k ih => simp [b32Fixed, ih]

theorem b32Val_digit : ∀ d, d < 32 → b32Val (crockford.getD d '0') = some d := by decide

theorem b32Value_snoc (s : Str) (c : Char) :
    b32Value (s ++ [c]) = (match b32Value s, b32Val c with | some a, some d => some (a * 32 + d) | _, _ => none) := by
  unfold b32Value
  rw [List.foldl_append]
  rfl

theorem b32Value_b32Fixed (k n : Nat) : b32Value (b32Fixed k n) = some (n % 32 ^ k) := by
  induction k generalizing n with
  | zero => simp [b32Fixed, b32Value, Nat.mod_one]
  | succ k ih =>
    simp only [b32Fixed, b32Value_snoc, ih, b32Val_digit (n % 32) (Nat.mod_lt _ (by decide))]
    congr 1
    rw [Nat.pow_succ, Nat.mul_comm (32 ^ k) 32, Nat.mod_mul]
    omega

end PLV.Text

namespace PLV.Text
open PLV

/-! ### joinSep / splitOn -/

theorem splitOn_joinSep (c : Char) (ps : List Str) (hne : ps ≠ []) (h : ∀ p ∈ ps, c ∉ p) :
    splitOn c (joinSep [c] ps) = ps := by
  induction ps with
  | nil => exact absurd rfl hne
  | cons p rest ih =>
    cases rest with
    | nil => simp [joinSep, splitOn_of_not_mem (h p (by simp))]
    | cons q rest' =>
      have hp := h p (by simp)
      simp only [joinSep, List.append_assoc, List.singleton_append]
      rw [splitOn_append hp, ih (by simp) (fun x hx => h x (by simp [hx]))]

theorem joinSep_length_two (sep a b : Str) : joinSep sep [a, b] = a ++ sep ++ b := by simp [joinSep]

/-- an id / number character: alphanumeric or `-` (never one of the structural characters) -/
def idChar (c : Char) : Bool := c.isAlphanum || c = '-'

theorem hexDigit_props : ∀ d, d < 16 → (hexDigit d).isAlphanum = true ∧ (hexDigit d).toNat < 128 ∧ hexDigit d ≠ '-' := by
  decide

theorem hexFixed_chars (k n : Nat) : ∀ c ∈ hexFixed k n, c.isAlphanum = true ∧ c.toNat < 128 ∧ c ≠ '-' := by
  induction k generalizing n with
  | zero => simp [hexFixed]
  | succ k ih =>
    intro c hc
    simp only [hexFixed, List.mem_append, List.mem_singleton] at hc
    rcases hc with hc | rfl
    · exact ih _ c hc
    · exact hexDigit_props _ (Nat.mod_lt _ (by decide))

theorem crockford_props : ∀ d, d < 32 → (crockford.getD d '0').isAlphanum = true ∧ (crockford.getD d '0').toNat < 128 := by
  decide

theorem b32Fixed_chars (k n : Nat) : ∀ c ∈ b32Fixed k n, c.isAlphanum = true ∧ c.toNat < 128 := by
  induction k generalizing n with
  | zero => simp [b32Fixed]
  | succ k ih =>
    intro c hc
    simp only [b32Fixed, List.mem_append, List.mem_singleton] at hc
    rcases hc with hc | rfl
    · exact ih _ c hc
    · exact crockford_props _ (Nat.mod_lt _ (by decide))

/-! ### UUID / ULID / OrderId -/

theorem showUuid_eq (v : Nat) :
    showUuid v = hexFixed 8 (v / 16 ^ 24) ++ '-' :: (hexFixed 4 (v / 16 ^ 20) ++ '-' :: (hexFixed 4 (v / 16 ^ 16) ++ '-' ::
      (hexFixed 4 (v / 16 ^ 12) ++ '-' :: hexFixed 12 v))) := by
  simp [showUuid, joinSep]

theorem showUuid_length (v : Nat) : (showUuid v).length = 36 := by
  simp [showUuid_eq, hexFixed_length]

theorem showUuid_chars (v : Nat) : ∀ c ∈ showUuid v, idChar c = true ∧ c.toNat < 128 := by
  intro c hc
  rw [showUuid_eq] at hc
  simp only [List.mem_append, List.mem_cons] at hc
  have dash : idChar '-' = true ∧ '-'.toNat < 128 := by decide
  have hex : ∀ k n, c ∈ hexFixed k n → idChar c = true ∧ c.toNat < 128 := fun k n h => by
    have := hexFixed_chars k n c h; simp [idChar, this.1, this.2.1]
  rcases hc with h | rfl | h | rfl | h | rfl | h | rfl | h
  all_goals first | exact hex _ _ h | exact dash

theorem parseHyphenated_showUuid {v : Nat} (h : v < 2 ^ 128) : parseHyphenated (showUuid v) = some v := by
  have hs : splitOn '-' (showUuid v) =
      [hexFixed 8 (v / 16 ^ 24), hexFixed 4 (v / 16 ^ 20), hexFixed 4 (v / 16 ^ 16), hexFixed 4 (v / 16 ^ 12), hexFixed 12 v] := by
    unfold showUuid
    apply splitOn_joinSep _ _ (by simp)
    intro p hp
    simp only [List.mem_cons, List.not_mem_nil, or_false] at hp
    rcases hp with rfl | rfl | rfl | rfl | rfl <;> exact fun hm => (hexFixed_chars _ _ _ hm).2.2 rfl
  unfold parseHyphenated
  rw [hs]
  simp only [hexFixed_length, and_self, if_true, hexValue_hexFixed]
  congr 1
  have e24 : (16 : Nat) ^ 24 = 79228162514264337593543950336 := by decide
  have e20 : (16 : Nat) ^ 20 = 1208925819614629174706176 := by decide
  have e16 : (16 : Nat) ^ 16 = 18446744073709551616 := by decide
  have e12 : (16 : Nat) ^ 12 = 281474976710656 := by decide
  have e8 : (16 : Nat) ^ 8 = 4294967296 := by decide
  have e4 : (16 : Nat) ^ 4 = 65536 := by decide
  have e128 : (2 : Nat) ^ 128 = 340282366920938463463374607431768211456 := by decide
  rw [e128] at h
  simp only [e24, e20, e16, e12, e8, e4]
  omega

theorem isAscii_of (s : Str) (h : ∀ c ∈ s, c.toNat < 128) : isAscii s = true := by
  unfold isAscii; exact List.all_eq_true.2 (fun c hc => by simpa using h c hc)

theorem parseUuid_showUuid {v : Nat} (h : v < 2 ^ 128) : parseUuid (showUuid v) = some v := by
  unfold parseUuid
  have ha := isAscii_of (showUuid v) (fun c hc => (showUuid_chars v c hc).2)
  simp [ha, showUuid_length, parseHyphenated_showUuid h]

theorem showUlid_length (v : Nat) : (showUlid v).length = 26 := b32Fixed_length 26 v

theorem parseUlid_showUlid {v : Nat} (h : v < 2 ^ 128) : parseUlid (showUlid v) = some v := by
  unfold parseUlid
  have ha := isAscii_of (showUlid v) (fun c hc => (b32Fixed_chars 26 v c hc).2)
  have hl := showUlid_length v
  have hcond : ¬ ((!isAscii (showUlid v)) = true ∨ (showUlid v).length ≠ 26) := by simp [ha, hl]
  rw [if_neg hcond]
  unfold showUlid
  rw [b32Value_b32Fixed]
  have hlt : (2 : Nat) ^ 128 < 32 ^ 26 := by
    have : (32 : Nat) ^ 26 = 2 ^ 130 := by
      rw [show (32 : Nat) = 2 ^ 5 from rfl, ← Nat.pow_mul]
    rw [this]; exact Nat.pow_lt_pow_right (by decide) (by decide)
  simp only [Option.map_some]
  rw [Nat.mod_eq_of_lt (Nat.lt_trans h hlt), Nat.mod_eq_of_lt h]

theorem parseUuid_showUlid (v : Nat) : parseUuid (showUlid v) = none := by
  unfold parseUuid
  simp [showUlid_length]

/-- ids round-trip through their text form (both families) -/
theorem parseId_showId (i : Id) (h : i.val < 2 ^ 128) : parseId (showId i) = some i := by
  obtain ⟨u, v⟩ := i
  cases u with
  | false => simp [parseId, showId, parseUuid_showUuid h]
  | true => simp [parseId, showId, parseUuid_showUlid, parseUlid_showUlid h]

theorem showId_chars (i : Id) : ∀ c ∈ showId i, idChar c = true := by
  intro c hc
  unfold showId at hc
  split at hc
  · have := b32Fixed_chars 26 i.val c hc; simp [idChar, this.1]
  · exact (showUuid_chars i.val c hc).1

end PLV.Text

namespace PLV.Text
open PLV

/-! ### small enums -/

theorem upperChar_ofNat_digit : ∀ n, n < 58 → 48 ≤ n → upperChar (Char.ofNat n) = [Char.ofNat n] := by decide

theorem upperChar_digit {c : Char} (h : c.isDigit = true) : upperChar c = [c] := by
  have h1 : 48 ≤ c.toNat ∧ c.toNat ≤ 57 := Char.isDigit_iff_toNat.1 h
  have := upperChar_ofNat_digit c.toNat (by omega) h1.1
  rwa [Char.ofNat_toNat] at this

theorem toUpper_digits {s : Str} (h : ∀ c ∈ s, c.isDigit = true) : toUpper s = s := by
  induction s with
  | nil => rfl
  | cons c rest ih =>
    simp only [toUpper, List.flatMap_cons, upperChar_digit (h c (by simp))]
    have := ih (fun x hx => h x (by simp [hx]))
    simp only [toUpper] at this
    rw [this]; rfl

theorem toUpper_append (a b : Str) : toUpper (a ++ b) = toUpper a ++ toUpper b := by
  simp [toUpper, List.flatMap_append]

theorem parseSide_showSide (s : Side) : parseSide (showSide s) = some s := by cases s <;> decide

theorem parsePeg_showPeg (p : PegRef) : parsePeg (showPeg p) = some p ∧ parsePegExact (showPeg p) = some p := by
  cases p <;> decide

theorem parseTif_showTif (t : Tif) (h : ∀ n, t = .gtd n → n < W) : parseTif (showTif t) = some t := by
  cases t with
  | gtc => decide
  | ioc => decide
  | fok => decide
  | day => decide
  | gtd n =>
    have hn := h n rfl
    have hu : toUpper (showTif (.gtd n)) = lit "GTD-" ++ showNat n := by
      simp only [showTif, toUpper_append, toUpper_digits (showNat_digits n)]
      rfl
    unfold parseTif
    simp only [hu]
    have hne := showNat_ne_nil n
    have hsplit : splitOn '-' (lit "GTD-" ++ showNat n) = [lit "GTD", showNat n] := by
      have : lit "GTD-" ++ showNat n = lit "GTD" ++ '-' :: showNat n := by simp [lit]
      rw [this, splitOn_append (by decide), splitOn_of_not_mem (showNat_no n '-' (by decide))]
    have e1 : ¬ (lit "GTD-" ++ showNat n = lit "GTC") := by
      intro e; have := congrArg (fun l => l[3]?) e; simp [lit] at this
    have e2 : ¬ (lit "GTD-" ++ showNat n = lit "IOC") := by
      intro e; have := congrArg (fun l => l[0]?) e; simp [lit] at this
    have e3 : ¬ (lit "GTD-" ++ showNat n = lit "FOK") := by
      intro e; have := congrArg (fun l => l[0]?) e; simp [lit] at this
    have e4 : ¬ (lit "GTD-" ++ showNat n = lit "DAY") := by
      intro e; have := congrArg (fun l => l[0]?) e; simp [lit] at this
    have e5 : (lit "GTD-" ++ showNat n).take 4 = lit "GTD-" := by simp [lit]
    simp only [if_neg e1, if_neg e2, if_neg e3, if_neg e4, e5, if_true, hsplit, parseU64_showNat hn, Option.map_some]

theorem showSide_plainchars (s : Side) : ∀ c ∈ showSide s, idChar c = true := by cases s <;> decide
theorem showPeg_plainchars (p : PegRef) : ∀ c ∈ showPeg p, idChar c = true := by cases p <;> decide

theorem showNat_idChars (n : Nat) : ∀ c ∈ showNat n, idChar c = true := by
  intro c hc
  have := showNat_digits n c hc
  simp only [idChar, Char.isAlphanum, this, Bool.or_true, Bool.true_or]

theorem showTif_plainchars (t : Tif) : ∀ c ∈ showTif t, idChar c = true := by
  cases t with
  | gtd n =>
    intro c hc
    simp only [showTif, List.mem_append] at hc
    rcases hc with hc | hc
    · revert c; decide
    · exact showNat_idChars n c hc
  | _ => decide

theorem showInt_idChars (i : Int) : ∀ c ∈ showInt i, idChar c = true := by
  cases i with
  | ofNat n => exact showNat_idChars n
  | negSucc n =>
    intro c hc
    simp only [showInt, List.mem_cons] at hc
    rcases hc with rfl | hc
    · decide
    · exact showNat_idChars _ c hc

end PLV.Text

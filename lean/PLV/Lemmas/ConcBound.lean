/-
  The supply potential of a concurrent execution never grows, and the stored counters stay below
  2^64 (helper lemmas for C03 / C12: no aggregate ever wraps).
-/
import PLV.Lemmas.ConcGlobal

namespace PLV.Conc
open PLV

/-- quantity a thread has yet to bring to the level within its current call -/
def pend : Pc → Nat
  | .add0 o => o.vis + o.hid
  | .add1 o => o.hid
  | .am0 _ n | .am1 _ n => n
  | .amV o1 new => (new.vis - o1.vis) + (new.hid - o1.hid)
  | .amH o1 new => new.hid - o1.hid
  | .mVAdd _ _ hr => hr       -- taken out of the hidden counter, not yet added to the visible one
  | _ => 0

def opPend : COp → Nat
  | .add o => o.vis + o.hid
  | .amend _ n => n
  | _ => 0

def After.pend : After → Nat | .cont pc => Conc.pend pc | .done _ => 0

/-- pending count of orders a thread has yet to bring -/
def pendC : Pc → Nat
  | .add0 _ | .add1 _ | .add2 _ => 1
  | _ => 0
def opPendC : COp → Nat
  | .add _ => 1
  | _ => 0
def After.pendC : After → Nat | .cont pc => Conc.pendC pc | .done _ => 0

theorem afterVisit_pend (L : MLoc) : (afterVisit L).pend = 0 ∧ (afterVisit L).pendC = 0 := by
  unfold afterVisit
  split
  · cases L.aside <;> simp [After.pend, After.pendC, pend, pendC]
  · simp [After.pend, After.pendC, pend, pendC]

theorem afterStats_pend (L : MLoc) (o : Order) : (afterStats L o).pend = 0 ∧ (afterStats L o).pendC = 0 := by
  unfold afterStats
  simp only
  cases (matchAgainst o L.rem).updated with
  | none => simp [After.pend, After.pendC, pend, pendC]
  | some u =>
    simp only
    split
    · exact afterVisit_pend _
    · split <;> simp [After.pend, After.pendC, pend, pendC]

/-- one step never raises `Σ map + credit + pending` (quantity), nor `|map| + credit + pending`
    (orders); the premises are those of `tstep_counters` -/
theorem tstep_potential (s : Shared) (pc : Pc) (hn : (ids s.map).Nodup)
    (hfresh : ∀ x ∈ held pc, x ∉ ids s.map) (hok : PcOk pc) :
    sumVis (tstep s pc).1.map + sumHid (tstep s pc).1.map + (tstep s pc).2.1.cV + (tstep s pc).2.1.cH +
        (tstep s pc).2.1.pend ≤ sumVis s.map + sumHid s.map + cV pc + cH pc + pend pc ∧
    (tstep s pc).1.map.length + (tstep s pc).2.1.cC + (tstep s pc).2.1.pendC ≤ s.map.length + cC pc + pendC pc := by
  cases pc with
  | add4 o =>
    have hf : o.id ∉ ids s.map := hfresh o.id (by simp [held])
    have := sum_insert_fresh hf
    simp only [tstep, cV, cH, cC, pend, pendC, After.cV, After.cH, After.cC, After.pend, After.pendC, this.1, this.2.1, this.2.2]
    omega
  | amIns new =>
    have hf : new.id ∉ ids s.map := hfresh new.id (by simp [held])
    have := sum_insert_fresh hf
    simp only [tstep, cV, cH, cC, pend, pendC, After.cV, After.cH, After.cC, After.pend, After.pendC, this.1, this.2.1, this.2.2]
    omega
  | mIns L u =>
    have hf : u.id ∉ ids s.map := hfresh u.id (by simp [held])
    have := sum_insert_fresh hf
    simp only [tstep, cV, cH, cC, pend, pendC, After.cV, After.cH, After.cC, After.pend, After.pendC, this.1, this.2.1, this.2.2]
    omega
  | fIns L u rest =>
    have hf : u.id ∉ ids s.map := hfresh u.id (by simp [held])
    have := sum_insert_fresh hf
    simp only [tstep, cV, cH, cC, pend, pendC, After.cV, After.cH, After.cC, After.pend, After.pendC, this.1, this.2.1, this.2.2]
    omega
  | can0 id =>
    simp only [tstep]
    cases hf : s.map.find id with
    | none => simp only [cV, cH, cC, pend, pendC, After.cV, After.cH, After.cC, After.pend, After.pendC]; omega
    | some o =>
      have := erase_find hn hf
      simp only [cV, cH, cC, pend, pendC, After.cV, After.cH, After.cC, After.pend, After.pendC]; omega
  | am0 id n =>
    simp only [tstep]
    cases hf : s.map.find id <;> simp only [cV, cH, cC, pend, pendC, After.cV, After.cH, After.cC, After.pend, After.pendC] <;> omega
  | am1 id n =>
    simp only [tstep]
    cases hf : s.map.find id with
    | none => simp only [cV, cH, cC, pend, pendC, After.cV, After.cH, After.cC, After.pend, After.pendC]; omega
    | some o1 =>
      have := erase_find hn hf
      have hh : (o1.withReduced n).hid = o1.hid := by
        unfold Order.withReduced; split <;> simp_all [Order.hid]
      have hv : (o1.withReduced n).vis ≤ o1.vis + n := by
        unfold Order.withReduced; split <;> simp <;> omega
      simp only [After.cV, After.cH, After.cC, After.pend, After.pendC]
      by_cases h1 : o1.vis ≠ (o1.withReduced n).vis
      · simp only [if_pos h1, cV, cH, cC, pend, pendC]; omega
      · by_cases h2 : o1.hid ≠ (o1.withReduced n).hid
        · simp only [if_neg h1, if_pos h2, cV, cH, cC, pend, pendC]; omega
        · simp only [if_neg h1, if_neg h2, cV, cH, cC, pend, pendC]; omega
  | amV o1 new =>
    simp only [tstep]
    by_cases hgt : new.vis > o1.vis <;> by_cases hh : o1.hid ≠ new.hid
    · simp only [if_pos hgt, if_pos hh, cV, cH, cC, pend, pendC, After.cV, After.cH, After.cC, After.pend, After.pendC]; omega
    · simp only [if_pos hgt, if_neg hh, cV, cH, cC, pend, pendC, After.cV, After.cH, After.cC, After.pend, After.pendC]; omega
    · simp only [if_neg hgt, if_pos hh, cV, cH, cC, pend, pendC, After.cV, After.cH, After.cC, After.pend, After.pendC]; omega
    · simp only [if_neg hgt, if_neg hh, cV, cH, cC, pend, pendC, After.cV, After.cH, After.cC, After.pend, After.pendC]; omega
  | amH o1 new =>
    simp only [tstep]
    by_cases hgt : new.hid > o1.hid
    · simp only [if_pos hgt, cV, cH, cC, pend, pendC, After.cV, After.cH, After.cC, After.pend, After.pendC]; omega
    · simp only [if_neg hgt, cV, cH, cC, pend, pendC, After.cV, After.cH, After.cC, After.pend, After.pendC]; omega
  | mPop L =>
    simp only [tstep]
    cases ht : s.tickets with
    | nil =>
      cases ha : L.aside <;>
        simp only [cV, cH, cC, pend, pendC, After.cV, After.cH, After.cC, After.pend, After.pendC, ha, sumVis, sumHid,
          List.length_nil, List.length_cons] <;> omega
    | cons t ts => simp only [cV, cH, cC, pend, pendC, After.cV, After.cH, After.cC, After.pend, After.pendC]; omega
  | mRm L t =>
    simp only [tstep]
    cases hf : s.map.find t with
    | none => simp only [cV, cH, cC, pend, pendC, After.cV, After.cH, After.cC, After.pend, After.pendC]; omega
    | some o =>
      have := erase_find hn hf
      by_cases hpos : (matchAgainst o L.rem).consumed > 0
      · simp only [if_pos hpos, cV, cH, cC, pend, pendC, After.cV, After.cH, After.cC, After.pend, After.pendC]; omega
      · simp only [if_neg hpos, cV, cH, cC, pend, pendC, After.cV, After.cH, After.cC, After.pend, After.pendC]; omega
  | mSt4 L o =>
    have hrem : L.rem ≠ 0 := hok
    have := afterStats_c L o hrem
    have hp := afterStats_pend L o
    simp only [tstep]
    by_cases hts : o.ts > 0
    · simp only [if_pos hts, cV, cH, cC, pend, pendC, After.cV, After.cH, After.cC, After.pend, After.pendC]; omega
    · simp only [if_neg hts, cV, cH, cC, pend, pendC, this.1, this.2.1, this.2.2, hp.1, hp.2]; omega
  | mSt5 L o =>
    have hrem : L.rem ≠ 0 := hok
    have := afterStats_c L o hrem
    have hp := afterStats_pend L o
    simp only [tstep, cV, cH, cC, pend, pendC, this.1, this.2.1, this.2.2, hp.1, hp.2]; omega
  | mTk L u =>
    have := afterVisit_c L
    have hp := afterVisit_pend L
    simp only [tstep, cV, cH, cC, pend, pendC, this.1, this.2.1, this.2.2, hp.1, hp.2]; omega
  | mVAdd L u hr =>
    have hle : hr ≤ u.vis := hok
    simp only [tstep, cV, cH, cC, pend, pendC, After.cV, After.cH, After.cC, After.pend, After.pendC]; omega
  | mCnt L o =>
    have := afterVisit_c L
    have hp := afterVisit_pend L
    simp only [tstep]
    by_cases hk : (o.kind.hasHidden && decide (o.hid > 0)) = true
    · simp only [if_pos hk, cV, cH, cC, pend, pendC, After.cV, After.cH, After.cC, After.pend, After.pendC]; omega
    · rw [if_neg hk]
      simp only [cV, cH, cC, pend, pendC, this.1, this.2.1, this.2.2, hp.1, hp.2]; omega
  | mHLeft L o =>
    have := afterVisit_c L
    have hp := afterVisit_pend L
    simp only [tstep, cV, cH, cC, pend, pendC, this.1, this.2.1, this.2.2, hp.1, hp.2]; omega
  | fTk L u rest =>
    simp only [tstep]
    cases rest <;>
      simp only [cV, cH, cC, pend, pendC, After.cV, After.cH, After.cC, After.pend, After.pendC, sumVis, sumHid,
        List.length_nil, List.length_cons] <;> omega
  | mSubV L o =>
    have hc := ma_consumed_le o L.rem
    simp only [tstep, cV, cH, cC, pend, pendC, After.cV, After.cH, After.cC, After.pend, After.pendC]; omega
  | _ =>
    simp only [tstep, cV, cH, cC, pend, pendC, After.cV, After.cH, After.cC, After.pend, After.pendC]; omega

/-- every value a step writes into a counter is a 64-bit value -/
theorem tstep_lt (s : Shared) (pc : Pc) (hv : s.vis < W) (hh : s.hid < W) (hc : s.cnt < W) :
    (tstep s pc).1.vis < W ∧ (tstep s pc).1.hid < W ∧ (tstep s pc).1.cnt < W := by
  have hw : ∀ a b, wadd a b < W := fun a b => Nat.mod_lt _ (by decide)
  have hs : ∀ a b, wsub a b < W := fun a b => Nat.mod_lt _ (by decide)
  cases pc with
  | can0 id => simp only [tstep]; cases s.map.find id <;> exact ⟨hv, hh, hc⟩
  | am0 id n => simp only [tstep]; cases s.map.find id <;> exact ⟨hv, hh, hc⟩
  | am1 id n => simp only [tstep]; cases s.map.find id <;> exact ⟨hv, hh, hc⟩
  | amV o1 new => simp only [tstep]; split <;> exact ⟨by first | exact hw _ _ | exact hs _ _, hh, hc⟩
  | amH o1 new => simp only [tstep]; split <;> exact ⟨hv, by first | exact hw _ _ | exact hs _ _, hc⟩
  | mPop L => simp only [tstep]; cases s.tickets <;> exact ⟨hv, hh, hc⟩
  | mRm L t => simp only [tstep]; cases s.map.find t <;> exact ⟨hv, hh, hc⟩
  | _ => simp only [tstep]; exact ⟨by first | exact hv | exact hw _ _ | exact hs _ _,
      by first | exact hh | exact hw _ _ | exact hs _ _, by first | exact hc | exact hw _ _ | exact hs _ _⟩

end PLV.Conc

namespace PLV.Conc
open PLV

def sumOps (f : COp → Nat) : List COp → Nat
  | [] => 0
  | op :: rest => f op + sumOps f rest

def tpend (t : Thread) : Nat := pend t.pc + sumOps opPend t.todo
def tpendC (t : Thread) : Nat := pendC t.pc + sumOps opPendC t.todo

/-- quantity potential: everything in the book, credited to a thread, or still to be brought -/
def potQ (c : Cfg) : Nat :=
  sumVis c.sh.map + sumHid c.sh.map + sumT (fun t => cV t.pc + cH t.pc + tpend t) c.ts

/-- order-count potential -/
def potC (c : Cfg) : Nat := c.sh.map.length + sumT (fun t => cC t.pc + tpendC t) c.ts

theorem norm_pend {t tn : Thread} (h : t.norm = some tn) : tpend tn = tpend t ∧ tpendC tn = tpendC t := by
  unfold Thread.norm at h
  split at h
  · simp at h
  · rename_i op rest hpc htodo
    simp at h; subst h
    simp only [tpend, tpendC, hpc, htodo, sumOps]
    cases op <;> simp [start, pend, pendC, opPend, opPendC]
  · simp at h; subst h; exact ⟨rfl, rfl⟩

theorem after_pend (tn : Thread) (a : After) :
    tpend (tn.after a) = a.pend + sumOps opPend tn.todo ∧ tpendC (tn.after a) = a.pendC + sumOps opPendC tn.todo := by
  cases a <;> simp [Thread.after, After.pend, After.pendC, tpend, tpendC, pend, pendC]

/-- invariant with bounds: `Q` bounds all quantity ever supplied, `N` all orders ever supplied -/
structure BInv (Q N : Nat) (c : Cfg) : Prop where
  inv : CInv c
  hQ : potQ c ≤ Q
  hC : potC c ≤ N
  lt : c.sh.vis < W ∧ c.sh.hid < W ∧ c.sh.cnt < W

/-- what a productive step of thread `i` looks like, with the facts every invariant needs -/
theorem step_some {c : Cfg} (hinv : CInv c) {i : Nat} {t tn : Thread} (hti : c.ts[i]? = some t) (hn : t.norm = some tn) :
    (Conc.step c i).1 = { sh := (tstep c.sh tn.pc).1, ts := c.ts.set i (tn.after (tstep c.sh tn.pc).2.1) } ∧
    (∀ x ∈ held tn.pc, x ∉ ids c.sh.map) ∧ tok tn ∧
    cV tn.pc = cV t.pc ∧ cH tn.pc = cH t.pc ∧ cC tn.pc = cC t.pc ∧ tpend tn = tpend t ∧ tpendC tn = tpendC t := by
  have htm : t ∈ c.ts := List.mem_of_getElem? hti
  obtain ⟨e1, e2, e3, e4, hokn⟩ := norm_measures hn (hinv.ok t htm)
  obtain ⟨n1, n2⟩ := norm_pend hn
  refine ⟨by simp [Conc.step, hti, hn], ?_, hokn, e1, e2, e3, n1, n2⟩
  intro x hx hm
  have h1 := hinv.own x
  have h2 := sumT_le_of_mem (fun t => (theld t).count x) c.ts i t hti
  have h3 : 0 < (theld t).count x := by
    rw [← e4]; exact List.count_pos_iff.2 (by simp [theld, hx])
  have h4 : 0 < (ids c.sh.map).count x := List.count_pos_iff.2 hm
  omega

theorem step_none {c : Cfg} {i : Nat} (h : c.ts[i]? = none ∨ ∃ t, c.ts[i]? = some t ∧ t.norm = none) :
    (Conc.step c i).1 = c := by
  rcases h with h | ⟨t, h1, h2⟩
  · simp [Conc.step, h]
  · simp [Conc.step, h1, h2]

theorem BInv.step {Q N : Nat} {c : Cfg} (h : BInv Q N c) (i : Nat) : BInv Q N (Conc.step c i).1 := by
  cases hti : c.ts[i]? with
  | none => rw [step_none (Or.inl hti)]; exact h
  | some t =>
    cases hn : t.norm with
    | none => rw [step_none (Or.inr ⟨t, hti, hn⟩)]; exact h
    | some tn =>
      have hi := h.inv.step i
      obtain ⟨hst, hfresh, hokn, e1, e2, e3, n1, n2⟩ := step_some h.inv hti hn
      obtain ⟨a1, a2, a3, _⟩ := after_measures tn (tstep c.sh tn.pc).2.1
      obtain ⟨p1, p2⟩ := after_pend tn (tstep c.sh tn.pc).2.1
      obtain ⟨hq, hc⟩ := tstep_potential c.sh tn.pc h.inv.nodup hfresh hokn.1
      refine ⟨hi, ?_, ?_, ?_⟩
      · have hs := sumT_set (fun t => cV t.pc + cH t.pc + tpend t) c.ts i t (tn.after (tstep c.sh tn.pc).2.1) hti
        have hp := h.hQ
        rw [hst]
        simp only [potQ] at hp ⊢
        simp only [a1, a2, p1] at hs
        have ht : tpend tn = pend tn.pc + sumOps opPend tn.todo := rfl
        omega
      · have hs := sumT_set (fun t => cC t.pc + tpendC t) c.ts i t (tn.after (tstep c.sh tn.pc).2.1) hti
        have hp := h.hC
        rw [hst]
        simp only [potC] at hp ⊢
        simp only [a3, p2] at hs
        have ht : tpendC tn = pendC tn.pc + sumOps opPendC tn.todo := rfl
        omega
      · rw [hst]; exact tstep_lt c.sh tn.pc h.lt.1 h.lt.2.1 h.lt.2.2

theorem BInv.run {Q N : Nat} {c : Cfg} (h : BInv Q N c) (sched : List Nat) : BInv Q N (Conc.run c sched) := by
  induction sched generalizing c with
  | nil => exact h
  | cons i rest ih => exact ih (h.step i)

theorem sumT_le_sumT {f g : Thread → Nat} (ts : List Thread) (h : ∀ t, f t ≤ g t) : sumT f ts ≤ sumT g ts := by
  induction ts with
  | nil => exact Nat.le_refl _
  | cons t rest ih => simp only [sumT]; have := h t; omega

/-- with all supply below 2^64 the stored (wrapping) counters ARE the true quantities: the sum over
    the map plus every thread's credit — and they never exceed what was supplied -/
theorem BInv.exact {Q N : Nat} {c : Cfg} (h : BInv Q N c) (hQ : Q < W) (hN : N < W) :
    c.sh.vis = sumVis c.sh.map + sumT (fun t => cV t.pc) c.ts ∧
    c.sh.hid = sumHid c.sh.map + sumT (fun t => cH t.pc) c.ts ∧
    c.sh.cnt = c.sh.map.length + sumT (fun t => cC t.pc) c.ts ∧
    c.sh.vis ≤ Q ∧ c.sh.hid ≤ Q ∧ c.sh.cnt ≤ N := by
  have hv := h.inv.vis; have hh := h.inv.hid; have hc := h.inv.cnt
  have hq := h.hQ; have hn := h.hC
  have b1 : sumT (fun t => cV t.pc) c.ts ≤ sumT (fun t => cV t.pc + cH t.pc + tpend t) c.ts :=
    sumT_le_sumT _ (fun t => by omega)
  have b2 : sumT (fun t => cH t.pc) c.ts ≤ sumT (fun t => cV t.pc + cH t.pc + tpend t) c.ts :=
    sumT_le_sumT _ (fun t => by omega)
  have b3 : sumT (fun t => cC t.pc) c.ts ≤ sumT (fun t => cC t.pc + tpendC t) c.ts :=
    sumT_le_sumT _ (fun t => by omega)
  have l1 := h.lt.1; have l2 := h.lt.2.1; have l3 := h.lt.2.2
  simp only [potQ, potC] at hq hn
  simp only [W] at *
  refine ⟨by omega, by omega, by omega, by omega, by omega, by omega⟩

end PLV.Conc

/-
  The ticket-cover invariant (helper lemmas for C08): every key of the map has a ticket in the queue,
  or a thread is about to push / has just popped its ticket.
-/
import PLV.Lemmas.ConcInit

namespace PLV.Conc
open PLV

/-- tickets a thread is responsible for: inserted but not yet pushed, or popped but not yet used -/
def pendingTk : Pc → List Id
  | .add5 o => [o.id]
  | .amTk new => [new.id]
  | .mTk _ u => [u.id]
  | .fTk _ u _ => [u.id]
  | .mRm _ t => [t]
  | _ => []

def After.pendingTk : After → List Id | .cont pc => Conc.pendingTk pc | .done _ => []

theorem afterVisit_tk (L : MLoc) : (afterVisit L).pendingTk = [] := by
  unfold afterVisit
  split
  · cases L.aside <;> simp [After.pendingTk, pendingTk]
  · simp [After.pendingTk, pendingTk]

theorem afterStats_tk (L : MLoc) (o : Order) : (afterStats L o).pendingTk = [] := by
  unfold afterStats
  simp only
  cases (matchAgainst o L.rem).updated with
  | none => simp [After.pendingTk, pendingTk]
  | some u =>
    simp only
    split
    · exact afterVisit_tk _
    · split <;> simp [After.pendingTk, pendingTk]

/-- after a step every key is covered by the queue or by the stepping thread, or it was a key
    before that did not depend on the stepping thread and whose ticket is still in the queue -/
theorem tstep_cover (s : Shared) (pc : Pc) (x : Id) (hx : x ∈ ids (tstep s pc).1.map) :
    (x ∈ (tstep s pc).1.tickets ∨ x ∈ (tstep s pc).2.1.pendingTk) ∨
      (x ∈ ids s.map ∧ x ∉ pendingTk pc ∧ (x ∈ s.tickets → x ∈ (tstep s pc).1.tickets)) := by
  cases pc with
  | add4 o =>
    simp only [tstep] at hx ⊢
    rcases ids_insert.1 hx with h | rfl
    · exact Or.inr ⟨h, by simp [pendingTk], fun h => h⟩
    · exact Or.inl (Or.inr (by simp [After.pendingTk, pendingTk]))
  | amIns new =>
    simp only [tstep] at hx ⊢
    rcases ids_insert.1 hx with h | rfl
    · exact Or.inr ⟨h, by simp [pendingTk], fun h => h⟩
    · exact Or.inl (Or.inr (by simp [After.pendingTk, pendingTk]))
  | mIns L u =>
    simp only [tstep] at hx ⊢
    rcases ids_insert.1 hx with h | rfl
    · exact Or.inr ⟨h, by simp [pendingTk], fun h => h⟩
    · exact Or.inl (Or.inr (by simp [After.pendingTk, pendingTk]))
  | fIns L u rest =>
    simp only [tstep] at hx ⊢
    rcases ids_insert.1 hx with h | rfl
    · exact Or.inr ⟨h, by simp [pendingTk], fun h => h⟩
    · exact Or.inl (Or.inr (by simp [After.pendingTk, pendingTk]))
  | add5 o =>
    simp only [tstep] at hx ⊢
    by_cases e : x = o.id
    · exact Or.inl (Or.inl (by simp [e]))
    · exact Or.inr ⟨hx, by simp [pendingTk, e], fun h => List.mem_append_left _ h⟩
  | amTk new =>
    simp only [tstep] at hx ⊢
    by_cases e : x = new.id
    · exact Or.inl (Or.inl (by simp [e]))
    · exact Or.inr ⟨hx, by simp [pendingTk, e], fun h => List.mem_append_left _ h⟩
  | mTk L u =>
    simp only [tstep] at hx ⊢
    by_cases e : x = u.id
    · exact Or.inl (Or.inl (by simp [e]))
    · exact Or.inr ⟨hx, by simp [pendingTk, e], fun h => List.mem_append_left _ h⟩
  | fTk L u rest =>
    simp only [tstep] at hx ⊢
    by_cases e : x = u.id
    · exact Or.inl (Or.inl (by simp [e]))
    · exact Or.inr ⟨hx, by simp [pendingTk, e], fun h => List.mem_append_left _ h⟩
  | can0 id =>
    cases hf : s.map.find id with
    | none => simp only [tstep, hf] at hx ⊢; exact Or.inr ⟨hx, by simp [pendingTk], fun h => h⟩
    | some o => simp only [tstep, hf] at hx ⊢; exact Or.inr ⟨(mem_ids_erase.1 hx).1, by simp [pendingTk], fun h => h⟩
  | am0 id n =>
    cases hf : s.map.find id <;>
      (simp only [tstep, hf] at hx ⊢; exact Or.inr ⟨hx, by simp [pendingTk], fun h => h⟩)
  | am1 id n =>
    cases hf : s.map.find id with
    | none => simp only [tstep, hf] at hx ⊢; exact Or.inr ⟨hx, by simp [pendingTk], fun h => h⟩
    | some o => simp only [tstep, hf] at hx ⊢; exact Or.inr ⟨(mem_ids_erase.1 hx).1, by simp [pendingTk], fun h => h⟩
  | amV o1 new =>
    simp only [tstep] at hx ⊢
    split at hx <;> (rename_i h; simp only [h, if_true, if_false]; exact Or.inr ⟨hx, by simp [pendingTk], fun h => h⟩)
  | amH o1 new =>
    simp only [tstep] at hx ⊢
    split at hx <;> (rename_i h; simp only [h, if_true, if_false]; exact Or.inr ⟨hx, by simp [pendingTk], fun h => h⟩)
  | mPop L =>
    cases ht : s.tickets with
    | nil => simp only [tstep, ht] at hx ⊢; exact Or.inr ⟨hx, by simp [pendingTk], fun h => by simp at h⟩
    | cons t ts =>
      simp only [tstep, ht] at hx ⊢
      by_cases e : x = t
      · exact Or.inl (Or.inr (by simp [After.pendingTk, pendingTk, e]))
      · refine Or.inr ⟨hx, by simp [pendingTk], fun h => ?_⟩
        rcases List.mem_cons.1 h with h | h
        · exact absurd h e
        · exact h
  | mRm L t =>
    cases hf : s.map.find t with
    | none =>
      simp only [tstep, hf] at hx ⊢
      have : x ≠ t := fun e => find_none.1 hf (e ▸ hx)
      exact Or.inr ⟨hx, by simp [pendingTk, this], fun h => h⟩
    | some o =>
      simp only [tstep, hf] at hx ⊢
      have := mem_ids_erase.1 hx
      exact Or.inr ⟨this.1, by simp [pendingTk, this.2], fun h => h⟩
  | _ => exact Or.inr ⟨by simpa [tstep] using hx, by simp [pendingTk], by simp [tstep]⟩

/-- every key of the map is covered -/
def Cover (c : Cfg) : Prop :=
  ∀ x ∈ ids c.sh.map, x ∈ c.sh.tickets ∨ ∃ (j : Nat) (t : Thread), c.ts[j]? = some t ∧ x ∈ pendingTk t.pc

theorem norm_tk {t tn : Thread} (h : t.norm = some tn) : pendingTk tn.pc = pendingTk t.pc := by
  unfold Thread.norm at h
  split at h
  · simp at h
  · rename_i op rest hpc _
    simp at h; subst h
    rw [hpc]; cases op <;> rfl
  · simp at h; subst h; rfl

theorem Cover.step {c : Cfg} (hc : Cover c) (hinv : CInv c) (i : Nat) : Cover (Conc.step c i).1 := by
  cases hti : c.ts[i]? with
  | none => rw [step_none (Or.inl hti)]; exact hc
  | some t =>
    cases hn : t.norm with
    | none => rw [step_none (Or.inr ⟨t, hti, hn⟩)]; exact hc
    | some tn =>
      obtain ⟨hst, _⟩ := step_some hinv hti hn
      rw [hst]
      unfold Cover
      intro x hx
      have hil : i < c.ts.length := by
        rcases Nat.lt_or_ge i c.ts.length with h | h
        · exact h
        · rw [List.getElem?_eq_none h] at hti; simp at hti
      rcases tstep_cover c.sh tn.pc x hx with (h | h) | ⟨hm, hnp, htk⟩
      · exact Or.inl h
      · refine Or.inr ⟨i, tn.after (tstep c.sh tn.pc).2.1, by simp [hil], ?_⟩
        cases ha : (tstep c.sh tn.pc).2.1 with
        | cont pc' => rw [ha] at h; simpa [Thread.after, After.pendingTk] using h
        | done r => rw [ha] at h; simp [After.pendingTk] at h
      · rcases hc x hm with h | ⟨j, t', hj, hp⟩
        · exact Or.inl (htk h)
        · by_cases e : j = i
          · subst e
            rw [hti] at hj; injection hj with hj; subst hj
            rw [← norm_tk hn] at hp
            exact absurd hp hnp
          · exact Or.inr ⟨j, t', by simp only; rw [List.getElem?_set_ne (fun h => e h.symm)]; exact hj, hp⟩

theorem cover_run {c : Cfg} (hc : Cover c) (hinv : CInv c) (sched : List Nat) : Cover (Conc.run c sched) := by
  induction sched generalizing c with
  | nil => exact hc
  | cons i rest ih => exact ih (hc.step hinv i) (hinv.step i)

end PLV.Conc

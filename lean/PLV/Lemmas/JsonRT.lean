/-
  The JSON text layer of the model: reading back what `render` printed gives the tree
  (`parseJson (render j) = some j`) for every *clean* tree — no floats, integers within the 64-bit
  ranges, strings of printable ASCII without quotes and backslashes (which is what every encoder
  of `PLV.Model.Json` produces). Hence `render` is injective on clean trees.
-/
import PLV.Model.JsonText
import PLV.Lemmas.TextRT

namespace PLV.J
open PLV PLV.Text

/-! ### clean trees, fuel needed -/

def cleanStr (s : Str) : Bool := s.all (fun c => c != '"' && c != '\\' && decide (32 ≤ c.toNat) && decide (c.toNat < 128))

mutual
  def clean : Json → Bool
    | .null => true
    | .bool _ => true
    | .num (.ofNat n) => decide (n < 18446744073709551616)
    | .num (.negSucc n) => decide (n < 9223372036854775808)
    | .float => false
    | .str s => cleanStr s
    | .arr l => cleanList l
    | .obj kvs => cleanFields kvs
  def cleanList : List Json → Bool
    | [] => true
    | x :: rest => clean x && cleanList rest
  def cleanFields : List (Str × Json) → Bool
    | [] => true
    | (k, v) :: rest => cleanStr k && clean v && cleanFields rest
end

mutual
  def need : Json → Nat
    | .arr l => 1 + needList l
    | .obj kvs => 1 + needFields kvs
    | _ => 1
  def needList : List Json → Nat
    | [] => 0
    | x :: rest => 1 + max (need x) (needList rest)
  def needFields : List (Str × Json) → Nat
    | [] => 0
    | (_, v) :: rest => 1 + max (need v) (needFields rest)
end

/-- what may follow a value inside a document -/
def Stop (rest : Str) : Prop := rest = [] ∨ ∃ r, rest = ',' :: r ∨ rest = ']' :: r ∨ rest = '}' :: r

theorem stop_comma (r : Str) : Stop (',' :: r) := Or.inr ⟨r, Or.inl rfl⟩
theorem stop_brack (r : Str) : Stop (']' :: r) := Or.inr ⟨r, Or.inr (Or.inl rfl)⟩
theorem stop_brace (r : Str) : Stop ('}' :: r) := Or.inr ⟨r, Or.inr (Or.inr rfl)⟩

/-! ### strings -/

theorem readString_clean (s : Str) (hs : cleanStr s = true) (acc rest : Str) :
    readString acc (s ++ '"' :: rest) = some (acc.reverse ++ s, rest) := by
  induction s generalizing acc with
  | nil => rw [List.nil_append, readString.eq_def]; simp
  | cons c s ih =>
    simp only [cleanStr, List.all_cons, Bool.and_eq_true, bne_iff_ne, ne_eq, decide_eq_true_eq] at hs
    obtain ⟨⟨⟨⟨h1, h2⟩, h3⟩, _⟩, h4⟩ := hs
    have h3' : ¬ c.toNat < 32 := by omega
    rw [List.cons_append, readString.eq_def]
    simp only [if_neg h1, if_neg h2, if_neg h3']
    rw [ih (by simpa [cleanStr] using h4)]
    simp

/-! ### numbers -/

theorem takeDigits_append (ds rest : Str) (hd : ∀ c ∈ ds, c.isDigit = true)
    (hr : rest = [] ∨ ∃ c r, rest = c :: r ∧ c.isDigit = false) : takeDigits (ds ++ rest) = (ds, rest) := by
  induction ds with
  | nil =>
    rcases hr with rfl | ⟨c, r, rfl, hc⟩
    · rfl
    · simp [takeDigits, hc]
  | cons d ds ih =>
    have h1 := hd d (List.mem_cons_self ..)
    have := ih (fun c hc => hd c (List.mem_cons_of_mem _ hc))
    simp [takeDigits, h1, this]

theorem stop_nodigit {rest : Str} (h : Stop rest) : rest = [] ∨ ∃ c r, rest = c :: r ∧ c.isDigit = false := by
  rcases h with rfl | ⟨r, rfl | rfl | rfl⟩
  · exact Or.inl rfl
  · exact Or.inr ⟨_, _, rfl, by decide⟩
  · exact Or.inr ⟨_, _, rfl, by decide⟩
  · exact Or.inr ⟨_, _, rfl, by decide⟩

theorem numTail_stop {rest : Str} (h : Stop rest) : numTail rest = (true, rest) := by
  rcases h with rfl | ⟨r, rfl | rfl | rfl⟩ <;> simp [numTail]

/-- no leading zero: the decimal form of a positive number does not start with `0` -/
theorem showNat_head (n : Nat) : (showNat n).head? = some '0' → n = 0 := by
  induction n using Nat.strongRecOn with
  | _ n ih =>
    unfold showNat
    rw [Nat.toDigits_eq_if (by decide)]
    split
    · rename_i h
      simp only [List.head?_cons, Option.some.injEq, Nat.digitChar_eq_zero]
      exact id
    · rename_i h
      have hlt : n / 10 < n := Nat.div_lt_self (by omega) (by decide)
      have hne : Nat.toDigits 10 (n / 10) ≠ [] := Nat.toDigits_ne_nil
      intro hh
      cases hd : Nat.toDigits 10 (n / 10) with
      | nil => exact absurd hd hne
      | cons c r =>
        rw [hd] at hh
        simp only [List.cons_append, List.head?_cons, Option.some.injEq] at hh
        have := ih (n / 10) hlt (by unfold showNat; rw [hd, hh]; rfl)
        omega

theorem showNat_cons (n : Nat) : ∃ d ds, showNat n = d :: ds ∧ d.isDigit = true := by
  cases h : showNat n with
  | nil => exact absurd h (showNat_ne_nil n)
  | cons d ds => exact ⟨d, ds, rfl, showNat_digits n d (by rw [h]; simp)⟩

theorem ofDigitChars_showNat (n : Nat) : Nat.ofDigitChars 10 (showNat n) 0 = n := by
  simp only [showNat, Nat.ofDigitChars_ten_toDigits]

theorem readNumber_nat (n : Nat) (h : n < 18446744073709551616) (rest : Str) (hr : Stop rest) :
    readNumber (showNat n ++ rest) = some (.num (.ofNat n), rest) := by
  obtain ⟨d, ds, hs, hd⟩ := showNat_cons n
  have hneg : ((showNat n ++ rest).head? = some '-') = False := by
    rw [hs]; simp only [List.cons_append, List.head?_cons, Option.some.injEq, eq_iff_iff, iff_false]
    exact isDigit_ne hd (by decide)
  have htd := takeDigits_append (showNat n) rest (showNat_digits n) (stop_nodigit hr)
  have hz : ¬ ((showNat n).length > 1 ∧ (showNat n).head? = some '0') := by
    rintro ⟨hl, hh⟩
    have := showNat_head n hh
    subst this
    simp [showNat, Nat.toDigits_zero] at hl
  unfold readNumber
  simp only [hneg, decide_false, Bool.false_eq_true, if_false, htd, numTail_stop hr, ofDigitChars_showNat,
    Bool.not_true, h, if_true]
  rw [if_neg (by simpa using showNat_ne_nil n), if_neg hz]

theorem readNumber_neg (n : Nat) (h : n < 9223372036854775808) (rest : Str) (hr : Stop rest) :
    readNumber ('-' :: showNat (n + 1) ++ rest) = some (.num (.negSucc n), rest) := by
  have htd := takeDigits_append (showNat (n + 1)) rest (showNat_digits (n + 1)) (stop_nodigit hr)
  have hz : ¬ ((showNat (n + 1)).length > 1 ∧ (showNat (n + 1)).head? = some '0') := by
    rintro ⟨_, hh⟩
    have := showNat_head (n + 1) hh
    omega
  unfold readNumber
  simp only [List.cons_append, List.head?_cons, decide_true, if_true, List.tail_cons, htd, numTail_stop hr,
    ofDigitChars_showNat, Bool.not_true, Bool.false_eq_true, if_false]
  rw [if_neg (by simpa using showNat_ne_nil (n + 1)), if_neg hz, if_neg (by omega), if_pos (by omega)]
  simp


/-! ### first characters -/

theorem lit_null : lit "null" = ['n', 'u', 'l', 'l'] := by decide
theorem lit_true : lit "true" = ['t', 'r', 'u', 'e'] := by decide
theorem lit_false : lit "false" = ['f', 'a', 'l', 's', 'e'] := by decide
theorem lit_ull : lit "ull" = ['u', 'l', 'l'] := by decide
theorem lit_rue : lit "rue" = ['r', 'u', 'e'] := by decide
theorem lit_alse : lit "alse" = ['a', 'l', 's', 'e'] := by decide

def headOk (c : Char) : Bool := !isWs c && c != ']' && c != '}'

theorem headOk_digit {d : Char} (h : d.isDigit = true) : headOk d = true := by
  have h1 := isDigit_ne h (d := ' ') (by decide)
  have h2 := isDigit_ne h (d := '\n') (by decide)
  have h3 := isDigit_ne h (d := '\t') (by decide)
  have h4 := isDigit_ne h (d := '\r') (by decide)
  have h5 := isDigit_ne h (d := ']') (by decide)
  have h6 := isDigit_ne h (d := '}') (by decide)
  simp [headOk, isWs, h1, h2, h3, h4, h5, h6]

theorem skipWs_headOk {c : Char} (h : headOk c = true) (r : Str) : skipWs (c :: r) = c :: r := by
  simp only [headOk, Bool.and_eq_true, Bool.not_eq_true'] at h
  simp [skipWs, h.1.1]

theorem skipWs_nows {c : Char} (h : isWs c = false) (r : Str) : skipWs (c :: r) = c :: r := by
  simp [skipWs, h]

theorem render_cons (j : Json) (h : clean j = true) : ∃ c r, render j = c :: r ∧ headOk c = true := by
  cases j with
  | null => exact ⟨'n', ['u', 'l', 'l'], by simp [render, lit_null], by decide⟩
  | bool b => cases b
              · exact ⟨'f', ['a', 'l', 's', 'e'], by simp [render, lit_false], by decide⟩
              · exact ⟨'t', ['r', 'u', 'e'], by simp [render, lit_true], by decide⟩
  | num n =>
    cases n with
    | ofNat k =>
      obtain ⟨d, ds, hs, hd⟩ := showNat_cons k
      exact ⟨d, ds, by simp [render, showInt, hs], headOk_digit hd⟩
    | negSucc k => exact ⟨'-', showNat (k + 1), by simp [render, showInt], by decide⟩
  | float => simp [clean] at h
  | str s => exact ⟨'"', s ++ ['"'], by simp [render], by decide⟩
  | arr l => exact ⟨'[', renderList l ++ [']'], by simp [render], by decide⟩
  | obj kvs => exact ⟨'{', renderFields kvs ++ ['}'], by simp [render], by decide⟩


theorem litAt_ull (r : Str) : litAt (lit "ull") ('u' :: 'l' :: 'l' :: r) = some r := by simp [litAt, lit_ull]
theorem litAt_rue (r : Str) : litAt (lit "rue") ('r' :: 'u' :: 'e' :: r) = some r := by simp [litAt, lit_rue]
theorem litAt_alse (r : Str) : litAt (lit "alse") ('a' :: 'l' :: 's' :: 'e' :: r) = some r := by simp [litAt, lit_alse]

/-! ### the reader inverts the printer -/

mutual
  theorem readValue_render : (j : Json) → clean j = true → ∀ rest, Stop rest → ∀ fuel, need j ≤ fuel →
      readValue fuel (render j ++ rest) = some (j, rest)
    | .null, _, rest, _, fuel, hf => by
      obtain ⟨f, rfl⟩ : ∃ f, fuel = f + 1 := ⟨fuel - 1, by simp [need] at hf; omega⟩
      rw [readValue]
      simp (config := {decide := true}) [render, lit_null, skipWs, isWs, litAt_ull]
    | .bool true, _, rest, _, fuel, hf => by
      obtain ⟨f, rfl⟩ : ∃ f, fuel = f + 1 := ⟨fuel - 1, by simp [need] at hf; omega⟩
      rw [readValue]
      simp (config := {decide := true}) [render, lit_true, skipWs, isWs, litAt_rue]
    | .bool false, _, rest, _, fuel, hf => by
      obtain ⟨f, rfl⟩ : ∃ f, fuel = f + 1 := ⟨fuel - 1, by simp [need] at hf; omega⟩
      rw [readValue]
      simp (config := {decide := true}) [render, lit_false, skipWs, isWs, litAt_alse]
    | .float, hc, _, _, _, _ => by simp [clean] at hc
    | .num (.ofNat n), hc, rest, hr, fuel, hf => by
      obtain ⟨f, rfl⟩ : ∃ f, fuel = f + 1 := ⟨fuel - 1, by simp [need] at hf; omega⟩
      have hn : n < 18446744073709551616 := by simpa [clean] using hc
      obtain ⟨d, ds, hs, hd⟩ := showNat_cons n
      have hnum := readNumber_nat n hn rest hr
      rw [readValue]
      simp only [render, showInt, hs, List.cons_append, skipWs_headOk (headOk_digit hd)] at hnum ⊢
      rw [if_neg (isDigit_ne hd (by decide)), if_neg (isDigit_ne hd (by decide)), if_neg (isDigit_ne hd (by decide)),
        if_pos (Or.inr hd)]
      exact hnum
    | .num (.negSucc n), hc, rest, hr, fuel, hf => by
      obtain ⟨f, rfl⟩ : ∃ f, fuel = f + 1 := ⟨fuel - 1, by simp [need] at hf; omega⟩
      have hn : n < 9223372036854775808 := by simpa [clean] using hc
      have hnum := readNumber_neg n hn rest hr
      rw [readValue]
      simp only [render, showInt, List.cons_append, skipWs_headOk (c := '-') (by decide)] at hnum ⊢
      simp (config := {decide := true}) only [if_false, true_or, if_true]
      exact hnum
    | .str s, hc, rest, _, fuel, hf => by
      obtain ⟨f, rfl⟩ : ∃ f, fuel = f + 1 := ⟨fuel - 1, by simp [need] at hf; omega⟩
      have hs : cleanStr s = true := by simpa [clean] using hc
      rw [readValue]
      simp only [render, List.cons_append, List.nil_append, List.append_assoc, skipWs_headOk (c := '"') (by decide), if_true]
      rw [readString_clean s hs]
      simp
    | .arr [], _, rest, _, fuel, hf => by
      obtain ⟨f, rfl⟩ : ∃ f, fuel = f + 1 := ⟨fuel - 1, by simp [need] at hf; omega⟩
      rw [readValue]
      simp (config := {decide := true}) [render, renderList, skipWs, isWs]
    | .arr (x :: xs), hc, rest, _, fuel, hf => by
      obtain ⟨f, rfl⟩ : ∃ f, fuel = f + 1 := ⟨fuel - 1, by simp [need] at hf; omega⟩
      have hl : cleanList (x :: xs) = true := by simpa [clean] using hc
      have hx : clean x = true := by simp [cleanList] at hl; exact hl.1
      have hfl : needList (x :: xs) ≤ f := by simp [need] at hf; omega
      have hel := readElems_render (x :: xs) (by simp) hl rest f hfl []
      obtain ⟨c, r, hcr, hok⟩ := render_cons x hx
      have hhead : ∃ r', renderList (x :: xs) ++ ']' :: rest = c :: r' := by
        cases xs with
        | nil => exact ⟨r ++ ']' :: rest, by simp [renderList, hcr]⟩
        | cons y ys => exact ⟨r ++ ',' :: (renderList (y :: ys) ++ ']' :: rest), by simp [renderList, hcr]⟩
      obtain ⟨r', hr'⟩ := hhead
      have hne : c ≠ ']' := by simp [headOk] at hok; exact hok.1.2
      rw [readValue]
      simp only [render, List.cons_append, List.nil_append, List.append_assoc, skipWs_headOk (c := '[') (by decide)]
      simp (config := {decide := true}) only [if_false, if_true]
      rw [show renderList (x :: xs) ++ (']' :: rest) = c :: r' from hr', skipWs_headOk hok]
      split
      · rename_i heq; simp at heq; exact absurd heq.1 hne
      · rw [← hr', hel]; simp
    | .obj [], _, rest, _, fuel, hf => by
      obtain ⟨f, rfl⟩ : ∃ f, fuel = f + 1 := ⟨fuel - 1, by simp [need] at hf; omega⟩
      rw [readValue]
      simp (config := {decide := true}) [render, renderFields, skipWs, isWs]
    | .obj ((k, v) :: kvs), hc, rest, _, fuel, hf => by
      obtain ⟨f, rfl⟩ : ∃ f, fuel = f + 1 := ⟨fuel - 1, by simp [need] at hf; omega⟩
      have hl : cleanFields ((k, v) :: kvs) = true := by simpa [clean] using hc
      have hfl : needFields ((k, v) :: kvs) ≤ f := by simp [need] at hf; omega
      have hel := readMembers_render ((k, v) :: kvs) (by simp) hl rest f hfl []
      have hhead : ∃ r', renderFields ((k, v) :: kvs) ++ '}' :: rest = '"' :: r' := by
        cases kvs with
        | nil => exact ⟨_, by simp [renderFields]; rfl⟩
        | cons y ys => exact ⟨_, by simp [renderFields]; rfl⟩
      obtain ⟨r', hr'⟩ := hhead
      rw [readValue]
      simp only [render, List.cons_append, List.nil_append, List.append_assoc, skipWs_headOk (c := '{') (by decide)]
      simp (config := {decide := true}) only [if_false, if_true]
      rw [show renderFields ((k, v) :: kvs) ++ ('}' :: rest) = '"' :: r' from hr', skipWs_headOk (c := '"') (by decide)]
      split
      · rename_i heq; simp at heq
      · rw [← hr', hel]; simp
  theorem readElems_render : (l : List Json) → l ≠ [] → cleanList l = true → ∀ rest fuel, needList l ≤ fuel →
      ∀ acc, readElems fuel (renderList l ++ ']' :: rest) acc = some (acc ++ l, rest)
    | [], h, _, _, _, _, _ => absurd rfl h
    | [x], _, hc, rest, fuel, hf, acc => by
      obtain ⟨f, rfl⟩ : ∃ f, fuel = f + 1 := ⟨fuel - 1, by simp [needList] at hf; omega⟩
      have hx : clean x = true := by simp [cleanList] at hc; exact hc
      have hv := readValue_render x hx (']' :: rest) (stop_brack rest) f (by simp [needList] at hf; omega)
      rw [readElems]
      simp only [renderList, hv, skipWs_nows (c := ']') (by decide)]
    | x :: y :: ys, _, hc, rest, fuel, hf, acc => by
      obtain ⟨f, rfl⟩ : ∃ f, fuel = f + 1 := ⟨fuel - 1, by simp [needList] at hf; omega⟩
      have hx : clean x = true := by simp [cleanList] at hc; exact hc.1
      have hys : cleanList (y :: ys) = true := by simp [cleanList] at hc ⊢; exact hc.2
      have hfx : need x ≤ f := by simp [needList] at hf; omega
      have hfy : needList (y :: ys) ≤ f := by simp [needList] at hf ⊢; omega
      have hv := readValue_render x hx (',' :: (renderList (y :: ys) ++ ']' :: rest)) (stop_comma _) f hfx
      have hrec := readElems_render (y :: ys) (by simp) hys rest f hfy (acc ++ [x])
      rw [readElems]
      simp only [renderList, List.append_assoc, List.cons_append, List.nil_append] at hv ⊢
      rw [hv]
      simp only [skipWs_headOk (c := ',') (by decide)]
      simp only [renderList, List.append_assoc, List.cons_append, List.nil_append] at hrec
      rw [hrec]
  theorem readMembers_render : (kvs : List (Str × Json)) → kvs ≠ [] → cleanFields kvs = true → ∀ rest fuel,
      needFields kvs ≤ fuel → ∀ acc, readMembers fuel (renderFields kvs ++ '}' :: rest) acc = some (acc ++ kvs, rest)
    | [], h, _, _, _, _, _ => absurd rfl h
    | [(k, v)], _, hc, rest, fuel, hf, acc => by
      obtain ⟨f, rfl⟩ : ∃ f, fuel = f + 1 := ⟨fuel - 1, by simp [needFields] at hf; omega⟩
      have hk : cleanStr k = true := by simp [cleanFields] at hc; exact hc.1
      have hvc : clean v = true := by simp [cleanFields] at hc; exact hc.2
      have hv := readValue_render v hvc ('}' :: rest) (stop_brace rest) f (by simp [needFields] at hf; omega)
      have hk' := readString_clean k hk [] (':' :: (render v ++ '}' :: rest))
      rw [readMembers]
      simp only [renderFields, List.append_assoc, List.cons_append, List.nil_append, skipWs_headOk (c := '"') (by decide)]
      simp only [List.reverse_nil, List.nil_append] at hk'
      rw [hk']
      simp only [skipWs_headOk (c := ':') (by decide), hv, skipWs_nows (c := '}') (by decide)]
    | (k, v) :: y :: ys, _, hc, rest, fuel, hf, acc => by
      obtain ⟨f, rfl⟩ : ∃ f, fuel = f + 1 := ⟨fuel - 1, by simp [needFields] at hf; omega⟩
      have hk : cleanStr k = true := by simp [cleanFields] at hc; exact hc.1.1
      have hvc : clean v = true := by simp [cleanFields] at hc; exact hc.1.2
      have hys : cleanFields (y :: ys) = true := by simp [cleanFields] at hc ⊢; exact hc.2
      have hfx : need v ≤ f := by simp [needFields] at hf; omega
      have hfy : needFields (y :: ys) ≤ f := by simp [needFields] at hf ⊢; omega
      have hv := readValue_render v hvc (',' :: (renderFields (y :: ys) ++ '}' :: rest)) (stop_comma _) f hfx
      have hrec := readMembers_render (y :: ys) (by simp) hys rest f hfy (acc ++ [(k, v)])
      have hk' := readString_clean k hk [] (':' :: (render v ++ ',' :: (renderFields (y :: ys) ++ '}' :: rest)))
      rw [readMembers]
      simp only [renderFields, List.append_assoc, List.cons_append, List.nil_append, skipWs_headOk (c := '"') (by decide)]
      simp only [List.reverse_nil, List.nil_append] at hk'
      rw [hk']
      simp only [skipWs_headOk (c := ':') (by decide)]
      rw [hv]
      simp only [skipWs_headOk (c := ',') (by decide)]
      rw [hrec]; simp
end


/-! ### fuel: the document's length is enough -/

theorem render_ne_nil (j : Json) : render j ≠ [] := by
  cases j with
  | null => simp [render, lit_null]
  | bool b => cases b <;> simp [render, lit_true, lit_false]
  | num n => cases n with
    | ofNat k => simpa [render, showInt] using showNat_ne_nil k
    | negSucc k => simp [render, showInt]
  | float => simp [render, lit]
  | str s => simp [render]
  | arr l => simp [render]
  | obj kvs => simp [render]

mutual
  theorem need_le : (j : Json) → need j ≤ (render j).length
    | .null => by simp [need, render, lit_null]
    | .bool b => by have := render_ne_nil (.bool b); simp only [need]; exact List.length_pos_iff.2 this
    | .num n => by have := render_ne_nil (.num n); simp only [need]; exact List.length_pos_iff.2 this
    | .float => by have := render_ne_nil .float; simp only [need]; exact List.length_pos_iff.2 this
    | .str s => by simp [need, render]
    | .arr l => by have := needList_le l; simp [need, render]; omega
    | .obj kvs => by have := needFields_le kvs; simp [need, render]; omega
  theorem needList_le : (l : List Json) → needList l ≤ (renderList l).length + 1
    | [] => by simp [needList]
    | [x] => by have := need_le x; simp [needList, renderList]; omega
    | x :: y :: ys => by
      have h1 := need_le x
      have h2 := needList_le (y :: ys)
      simp only [needList, renderList, List.length_append, List.length_cons, List.length_nil] at h2 ⊢
      omega
  theorem needFields_le : (kvs : List (Str × Json)) → needFields kvs ≤ (renderFields kvs).length + 1
    | [] => by simp [needFields]
    | [(k, v)] => by have := need_le v; simp [needFields, renderFields]; omega
    | (k, v) :: y :: ys => by
      have h1 := need_le v
      have h2 := needFields_le (y :: ys)
      simp only [needFields, renderFields, List.length_append, List.length_cons, List.length_nil] at h2 ⊢
      omega
end

/-- **the reader inverts the printer** on every clean tree -/
theorem parseJson_render (j : Json) (h : clean j = true) : parseJson (render j) = some j := by
  have := readValue_render j h [] (Or.inl rfl) ((render j).length + 2) (by have := need_le j; omega)
  simp only [List.append_nil] at this
  simp [parseJson, this, skipWs]

/-- hence the printer is injective on clean trees -/
theorem render_injective (a b : Json) (ha : clean a = true) (hb : clean b = true) (h : render a = render b) : a = b := by
  have h1 := parseJson_render a ha
  have h2 := parseJson_render b hb
  rw [h, h2] at h1
  exact (Option.some.inj h1).symm


/-! ### clean trees print as ASCII -/

theorem cleanStr_ascii {s : Str} (h : cleanStr s = true) : ∀ c ∈ s, c.toNat < 128 := by
  intro c hc
  have := List.all_eq_true.1 h c hc
  simp only [Bool.and_eq_true, decide_eq_true_eq] at this
  exact this.2

theorem showNat_ascii (n : Nat) : ∀ c ∈ showNat n, c.toNat < 128 := by
  intro c hc
  have hd := showNat_digits n c hc
  simp only [Char.isDigit, Bool.and_eq_true, decide_eq_true_eq, UInt32.le_iff_toNat_le] at hd
  have : c.toNat = c.val.toNat := rfl
  simp at hd; omega

mutual
  theorem render_ascii : (j : Json) → clean j = true → ∀ c ∈ render j, c.toNat < 128
    | .null, _ => by simp [render, lit_null]
    | .bool true, _ => by simp [render, lit_true]
    | .bool false, _ => by simp [render, lit_false]
    | .float, h => by simp [clean] at h
    | .num (.ofNat n), _ => by simpa [render, showInt] using showNat_ascii n
    | .num (.negSucc n), _ => by
      intro c hc
      simp only [render, showInt, List.mem_cons] at hc
      rcases hc with rfl | hc
      · decide
      · exact showNat_ascii _ c hc
    | .str s, h => by
      intro c hc
      simp only [render, List.cons_append, List.nil_append, List.mem_cons, List.mem_append, List.not_mem_nil, or_false] at hc
      rcases hc with rfl | hc | rfl
      · decide
      · exact cleanStr_ascii (by simpa [clean] using h) c hc
      · decide
    | .arr l, h => by
      intro c hc
      simp only [render, List.cons_append, List.nil_append, List.mem_cons, List.mem_append, List.not_mem_nil, or_false] at hc
      rcases hc with rfl | hc | rfl
      · decide
      · exact renderList_ascii l (by simpa [clean] using h) c hc
      · decide
    | .obj kvs, h => by
      intro c hc
      simp only [render, List.cons_append, List.nil_append, List.mem_cons, List.mem_append, List.not_mem_nil, or_false] at hc
      rcases hc with rfl | hc | rfl
      · decide
      · exact renderFields_ascii kvs (by simpa [clean] using h) c hc
      · decide
  theorem renderList_ascii : (l : List Json) → cleanList l = true → ∀ c ∈ renderList l, c.toNat < 128
    | [], _ => by simp [renderList]
    | [x], h => by
      have hx : clean x = true := by simpa [cleanList] using h
      simpa [renderList] using render_ascii x hx
    | x :: y :: ys, h => by
      have hx : clean x = true := by simp [cleanList] at h; exact h.1
      have hys : cleanList (y :: ys) = true := by simp [cleanList] at h ⊢; exact h.2
      intro c hc
      simp only [renderList, List.mem_append, List.mem_cons, List.not_mem_nil, or_false] at hc
      rcases hc with (hc | rfl) | hc
      · exact render_ascii x hx c hc
      · decide
      · exact renderList_ascii (y :: ys) hys c hc
  theorem renderFields_ascii : (kvs : List (Str × Json)) → cleanFields kvs = true → ∀ c ∈ renderFields kvs, c.toNat < 128
    | [], _ => by simp [renderFields]
    | [(k, v)], h => by
      have hk : cleanStr k = true := by simp [cleanFields] at h; exact h.1
      have hv : clean v = true := by simp [cleanFields] at h; exact h.2
      intro c hc
      simp only [renderFields, List.mem_append, List.mem_cons, List.not_mem_nil, or_false] at hc
      rcases hc with ((rfl | hc) | rfl | rfl) | hc
      · decide
      · exact cleanStr_ascii hk c hc
      · decide
      · decide
      · exact render_ascii v hv c hc
    | (k, v) :: y :: ys, h => by
      have hk : cleanStr k = true := by simp [cleanFields] at h; exact h.1.1
      have hv : clean v = true := by simp [cleanFields] at h; exact h.1.2
      have hys : cleanFields (y :: ys) = true := by simp [cleanFields] at h ⊢; exact h.2
      intro c hc
      simp only [renderFields, List.mem_append, List.mem_cons, List.not_mem_nil, or_false] at hc
      rcases hc with ((((rfl | hc) | rfl | rfl) | hc) | rfl) | hc
      · decide
      · exact cleanStr_ascii hk c hc
      · decide
      · decide
      · exact render_ascii v hv c hc
      · decide
      · exact renderFields_ascii (y :: ys) hys c hc
end

end PLV.J

/-
  Helper lemmas about `matchAgainst`, one maker visit, and an induction principle for the loop of
  `match_order`.
-/
import PLV.Lemmas.OMap

namespace PLV

/-! ### facts about one application of the per-order rule (all by case analysis on the kind) -/

theorem ma_acct (o : Order) (q : Nat) :
    (matchAgainst o q).consumed + (matchAgainst o q).remaining = q := by
  grind [matchAgainst]

theorem ma_consumed_le (o : Order) (q : Nat) : (matchAgainst o q).consumed ≤ o.vis := by
  grind [matchAgainst]

theorem ma_leave (o : Order) (q : Nat) (h : (matchAgainst o q).updated = none) :
    (matchAgainst o q).consumed = o.vis ∧ (matchAgainst o q).hiddenRed = 0 := by
  grind [matchAgainst]

theorem ma_stay (o u : Order) (q : Nat) (h : (matchAgainst o q).updated = some u) :
    u.id = o.id ∧ u.vis + (matchAgainst o q).consumed = o.vis + (matchAgainst o q).hiddenRed ∧
      u.hid + (matchAgainst o q).hiddenRed = o.hid := by
  grind [matchAgainst, Order.hid, Kind.hidden]

theorem ma_stay_fields (o u : Order) (q : Nat) (h : (matchAgainst o q).updated = some u) :
    u.id = o.id ∧ u.price = o.price ∧ u.side = o.side ∧ u.ts = o.ts ∧ u.tif = o.tif := by
  grind [matchAgainst]

theorem ma_aside (o u : Order) (q : Nat) (hq : q ≠ 0) (h : (matchAgainst o q).updated = some u)
    (h0 : (matchAgainst o q).consumed = 0 ∧ (matchAgainst o q).hiddenRed = 0) :
    u.vis = 0 ∧ o.vis = 0 := by
  grind [matchAgainst]

theorem hid_of_plain (o : Order) (h : o.kind.hasHidden = false) : o.hid = 0 := by
  obtain ⟨id, price, vis, side, ts, tif, kind⟩ := o
  cases kind <;> simp_all [Kind.hasHidden, Order.hid, Kind.hidden]

/-! ### the accumulator after one visit -/

@[simp] theorem visit_hid (a : Acc) (p : Nat) (t : Id) (o : Order) (r : MatchOut) :
    (a.visit p t o r).hid = a.hid := by
  unfold Acc.visit; split <;> rfl
@[simp] theorem visit_cnt (a : Acc) (p : Nat) (t : Id) (o : Order) (r : MatchOut) :
    (a.visit p t o r).cnt = a.cnt := by
  unfold Acc.visit; split <;> rfl
@[simp] theorem visit_aside (a : Acc) (p : Nat) (t : Id) (o : Order) (r : MatchOut) :
    (a.visit p t o r).aside = a.aside := by
  unfold Acc.visit; split <;> rfl

theorem visit_vis (a : Acc) (p : Nat) (t : Id) (o : Order) (r : MatchOut)
    (hc : r.consumed ≤ a.vis) (hw : a.vis < W) : (a.visit p t o r).vis = a.vis - r.consumed := by
  unfold Acc.visit
  split
  · simp [wsub_eq hc hw]
  · simp; omega

theorem visit_txs (a : Acc) (p : Nat) (t : Id) (o : Order) (r : MatchOut) :
    (a.visit p t o r).txs =
      if r.consumed > 0 then a.txs ++ [⟨a.g, t, o.id, p, r.consumed, o.side.opposite⟩] else a.txs := by
  unfold Acc.visit; split <;> rfl

theorem visit_g (a : Acc) (p : Nat) (t : Id) (o : Order) (r : MatchOut) :
    (a.visit p t o r).g = if r.consumed > 0 then wadd a.g 1 else a.g := by
  unfold Acc.visit; split <;> rfl

theorem visit_filled (a : Acc) (p : Nat) (t : Id) (o : Order) (r : MatchOut) :
    (a.visit p t o r).filled =
      if r.consumed > 0 ∧ r.updated = none then a.filled ++ [o.id] else a.filled := by
  unfold Acc.visit
  split
  · cases r.updated <;> simp_all
  · simp_all

@[simp] theorem pushAside_vis (a : Acc) (u : Order) : (a.pushAside u).vis = a.vis := rfl
@[simp] theorem pushAside_hid (a : Acc) (u : Order) : (a.pushAside u).hid = a.hid := rfl
@[simp] theorem pushAside_cnt (a : Acc) (u : Order) : (a.pushAside u).cnt = a.cnt := rfl
@[simp] theorem pushAside_aside (a : Acc) (u : Order) : (a.pushAside u).aside = a.aside ++ [u] := rfl
@[simp] theorem pushAside_txs (a : Acc) (u : Order) : (a.pushAside u).txs = a.txs := rfl
@[simp] theorem pushAside_g (a : Acc) (u : Order) : (a.pushAside u).g = a.g := rfl
@[simp] theorem pushAside_filled (a : Acc) (u : Order) : (a.pushAside u).filled = a.filled := rfl
@[simp] theorem pushAside_stats (a : Acc) (u : Order) : (a.pushAside u).stats = a.stats := rfl

@[simp] theorem requeue_cnt (a : Acc) (hr : Nat) : (a.requeue hr).cnt = a.cnt := by
  unfold Acc.requeue; split <;> rfl
@[simp] theorem requeue_aside (a : Acc) (hr : Nat) : (a.requeue hr).aside = a.aside := by
  unfold Acc.requeue; split <;> rfl
@[simp] theorem requeue_txs (a : Acc) (hr : Nat) : (a.requeue hr).txs = a.txs := by
  unfold Acc.requeue; split <;> rfl
@[simp] theorem requeue_g (a : Acc) (hr : Nat) : (a.requeue hr).g = a.g := by
  unfold Acc.requeue; split <;> rfl
@[simp] theorem requeue_filled (a : Acc) (hr : Nat) : (a.requeue hr).filled = a.filled := by
  unfold Acc.requeue; split <;> rfl
@[simp] theorem requeue_stats (a : Acc) (hr : Nat) : (a.requeue hr).stats = a.stats := by
  unfold Acc.requeue; split <;> rfl

theorem requeue_vis_hid (a : Acc) (hr : Nat) (hh : hr ≤ a.hid) (hw : a.hid < W) (hv : a.vis + hr < W) :
    (a.requeue hr).vis = a.vis + hr ∧ (a.requeue hr).hid = a.hid - hr := by
  unfold Acc.requeue
  split
  · simp [wsub_eq hh hw, wadd_eq hv]
  · simp; omega

@[simp] theorem leave_vis (a : Acc) (o : Order) (hr : Nat) : (a.leave o hr).vis = a.vis := rfl
@[simp] theorem leave_aside (a : Acc) (o : Order) (hr : Nat) : (a.leave o hr).aside = a.aside := rfl
@[simp] theorem leave_txs (a : Acc) (o : Order) (hr : Nat) : (a.leave o hr).txs = a.txs := rfl
@[simp] theorem leave_g (a : Acc) (o : Order) (hr : Nat) : (a.leave o hr).g = a.g := rfl
@[simp] theorem leave_filled (a : Acc) (o : Order) (hr : Nat) : (a.leave o hr).filled = a.filled := rfl
@[simp] theorem leave_stats (a : Acc) (o : Order) (hr : Nat) : (a.leave o hr).stats = a.stats := rfl

theorem leave_cnt_hid (a : Acc) (o : Order) (hc : 1 ≤ a.cnt) (hcw : a.cnt < W) (hh : o.hid ≤ a.hid)
    (hw : a.hid < W) : (a.leave o 0).cnt = a.cnt - 1 ∧ (a.leave o 0).hid = a.hid - o.hid := by
  unfold Acc.leave
  refine ⟨by simp [wsub_eq hc hcw], ?_⟩
  by_cases hk : o.kind.hasHidden = true
  · by_cases h0 : o.hid > 0
    · simp [hk, h0, wsub_eq hh hw]
    · simp [hk, h0]; omega
  · have := hid_of_plain o (by simpa using hk)
    simp [hk]; omega

/-! ### induction principle for the loop -/

/-- To show that `P` holds of the loop's final state it is enough that `P` holds initially and is
    preserved by: running out of tickets, setting an order aside, re-queueing a partially filled or
    replenished order, and an order leaving the book. -/
theorem matchLoop_ind (price : Nat) (taker : Id) (P : Nat → OMap → List Id → Acc → Prop)
    (hnone : ∀ rem m ts a, rem ≠ 0 → popLive m ts = none → P rem m ts a → P rem m [] a)
    (haside : ∀ rem m ts a o m' ts' u, rem ≠ 0 → popLive m ts = some (o, m', ts') →
      (matchAgainst o rem).updated = some u →
      ((matchAgainst o rem).consumed = 0 ∧ (matchAgainst o rem).hiddenRed = 0) → P rem m ts a →
      P (matchAgainst o rem).remaining m' ts'
        ((a.visit price taker o (matchAgainst o rem)).pushAside u))
    (hrequeue : ∀ rem m ts a o m' ts' u, rem ≠ 0 → popLive m ts = some (o, m', ts') →
      (matchAgainst o rem).updated = some u →
      ¬ ((matchAgainst o rem).consumed = 0 ∧ (matchAgainst o rem).hiddenRed = 0) → P rem m ts a →
      P (matchAgainst o rem).remaining (m'.insert u) (ts' ++ [u.id])
        ((a.visit price taker o (matchAgainst o rem)).requeue (matchAgainst o rem).hiddenRed))
    (hleave : ∀ rem m ts a o m' ts', rem ≠ 0 → popLive m ts = some (o, m', ts') →
      (matchAgainst o rem).updated = none → P rem m ts a →
      P (matchAgainst o rem).remaining m' ts'
        ((a.visit price taker o (matchAgainst o rem)).leave o (matchAgainst o rem).hiddenRed))
    (rem : Nat) (m : OMap) (ts : List Id) (a : Acc) (h : P rem m ts a) :
    P (matchLoop price taker rem m ts a).1 (matchLoop price taker rem m ts a).2.1
      (matchLoop price taker rem m ts a).2.2.1 (matchLoop price taker rem m ts a).2.2.2 := by
  fun_induction matchLoop price taker rem m ts a with
  | case1 => exact h
  | case2 rem m ts a hz hp => exact hnone _ _ _ _ hz hp h
  | case3 rem m ts a hz o m' ts' hp r a2 u hu hs ih => exact ih (haside _ _ _ _ _ _ _ _ hz hp hu hs h)
  | case4 rem m ts a hz o m' ts' hp r a2 u hu hs ih => exact ih (hrequeue _ _ _ _ _ _ _ _ hz hp hu hs h)
  | case5 rem m ts a hz o m' ts' hp r a2 hu ih => exact ih (hleave _ _ _ _ _ _ _ hz hp hu h)

/-- how the loop stops: nothing remains, or the ticket queue ran empty -/
theorem matchLoop_stop (price : Nat) (taker : Id) (rem : Nat) (m : OMap) (ts : List Id) (a : Acc) :
    (matchLoop price taker rem m ts a).1 = 0 ∨ (matchLoop price taker rem m ts a).2.2.1 = [] := by
  fun_induction matchLoop price taker rem m ts a with
  | case1 => exact Or.inl rfl
  | case2 => exact Or.inr rfl
  | case3 _ _ _ _ _ _ _ _ _ _ _ _ _ _ ih => exact ih
  | case4 _ _ _ _ _ _ _ _ _ _ _ _ _ _ ih => exact ih
  | case5 _ _ _ _ _ _ _ _ _ _ _ _ ih => exact ih

end PLV

/-
  The aggregate invariant of a level and its preservation by every operation (helper lemmas for
  C01, C02, C06, C07, C15).
-/
import PLV.Lemmas.Match

namespace PLV

/-- Invariant of the loop of `match_order`: the counters equal the sums over the map plus the
    set-aside orders, nothing wraps, every key has a ticket. -/
structure AggInv (m : OMap) (ts : List Id) (a : Acc) : Prop where
  nodupM : (ids m).Nodup
  nodupA : (ids a.aside).Nodup
  disj : ∀ x ∈ ids a.aside, x ∉ ids m
  covered : ∀ x ∈ ids m, x ∈ ts
  vis : a.vis = sumVis m + sumVis a.aside
  hid : a.hid = sumHid m + sumHid a.aside
  cnt : a.cnt = m.length + a.aside.length
  fits : sumVis m + sumVis a.aside + sumHid m + sumHid a.aside < W
  cfits : m.length + a.aside.length < W

theorem sumVis_le_of_find {m : OMap} {id : Id} {o : Order} (hn : (ids m).Nodup) (hf : m.find id = some o) :
    o.vis ≤ sumVis m ∧ o.hid ≤ sumHid m ∧ 1 ≤ m.length := by
  have := erase_find hn hf; omega

theorem AggInv.aside_step {m ts a o m' ts' u} {rem price taker} (hz : rem ≠ 0)
    (hp : popLive m ts = some (o, m', ts')) (hu : (matchAgainst o rem).updated = some u)
    (hs : (matchAgainst o rem).consumed = 0 ∧ (matchAgainst o rem).hiddenRed = 0) (h : AggInv m ts a) :
    AggInv m' ts' ((a.visit price taker o (matchAgainst o rem)).pushAside u) := by
  obtain ⟨hf, rfl, ht, _⟩ := popLive_spec hp
  have he := erase_find h.nodupM hf
  have hst := ma_stay o u rem hu
  have has := ma_aside o u rem hz hu hs
  have hom : o.id ∈ ids m := mem_ids_of_mem (find_some hf).1
  have hv : (a.visit price taker o (matchAgainst o rem)).vis = a.vis := by
    rw [visit_vis _ _ _ _ _ (by omega) (by have := h.vis; have := h.fits; omega)]; omega
  refine ⟨nodup_erase _ h.nodupM, ?_, ?_, ?_, ?_, ?_, ?_, ?_, ?_⟩
  · simp only [pushAside_aside, visit_aside, ids_append, ids_cons, ids_nil]
    rw [List.nodup_append]
    refine ⟨h.nodupA, by simp, ?_⟩
    intro x hx y hy
    simp at hy; subst hy
    intro e; subst e
    exact h.disj _ hx (hst.1 ▸ hom)
  · intro x hx
    simp only [pushAside_aside, visit_aside, ids_append, ids_cons, ids_nil, List.mem_append,
      List.mem_singleton] at hx
    rcases hx with hx | rfl
    · exact fun hm => h.disj x hx (mem_ids_erase.1 hm).1
    · rw [hst.1]; exact fun hm => (mem_ids_erase.1 hm).2 rfl
  · intro x hx
    have := mem_ids_erase.1 hx
    exact ht x this.1 this.2 (h.covered x this.1)
  · simp [hv, sumVis_append, sumVis]; have := h.vis; omega
  · simp [sumHid_append, sumHid]; have := h.hid; omega
  · simp; have := h.cnt; omega
  · simp [sumVis_append, sumHid_append, sumVis, sumHid]; have := h.fits; omega
  · simp; have := h.cfits; omega

theorem AggInv.requeue_step {m ts a o m' ts' u} {rem price taker}
    (hp : popLive m ts = some (o, m', ts')) (hu : (matchAgainst o rem).updated = some u)
    (h : AggInv m ts a) :
    AggInv (m'.insert u) (ts' ++ [u.id])
      ((a.visit price taker o (matchAgainst o rem)).requeue (matchAgainst o rem).hiddenRed) := by
  obtain ⟨hf, rfl, ht, _⟩ := popLive_spec hp
  have he := erase_find h.nodupM hf
  have hst := ma_stay o u rem hu
  have hc := ma_consumed_le o rem
  have hom : o.id ∈ ids m := mem_ids_of_mem (find_some hf).1
  have hfresh : u.id ∉ ids (m.erase o.id) := by rw [hst.1]; exact fun hm => (mem_ids_erase.1 hm).2 rfl
  have hins := sum_insert_fresh hfresh
  have hvis := h.vis; have hhid := h.hid; have hfits := h.fits
  have hv : (a.visit price taker o (matchAgainst o rem)).vis = a.vis - (matchAgainst o rem).consumed :=
    visit_vis _ _ _ _ _ (by omega) (by omega)
  have hrq := requeue_vis_hid (a.visit price taker o (matchAgainst o rem)) (matchAgainst o rem).hiddenRed
    (by simp; omega) (by simp; omega) (by rw [hv]; omega)
  refine ⟨nodup_insert _ (nodup_erase _ h.nodupM), by simpa using h.nodupA, ?_, ?_, ?_, ?_, ?_, ?_, ?_⟩
  · intro x hx hm
    simp at hx
    rcases ids_insert.1 hm with hm | rfl
    · exact h.disj x hx (mem_ids_erase.1 hm).1
    · exact h.disj _ hx (hst.1 ▸ hom)
  · intro x hx
    rcases ids_insert.1 hx with hx | rfl
    · have := mem_ids_erase.1 hx
      exact List.mem_append_left _ (ht x this.1 this.2 (h.covered x this.1))
    · simp
  · rw [hrq.1, hv]; simp; omega
  · rw [hrq.2]; simp; omega
  · simp; have := h.cnt; omega
  · simp; omega
  · simp; have := h.cfits; omega

theorem AggInv.leave_step {m ts a o m' ts'} {rem price taker}
    (hp : popLive m ts = some (o, m', ts')) (hu : (matchAgainst o rem).updated = none)
    (h : AggInv m ts a) :
    AggInv m' ts'
      ((a.visit price taker o (matchAgainst o rem)).leave o (matchAgainst o rem).hiddenRed) := by
  obtain ⟨hf, rfl, ht, _⟩ := popLive_spec hp
  have he := erase_find h.nodupM hf
  have hl := ma_leave o rem hu
  have hvis := h.vis; have hhid := h.hid; have hfits := h.fits; have hcnt := h.cnt; have hcf := h.cfits
  have hv : (a.visit price taker o (matchAgainst o rem)).vis = a.vis - (matchAgainst o rem).consumed :=
    visit_vis _ _ _ _ _ (by omega) (by omega)
  have hlv := leave_cnt_hid (a.visit price taker o (matchAgainst o rem)) o (by simp; omega) (by simp; omega)
    (by simp; omega) (by simp; omega)
  rw [hl.2]
  refine ⟨nodup_erase _ h.nodupM, by simpa using h.nodupA, ?_, ?_, ?_, ?_, ?_, ?_, ?_⟩
  · intro x hx hm
    simp at hx
    exact h.disj x hx (mem_ids_erase.1 hm).1
  · intro x hx
    have := mem_ids_erase.1 hx
    exact ht x this.1 this.2 (h.covered x this.1)
  · simp [hv]; omega
  · rw [hlv.2]; simp; omega
  · rw [hlv.1]; simp; omega
  · simp; omega
  · simp; omega

/-- the aggregate invariant holds of the state in which the loop of `match_order` stops -/
theorem matchLoop_agg (price : Nat) (taker : Id) (rem : Nat) (m : OMap) (ts : List Id) (a : Acc)
    (h : AggInv m ts a) :
    AggInv (matchLoop price taker rem m ts a).2.1 (matchLoop price taker rem m ts a).2.2.1
      (matchLoop price taker rem m ts a).2.2.2 := by
  refine matchLoop_ind price taker (fun _ m ts a => AggInv m ts a) ?_ ?_ ?_ ?_ rem m ts a h
  · intro rem m ts a _ hp h
    have hn := popLive_none hp
    exact { h with covered := fun x hx => absurd hx (hn x (h.covered x hx)) }
  · intro rem m ts a o m' ts' u hz hp hu hs h; exact h.aside_step hz hp hu hs
  · intro rem m ts a o m' ts' u _ hp hu _ h; exact h.requeue_step hp hu
  · intro rem m ts a o m' ts' _ hp hu h; exact h.leave_step hp hu

end PLV

/-
  Truncated JSON documents (helper lemmas for C09's "every proper prefix of the text is an error"):
  more fuel never changes an answer of the reader; on a printed clean tree the reader, whatever its
  fuel, answers that tree or nothing; a proper prefix of a printed clean value is rejected or read
  as a value with nothing left over (a shorter number); a proper prefix of a printed clean *object*
  is never a document.
-/
import PLV.Lemmas.JsonRT

namespace PLV.J
open PLV PLV.Text

/-! ### more fuel never changes an answer -/

mutual
  theorem rv_mono : ∀ (f : Nat) (s : Str) (x : Json × Str), readValue f s = some x → readValue (f + 1) s = some x
    | 0, s, x, h => by simp [readValue] at h
    | f + 1, s, x, h => by
      rw [readValue] at h ⊢
      cases hs : skipWs s with
      | nil => rw [hs] at h; simp at h
      | cons c rest =>
        rw [hs] at h
        simp only at h ⊢
        by_cases h1 : c = '"'
        · subst h1
          simp only [if_true] at h ⊢
          exact h
        · by_cases h2 : c = '['
          · subst h2
            simp (config := {decide := true}) only [if_false, if_true] at h ⊢
            cases hr : skipWs rest with
            | nil =>
              rw [hr] at h; simp only at h ⊢
              cases he : readElems f rest [] with
              | none => rw [he] at h; simp at h
              | some y => rw [he] at h; rw [re_mono f rest [] y he]; exact h
            | cons d r =>
              rw [hr] at h
              by_cases hd : d = ']'
              · subst hd; simp only at h ⊢; exact h
              · split at h
                · rename_i r' heq; simp at heq; exact absurd heq.1 hd
                · cases he : readElems f rest [] with
                  | none => rw [he] at h; simp at h
                  | some y => rw [he] at h; rw [re_mono f rest [] y he]; exact h
          · by_cases h3 : c = '{'
            · subst h3
              simp (config := {decide := true}) only [if_false, if_true] at h ⊢
              cases hr : skipWs rest with
              | nil =>
                rw [hr] at h; simp only at h ⊢
                cases he : readMembers f rest [] with
                | none => rw [he] at h; simp at h
                | some y => rw [he] at h; rw [rm_mono f rest [] y he]; exact h
              | cons d r =>
                rw [hr] at h
                by_cases hd : d = '}'
                · subst hd; simp only at h ⊢; exact h
                · split at h
                  · rename_i r' heq; simp at heq; exact absurd heq.1 hd
                  · cases he : readMembers f rest [] with
                    | none => rw [he] at h; simp at h
                    | some y => rw [he] at h; rw [rm_mono f rest [] y he]; exact h
            · simp only [h1, h2, h3, if_false] at h ⊢
              exact h
  theorem re_mono : ∀ (f : Nat) (s : Str) (acc : List Json) (x : List Json × Str),
      readElems f s acc = some x → readElems (f + 1) s acc = some x
    | 0, s, acc, x, h => by simp [readElems] at h
    | f + 1, s, acc, x, h => by
      rw [readElems] at h ⊢
      cases hv : readValue f s with
      | none => rw [hv] at h; simp at h
      | some y =>
        obtain ⟨v, rest⟩ := y
        rw [hv] at h
        rw [rv_mono f s _ hv]
        simp only at h ⊢
        cases hr : skipWs rest with
        | nil => rw [hr] at h; simp at h
        | cons d r =>
          rw [hr] at h
          by_cases hd : d = ','
          · subst hd; simp only at h ⊢; exact re_mono f r _ x h
          · by_cases hd2 : d = ']'
            · subst hd2; simp only at h ⊢; exact h
            · exfalso
              split at h
              · rename_i r' heq; simp at heq; exact hd heq.1
              · rename_i r' heq; simp at heq; exact hd2 heq.1
              · simp at h
  theorem rm_mono : ∀ (f : Nat) (s : Str) (acc : List (Str × Json)) (x : List (Str × Json) × Str),
      readMembers f s acc = some x → readMembers (f + 1) s acc = some x
    | 0, s, acc, x, h => by simp [readMembers] at h
    | f + 1, s, acc, x, h => by
      rw [readMembers] at h ⊢
      cases hs : skipWs s with
      | nil => rw [hs] at h; simp at h
      | cons q rest =>
        rw [hs] at h
        by_cases hq : q = '"'
        · subst hq
          simp only at h ⊢
          cases hk : readString [] rest with
          | none => rw [hk] at h; simp at h
          | some kr =>
            obtain ⟨k, r1⟩ := kr
            rw [hk] at h
            simp only at h ⊢
            cases hr1 : skipWs r1 with
            | nil => rw [hr1] at h; simp at h
            | cons d r2 =>
              rw [hr1] at h
              by_cases hd : d = ':'
              · subst hd
                simp only at h ⊢
                cases hv : readValue f r2 with
                | none => rw [hv] at h; simp at h
                | some y =>
                  obtain ⟨v, r3⟩ := y
                  rw [hv] at h
                  rw [rv_mono f r2 _ hv]
                  simp only at h ⊢
                  cases hr3 : skipWs r3 with
                  | nil => rw [hr3] at h; simp at h
                  | cons e r4 =>
                    rw [hr3] at h
                    by_cases he : e = ','
                    · subst he; simp only at h ⊢; exact rm_mono f r4 _ x h
                    · by_cases he2 : e = '}'
                      · subst he2; simp only at h ⊢; exact h
                      · exfalso
                        split at h
                        · rename_i r' heq; simp at heq; exact he heq.1
                        · rename_i r' heq; simp at heq; exact he2 heq.1
                        · simp at h
              · exfalso
                split at h
                · rename_i r' heq; simp at heq; exact hd heq.1
                · simp at h
        · exfalso
          split at h
          · rename_i r' heq; simp at heq; exact hq heq.1
          · simp at h
end


theorem rv_mono_add (f : Nat) (s : Str) (x : Json × Str) (h : readValue f s = some x) : ∀ n, readValue (f + n) s = some x
  | 0 => h
  | n + 1 => rv_mono (f + n) s x (rv_mono_add f s x h n)

/-- whatever fuel: if the reader answers on a printed clean tree, it answers the tree -/
theorem readValue_det (j : Json) (hc : clean j = true) (rest : Str) (hr : Stop rest) (f : Nat) (x : Json × Str)
    (h : readValue f (render j ++ rest) = some x) : x = (j, rest) := by
  have h1 := rv_mono_add f _ x h (need j)
  have h2 := readValue_render j hc rest hr (f + need j) (by omega)
  rw [h2] at h1
  exact (Option.some.inj h1).symm

/-! ### prefixes -/

theorem prefix_cons' {p : Str} {c : Char} {l : Str} (h : p <+: c :: l) : p = [] ∨ ∃ q, p = c :: q ∧ q <+: l := by
  obtain ⟨t, ht⟩ := h
  cases p with
  | nil => exact Or.inl rfl
  | cons d q =>
    simp only [List.cons_append, List.cons.injEq] at ht
    exact Or.inr ⟨q, by rw [ht.1], ⟨t, ht.2⟩⟩

theorem prefix_append' {p a b : Str} (h : p <+: a ++ b) : p <+: a ∨ ∃ q, p = a ++ q ∧ q <+: b := by
  induction a generalizing p with
  | nil => exact Or.inr ⟨p, rfl, by simpa using h⟩
  | cons c a ih =>
    rcases prefix_cons' (by simpa using h) with rfl | ⟨q, rfl, hq⟩
    · exact Or.inl (List.nil_prefix)
    · rcases ih hq with h1 | ⟨q', rfl, h2⟩
      · exact Or.inl (List.cons_prefix_cons.2 ⟨rfl, h1⟩)
      · exact Or.inr ⟨q', rfl, h2⟩

theorem mem_of_prefix {p l : Str} (h : p <+: l) {c : Char} (hc : c ∈ p) : c ∈ l := by
  obtain ⟨t, rfl⟩ := h; exact List.mem_append_left _ hc

/-- an unterminated clean string is rejected -/
theorem readString_trunc (q : Str) (hq : cleanStr q = true) (acc : Str) : readString acc q = none := by
  induction q generalizing acc with
  | nil => rw [readString.eq_def]
  | cons c q ih =>
    simp only [cleanStr, List.all_cons, Bool.and_eq_true, bne_iff_ne, ne_eq, decide_eq_true_eq] at hq
    obtain ⟨⟨⟨⟨h1, h2⟩, h3⟩, _⟩, h4⟩ := hq
    have h3' : ¬ c.toNat < 32 := by omega
    rw [readString.eq_def]
    simp only [if_neg h1, if_neg h2, if_neg h3']
    exact ih (by simpa [cleanStr] using h4) _

theorem cleanStr_prefix {q s : Str} (h : q <+: s) (hs : cleanStr s = true) : cleanStr q = true := by
  apply List.all_eq_true.2
  intro c hc
  exact List.all_eq_true.1 hs c (mem_of_prefix h hc)

/-- digits (optionally after a minus sign) and nothing else: the number reader leaves nothing -/
theorem readNumber_digits (ds : Str) (hd : ∀ c ∈ ds, c.isDigit = true) :
    readNumber ds = none ∨ ∃ v, readNumber ds = some (v, []) := by
  have htd : takeDigits ds = (ds, []) := by
    have := takeDigits_append ds [] hd (Or.inl rfl); simpa using this
  have hneg : (ds.head? = some '-') = False := by
    cases ds with
    | nil => simp
    | cons d r =>
      simp only [List.head?_cons, Option.some.injEq, eq_iff_iff, iff_false]
      exact isDigit_ne (hd d (List.mem_cons_self ..)) (by decide)
  unfold readNumber
  simp only [hneg, decide_false, Bool.false_eq_true, if_false, htd]
  have hnt : numTail [] = (true, []) := by simp [numTail]
  simp only [hnt, Bool.not_true, Bool.false_eq_true, if_false]
  split
  · exact Or.inl rfl
  · split
    · exact Or.inl rfl
    · split <;> exact Or.inr ⟨_, rfl⟩

theorem readNumber_neg_digits (ds : Str) (hd : ∀ c ∈ ds, c.isDigit = true) :
    readNumber ('-' :: ds) = none ∨ ∃ v, readNumber ('-' :: ds) = some (v, []) := by
  have htd : takeDigits ds = (ds, []) := by
    have := takeDigits_append ds [] hd (Or.inl rfl); simpa using this
  unfold readNumber
  simp only [List.head?_cons, decide_true, if_true, List.tail_cons, htd]
  have hnt : numTail [] = (true, []) := by simp [numTail]
  simp only [hnt, Bool.not_true, Bool.false_eq_true, if_false]
  split
  · exact Or.inl rfl
  · split
    · exact Or.inl rfl
    · split
      · exact Or.inr ⟨_, rfl⟩
      · split <;> exact Or.inr ⟨_, rfl⟩


/-! ### truncated documents -/

/-- what the reader may answer on a truncated value: nothing, or a value with nothing left over -/
def TruncRes (o : Option (Json × Str)) : Prop := o = none ∨ ∃ v, o = some (v, [])

theorem rv_nil (f : Nat) : readValue f [] = none := by
  cases f with
  | zero => simp [readValue]
  | succ f => rw [readValue]; simp [skipWs]

theorem litAt_prefix (w q : Str) (h : q <+: w) (hne : q ≠ w) : litAt w q = none := by
  obtain ⟨t, rfl⟩ := h
  have ht : t ≠ [] := by intro e; subst e; simp at hne
  unfold litAt
  rw [if_neg]
  intro e
  have hl : q.length ≤ (q ++ t).length := by simp
  rw [List.take_of_length_le hl] at e
  have := congrArg List.length e
  simp at this
  exact ht this

/-- a printed value followed by `tail` (nothing, or a comma and more), truncated anywhere -/
theorem value_then (x : Json) (hx : clean x = true)
    (PVx : ∀ p, p <+: render x → p ≠ render x → ∀ f, TruncRes (readValue f p))
    (tail : Str) (htail : tail = [] ∨ ∃ t', tail = ',' :: t') (q3 : Str) (hq : q3 <+: render x ++ tail) (f : Nat) :
    readValue f q3 = none ∨ (∃ v, readValue f q3 = some (v, [])) ∨
      (∃ q' t', tail = ',' :: t' ∧ q' <+: t' ∧ readValue f q3 = some (x, ',' :: q')) := by
  have complete : readValue f (render x) = none ∨ ∃ v, readValue f (render x) = some (v, []) := by
    cases h : readValue f (render x) with
    | none => exact Or.inl rfl
    | some y =>
      have := readValue_det x hx [] (Or.inl rfl) f y (by simpa using h)
      exact Or.inr ⟨x, by rw [this]⟩
  rcases prefix_append' hq with h1 | ⟨q, rfl, h2⟩
  · by_cases he : q3 = render x
    · subst he
      rcases complete with h | h
      · exact Or.inl h
      · exact Or.inr (Or.inl h)
    · rcases PVx q3 h1 he f with h | h
      · exact Or.inl h
      · exact Or.inr (Or.inl h)
  · rcases htail with rfl | ⟨t', rfl⟩
    · have : q = [] := by simpa using h2
      subst this
      rw [List.append_nil]
      rcases complete with h | h
      · exact Or.inl h
      · exact Or.inr (Or.inl h)
    · rcases prefix_cons' h2 with rfl | ⟨q', rfl, hq'⟩
      · rw [List.append_nil]
        rcases complete with h | h
        · exact Or.inl h
        · exact Or.inr (Or.inl h)
      · cases h : readValue f (render x ++ ',' :: q') with
        | none => exact Or.inl rfl
        | some y =>
          have := readValue_det x hx (',' :: q') (stop_comma q') f y h
          exact Or.inr (Or.inr ⟨q', t', rfl, hq', by rw [this]⟩)


theorem not_full_of_snoc {q body : Str} {c : Char} (h : q <+: body ++ [c]) (hne : q ≠ body ++ [c]) : q <+: body := by
  rcases prefix_append' h with h1 | ⟨q', rfl, h2⟩
  · exact h1
  · rcases prefix_cons' h2 with rfl | ⟨q'', rfl, h3⟩
    · simp
    · have : q'' = [] := by simpa using h3
      subst this; exact absurd rfl hne

theorem renderList_head (x : Json) (xs : List Json) (hx : clean x = true) :
    ∃ c r, renderList (x :: xs) = c :: r ∧ headOk c = true := by
  obtain ⟨c, r, hcr, hok⟩ := render_cons x hx
  cases xs with
  | nil => exact ⟨c, r, by simp [renderList, hcr], hok⟩
  | cons y ys => exact ⟨c, r ++ ',' :: renderList (y :: ys), by simp [renderList, hcr], hok⟩

def listTail : List Json → Str
  | [] => []
  | y :: ys => ',' :: renderList (y :: ys)

def fieldsTail : List (Str × Json) → Str
  | [] => []
  | y :: ys => ',' :: renderFields (y :: ys)

theorem renderList_tail (x : Json) (xs : List Json) : renderList (x :: xs) = render x ++ listTail xs := by
  cases xs <;> simp [renderList, listTail]

theorem renderFields_tail (k : Str) (v : Json) (rest : List (Str × Json)) :
    renderFields ((k, v) :: rest) = '"' :: (k ++ '"' :: ':' :: (render v ++ fieldsTail rest)) := by
  cases rest <;> simp [renderFields, fieldsTail]

theorem listTail_shape (xs : List Json) : listTail xs = [] ∨ ∃ t', listTail xs = ',' :: t' := by
  cases xs with
  | nil => exact Or.inl rfl
  | cons y ys => exact Or.inr ⟨_, rfl⟩

theorem fieldsTail_shape (xs : List (Str × Json)) : fieldsTail xs = [] ∨ ∃ t', fieldsTail xs = ',' :: t' := by
  cases xs with
  | nil => exact Or.inl rfl
  | cons y ys => exact Or.inr ⟨_, rfl⟩

mutual
  theorem trunc_value : (j : Json) → clean j = true → ∀ p, p <+: render j → p ≠ render j → ∀ f, TruncRes (readValue f p)
    | .null, _, p, hp, hne, f => by
      cases f with
      | zero => exact Or.inl (by simp [readValue])
      | succ f =>
        simp only [render, lit_null] at hp hne
        rcases prefix_cons' hp with rfl | ⟨q, rfl, hq⟩
        · exact Or.inl (rv_nil _)
        · have := litAt_prefix (lit "ull") q (by rw [lit_ull]; exact hq) (by rw [lit_ull]; intro e; exact hne (by rw [e]))
          left; rw [readValue]
          simp (config := {decide := true}) [skipWs, isWs, this]
    | .bool true, _, p, hp, hne, f => by
      cases f with
      | zero => exact Or.inl (by simp [readValue])
      | succ f =>
        simp only [render, lit_true, if_true] at hp hne
        rcases prefix_cons' hp with rfl | ⟨q, rfl, hq⟩
        · exact Or.inl (rv_nil _)
        · have := litAt_prefix (lit "rue") q (by rw [lit_rue]; exact hq) (by rw [lit_rue]; intro e; exact hne (by rw [e]))
          left; rw [readValue]
          simp (config := {decide := true}) [skipWs, isWs, this]
    | .bool false, _, p, hp, hne, f => by
      cases f with
      | zero => exact Or.inl (by simp [readValue])
      | succ f =>
        simp only [render, lit_false, Bool.false_eq_true, if_false] at hp hne
        rcases prefix_cons' hp with rfl | ⟨q, rfl, hq⟩
        · exact Or.inl (rv_nil _)
        · have := litAt_prefix (lit "alse") q (by rw [lit_alse]; exact hq) (by rw [lit_alse]; intro e; exact hne (by rw [e]))
          left; rw [readValue]
          simp (config := {decide := true}) [skipWs, isWs, this]
    | .float, hc, _, _, _, _ => by simp [clean] at hc
    | .num (.ofNat n), _, p, hp, _, f => by
      cases f with
      | zero => exact Or.inl (by simp [readValue])
      | succ f =>
        simp only [render, showInt] at hp
        cases p with
        | nil => exact Or.inl (rv_nil _)
        | cons d q =>
          have hdig : ∀ c ∈ d :: q, c.isDigit = true := fun c hc => showNat_digits n c (mem_of_prefix hp hc)
          have hd := hdig d (List.mem_cons_self ..)
          rw [readValue]
          simp only [skipWs_headOk (headOk_digit hd)]
          rw [if_neg (isDigit_ne hd (by decide)), if_neg (isDigit_ne hd (by decide)), if_neg (isDigit_ne hd (by decide)),
            if_pos (Or.inr hd)]
          exact readNumber_digits (d :: q) hdig
    | .num (.negSucc n), _, p, hp, _, f => by
      cases f with
      | zero => exact Or.inl (by simp [readValue])
      | succ f =>
        simp only [render, showInt] at hp
        rcases prefix_cons' hp with rfl | ⟨q, rfl, hq⟩
        · exact Or.inl (rv_nil _)
        · have hdig : ∀ c ∈ q, c.isDigit = true := fun c hc => showNat_digits (n + 1) c (mem_of_prefix hq hc)
          rw [readValue]
          simp only [skipWs_headOk (c := '-') (by decide)]
          simp (config := {decide := true}) only [if_false, true_or, if_true]
          exact readNumber_neg_digits q hdig
    | .str s, hc, p, hp, hne, f => by
      cases f with
      | zero => exact Or.inl (by simp [readValue])
      | succ f =>
        have hs : cleanStr s = true := by simpa [clean] using hc
        simp only [render, List.cons_append, List.nil_append] at hp hne
        rcases prefix_cons' hp with rfl | ⟨q, rfl, hq⟩
        · exact Or.inl (rv_nil _)
        · have hq' : q <+: s := not_full_of_snoc hq (by intro e; exact hne (by rw [e]))
          have := readString_trunc q (cleanStr_prefix hq' hs) []
          left; rw [readValue]
          simp only [skipWs_headOk (c := '"') (by decide), if_true, this, Option.map_none]
    | .arr l, hc, p, hp, hne, f => by
      cases f with
      | zero => exact Or.inl (by simp [readValue])
      | succ f =>
        have hl : cleanList l = true := by simpa [clean] using hc
        simp only [render, List.cons_append, List.nil_append] at hp hne
        rcases prefix_cons' hp with rfl | ⟨q, rfl, hq⟩
        · exact Or.inl (rv_nil _)
        · have hq' : q <+: renderList l := not_full_of_snoc hq (by intro e; exact hne (by rw [e]))
          have hel := trunc_elems l hl q hq' f []
          left; rw [readValue]
          simp only [skipWs_headOk (c := '[') (by decide)]
          simp (config := {decide := true}) only [if_false, if_true]
          cases q with
          | nil => simp [skipWs, hel]
          | cons c q1 =>
            cases l with
            | nil => simp [renderList] at hq'
            | cons x xs =>
              have hx : clean x = true := by simp [cleanList] at hl; exact hl.1
              obtain ⟨c0, r0, h0, hok⟩ := renderList_head x xs hx
              rw [h0] at hq'
              have hcc : c = c0 := by
                obtain ⟨t, ht⟩ := hq'; simp at ht; exact ht.1
              subst hcc
              have hne2 : c ≠ ']' := by simp [headOk] at hok; exact hok.1.2
              rw [skipWs_headOk hok]
              split
              · rename_i r heq; simp at heq; exact absurd heq.1 hne2
              · rw [hel]; rfl
    | .obj kvs, hc, p, hp, hne, f => by
      cases f with
      | zero => exact Or.inl (by simp [readValue])
      | succ f =>
        have hl : cleanFields kvs = true := by simpa [clean] using hc
        simp only [render, List.cons_append, List.nil_append] at hp hne
        rcases prefix_cons' hp with rfl | ⟨q, rfl, hq⟩
        · exact Or.inl (rv_nil _)
        · have hq' : q <+: renderFields kvs := not_full_of_snoc hq (by intro e; exact hne (by rw [e]))
          have hel := trunc_members kvs hl q hq' f []
          left; rw [readValue]
          simp only [skipWs_headOk (c := '{') (by decide)]
          simp (config := {decide := true}) only [if_false, if_true]
          cases q with
          | nil => simp [skipWs, hel]
          | cons c q1 =>
            cases kvs with
            | nil => simp [renderFields] at hq'
            | cons kv rest =>
              obtain ⟨k, v⟩ := kv
              have hcc : c = '"' := by
                cases rest with
                | nil => obtain ⟨t, ht⟩ := hq'; simp [renderFields] at ht; exact ht.1
                | cons y ys => obtain ⟨t, ht⟩ := hq'; simp [renderFields] at ht; exact ht.1
              subst hcc
              rw [skipWs_headOk (c := '"') (by decide)]
              split
              · rename_i r heq; simp at heq
              · rw [hel]; rfl
  theorem trunc_elems : (l : List Json) → cleanList l = true → ∀ p, p <+: renderList l → ∀ f acc, readElems f p acc = none
    | [], _, p, hp, f, acc => by
      have : p = [] := by simpa [renderList] using hp
      subst this
      cases f with
      | zero => simp [readElems]
      | succ f => rw [readElems, rv_nil]
    | x :: xs, hc, p, hp, f, acc => by
      cases f with
      | zero => simp [readElems]
      | succ f =>
        have hx : clean x = true := by simp [cleanList] at hc; exact hc.1
        have hxs : cleanList xs = true := by simp [cleanList] at hc; exact hc.2
        have PVx := trunc_value x hx
        rw [renderList_tail] at hp
        have htail := listTail_shape xs
        rw [readElems]
        rcases value_then x hx PVx _ htail p hp f with h | ⟨v, h⟩ | ⟨q', t', ht, hq', h⟩
        · rw [h]
        · rw [h]; simp [skipWs]
        · rw [h]
          simp only [skipWs_headOk (c := ',') (by decide)]
          cases xs with
          | nil => simp [listTail] at ht
          | cons y ys =>
            simp only [listTail, List.cons.injEq, true_and] at ht
            subst ht
            exact trunc_elems (y :: ys) hxs q' hq' f _
  theorem trunc_members : (kvs : List (Str × Json)) → cleanFields kvs = true → ∀ p, p <+: renderFields kvs →
      ∀ f acc, readMembers f p acc = none
    | [], _, p, hp, f, acc => by
      have : p = [] := by simpa [renderFields] using hp
      subst this
      cases f with
      | zero => simp [readMembers]
      | succ f => rw [readMembers]; simp [skipWs]
    | (k, v) :: rest, hc, p, hp, f, acc => by
      cases f with
      | zero => simp [readMembers]
      | succ f =>
        have hk : cleanStr k = true := by simp [cleanFields] at hc; exact hc.1.1
        have hv : clean v = true := by simp [cleanFields] at hc; exact hc.1.2
        have hrest : cleanFields rest = true := by simp [cleanFields] at hc; exact hc.2
        have PVv := trunc_value v hv
        rw [renderFields_tail] at hp
        have htail := fieldsTail_shape rest
        rw [readMembers]
        rcases prefix_cons' hp with rfl | ⟨q, rfl, hq⟩
        · simp [skipWs]
        · simp only [skipWs_headOk (c := '"') (by decide)]
          rcases prefix_append' hq with h1 | ⟨q1, rfl, h2⟩
          · rw [readString_trunc q (cleanStr_prefix h1 hk) []]
          · rcases prefix_cons' h2 with rfl | ⟨q2, rfl, h3⟩
            · rw [List.append_nil, readString_trunc k hk []]
            · rw [readString_clean k hk [] q2]
              simp only [List.reverse_nil, List.nil_append]
              rcases prefix_cons' h3 with rfl | ⟨q3, rfl, h4⟩
              · simp [skipWs]
              · simp only [skipWs_headOk (c := ':') (by decide)]
                rcases value_then v hv PVv _ htail q3 h4 f with h | ⟨w, h⟩ | ⟨q', t', ht, hq', h⟩
                · rw [h]
                · rw [h]; simp [skipWs]
                · rw [h]
                  simp only [skipWs_headOk (c := ',') (by decide)]
                  cases rest with
                  | nil => simp [fieldsTail] at ht
                  | cons y ys =>
                    simp only [fieldsTail, List.cons.injEq, true_and] at ht
                    subst ht
                    exact trunc_members (y :: ys) hrest q' hq' f _
end


/-- a truncated object is never a document -/
theorem trunc_obj (kvs : List (Str × Json)) (hc : clean (.obj kvs) = true) (p : Str) (hp : p <+: render (.obj kvs))
    (hne : p ≠ render (.obj kvs)) (f : Nat) : readValue f p = none := by
  cases f with
  | zero => simp [readValue]
  | succ f =>
    have hl : cleanFields kvs = true := by simpa [clean] using hc
    simp only [render, List.cons_append, List.nil_append] at hp hne
    rcases prefix_cons' hp with rfl | ⟨q, rfl, hq⟩
    · exact rv_nil _
    · have hq' : q <+: renderFields kvs := not_full_of_snoc hq (by intro e; exact hne (by rw [e]))
      have hel := trunc_members kvs hl q hq' f []
      rw [readValue]
      simp only [skipWs_headOk (c := '{') (by decide)]
      simp (config := {decide := true}) only [if_false, if_true]
      cases q with
      | nil => simp [skipWs, hel]
      | cons c q1 =>
        cases kvs with
        | nil => simp [renderFields] at hq'
        | cons kv rest =>
          obtain ⟨k, v⟩ := kv
          have hcc : c = '"' := by
            cases rest with
            | nil => obtain ⟨t, ht⟩ := hq'; simp [renderFields] at ht; exact ht.1
            | cons y ys => obtain ⟨t, ht⟩ := hq'; simp [renderFields] at ht; exact ht.1
          subst hcc
          rw [skipWs_headOk (c := '"') (by decide)]
          split
          · rename_i r heq; simp at heq
          · rw [hel]; rfl

/-- **every proper prefix of a printed clean object is rejected by the document reader** -/
theorem parseJson_truncated (kvs : List (Str × Json)) (hc : clean (.obj kvs) = true) (p : Str)
    (hp : p <+: render (.obj kvs)) (hne : p ≠ render (.obj kvs)) : parseJson p = none := by
  unfold parseJson
  rw [trunc_obj kvs hc p hp hne]

end PLV.J

/-
  Lemmas for the list-carrying text encodings: which characters a printed record can contain
  (so where the list separators are), prefix / suffix bookkeeping, `mapM` over printed elements.
-/
import PLV.Lemmas.TextRecords

namespace PLV.Text
open PLV

/-- the characters of a printed record: plain field characters and the three structural ones -/
def recChar (c : Char) : Bool := plainChar c || c = ':' || c = '=' || c = ';'

def RecChars (s : Str) : Prop := ∀ c ∈ s, recChar c = true

theorem RecChars.of_plain {s : Str} (h : Plain s) : RecChars s := fun c hc => by simp [recChar, h c hc]

theorem RecChars.append {a b : Str} (ha : RecChars a) (hb : RecChars b) : RecChars (a ++ b) := by
  intro c hc; rcases List.mem_append.1 hc with h | h
  · exact ha c h
  · exact hb c h

theorem RecChars.no {s : Str} (h : RecChars s) {c : Char} (hc : recChar c = false) : c ∉ s :=
  fun hm => by have := h c hm; simp [this] at hc

theorem recChars_joinSemi (l : List Str) (h : ∀ f ∈ l, RecChars f) : RecChars (joinSep [';'] l) := by
  induction l with
  | nil => intro c hc; simp [joinSep] at hc
  | cons x rest ih =>
    cases rest with
    | nil => simpa [joinSep] using h x (by simp)
    | cons y ys =>
      simp only [joinSep]
      exact ((h x (by simp)).append (fun c hc => by simp at hc; subst hc; decide)).append
        (ih (fun f hf => h f (by simp [hf])))

theorem recChars_kv (k : String) (v : Str) (hk : Plain (lit k)) (hv : Plain v) : RecChars (kv k v) := by
  unfold kv
  exact ((RecChars.of_plain hk).append (fun c hc => by simp at hc; subst hc; decide)).append (RecChars.of_plain hv)

theorem recChars_record (name : String) (fields : List Str) (hn : Plain (lit name)) (h : ∀ f ∈ fields, RecChars f) :
    RecChars (record name fields) := by
  unfold record
  exact ((RecChars.of_plain hn).append (fun c hc => by simp at hc; subst hc; decide)).append (recChars_joinSemi fields h)

theorem record_ne_nil (name : String) (fields : List Str) : record name fields ≠ [] := by
  unfold record; simp

/-! ### prefixes and suffixes -/

theorem startsWith_append (p x : Str) : startsWith p (p ++ x) = true := by
  simp [startsWith]

theorem endsWith_append (x : Str) (c : Char) : endsWith [c] (x ++ [c]) = true := by
  simp [endsWith]

theorem startsWith_wrapped (p body : Str) (c : Char) : startsWith p (p ++ body ++ [c]) = true := by
  rw [List.append_assoc]; exact startsWith_append _ _

/-- all fields of a record are made of record characters (a structure, so that `apply` never
    unfolds it while looking for a match) -/
structure AllRec (l : List Str) : Prop where
  all : ∀ f ∈ l, RecChars f

theorem allRec_nil : AllRec [] := ⟨by intro f hf; simp at hf⟩
theorem allRec_cons {x : Str} {l : List Str} (hx : RecChars x) (hl : AllRec l) : AllRec (x :: l) := ⟨by
  intro f hf; rcases List.mem_cons.1 hf with rfl | h
  · exact hx
  · exact hl.all f h⟩
theorem allRec_append {a b : List Str} (ha : AllRec a) (hb : AllRec b) : AllRec (a ++ b) := ⟨by
  intro f hf; rcases List.mem_append.1 hf with h | h
  · exact ha.all f h
  · exact hb.all f h⟩

theorem middle (p body : Str) (c : Char) :
    ((p ++ body ++ [c]).drop p.length).take ((p ++ body ++ [c]).length - p.length - 1) = body := by
  simp [List.append_assoc, List.take_left']

theorem middle' (p body : Str) (c : Char) (n : Nat) (hn : p.length = n + 1) :
    ((p ++ body ++ [c]).drop (n + 1)).take (n + 1 + body.length - n - 1) = body := by
  have h1 : n + 1 + body.length - n - 1 = body.length := by omega
  rw [h1, ← hn, List.append_assoc, List.drop_left, List.take_left]

/-- `mapM` of a parser over printed elements -/
theorem mapM_show {α ε : Type} (sh : α → Str) (parse : Str → Except ε α) (l : List α)
    (h : ∀ x ∈ l, parse (sh x) = .ok x) : (l.map sh).mapM parse = .ok l := by
  induction l with
  | nil => rfl
  | cons x rest ih =>
    have hx := h x (List.mem_cons_self ..)
    have hr := ih (fun y hy => h y (List.mem_cons_of_mem _ hy))
    simp only [List.map_cons, List.mapM_cons, hx, hr]
    rfl

theorem joinSep_ne_nil (sep : Str) (l : List Str) (hne : l ≠ []) (h : ∀ x ∈ l, x ≠ []) : joinSep sep l ≠ [] := by
  cases l with
  | nil => exact absurd rfl hne
  | cons x rest =>
    have hx := h x (by simp)
    cases rest with
    | nil => simpa [joinSep] using hx
    | cons y ys => simp [joinSep, hx]


/-! ### the bracket-depth splitter on elements without commas and brackets -/

theorem splitTop_elem (cur p rest : Str) (hp : RecChars p) :
    splitTop 0 cur (p ++ rest) = splitTop 0 (cur ++ p) rest := by
  induction p generalizing cur with
  | nil => simp
  | cons c p ih =>
    have hc := hp c (List.mem_cons_self ..)
    have h1 : c ≠ ',' := by rintro rfl; revert hc; decide
    have h2 : c ≠ '[' := by rintro rfl; revert hc; decide
    have h3 : c ≠ ']' := by rintro rfl; revert hc; decide
    rw [List.cons_append, splitTop]
    simp only [h1, false_and, if_false, h2, h3]
    rw [ih _ (fun x hx => hp x (List.mem_cons_of_mem _ hx))]
    simp

theorem splitTop_joinSep (ps : List Str) (h : ∀ p ∈ ps, RecChars p ∧ p ≠ []) :
    splitTop 0 [] (joinSep [','] ps) = ps := by
  induction ps with
  | nil => simp [joinSep, splitTop]
  | cons p rest ih =>
    obtain ⟨hp, hne⟩ := h p (List.mem_cons_self ..)
    cases rest with
    | nil =>
      have := splitTop_elem [] p [] hp
      simp only [List.append_nil, List.nil_append] at this
      simp [joinSep, this, splitTop, hne]
    | cons q rest' =>
      have := splitTop_elem [] p (',' :: joinSep [','] (q :: rest')) hp
      simp only [List.nil_append] at this
      simp only [joinSep, List.append_assoc, List.singleton_append]
      rw [this, splitTop]
      simp only [and_self, if_true]
      rw [if_neg (by simpa using hne), ih (fun x hx => h x (List.mem_cons_of_mem _ hx))]

theorem idxOf_append {c : Char} {a : Str} (b : Str) (h : c ∉ a) : idxOf c (a ++ c :: b) = some a.length := by
  unfold idxOf
  induction a with
  | nil => simp [List.idxOf?, List.findIdx?_cons]
  | cons x a ih =>
    have hx : x ≠ c := fun e => h (by simp [e])
    have := ih (fun hm => h (List.mem_cons_of_mem _ hm))
    simp only [List.idxOf?] at this ⊢
    simp [List.findIdx?_cons, hx, this]

theorem ridxOf_snoc (x : Str) (c : Char) : ridxOf c (x ++ [c]) = some x.length := by
  simp [ridxOf, List.idxOf?, List.findIdx?_cons]

end PLV.Text

/-
  Further invariants of the loop of `match_order` (helper lemmas for C02 and C06): accounting,
  exhaustion of displayed liquidity, transaction fields, per-maker ledger.
-/
import PLV.Lemmas.LevelInv
import PLV.Judge

namespace PLV

theorem sumQty_append (a b : List Tx) : sumQty (a ++ b) = sumQty a + sumQty b := by
  induction a with
  | nil => simp [sumQty]
  | cons x rest ih => simp [sumQty, ih]; omega

theorem fillsOf_append (id : Id) (a b : List Tx) : fillsOf id (a ++ b) = fillsOf id a + fillsOf id b := by
  induction a with
  | nil => simp [fillsOf]
  | cons x rest ih => simp [fillsOf, ih]; omega

theorem sumQty_visit (a : Acc) (p : Nat) (t : Id) (o : Order) (r : MatchOut) :
    sumQty (a.visit p t o r).txs = sumQty a.txs + r.consumed := by
  rw [visit_txs]; split
  · simp [sumQty_append, sumQty]
  · omega

theorem fillsOf_visit (id : Id) (a : Acc) (p : Nat) (t : Id) (o : Order) (r : MatchOut) :
    fillsOf id (a.visit p t o r).txs = fillsOf id a.txs + (if o.id = id then r.consumed else 0) := by
  rw [visit_txs]; split
  · simp [fillsOf_append, fillsOf]
  · split <;> omega

/-! ### accounting and exhaustion (C02 first sentence, C06) -/

/-- `q0` = requested quantity, `v0` = displayed quantity when the call started -/
structure ExhInv (q0 v0 : Nat) (rem : Nat) (m : OMap) (a : Acc) : Prop where
  acct : sumQty a.txs + rem = q0
  aside0 : ∀ u ∈ a.aside, u.vis = 0
  mono : v0 ≤ sumVis m + sumQty a.txs

theorem sumVis_zero_of_all {l : List Order} (h : ∀ u ∈ l, u.vis = 0) : sumVis l = 0 := by
  induction l with
  | nil => rfl
  | cons x rest ih =>
    simp [sumVis, h x (by simp)]
    exact ih (fun u hu => h u (by simp [hu]))

theorem matchLoop_exh (price : Nat) (taker : Id) (q0 v0 : Nat) (rem : Nat) (m : OMap) (ts : List Id)
    (a : Acc) (h : AggInv m ts a ∧ ExhInv q0 v0 rem m a) :
    let res := matchLoop price taker rem m ts a
    AggInv res.2.1 res.2.2.1 res.2.2.2 ∧ ExhInv q0 v0 res.1 res.2.1 res.2.2.2 := by
  refine matchLoop_ind price taker (fun rem m ts a => AggInv m ts a ∧ ExhInv q0 v0 rem m a)
    ?_ ?_ ?_ ?_ rem m ts a h
  · intro rem m ts a _ hp ⟨h, he⟩
    have hn := popLive_none hp
    exact ⟨{ h with covered := fun x hx => absurd hx (hn x (h.covered x hx)) }, he⟩
  · intro rem m ts a o m' ts' u hz hp hu hs ⟨h, he⟩
    refine ⟨h.aside_step hz hp hu hs, ?_⟩
    obtain ⟨hf, rfl, _, _⟩ := popLive_spec hp
    have hef := erase_find h.nodupM hf
    have has := ma_aside o u rem hz hu hs
    have hacct := ma_acct o rem
    refine ⟨?_, ?_, ?_⟩
    · simp [sumQty_visit]; have := he.acct; omega
    · intro x hx
      simp at hx
      rcases hx with hx | rfl
      · exact he.aside0 x hx
      · exact has.1
    · simp [sumQty_visit]; have := he.mono; omega
  · intro rem m ts a o m' ts' u hz hp hu hs ⟨h, he⟩
    refine ⟨h.requeue_step hp hu, ?_⟩
    obtain ⟨hf, rfl, _, _⟩ := popLive_spec hp
    have hef := erase_find h.nodupM hf
    have hst := ma_stay o u rem hu
    have hacct := ma_acct o rem
    have hfresh : u.id ∉ ids (m.erase o.id) := by rw [hst.1]; exact fun hm => (mem_ids_erase.1 hm).2 rfl
    have hins := sum_insert_fresh hfresh
    refine ⟨?_, ?_, ?_⟩
    · simp [sumQty_visit]; have := he.acct; omega
    · simpa using he.aside0
    · simp [sumQty_visit]; have := he.mono; omega
  · intro rem m ts a o m' ts' hz hp hu ⟨h, he⟩
    refine ⟨h.leave_step hp hu, ?_⟩
    obtain ⟨hf, rfl, _, _⟩ := popLive_spec hp
    have hef := erase_find h.nodupM hf
    have hl := ma_leave o rem hu
    have hacct := ma_acct o rem
    refine ⟨?_, ?_, ?_⟩
    · simp [sumQty_visit]; have := he.acct; omega
    · simpa using he.aside0
    · simp [sumQty_visit]; have := he.mono; omega

theorem ids_eq_nil {m : OMap} (h : ∀ x ∈ ids m, x ∈ ([] : List Id)) : m = [] := by
  cases m with
  | nil => rfl
  | cons o rest => exact absurd (h o.id (by simp)) (by simp)

end PLV

namespace PLV

/-! ### transaction fields, ids, ledger, filled list (C02) -/

/-- the transaction ids of a call are the generator's consecutive counter values from `g0` -/
def idsFrom : Nat → List Tx → Prop
  | _, [] => True
  | g, t :: ts => t.txid = g % W ∧ idsFrom (g + 1) ts

theorem idsFrom_append (g : Nat) (a : List Tx) (t : Tx) :
    idsFrom g (a ++ [t]) ↔ idsFrom g a ∧ t.txid = (g + a.length) % W := by
  induction a generalizing g with
  | nil => simp [idsFrom]
  | cons x rest ih =>
    simp only [List.cons_append, idsFrom, ih, List.length_cons]
    have : g + 1 + rest.length = g + (rest.length + 1) := by omega
    rw [this]; constructor
    · rintro ⟨h1, h2, h3⟩; exact ⟨⟨h1, h2⟩, h3⟩
    · rintro ⟨⟨h1, h2⟩, h3⟩; exact ⟨h1, h2, h3⟩

structure TxInv (price : Nat) (taker : Id) (g0 : Nat) (m0 : OMap) (m : OMap) (a : Acc) : Prop where
  txok : ∀ t ∈ a.txs, t.qty > 0 ∧ t.price = price ∧ t.taker = taker ∧
    ∃ x0, m0.find t.maker = some x0 ∧ t.takerSide = x0.side.opposite
  origin : ∀ x ∈ m, ∃ x0, m0.find x.id = some x0 ∧ x0.side = x.side
  gids : g0 < W → idsFrom g0 a.txs ∧ a.g = (g0 + a.txs.length) % W
  ledger : ∀ id, fillsOf id a.txs + tot id m + tot id a.aside ≤ tot id m0
  filled : ∀ id, id ∈ a.filled ↔ (0 < fillsOf id a.txs ∧ id ∉ ids m ∧ id ∉ ids a.aside)
  sticky : ∀ x ∈ m, 0 < fillsOf x.id a.txs → 0 < x.vis ∨ ∀ q, (matchAgainst x q).updated ≠ none

theorem wadd_one_mod (g n : Nat) : wadd ((g + n) % W) 1 = (g + (n + 1)) % W := by
  unfold wadd; rw [Nat.mod_add_mod]; rfl

/-- an order that was re-queued after making progress either displays something or can never be
    told to leave: it cannot leave the book later with nothing consumed -/
theorem ma_sticky (o u : Order) (q : Nat) (hu : (matchAgainst o q).updated = some u)
    (hp : ¬ ((matchAgainst o q).consumed = 0 ∧ (matchAgainst o q).hiddenRed = 0)) :
    0 < u.vis ∨ ∀ q', (matchAgainst u q').updated ≠ none := by
  obtain ⟨id, price, vis, side, ts, tif, kind⟩ := o
  cases kind <;> simp only [matchAgainst] at hu hp <;> (try grind [matchAgainst])

/-- facts shared by the three kinds of visit -/
theorem TxInv.visit_common {price taker g0 m0 m a o rem} (hi : TxInv price taker g0 m0 m a)
    (hom : o ∈ m) :
    (∀ t ∈ (a.visit price taker o (matchAgainst o rem)).txs, t.qty > 0 ∧ t.price = price ∧ t.taker = taker ∧
      ∃ x0, m0.find t.maker = some x0 ∧ t.takerSide = x0.side.opposite) ∧
    (g0 < W → idsFrom g0 (a.visit price taker o (matchAgainst o rem)).txs ∧
      (a.visit price taker o (matchAgainst o rem)).g =
        (g0 + (a.visit price taker o (matchAgainst o rem)).txs.length) % W) := by
  obtain ⟨x0, hx0, hside⟩ := hi.origin o hom
  rw [visit_txs, visit_g]
  split
  · rename_i hc
    refine ⟨?_, ?_⟩
    · intro t ht
      simp at ht
      rcases ht with ht | rfl
      · exact hi.txok t ht
      · exact ⟨hc, rfl, rfl, x0, hx0, by rw [hside]⟩
    · intro hg
      refine ⟨?_, ?_⟩
      · rw [idsFrom_append]; exact ⟨(hi.gids hg).1, (hi.gids hg).2⟩
      · rw [(hi.gids hg).2]; simp [wadd_one_mod]
  · exact ⟨hi.txok, hi.gids⟩

theorem tot_singleton (id : Id) (u : Order) : tot id [u] = if u.id = id then u.vis + u.hid else 0 := by
  simp [tot]

theorem matchLoop_tx (price : Nat) (taker : Id) (g0 : Nat) (m0 : OMap) (rem : Nat) (m : OMap)
    (ts : List Id) (a : Acc) (h : AggInv m ts a ∧ TxInv price taker g0 m0 m a) :
    let res := matchLoop price taker rem m ts a
    AggInv res.2.1 res.2.2.1 res.2.2.2 ∧ TxInv price taker g0 m0 res.2.1 res.2.2.2 := by
  refine matchLoop_ind price taker (fun _ m ts a => AggInv m ts a ∧ TxInv price taker g0 m0 m a)
    ?_ ?_ ?_ ?_ rem m ts a h
  · intro rem m ts a _ hp ⟨h, he⟩
    have hn := popLive_none hp
    exact ⟨{ h with covered := fun x hx => absurd hx (hn x (h.covered x hx)) }, he⟩
  · -- set aside
    intro rem m ts a o m' ts' u hz hp hu hs ⟨h, hi⟩
    refine ⟨h.aside_step hz hp hu hs, ?_⟩
    obtain ⟨hf, rfl, _, _⟩ := popLive_spec hp
    have hom := (find_some hf).1
    have hc := hi.visit_common (rem := rem) hom
    have hst := ma_stay o u rem hu
    have htot := tot_find h.nodupM hf
    have hdis : o.id ∉ ids a.aside := fun hx => h.disj _ hx (mem_ids_of_mem hom)
    refine ⟨hc.1, ?_, hc.2, ?_, ?_, ?_⟩
    · intro x hx; exact hi.origin x (mem_erase.1 hx).1
    · intro id
      have hl := hi.ledger id
      simp only [pushAside_txs, pushAside_aside, visit_aside, fillsOf_visit, tot_append, tot_singleton, hst.1]
      by_cases e : o.id = id
      · subst e; rw [tot_erase_self]; simp [hs.1]; omega
      · rw [tot_erase_ne (fun e' => e e'.symm)]; simp [e]; omega
    · intro id
      simp only [pushAside_filled, pushAside_txs, pushAside_aside, visit_aside, visit_filled, fillsOf_visit,
        hs.1, ids_append, ids_cons, ids_nil, List.mem_append, List.mem_singleton, hst.1]
      simp only [show ¬ (0 > 0 ∧ (matchAgainst o rem).updated = none) by omega, if_false]
      rw [hi.filled id]
      by_cases e : o.id = id
      · subst e; simp [mem_ids_of_mem hom]
      · have : id ≠ o.id := fun e' => e e'.symm
        simp [mem_ids_erase, this]
    · intro x hx hfx
      have hxm := mem_erase.1 hx
      simp only [pushAside_txs, fillsOf_visit, hs.1] at hfx
      exact hi.sticky x hxm.1 (by simpa using hfx)
  · -- re-queued
    intro rem m ts a o m' ts' u hz hp hu hs ⟨h, hi⟩
    refine ⟨h.requeue_step hp hu, ?_⟩
    obtain ⟨hf, rfl, _, _⟩ := popLive_spec hp
    have hom := (find_some hf).1
    have hc := hi.visit_common (rem := rem) hom
    have hst := ma_stay o u rem hu
    have hsf := ma_stay_fields o u rem hu
    have htot := tot_find h.nodupM hf
    have hfresh : u.id ∉ ids (m.erase o.id) := by rw [hst.1]; exact fun hm => (mem_ids_erase.1 hm).2 rfl
    have hdis : o.id ∉ ids a.aside := fun hx => h.disj _ hx (mem_ids_of_mem hom)
    refine ⟨by simpa using hc.1, ?_, by simpa using hc.2, ?_, ?_, ?_⟩
    · intro x hx
      rcases mem_insert.1 hx with hx | rfl
      · exact hi.origin x (mem_erase.1 hx.1).1
      · obtain ⟨x0, h1, h2⟩ := hi.origin o hom
        exact ⟨x0, by rw [hsf.1]; exact h1, by rw [hsf.2.2.1]; exact h2⟩
    · intro id
      have hl := hi.ledger id
      simp only [requeue_txs, requeue_aside, visit_aside, fillsOf_visit, tot_insert_fresh hfresh, hst.1]
      by_cases e : o.id = id
      · subst e; rw [tot_erase_self]; simp; omega
      · rw [tot_erase_ne (fun e' => e e'.symm)]; simp [e]; omega
    · intro id
      simp only [requeue_filled, requeue_txs, requeue_aside, visit_aside, visit_filled, fillsOf_visit]
      simp only [show ¬ ((matchAgainst o rem).consumed > 0 ∧ (matchAgainst o rem).updated = none) by
        rw [hu]; simp, if_false]
      rw [hi.filled id]
      by_cases e : o.id = id
      · subst e
        have : o.id ∈ ids ((m.erase o.id).insert u) := ids_insert.2 (Or.inr hst.1.symm)
        simp [mem_ids_of_mem hom, this]
      · have hne : id ≠ o.id := fun e' => e e'.symm
        have : id ∈ ids ((m.erase o.id).insert u) ↔ id ∈ ids m := by
          rw [ids_insert, mem_ids_erase, hst.1]; simp [hne]
        simp [e, this]
    · intro x hx hfx
      rcases mem_insert.1 hx with hx | rfl
      · have hxm := mem_erase.1 hx.1
        have hne : ¬ o.id = x.id := fun e => hxm.2 e.symm
        simp only [requeue_txs, fillsOf_visit, if_neg hne, Nat.add_zero] at hfx
        exact hi.sticky x hxm.1 hfx
      · exact ma_sticky o x rem hu hs
  · -- left the book
    intro rem m ts a o m' ts' hz hp hu ⟨h, hi⟩
    refine ⟨h.leave_step hp hu, ?_⟩
    obtain ⟨hf, rfl, _, _⟩ := popLive_spec hp
    have hom := (find_some hf).1
    have hc := hi.visit_common (rem := rem) hom
    have hl := ma_leave o rem hu
    have htot := tot_find h.nodupM hf
    have hdis : o.id ∉ ids a.aside := fun hx => h.disj _ hx (mem_ids_of_mem hom)
    refine ⟨by simpa using hc.1, ?_, by simpa using hc.2, ?_, ?_, ?_⟩
    · intro x hx; exact hi.origin x (mem_erase.1 hx).1
    · intro id
      have hl' := hi.ledger id
      simp only [leave_txs, leave_aside, visit_aside, fillsOf_visit]
      by_cases e : o.id = id
      · subst e; rw [tot_erase_self]; simp; omega
      · rw [tot_erase_ne (fun e' => e e'.symm)]; simp [e]; omega
    · intro id
      simp only [leave_filled, leave_txs, leave_aside, visit_aside, visit_filled, fillsOf_visit, hu, and_true]
      have hnf : o.id ∉ a.filled := fun hx => ((hi.filled o.id).1 hx).2.1 (mem_ids_of_mem hom)
      by_cases e : o.id = id
      · subst e
        have hne : o.id ∉ ids (m.erase o.id) := fun hm => (mem_ids_erase.1 hm).2 rfl
        by_cases hc0 : (matchAgainst o rem).consumed > 0
        · simp [hc0, hne, hdis]; omega
        · have hz0 : fillsOf o.id a.txs = 0 := by
            cases hfo : fillsOf o.id a.txs with
            | zero => rfl
            | succ k =>
              rcases hi.sticky o hom (by omega) with hv | hq
              · omega
              · exact absurd hu (hq rem)
          simp [hc0, hnf, hz0]
      · have hne : id ≠ o.id := fun e' => e e'.symm
        by_cases hc0 : (matchAgainst o rem).consumed > 0
        · simp [hc0, e, hne, mem_ids_erase, hi.filled id]
        · simp [hc0, e, hne, mem_ids_erase, hi.filled id]
    · intro x hx hfx
      have hxm := mem_erase.1 hx
      have hne : ¬ o.id = x.id := fun e => hxm.2 e.symm
      simp only [leave_txs, fillsOf_visit, if_neg hne, Nat.add_zero] at hfx
      exact hi.sticky x hxm.1 hfx

end PLV

/-
  Helper lemmas for C16: `Name:k=v;k=v;…` records — rendering and parsing are inverse when keys and
  values are made of id characters (alphanumeric, `-`, `_`).
-/
import PLV.Lemmas.TextRT

namespace PLV.Text
open PLV

/-- characters of keys and scalar values -/
def plainChar (c : Char) : Bool := idChar c || c = '_'

def Plain (s : Str) : Prop := ∀ c ∈ s, plainChar c = true

theorem plain_of_id {s : Str} (h : ∀ c ∈ s, idChar c = true) : Plain s :=
  fun c hc => by simp [plainChar, h c hc]

theorem Plain.no {s : Str} (h : Plain s) {c : Char} (hc : plainChar c = false) : c ∉ s :=
  fun hm => by have := h c hm; simp [this] at hc

theorem Plain.append {a b : Str} (ha : Plain a) (hb : Plain b) : Plain (a ++ b) := by
  intro c hc; rcases List.mem_append.1 hc with h | h
  · exact ha c h
  · exact hb c h

theorem plain_lit_keys :
    Plain (lit "id") ∧ Plain (lit "price") ∧ Plain (lit "quantity") ∧ Plain (lit "side") ∧ Plain (lit "timestamp") ∧
    Plain (lit "time_in_force") ∧ Plain (lit "visible_quantity") ∧ Plain (lit "hidden_quantity") ∧
    Plain (lit "trail_amount") ∧ Plain (lit "last_reference_price") ∧ Plain (lit "reference_price_offset") ∧
    Plain (lit "reference_price_type") ∧ Plain (lit "replenish_threshold") ∧ Plain (lit "replenish_amount") ∧
    Plain (lit "auto_replenish") := by
  refine ⟨?_, ?_, ?_, ?_, ?_, ?_, ?_, ?_, ?_, ?_, ?_, ?_, ?_, ?_, ?_⟩ <;> (intro c hc; revert c; decide)

theorem plain_nil : ∀ q ∈ ([] : List (Str × Str)), Plain q.1 ∧ Plain q.2 := by simp

theorem plain_cons {p : Str × Str} {rest : List (Str × Str)} (h1 : Plain p.1) (h2 : Plain p.2)
    (hr : ∀ q ∈ rest, Plain q.1 ∧ Plain q.2) : ∀ q ∈ p :: rest, Plain q.1 ∧ Plain q.2 := by
  intro q hq
  rcases List.mem_cons.1 hq with rfl | h
  · exact ⟨h1, h2⟩
  · exact hr q h

/-- one `k=v` pair -/
def pair (p : Str × Str) : Str := p.1 ++ '=' :: p.2

def renderPairs (fs : List (Str × Str)) : Str := joinSep [';'] (fs.map pair)

theorem pair_no_semi {p : Str × Str} (h1 : Plain p.1) (h2 : Plain p.2) : ';' ∉ pair p := by
  intro hm
  simp only [pair, List.mem_append, List.mem_cons] at hm
  rcases hm with h | h | h
  · exact h1.no (by decide) h
  · exact absurd h (by decide)
  · exact h2.no (by decide) h

theorem split_pair {p : Str × Str} (h1 : Plain p.1) (h2 : Plain p.2) : splitOn '=' (pair p) = [p.1, p.2] := by
  simp only [pair]
  rw [splitOn_append (h1.no (by decide)), splitOn_of_not_mem (h2.no (by decide))]

/-- parsing the rendered field list gives the field list back -/
theorem parseFields_renderPairs (fs : List (Str × Str)) (hne : fs ≠ []) (h : ∀ p ∈ fs, Plain p.1 ∧ Plain p.2) :
    parseFields (renderPairs fs) = fs := by
  unfold parseFields renderPairs
  rw [splitOn_joinSep ';' (fs.map pair) (by simpa using hne)
    (by intro q hq; obtain ⟨p, hp, rfl⟩ := List.mem_map.1 hq; exact pair_no_semi (h p hp).1 (h p hp).2)]
  induction fs with
  | nil => rfl
  | cons p rest ih =>
    have hp := h p (by simp)
    simp only [List.map_cons, List.filterMap_cons, split_pair hp.1 hp.2]
    cases rest with
    | nil => rfl
    | cons q rest' =>
      congr 1
      exact ih (by simp) (fun x hx => h x (by simp [hx]))

theorem renderPairs_no_colon (fs : List (Str × Str)) (h : ∀ p ∈ fs, Plain p.1 ∧ Plain p.2) : ':' ∉ renderPairs fs := by
  unfold renderPairs
  induction fs with
  | nil => simp [joinSep]
  | cons p rest ih =>
    have hp := h p (by simp)
    have hpair : ':' ∉ pair p := by
      intro hm
      simp only [pair, List.mem_append, List.mem_cons] at hm
      rcases hm with h | h | h
      · exact hp.1.no (by decide) h
      · exact absurd h (by decide)
      · exact hp.2.no (by decide) h
    cases rest with
    | nil => simpa [joinSep] using hpair
    | cons q rest' =>
      simp only [List.map_cons, joinSep, List.mem_append, List.mem_singleton]
      rintro ((h1 | h1) | h1)
      · exact hpair h1
      · exact absurd h1 (by decide)
      · exact ih (fun x hx => h x (by simp [hx])) (by simpa [List.map_cons] using h1)

/-- a whole record `Name:fields` splits at its only colon -/
theorem split_record (name : Str) (fs : List (Str × Str)) (hn : Plain name) (h : ∀ p ∈ fs, Plain p.1 ∧ Plain p.2) :
    splitOn ':' (name ++ ':' :: renderPairs fs) = [name, renderPairs fs] := by
  rw [splitOn_append (hn.no (by decide)), splitOn_of_not_mem (renderPairs_no_colon fs h)]

/-- `record` / `kv` of the model are this rendering -/
theorem record_eq (name : String) (fs : List (String × Str)) :
    record name (fs.map (fun p => kv p.1 p.2)) = lit name ++ ':' :: renderPairs (fs.map (fun p => (lit p.1, p.2))) := by
  simp only [record, renderPairs, kv, List.map_map, List.append_assoc, List.singleton_append]
  congr 2

end PLV.Text

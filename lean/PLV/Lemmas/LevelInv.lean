/-
  `Level.Inv`: the invariant of a level between public calls, and its preservation by every
  operation (helper lemmas).
-/
import PLV.Lemmas.Agg
import PLV.Model.Hist

namespace PLV

structure Level.Inv (l : Level) : Prop where
  nodup : (ids l.map).Nodup
  covered : ∀ x ∈ ids l.map, x ∈ l.tickets
  vis : l.vis = sumVis l.map
  hid : l.hid = sumHid l.map
  cnt : l.cnt = l.map.length
  fits : sumVis l.map + sumHid l.map < W
  cfits : l.map.length < W

theorem Level.inv_new (p : Nat) : (Level.new p).Inv := by
  refine ⟨?_, ?_, ?_, ?_, ?_, ?_, ?_⟩ <;> simp [Level.new, sumVis, sumHid]

/-! ### add -/

theorem Level.Inv.addOrder_inv {l : Level} {o : Order} (h : l.Inv) (ha : Adm l (.add o)) :
    (l.addOrder o).Inv := by
  obtain ⟨hfresh, hfit, hc⟩ := ha
  have hf := find_none.1 hfresh
  have hs := sum_insert_fresh hf
  have hv := h.vis; have hh := h.hid; have hcn := h.cnt
  refine ⟨nodup_insert _ h.nodup, ?_, ?_, ?_, ?_, ?_, ?_⟩
  · intro x hx
    rcases ids_insert.1 hx with hx | rfl
    · exact List.mem_append_left _ (h.covered x hx)
    · simp [Level.addOrder]
  · simp only [Level.addOrder]; rw [wadd_eq (by omega)]; omega
  · simp only [Level.addOrder]; rw [wadd_eq (by omega)]; omega
  · simp only [Level.addOrder]; rw [wadd_eq (by omega)]; omega
  · simp only [Level.addOrder]; omega
  · simp only [Level.addOrder]; omega

/-! ### match -/

theorem requeueAside_spec (aside : List Order) :
    ∀ (m : OMap) (ts : List Id), (ids m).Nodup → (ids aside).Nodup → (∀ x ∈ ids aside, x ∉ ids m) →
      (∀ x ∈ ids m, x ∈ ts) →
      (ids (requeueAside m ts aside).1).Nodup ∧
      (∀ x ∈ ids (requeueAside m ts aside).1, x ∈ (requeueAside m ts aside).2) ∧
      sumVis (requeueAside m ts aside).1 = sumVis m + sumVis aside ∧
      sumHid (requeueAside m ts aside).1 = sumHid m + sumHid aside ∧
      (requeueAside m ts aside).1.length = m.length + aside.length := by
  induction aside with
  | nil => intro m ts hn _ _ hc; simp [requeueAside, sumVis, sumHid, hn]; exact hc
  | cons o rest ih =>
    intro m ts hn ha hd hc
    simp at ha
    have hfresh : o.id ∉ ids m := hd o.id (by simp)
    have hs := sum_insert_fresh hfresh
    have := ih (m.insert o) (ts ++ [o.id]) (nodup_insert _ hn) ha.2
      (by
        intro x hx hm
        rcases ids_insert.1 hm with hm | rfl
        · exact hd x (by simp [hx]) hm
        · exact ha.1 hx)
      (by
        intro x hx
        rcases ids_insert.1 hx with hx | rfl
        · exact List.mem_append_left _ (hc x hx)
        · simp)
    simp only [requeueAside]
    refine ⟨this.1, this.2.1, ?_, ?_, ?_⟩
    · rw [this.2.2.1]; simp [sumVis]; omega
    · rw [this.2.2.2.1]; simp [sumHid]; omega
    · rw [this.2.2.2.2]; simp; omega

theorem Level.finishMatch_inv (l : Level) (taker : Id) (res : Nat × OMap × List Id × Acc)
    (hl : AggInv res.2.1 res.2.2.1 res.2.2.2) : (l.finishMatch taker res).1.Inv := by
  obtain ⟨rem, m, ts, a⟩ := res
  simp only at hl
  have hr := requeueAside_spec a.aside m ts hl.nodupM hl.nodupA hl.disj hl.covered
  have := hl.vis; have := hl.hid; have := hl.cnt; have := hl.fits; have := hl.cfits
  simp only [Level.finishMatch]
  exact ⟨hr.1, hr.2.1, by simp only; omega, by simp only; omega, by simp only; omega, by simp only; omega,
    by simp only; omega⟩

theorem Level.Inv.matchOrder_inv {l : Level} (h : l.Inv) (q : Nat) (t : Id) (g : Nat) :
    (l.matchOrder q t g).1.Inv := by
  have h0 : AggInv l.map l.tickets { vis := l.vis, hid := l.hid, cnt := l.cnt, stats := l.stats, g := g } :=
    ⟨h.nodup, by simp, by simp, h.covered, by simpa [sumVis] using h.vis, by simpa [sumHid] using h.hid,
      by simpa using h.cnt, by simpa [sumVis, sumHid] using h.fits, by simpa using h.cfits⟩
  exact Level.finishMatch_inv l t _ (matchLoop_agg l.price t q l.map l.tickets _ h0)

/-! ### cancel / move -/

theorem Level.removeOrder_none {l : Level} {id : Id} (h : l.map.find id = none) :
    l.removeOrder id = (l, .ok none) := by simp [Level.removeOrder, h]

theorem Level.removeOrder_some {l : Level} {id : Id} {o : Order} (h : l.map.find id = some o) :
    (l.removeOrder id).2 = .ok (some o) ∧ (l.removeOrder id).1.map = l.map.erase id ∧
    (l.removeOrder id).1.tickets = l.tickets ∧ (l.removeOrder id).1.vis = wsub l.vis o.vis ∧
    (l.removeOrder id).1.hid = wsub l.hid o.hid ∧ (l.removeOrder id).1.cnt = wsub l.cnt 1 ∧
    (l.removeOrder id).1.price = l.price ∧
    (l.removeOrder id).1.stats = { l.stats with removed := wadd l.stats.removed 1 } := by
  simp [Level.removeOrder, h]

theorem Level.Inv.removeOrder_inv {l : Level} (h : l.Inv) (id : Id) : (l.removeOrder id).1.Inv := by
  cases hf : l.map.find id with
  | none => rw [Level.removeOrder_none hf]; exact h
  | some o =>
    obtain ⟨_, e1, e2, e3, e4, e5, _, _⟩ := Level.removeOrder_some hf
    have he := erase_find h.nodup hf
    have hv := h.vis; have hh := h.hid; have hc := h.cnt; have := h.fits; have := h.cfits
    refine ⟨?_, ?_, ?_, ?_, ?_, ?_, ?_⟩
    · rw [e1]; exact nodup_erase _ h.nodup
    · rw [e1, e2]; intro x hx; exact h.covered x (mem_ids_erase.1 hx).1
    · rw [e1, e3, wsub_eq (by omega) (by omega)]; omega
    · rw [e1, e4, wsub_eq (by omega) (by omega)]; omega
    · rw [e1, e5, wsub_eq (by omega) (by omega)]; omega
    · rw [e1]; omega
    · rw [e1]; omega

/-! ### same-price amend -/

theorem adjust_eq {c old new : Nat} (ho : old ≤ c) (hc : c < W) (hn : c - old + new < W) :
    adjust c old new = c - old + new := by
  unfold adjust
  split
  · omega
  · split
    · rw [wadd_eq (by omega)]; omega
    · rw [wsub_eq (by omega) hc]; omega

theorem withReduced_id (o : Order) (n : Nat) : (o.withReduced n).id = o.id := by
  unfold Order.withReduced; split <;> rfl

theorem withReduced_hid (o : Order) (n : Nat) : (o.withReduced n).hid = o.hid := by
  unfold Order.withReduced; split <;> simp_all [Order.hid]

theorem Level.amend_none {l : Level} {id : Id} {n : Nat} (h : l.map.find id = none) :
    l.amend id n = (l, .ok none) := by simp [Level.amend, h]

theorem Level.amend_some {l : Level} {id : Id} {n : Nat} {old : Order} (h : l.map.find id = some old) :
    (l.amend id n).2 = .ok (some (old.withReduced n)) ∧
    (l.amend id n).1.map = (l.map.erase id).insert (old.withReduced n) ∧
    (l.amend id n).1.tickets = l.tickets ++ [id] ∧
    (l.amend id n).1.vis = adjust l.vis old.vis (old.withReduced n).vis ∧
    (l.amend id n).1.hid = adjust l.hid old.hid (old.withReduced n).hid ∧
    (l.amend id n).1.cnt = l.cnt ∧ (l.amend id n).1.price = l.price ∧ (l.amend id n).1.stats = l.stats := by
  simp [Level.amend, h]

theorem Level.Inv.amend_inv {l : Level} (h : l.Inv) (id : Id) (n : Nat)
    (ha : ∀ old, l.map.find id = some old → sumVis l.map + sumHid l.map + (old.withReduced n).vis < W) :
    (l.amend id n).1.Inv := by
  cases hf : l.map.find id with
  | none => rw [Level.amend_none hf]; exact h
  | some old =>
    obtain ⟨_, e1, e2, e3, e4, e5, _, _⟩ := Level.amend_some (n := n) hf
    have he := erase_find h.nodup hf
    have hid : old.id = id := (find_some hf).2
    have hfresh : (old.withReduced n).id ∉ ids (l.map.erase id) := by
      rw [withReduced_id, hid]; exact fun hm => (mem_ids_erase.1 hm).2 rfl
    have hs := sum_insert_fresh hfresh
    have hh' := withReduced_hid old n
    have hv := h.vis; have hh := h.hid; have hc := h.cnt; have := h.fits; have := h.cfits
    have := ha old hf
    refine ⟨?_, ?_, ?_, ?_, ?_, ?_, ?_⟩
    · rw [e1]; exact nodup_insert _ (nodup_erase _ h.nodup)
    · rw [e1, e2]; intro x hx
      rcases ids_insert.1 hx with hx | rfl
      · exact List.mem_append_left _ (h.covered x (mem_ids_erase.1 hx).1)
      · rw [withReduced_id, hid]; simp
    · rw [e1, e3, adjust_eq (by omega) (by omega) (by omega)]; omega
    · rw [e1, e4, adjust_eq (by omega) (by omega) (by omega)]; omega
    · rw [e1, e5]; omega
    · rw [e1]; omega
    · rw [e1]; omega

theorem Level.Inv.update_inv {l : Level} (h : l.Inv) (u : Update) (ha : Adm l (.update u)) :
    (l.update u).1.Inv := by
  cases u with
  | price id p =>
    by_cases hp : p ≠ l.price
    · rw [show l.update _ = l.removeOrder id by simp [Level.update, hp]]; exact h.removeOrder_inv id
    · simp only [Level.update, hp, if_false]; exact h
  | quantity id n => exact h.amend_inv id n ha
  | priceQty id p n =>
    by_cases hp : p ≠ l.price
    · rw [show l.update _ = l.removeOrder id by simp [Level.update, hp]]; exact h.removeOrder_inv id
    · simp only [Level.update, hp, if_false]; exact h.amend_inv id n ha
  | cancel id => exact h.removeOrder_inv id
  | replace id p n s =>
    by_cases hp : p ≠ l.price
    · rw [show l.update _ = l.removeOrder id by simp [Level.update, hp]]; exact h.removeOrder_inv id
    · simp only [Level.update, hp, if_false]; exact h.amend_inv id n ha

/-! ### histories -/

theorem Sys.step_inv {s : Sys} (h : s.lvl.Inv) (op : Op) (ha : Adm s.lvl op) : (s.step op).1.lvl.Inv := by
  cases op with
  | add o => exact h.addOrder_inv ha
  | matchQ q t => exact h.matchOrder_inv q t s.g
  | update u => exact h.update_inv u ha
  | read => exact h

theorem Sys.run_inv (ops : List Op) : ∀ {s : Sys}, s.lvl.Inv → AdmAll s ops → (s.run ops).lvl.Inv := by
  induction ops with
  | nil => intro s h _; exact h
  | cons op rest ih => intro s h ha; exact ih (Sys.step_inv h op ha.1) ha.2

/-! ### the listing is a permutation of the map -/

theorem sumVis_insertByTs (o : Order) (l : List Order) : sumVis (insertByTs o l) = o.vis + sumVis l := by
  induction l with
  | nil => simp [insertByTs, sumVis]
  | cons x xs ih => unfold insertByTs; split <;> simp [sumVis, ih]; omega

theorem sumHid_insertByTs (o : Order) (l : List Order) : sumHid (insertByTs o l) = o.hid + sumHid l := by
  induction l with
  | nil => simp [insertByTs, sumHid]
  | cons x xs ih => unfold insertByTs; split <;> simp [sumHid, ih]; omega

theorem length_insertByTs (o : Order) (l : List Order) : (insertByTs o l).length = l.length + 1 := by
  induction l with
  | nil => simp [insertByTs]
  | cons x xs ih => unfold insertByTs; split <;> simp [ih]

theorem sums_sortByTs (l : List Order) :
    sumVis (sortByTs l) = sumVis l ∧ sumHid (sortByTs l) = sumHid l ∧ (sortByTs l).length = l.length := by
  induction l with
  | nil => simp [sortByTs]
  | cons x xs ih =>
    simp [sortByTs, sumVis_insertByTs, sumHid_insertByTs, length_insertByTs, sumVis, sumHid, ih]

end PLV

/-
  Helper lemmas for C02: what `match_order` returns in terms of the loop's final state, and the
  per-order lifetime ledger over histories.
-/
import PLV.Lemmas.MatchInv

namespace PLV

theorem requeueAside_tot (aside : List Order) :
    ∀ (m : OMap) (ts : List Id), (∀ x ∈ ids aside, x ∉ ids m) → (ids aside).Nodup →
      (∀ id, tot id (requeueAside m ts aside).1 = tot id m + tot id aside) ∧
      (∀ id, id ∈ ids (requeueAside m ts aside).1 ↔ id ∈ ids m ∨ id ∈ ids aside) := by
  induction aside with
  | nil => intro m ts _ _; simp [requeueAside, tot]
  | cons o rest ih =>
    intro m ts hd hn
    simp at hn
    have hfresh : o.id ∉ ids m := hd o.id (by simp)
    have := ih (m.insert o) (ts ++ [o.id])
      (by
        intro x hx hm
        rcases ids_insert.1 hm with hm | rfl
        · exact hd x (by simp [hx]) hm
        · exact hn.1 hx) hn.2
    simp only [requeueAside]
    refine ⟨?_, ?_⟩
    · intro id; rw [this.1 id, tot_insert_fresh hfresh]; simp [tot]; omega
    · intro id; rw [this.2 id, ids_insert]; simp only [ids_cons, List.mem_cons]
      constructor
      · rintro ((h | h) | h)
        · exact Or.inl h
        · exact Or.inr (Or.inl h)
        · exact Or.inr (Or.inr h)
      · rintro (h | h | h)
        · exact Or.inl (Or.inl h)
        · exact Or.inl (Or.inr h)
        · exact Or.inr h

/-- Everything C02 says about one call, in terms of the level before (`l`) and the result. -/
structure MatchFacts (l : Level) (q : Nat) (t : Id) (g : Nat) (l' : Level) (r : MatchResult) (g' : Nat) : Prop where
  acct : sumQty r.txs + r.remaining = q
  complete : r.complete = true ↔ r.remaining = 0
  taker : r.taker = t
  txok : ∀ tx ∈ r.txs, tx.qty > 0 ∧ tx.price = l.price ∧ tx.taker = t ∧
    ∃ x0, l.map.find tx.maker = some x0 ∧ tx.takerSide = x0.side.opposite
  gids : g < W → idsFrom g r.txs ∧ g' = (g + r.txs.length) % W
  ledger : ∀ id, fillsOf id r.txs + tot id l'.map ≤ tot id l.map
  filled : ∀ id, id ∈ r.filled ↔ (0 < fillsOf id r.txs ∧ id ∉ ids l'.map)
  price : l'.price = l.price

theorem Level.matchOrder_facts {l : Level} (h : l.Inv) (q : Nat) (t : Id) (g : Nat) :
    MatchFacts l q t g (l.matchOrder q t g).1 (l.matchOrder q t g).2.1 (l.matchOrder q t g).2.2 := by
  have h0 : AggInv l.map l.tickets { vis := l.vis, hid := l.hid, cnt := l.cnt, stats := l.stats, g := g } :=
    ⟨h.nodup, by simp, by simp, h.covered, by simpa [sumVis] using h.vis, by simpa [sumHid] using h.hid,
      by simpa using h.cnt, by simpa [sumVis, sumHid] using h.fits, by simpa using h.cfits⟩
  have he0 : ExhInv q (sumVis l.map) q l.map
      { vis := l.vis, hid := l.hid, cnt := l.cnt, stats := l.stats, g := g } :=
    ⟨by simp [sumQty], by simp, by simp [sumQty]⟩
  have ht0 : TxInv l.price t g l.map l.map
      { vis := l.vis, hid := l.hid, cnt := l.cnt, stats := l.stats, g := g } := by
    refine ⟨by simp, ?_, fun hg => by simp [idsFrom, Nat.mod_eq_of_lt hg], by simp [fillsOf, tot],
      by simp [fillsOf], by simp [fillsOf]⟩
    intro x hx; exact ⟨x, find_of_mem h.nodup hx, rfl⟩
  have hl := matchLoop_exh l.price t q (sumVis l.map) q l.map l.tickets _ ⟨h0, he0⟩
  have hx := matchLoop_tx l.price t g l.map q l.map l.tickets _ ⟨h0, ht0⟩
  simp only [Level.matchOrder]
  generalize matchLoop l.price t q l.map l.tickets _ = res at hl hx
  obtain ⟨rem, m, ts, a⟩ := res
  simp only at hl hx
  obtain ⟨ha, he⟩ := hl
  obtain ⟨_, hi⟩ := hx
  have hr := requeueAside_tot a.aside m ts ha.disj ha.nodupA
  simp only [Level.finishMatch]
  refine ⟨he.acct, by simp, rfl, hi.txok, hi.gids, ?_, ?_, rfl⟩
  · intro id; simp only; rw [hr.1 id]; have := hi.ledger id; omega
  · intro id; simp only; rw [hi.filled id, hr.2 id]; simp [not_or]

/-! ### lifetime ledger -/

/-- quantity executed against `id` over a history -/
def filledOver (id : Id) (s : Sys) : List Op → Nat
  | [] => 0
  | op :: rest =>
    (match (s.step op).2 with
     | .matched r => fillsOf id r.txs
     | _ => 0) + filledOver id (s.step op).1 rest

/-- quantity `id` brought to the level over a history: what it was added with, plus every upward
    amendment of its displayed quantity -/
def broughtOver (id : Id) (s : Sys) : List Op → Nat
  | [] => 0
  | op :: rest =>
    (tot id (s.step op).1.lvl.map - (match (s.step op).2 with
        | .matched _ => tot id (s.step op).1.lvl.map   -- a match brings nothing
        | _ => tot id s.lvl.map)) + broughtOver id (s.step op).1 rest

theorem lifetime_ledger (id : Id) (ops : List Op) :
    ∀ (s : Sys), s.lvl.Inv → AdmAll s ops →
      filledOver id s ops + tot id (s.run ops).lvl.map ≤ tot id s.lvl.map + broughtOver id s ops := by
  induction ops with
  | nil => intro s _ _; simp [filledOver, broughtOver, Sys.run]
  | cons op rest ih =>
    intro s h ha
    have hnext := Sys.step_inv h op ha.1
    have := ih (s.step op).1 hnext ha.2
    simp only [filledOver, broughtOver, Sys.run]
    cases op with
    | matchQ q t =>
      have hf := (Level.matchOrder_facts h q t s.g).ledger id
      simp only [Sys.step] at this hf ⊢
      generalize s.lvl.matchOrder q t s.g = res at this hf ⊢
      obtain ⟨l', r, g'⟩ := res
      simp only at this hf ⊢
      omega
    | add o => simp only [Sys.step] at this ⊢; omega
    | update u => simp only [Sys.step] at this ⊢; omega
    | read => simp only [Sys.step] at this ⊢; omega

end PLV

namespace PLV

theorem requeueAside_mem (aside : List Order) :
    ∀ (m : OMap) (ts : List Id) (x : Order), x ∈ (requeueAside m ts aside).1 → x ∈ m ∨ x ∈ aside := by
  induction aside with
  | nil => intro m ts x hx; exact Or.inl hx
  | cons o rest ih =>
    intro m ts x hx
    simp only [requeueAside] at hx
    rcases ih _ _ x hx with h | h
    · rcases mem_insert.1 h with h | rfl
      · exact Or.inl h.1
      · exact Or.inr (by simp)
    · exact Or.inr (by simp [h])

/-- a match never brings a new id into the book -/
theorem matchLoop_ids_subset (price : Nat) (taker : Id) (m0 : OMap) (rem : Nat) (m : OMap) (ts : List Id)
    (a : Acc) (h : (∀ x ∈ m, x.id ∈ ids m0) ∧ (∀ x ∈ a.aside, x.id ∈ ids m0)) :
    let res := matchLoop price taker rem m ts a
    (∀ x ∈ res.2.1, x.id ∈ ids m0) ∧ (∀ x ∈ res.2.2.2.aside, x.id ∈ ids m0) := by
  refine matchLoop_ind price taker
    (fun _ m _ a => (∀ x ∈ m, x.id ∈ ids m0) ∧ (∀ x ∈ a.aside, x.id ∈ ids m0)) ?_ ?_ ?_ ?_ rem m ts a h
  · intro rem m ts a _ _ h; exact h
  · intro rem m ts a o m' ts' u _ hp hu _ ⟨h1, h2⟩
    obtain ⟨hf, rfl, _, _⟩ := popLive_spec hp
    refine ⟨fun x hx => h1 x (mem_erase.1 hx).1, ?_⟩
    intro x hx
    simp at hx
    rcases hx with hx | rfl
    · exact h2 x hx
    · rw [(ma_stay o x rem hu).1]; exact h1 o (find_some hf).1
  · intro rem m ts a o m' ts' u _ hp hu _ ⟨h1, h2⟩
    obtain ⟨hf, rfl, _, _⟩ := popLive_spec hp
    refine ⟨?_, by simpa using h2⟩
    intro x hx
    rcases mem_insert.1 hx with hx | rfl
    · exact h1 x (mem_erase.1 hx.1).1
    · rw [(ma_stay o x rem hu).1]; exact h1 o (find_some hf).1
  · intro rem m ts a o m' ts' _ hp _ ⟨h1, h2⟩
    obtain ⟨hf, rfl, _, _⟩ := popLive_spec hp
    exact ⟨fun x hx => h1 x (mem_erase.1 hx).1, by simpa using h2⟩

theorem Level.matchOrder_ids_subset (l : Level) (q : Nat) (t : Id) (g : Nat) :
    ∀ x ∈ (l.matchOrder q t g).1.map, x.id ∈ ids l.map := by
  have := matchLoop_ids_subset l.price t l.map q l.map l.tickets
    { vis := l.vis, hid := l.hid, cnt := l.cnt, stats := l.stats, g := g }
    ⟨fun x hx => mem_ids_of_mem hx, by simp⟩
  simp only [Level.matchOrder]
  generalize matchLoop l.price t q l.map l.tickets _ = res at this
  obtain ⟨rem, m, ts, a⟩ := res
  simp only at this
  simp only [Level.finishMatch]
  intro x hx
  rcases requeueAside_mem a.aside m ts x hx with h | h
  · exact this.1 x h
  · exact this.2 x h

end PLV

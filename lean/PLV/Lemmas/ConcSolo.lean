/-
  The two semantics agree: a call executed by the small-step model with no other thread taking a
  step in between (`Reach`, the reflexive-transitive closure of `tstep` up to the call's return)
  ends in exactly the state, and returns exactly the value, that the big-step sequential model
  (`Level.addOrder`, `Level.matchOrder`, `Level.removeOrder`, `Level.amend`, the reads, the id
  generator) computes in one go. Helper lemmas for `Conc.solo_eq_seq` (DESIGN §3 "two semantics").
-/
import PLV.Lemmas.ConcInit
import PLV.Lemmas.LevelInv

namespace PLV.Conc
open PLV

/-! ### running one thread on its own -/

/-- `Reach s pc s' a`: starting at `pc` in shared state `s` and taking one or more steps with
    nobody else running, the thread arrives in `s'` about to do `a` (continue at a program counter,
    or return a value). -/
inductive Reach : Shared → Pc → Shared → After → Prop
  | one (s : Shared) (pc : Pc) : Reach s pc (tstep s pc).1 (tstep s pc).2.1
  | trans {s s1 s2 : Shared} {pc pc1 : Pc} {a : After} :
      Reach s pc s1 (.cont pc1) → Reach s1 pc1 s2 a → Reach s pc s2 a

/-- the same, allowing zero steps: the thread is about to do `a0` in `s` -/
def ReachA (s : Shared) (a0 : After) (s' : Shared) (a : After) : Prop :=
  match a0 with
  | .cont pc => Reach s pc s' a
  | .done r => s' = s ∧ a = .done r

theorem Reach.step {s s2 : Shared} {pc : Pc} {a : After}
    (h : ReachA (tstep s pc).1 (tstep s pc).2.1 s2 a) : Reach s pc s2 a := by
  have h1 := Reach.one s pc
  revert h h1
  generalize (tstep s pc).2.1 = a0
  generalize (tstep s pc).1 = s1
  intro h h1
  cases a0 with
  | cont pc1 => exact Reach.trans h1 h
  | done r => obtain ⟨rfl, rfl⟩ := h; exact h1

theorem ReachA.done (s : Shared) (r : String) : ReachA s (.done r) s (.done r) := ⟨rfl, rfl⟩

/-! ### the big-step meaning of an operation -/

/-- the level a shared state stands for -/
def Shared.level (s : Shared) : Level :=
  { price := s.price, vis := s.vis, hid := s.hid, cnt := s.cnt, map := s.map, tickets := s.tickets, stats := s.stats }

@[simp] theorem level_ofLevel (l : Level) (g : Nat) : (Shared.ofLevel l g).level = l := rfl
@[simp] theorem ofLevel_level (s : Shared) : Shared.ofLevel s.level s.g = s := rfl
@[simp] theorem ofLevel_g (l : Level) (g : Nat) : (Shared.ofLevel l g).g = g := rfl

open PLV.Proto in
def showUpd : UpdOut → String
  | .ok none => "ok=-"
  | .ok (some o) => "ok=" ++ showOrder o
  | .errSamePrice => "err"

/-- the locals of a finished match, as the small-step model shows them -/
def resultLoc (r : MatchResult) : MLoc := { taker := r.taker, rem := r.remaining, txs := r.txs, filled := r.filled }

open PLV.Proto in
/-- One call, in one go, on the sequential model: new level, new generator counter, what the call
    returns (rendered as the small-step model renders it). -/
def seqOp (l : Level) (g : Nat) : COp → Level × Nat × String
  | .add o => (l.addOrder o, g, "ok")
  | .matchQ q t => let r := l.matchOrder q t g; (r.1, r.2.2, showResult (resultLoc r.2.1))
  | .cancel id => let r := l.removeOrder id; (r.1, g, showUpd r.2)
  | .amend id n => let r := l.amend id n; (r.1, g, showUpd r.2)
  | .readVis => (l, g, toString l.vis)
  | .readHid => (l, g, toString l.hid)
  | .readCnt => (l, g, toString l.cnt)
  | .readList => (l, g, showList showOrder (canonSort l.map))
  | .next => (l, wadd g 1, toString g)

/-! ### add, cancel, amend, reads -/

theorem solo_add (s : Shared) (o : Order) :
    Reach s (.add0 o) (Shared.ofLevel (s.level.addOrder o) s.g) (.done "ok") := by
  refine Reach.step (Reach.step (Reach.step (Reach.step (Reach.step (Reach.step ?_)))))
  exact ⟨rfl, rfl⟩

theorem solo_cancel (s : Shared) (id : Id) :
    Reach s (.can0 id) (Shared.ofLevel (s.level.removeOrder id).1 s.g) (.done (showUpd (s.level.removeOrder id).2)) := by
  apply Reach.step
  cases hf : s.map.find id with
  | none =>
    simp only [tstep, hf, Level.removeOrder, Shared.level, showUpd]
    exact ⟨rfl, rfl⟩
  | some o =>
    simp only [tstep, hf, Level.removeOrder, Shared.level, showUpd, ReachA]
    refine Reach.step (Reach.step (Reach.step (Reach.step ?_)))
    exact ⟨rfl, rfl⟩

theorem adjust_same (c a : Nat) : adjust c a a = c := by simp [adjust]

theorem solo_amend (s : Shared) (id : Id) (n : Nat) :
    Reach s (.am0 id n) (Shared.ofLevel (s.level.amend id n).1 s.g) (.done (showUpd (s.level.amend id n).2)) := by
  apply Reach.step
  cases hf : s.map.find id with
  | none =>
    simp only [tstep, hf, Level.amend, Shared.level, showUpd]
    exact ⟨rfl, rfl⟩
  | some o1 =>
    have hid : (o1.withReduced n).id = id := by rw [withReduced_id]; exact (find_some hf).2
    have hh : o1.hid = (o1.withReduced n).hid := (withReduced_hid o1 n).symm
    simp only [tstep, hf, Level.amend, Shared.level, showUpd, ReachA]
    apply Reach.step
    simp only [tstep, hf]
    by_cases hv : o1.vis = (o1.withReduced n).vis
    · -- nothing to adjust
      simp only [hv, hh, ne_eq, not_true_eq_false, if_false, ReachA]
      refine Reach.step (Reach.step ?_)
      simp [tstep, ReachA, Shared.ofLevel, adjust, ← hv, ← hh, hid]
    · simp only [hv, ne_eq, not_false_eq_true, if_true, ReachA]
      refine Reach.step ?_
      by_cases hgt : (o1.withReduced n).vis > o1.vis
      · simp only [tstep, hgt, if_true, hh, ne_eq, not_true_eq_false, if_false, ReachA]
        refine Reach.step (Reach.step ?_)
        simp [tstep, ReachA, Shared.ofLevel, adjust, hv, hgt, ← hh, hid]
      · simp only [tstep, hgt, if_false, hh, ne_eq, not_true_eq_false, ReachA]
        refine Reach.step (Reach.step ?_)
        simp [tstep, ReachA, Shared.ofLevel, adjust, hv, hgt, ← hh, hid]

/-! ### match_order -/

theorem Reach.thenA {s s1 s2 : Shared} {pc : Pc} {a1 a2 : After}
    (h1 : Reach s pc s1 a1) (h2 : ReachA s1 a1 s2 a2) : Reach s pc s2 a2 := by
  cases a1 with
  | cont pc1 => exact Reach.trans h1 h2
  | done r => obtain ⟨rfl, rfl⟩ := h2; exact h1

theorem ReachA.thenA {s s1 s2 : Shared} {a0 a1 a2 : After}
    (h1 : ReachA s a0 s1 a1) (h2 : ReachA s1 a1 s2 a2) : ReachA s a0 s2 a2 := by
  cases a0 with
  | cont pc => exact Reach.thenA h1 h2
  | done r => obtain ⟨rfl, rfl⟩ := h1; exact h2

/-- the shared state and the locals of a match in progress, from the big-step loop's variables -/
def mkS (price : Nat) (m : OMap) (ts : List Id) (a : Acc) : Shared :=
  { price := price, vis := a.vis, hid := a.hid, cnt := a.cnt, map := m, tickets := ts, stats := a.stats, g := a.g }
def mkL (taker : Id) (rem : Nat) (a : Acc) : MLoc :=
  { taker := taker, rem := rem, txs := a.txs, filled := a.filled, aside := a.aside }

/-- how a match leaves once its loop is over -/
def exitA (L : MLoc) : After :=
  match L.aside with
  | [] => .done (showResult L)
  | u :: rest => .cont (.fIns L u rest)

theorem solo_requeue (L : MLoc) (rest : List Order) : ∀ (s : Shared) (u : Order),
    Reach s (.fIns L u rest)
      { s with map := (requeueAside s.map s.tickets (u :: rest)).1,
               tickets := (requeueAside s.map s.tickets (u :: rest)).2 } (.done (showResult L)) := by
  induction rest with
  | nil =>
    intro s u
    refine Reach.step (Reach.step ?_)
    simp [tstep, ReachA, requeueAside]
  | cons v rest' ih =>
    intro s u
    refine Reach.step (Reach.step ?_)
    simp only [tstep, ReachA]
    have := ih { s with map := s.map.insert u, tickets := s.tickets ++ [u.id] } v
    simpa [requeueAside] using this

theorem solo_exit (s : Shared) (L : MLoc) :
    ReachA s (exitA L)
      { s with map := (requeueAside s.map s.tickets L.aside).1,
               tickets := (requeueAside s.map s.tickets L.aside).2 } (.done (showResult L)) := by
  unfold exitA
  cases h : L.aside with
  | nil => simp [ReachA, requeueAside]
  | cons u rest => simpa [ReachA] using solo_requeue L rest s u

theorem afterVisit_eq (L : MLoc) : afterVisit L = if L.rem = 0 then exitA L else .cont (.mPop L) := by
  unfold afterVisit exitA; rfl

/-- tickets of orders that are gone are popped and dropped, one by one -/
theorem solo_pop_none (L : MLoc) : ∀ (ts : List Id) (s : Shared), s.tickets = ts → popLive s.map ts = none →
    Reach s (.mPop L) { s with tickets := [] } (exitA L) := by
  intro ts
  induction ts with
  | nil =>
    intro s hts _
    have := Reach.one s (.mPop L)
    simp only [tstep, hts] at this
    have hs : { s with tickets := [] } = s := by cases s; simp_all
    rw [hs]; exact this
  | cons t rest ih =>
    intro s hts hp
    unfold popLive at hp
    cases hf : s.map.find t with
    | some o => simp [hf] at hp
    | none =>
      simp only [hf] at hp
      refine Reach.step ?_
      simp only [tstep, hts, ReachA]
      refine Reach.step ?_
      simp only [tstep, hf, ReachA]
      exact ih { s with tickets := rest } rfl hp

theorem solo_pop_some (L : MLoc) : ∀ (ts : List Id) (s : Shared) (o : Order) (m' : OMap) (ts' : List Id),
    s.tickets = ts → popLive s.map ts = some (o, m', ts') →
    Reach s (.mPop L) { s with map := m', tickets := ts' }
      (.cont (if (matchAgainst o L.rem).consumed > 0 then .mSubV L o else .mSt1 L o)) := by
  intro ts
  induction ts with
  | nil => intro s o m' ts' _ hp; simp [popLive] at hp
  | cons t rest ih =>
    intro s o m' ts' hts hp
    unfold popLive at hp
    cases hf : s.map.find t with
    | some o1 =>
      simp only [hf, Option.some.injEq, Prod.mk.injEq] at hp
      obtain ⟨rfl, rfl, rfl⟩ := hp
      refine Reach.step ?_
      simp only [tstep, hts, ReachA]
      have := Reach.one { s with tickets := rest } (.mRm L t)
      simpa only [tstep, hf] using this
    | none =>
      simp only [hf] at hp
      refine Reach.step ?_
      simp only [tstep, hts, ReachA]
      refine Reach.step ?_
      simp only [tstep, hf, ReachA]
      exact ih { s with tickets := rest } o m' ts' rfl hp

/-- one maker visit up to and including the statistics -/
theorem solo_visit (price : Nat) (taker : Id) (rem : Nat) (m : OMap) (ts : List Id) (a : Acc) (o : Order) :
    Reach (mkS price m ts a)
      (if (matchAgainst o rem).consumed > 0 then .mSubV (mkL taker rem a) o else .mSt1 (mkL taker rem a) o)
      (mkS price m ts (a.visit price taker o (matchAgainst o rem)))
      (afterStats (mkL taker rem (a.visit price taker o (matchAgainst o rem))) o) := by
  by_cases hc : (matchAgainst o rem).consumed > 0 <;> by_cases ht : o.ts > 0
  · simp only [hc, if_true]
    refine Reach.step (Reach.step (Reach.step (Reach.step (Reach.step (Reach.step ?_)))))
    simp only [tstep, mkL, mkS, ht, if_true, ReachA]
    have := Reach.one (mkS price m ts (a.visit price taker o (matchAgainst o rem)))
      (.mSt5 (mkL taker rem (a.visit price taker o (matchAgainst o rem))) o)
    simpa [tstep, mkS, mkL, Acc.visit, hc, Stats.recordExec] using this
  · simp only [hc, if_true]
    refine Reach.step (Reach.step (Reach.step (Reach.step (Reach.step ?_))))
    simp only [tstep, mkL, mkS, ReachA]
    have := Reach.one (mkS price m ts (a.visit price taker o (matchAgainst o rem)))
      (.mSt4 (mkL taker rem (a.visit price taker o (matchAgainst o rem))) o)
    simpa [tstep, mkS, mkL, Acc.visit, hc, ht, Stats.recordExec] using this
  · simp only [hc, if_false]
    refine Reach.step (Reach.step (Reach.step (Reach.step ?_)))
    simp only [tstep, mkL, mkS, ht, if_true, ReachA]
    have := Reach.one (mkS price m ts (a.visit price taker o (matchAgainst o rem)))
      (.mSt5 (mkL taker rem (a.visit price taker o (matchAgainst o rem))) o)
    simpa [tstep, mkS, mkL, Acc.visit, hc, Stats.recordExec] using this
  · simp only [hc, if_false]
    refine Reach.step (Reach.step (Reach.step ?_))
    simp only [tstep, mkL, mkS, ReachA]
    have := Reach.one (mkS price m ts (a.visit price taker o (matchAgainst o rem)))
      (.mSt4 (mkL taker rem (a.visit price taker o (matchAgainst o rem))) o)
    simpa [tstep, mkS, mkL, Acc.visit, hc, ht, Stats.recordExec] using this

/-- what happens to the visited maker after the statistics: set aside, re-queued or gone -/
theorem solo_after_aside (price : Nat) (taker : Id) (rem : Nat) (m : OMap) (ts : List Id) (a2 : Acc) (o u : Order)
    (hu : (matchAgainst o rem).updated = some u)
    (hs : (matchAgainst o rem).consumed = 0 ∧ (matchAgainst o rem).hiddenRed = 0) :
    afterStats (mkL taker rem a2) o = afterVisit (mkL taker (matchAgainst o rem).remaining (a2.pushAside u)) := by
  simp only [afterStats, mkL, hu, hs, and_self, if_true, Acc.pushAside]

theorem solo_after_requeue (price : Nat) (taker : Id) (rem : Nat) (m : OMap) (ts : List Id) (a2 : Acc) (o u : Order)
    (hu : (matchAgainst o rem).updated = some u)
    (hs : ¬ ((matchAgainst o rem).consumed = 0 ∧ (matchAgainst o rem).hiddenRed = 0)) :
    ReachA (mkS price m ts a2) (afterStats (mkL taker rem a2) o)
      (mkS price (m.insert u) (ts ++ [u.id]) (a2.requeue (matchAgainst o rem).hiddenRed))
      (afterVisit (mkL taker (matchAgainst o rem).remaining (a2.requeue (matchAgainst o rem).hiddenRed))) := by
  by_cases hr : (matchAgainst o rem).hiddenRed > 0
  · simp only [afterStats, mkL, hu, hs, if_false, hr, if_true, ReachA]
    refine Reach.step (Reach.step (Reach.step ?_))
    simp only [tstep, mkS, ReachA]
    have := Reach.one (mkS price (m.insert u) ts (a2.requeue (matchAgainst o rem).hiddenRed))
      (.mTk (mkL taker (matchAgainst o rem).remaining (a2.requeue (matchAgainst o rem).hiddenRed)) u)
    simpa [tstep, mkS, mkL, Acc.requeue, hr] using this
  · simp only [afterStats, mkL, hu, hs, if_false, hr, ReachA]
    refine Reach.step ?_
    simp only [tstep, mkS, ReachA]
    have := Reach.one (mkS price (m.insert u) ts (a2.requeue (matchAgainst o rem).hiddenRed))
      (.mTk (mkL taker (matchAgainst o rem).remaining (a2.requeue (matchAgainst o rem).hiddenRed)) u)
    simpa [tstep, mkS, mkL, Acc.requeue, hr] using this

theorem solo_after_leave (price : Nat) (taker : Id) (rem : Nat) (m : OMap) (ts : List Id) (a2 : Acc) (o : Order)
    (hu : (matchAgainst o rem).updated = none) :
    ReachA (mkS price m ts a2) (afterStats (mkL taker rem a2) o)
      (mkS price m ts (a2.leave o (matchAgainst o rem).hiddenRed))
      (afterVisit (mkL taker (matchAgainst o rem).remaining (a2.leave o (matchAgainst o rem).hiddenRed))) := by
  have h0 := (ma_leave o rem hu).2
  by_cases hh : (o.kind.hasHidden && decide (o.hid > 0)) = true
  · simp only [afterStats, mkL, hu, ReachA]
    refine Reach.step ?_
    simp only [tstep, mkS, hh, if_true, ReachA]
    have := Reach.one (mkS price m ts { a2 with cnt := wsub a2.cnt 1 })
      (.mHLeft (mkL taker (matchAgainst o rem).remaining (a2.leave o (matchAgainst o rem).hiddenRed)) o)
    simpa [tstep, mkS, mkL, Acc.leave, hh, h0] using this
  · simp only [afterStats, mkL, hu, ReachA]
    have := Reach.one (mkS price m ts a2)
      (.mCnt (mkL taker (matchAgainst o rem).remaining (a2.leave o (matchAgainst o rem).hiddenRed)) o)
    simpa [tstep, mkS, mkL, Acc.leave, hh, h0] using this

/-- The loop of `match_order`, step by step, arrives where the big-step loop says. -/
theorem solo_loop (price : Nat) (taker : Id) (rem : Nat) (m : OMap) (ts : List Id) (a : Acc) :
    ReachA (mkS price m ts a) (afterVisit (mkL taker rem a))
      (mkS price
        (requeueAside (matchLoop price taker rem m ts a).2.1 (matchLoop price taker rem m ts a).2.2.1
          (matchLoop price taker rem m ts a).2.2.2.aside).1
        (requeueAside (matchLoop price taker rem m ts a).2.1 (matchLoop price taker rem m ts a).2.2.1
          (matchLoop price taker rem m ts a).2.2.2.aside).2
        (matchLoop price taker rem m ts a).2.2.2)
      (.done (showResult (mkL taker (matchLoop price taker rem m ts a).1 (matchLoop price taker rem m ts a).2.2.2))) := by
  fun_induction matchLoop price taker rem m ts a with
  | case1 m ts a =>
    rw [afterVisit_eq]; simp only [mkL, if_true]
    exact solo_exit (mkS price m ts a) (mkL taker 0 a)
  | case2 rem m ts a hz hp =>
    rw [afterVisit_eq]; simp only [mkL, hz, if_false, ReachA]
    exact Reach.thenA (solo_pop_none (mkL taker rem a) ts (mkS price m ts a) rfl hp)
      (solo_exit (mkS price m [] a) (mkL taker rem a))
  | case3 rem m ts a hz o m' ts' hp r a2 u hu hs ih =>
    rw [afterVisit_eq]; simp only [mkL, hz, if_false, ReachA]
    refine Reach.thenA (solo_pop_some (mkL taker rem a) ts (mkS price m ts a) o m' ts' rfl hp) ?_
    refine Reach.thenA (solo_visit price taker rem m' ts' a o) ?_
    rw [solo_after_aside price taker rem m' ts' _ o u hu hs]
    exact ih
  | case4 rem m ts a hz o m' ts' hp r a2 u hu hs ih =>
    rw [afterVisit_eq]; simp only [mkL, hz, if_false, ReachA]
    refine Reach.thenA (solo_pop_some (mkL taker rem a) ts (mkS price m ts a) o m' ts' rfl hp) ?_
    refine Reach.thenA (solo_visit price taker rem m' ts' a o) ?_
    exact ReachA.thenA (solo_after_requeue price taker rem m' ts' _ o u hu hs) ih
  | case5 rem m ts a hz o m' ts' hp r a2 hu ih =>
    rw [afterVisit_eq]; simp only [mkL, hz, if_false, ReachA]
    refine Reach.thenA (solo_pop_some (mkL taker rem a) ts (mkS price m ts a) o m' ts' rfl hp) ?_
    refine Reach.thenA (solo_visit price taker rem m' ts' a o) ?_
    exact ReachA.thenA (solo_after_leave price taker rem m' ts' _ o hu) ih

theorem showResult_congr (L L' : MLoc) (h1 : L.txs = L'.txs) (h2 : L.rem = L'.rem) (h3 : L.filled = L'.filled) :
    showResult L = showResult L' := by
  unfold showResult; rw [h1, h2, h3]

theorem solo_match (s : Shared) (q : Nat) (t : Id) (hq : q ≠ 0) :
    Reach s (.mPop { taker := t, rem := q })
      (Shared.ofLevel (s.level.matchOrder q t s.g).1 (s.level.matchOrder q t s.g).2.2)
      (.done (showResult (resultLoc (s.level.matchOrder q t s.g).2.1))) := by
  have h := solo_loop s.price t q s.map s.tickets
    { vis := s.vis, hid := s.hid, cnt := s.cnt, stats := s.stats, g := s.g }
  rw [afterVisit_eq] at h
  simp only [mkL, hq, if_false, ReachA] at h
  have hs : mkS s.price s.map s.tickets { vis := s.vis, hid := s.hid, cnt := s.cnt, stats := s.stats, g := s.g } = s := by
    cases s; rfl
  rw [hs] at h
  exact h

/-- **One call, alone.** Whatever the operation, the small-step execution of the call with no other
    thread in between ends in the big-step result. -/
theorem solo_op (s : Shared) (op : COp) (hok : OpOk op) :
    Reach s (start op) (Shared.ofLevel (seqOp s.level s.g op).1 (seqOp s.level s.g op).2.1)
      (.done (seqOp s.level s.g op).2.2) := by
  cases op with
  | add o => exact solo_add s o
  | matchQ q t => exact solo_match s q t hok
  | cancel id => exact solo_cancel s id
  | amend id n => exact solo_amend s id n
  | readVis => exact Reach.one s .rdVis
  | readHid => exact Reach.one s .rdHid
  | readCnt => exact Reach.one s .rdCnt
  | readList => exact Reach.one s .rdList
  | next => exact Reach.one s .nx

/-! ### from `Reach` to schedules of the interleaved machine -/

def After.live : After → Prop
  | .cont pc => pc ≠ .idle
  | .done _ => True

theorem afterVisit_live (L : MLoc) : (afterVisit L).live := by
  unfold afterVisit; split
  · split <;> simp [After.live]
  · simp [After.live]

theorem afterStats_live (L : MLoc) (o : Order) : (afterStats L o).live := by
  simp only [afterStats]
  split
  · split
    · exact afterVisit_live _
    · split <;> simp [After.live]
  · simp [After.live]

theorem tstep_live (s : Shared) (pc : Pc) (h : pc ≠ .idle) : (tstep s pc).2.1.live := by
  cases pc <;> simp only [tstep] <;> (repeat' split) <;>
    first
    | exact absurd rfl h
    | exact afterVisit_live _
    | exact afterStats_live _ _
    | simp [After.live]

theorem Reach.live {s s' : Shared} {pc : Pc} {a : After} (h : Reach s pc s' a) (hp : pc ≠ .idle) : a.live := by
  induction h with
  | one s pc => exact tstep_live s pc hp
  | trans _ _ ih1 ih2 => exact ih2 (ih1 hp)

theorem run_append (c : Cfg) (xs ys : List Nat) : run c (xs ++ ys) = run (run c xs) ys := by
  induction xs generalizing c with
  | nil => rfl
  | cons x rest ih => simp [run, ih]

theorem norm_of_live {t : Thread} (h : t.pc ≠ .idle) : t.norm = some t := by
  unfold Thread.norm
  split <;> simp_all

theorem run_of_reach {s s' : Shared} {pc : Pc} {a : After} (h : Reach s pc s' a) (hp : pc ≠ .idle) :
    ∀ (ts : List Thread) (i : Nat) (t tn : Thread), ts[i]? = some t → t.norm = some tn → tn.pc = pc →
      ∃ n, run ⟨s, ts⟩ (List.replicate n i) = ⟨s', ts.set i (tn.after a)⟩ := by
  induction h with
  | one s pc =>
    intro ts i t tn hi hn hpc
    refine ⟨1, ?_⟩
    simp [run, step, hi, hn, hpc]
  | @trans s s1 s2 pc pc1 a h1 h2 ih1 ih2 =>
    intro ts i t tn hi hn hpc
    obtain ⟨n1, e1⟩ := ih1 hp ts i t tn hi hn hpc
    have hp1 : pc1 ≠ .idle := h1.live hp
    have hi' : (ts.set i (tn.after (.cont pc1)))[i]? = some (tn.after (.cont pc1)) := by
      have hlt : i < ts.length := by
        rcases Nat.lt_or_ge i ts.length with h | h
        · exact h
        · simp [List.getElem?_eq_none h] at hi
      simp [List.getElem?_set, hlt]
    obtain ⟨n2, e2⟩ := ih2 hp1 (ts.set i (tn.after (.cont pc1))) i (tn.after (.cont pc1)) (tn.after (.cont pc1)) hi'
      (norm_of_live (by simpa [Thread.after] using hp1)) (by simp [Thread.after])
    refine ⟨n1 + n2, ?_⟩
    rw [← List.replicate_append_replicate, run_append, e1, e2]
    congr 1
    rw [List.set_set]
    cases a <;> simp [Thread.after]

theorem start_ne_idle (op : COp) : start op ≠ .idle := by cases op <;> simp [start]

/-- **`solo_eq_seq`.** In any configuration, a thread that is between calls and runs its next call
    to completion while the others stand still takes the shared state from `l` to exactly the level
    the sequential model computes for that call, and records exactly its return value. -/
theorem solo_eq_seq (l : Level) (g : Nat) (ts : List Thread) (i : Nat) (op : COp) (rest : List COp)
    (rets : List String) (hi : ts[i]? = some { pc := .idle, todo := op :: rest, rets := rets }) (hok : OpOk op) :
    ∃ n, run ⟨Shared.ofLevel l g, ts⟩ (List.replicate n i) =
      ⟨Shared.ofLevel (seqOp l g op).1 (seqOp l g op).2.1,
       ts.set i { pc := .idle, todo := rest, rets := rets ++ [(seqOp l g op).2.2] }⟩ := by
  have h := solo_op (Shared.ofLevel l g) op hok
  obtain ⟨n, e⟩ := run_of_reach h (start_ne_idle op) ts i _ { pc := start op, todo := rest, rets := rets } hi rfl rfl
  exact ⟨n, by simpa [Thread.after] using e⟩

/-- the sequential meaning of a list of calls issued one after another -/
def seqOps (l : Level) (g : Nat) (rets : List String) : List COp → Level × Nat × List String
  | [] => (l, g, rets)
  | op :: rest => seqOps (seqOp l g op).1 (seqOp l g op).2.1 (rets ++ [(seqOp l g op).2.2]) rest

/-- a thread that runs its whole program alone -/
theorem solo_thread (ops : List COp) : ∀ (l : Level) (g : Nat) (ts : List Thread) (i : Nat) (rets : List String),
    ts[i]? = some { pc := .idle, todo := ops, rets := rets } → (∀ op ∈ ops, OpOk op) →
    ∃ n, run ⟨Shared.ofLevel l g, ts⟩ (List.replicate n i) =
      ⟨Shared.ofLevel (seqOps l g rets ops).1 (seqOps l g rets ops).2.1,
       ts.set i { pc := .idle, todo := [], rets := (seqOps l g rets ops).2.2 }⟩ := by
  induction ops with
  | nil =>
    intro l g ts i rets hi _
    refine ⟨0, ?_⟩
    simp only [List.replicate, run, seqOps]
    congr 1
    have hlt : i < ts.length := by
      rcases Nat.lt_or_ge i ts.length with h | h
      · exact h
      · simp [List.getElem?_eq_none h] at hi
    have he : ts[i] = { pc := .idle, todo := [], rets := rets } := by
      have := List.getElem?_eq_getElem hlt
      rw [this] at hi; exact Option.some.inj hi
    rw [← he, List.set_getElem_self]
  | cons op rest ih =>
    intro l g ts i rets hi hok
    obtain ⟨n1, e1⟩ := solo_eq_seq l g ts i op rest rets hi (hok op (by simp))
    have hlt : i < ts.length := by
      rcases Nat.lt_or_ge i ts.length with h | h
      · exact h
      · simp [List.getElem?_eq_none h] at hi
    obtain ⟨n2, e2⟩ := ih (seqOp l g op).1 (seqOp l g op).2.1
      (ts.set i { pc := .idle, todo := rest, rets := rets ++ [(seqOp l g op).2.2] }) i
      (rets ++ [(seqOp l g op).2.2]) (by simp [List.getElem?_set, hlt]) (fun o ho => hok o (by simp [ho]))
    refine ⟨n1 + n2, ?_⟩
    rw [← List.replicate_append_replicate, run_append, e1, e2]
    simp [seqOps, List.set_set]

/-! ### serial schedules: thread 0 to completion, then thread 1, … -/

/-- the sequential meaning of a serial execution: new level, new counter, each thread's returns -/
def serial (l : Level) (g : Nat) : List (List COp) → Level × Nat × List (List String)
  | [] => (l, g, [])
  | ops :: rest =>
    let r := seqOps l g [] ops
    let r2 := serial r.1 r.2.1 rest
    (r2.1, r2.2.1, r.2.2 :: r2.2.2)

def doneThread (rs : List String) : Thread := { pc := .idle, todo := [], rets := rs }

theorem serial_run (progs : List (List COp)) : ∀ (l : Level) (g : Nat) (pre : List Thread),
    (∀ ops ∈ progs, ∀ op ∈ ops, OpOk op) →
    ∃ sched, run ⟨Shared.ofLevel l g, pre ++ progs.map (fun ops => ({ todo := ops } : Thread))⟩ sched =
      ⟨Shared.ofLevel (serial l g progs).1 (serial l g progs).2.1, pre ++ (serial l g progs).2.2.map doneThread⟩ := by
  induction progs with
  | nil => intro l g pre _; exact ⟨[], by simp [run, serial]⟩
  | cons ops rest ih =>
    intro l g pre hok
    have hi : (pre ++ (({ todo := ops } : Thread) :: rest.map (fun ops => ({ todo := ops } : Thread))))[pre.length]? =
        some { pc := .idle, todo := ops, rets := [] } := by
      simp [List.getElem?_append_right]
    obtain ⟨n, e⟩ := solo_thread ops l g _ pre.length [] hi (hok ops (by simp))
    obtain ⟨sched2, e2⟩ := ih (seqOps l g [] ops).1 (seqOps l g [] ops).2.1
      (pre ++ [doneThread (seqOps l g [] ops).2.2]) (fun o ho => hok o (by simp [ho]))
    refine ⟨List.replicate n pre.length ++ sched2, ?_⟩
    rw [run_append]
    simp only [List.map_cons] at e ⊢
    rw [e]
    have hset : (pre ++ (({ todo := ops } : Thread) :: rest.map (fun ops => ({ todo := ops } : Thread)))).set pre.length
          { pc := .idle, todo := [], rets := (seqOps l g [] ops).2.2 } =
        (pre ++ [doneThread (seqOps l g [] ops).2.2]) ++ rest.map (fun ops => ({ todo := ops } : Thread)) := by
      simp [List.set_append_right, doneThread]
    rw [hset, e2]
    simp [serial]

theorem serial_allDone (pre : List (List String)) : allDone ⟨s, pre.map doneThread⟩ = true := by
  simp [allDone, Thread.finished, doneThread]

end PLV.Conc

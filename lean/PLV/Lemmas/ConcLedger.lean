/-
  The per-order quantity ledger under concurrency (helper lemmas for C03): for a fixed order id `x`,
  along EVERY schedule, the quantity resting under `x` in the map plus what threads hold of `x`
  outside the map, plus everything that left (`executed`, `returned` by a cancel, `discarded` hidden
  quantity of an exhausted non-replenishing reserve order, amended `down`) equals everything that
  came (`start` + adds + amended `up`).
-/
import PLV.Lemmas.ConcInit

namespace PLV.Conc
open PLV

/-- total quantity of order `o` if it is the order `x` -/
def otot (x : Id) (o : Order) : Nat := if o.id = x then o.vis + o.hid else 0

/-- executed against `o` in this visit, if `o` is the order `x` -/
def exq (x : Id) (o : Order) (q : Nat) : Nat := if o.id = x then (matchAgainst o q).consumed else 0

def ohid (x : Id) (o : Order) : Nat := if o.id = x then o.hid else 0

/-- quantity of order `x` a thread holds outside the map -/
def hand (x : Id) : Pc → Nat
  | .add0 o | .add1 o | .add2 o | .add3 o | .add4 o => otot x o
  | .can1 o | .can2 o | .can3 o | .can4 o => otot x o
  | .amV _ new | .amH _ new | .amIns new => otot x new
  | .mPop L | .mRm L _ | .mTk L _ => tot x L.aside
  | .mSubV L o | .mUuid L o => otot x o + tot x L.aside
  | .mSt1 L o | .mSt2 L o | .mSt3 L o | .mSt4 L o | .mSt5 L o => (otot x o - exq x o L.rem) + tot x L.aside
  | .mHSub L u _ | .mVAdd L u _ | .mIns L u => otot x u + tot x L.aside
  | .mCnt L o | .mHLeft L o => ohid x o + tot x L.aside
  | .fIns _ u rest => otot x u + tot x rest
  | .fTk _ _ rest => tot x rest
  | _ => 0

def After.hand (x : Id) : After → Nat | .cont pc => Conc.hand x pc | .done _ => 0

theorem ah_c (x : Id) (pc : Pc) : (After.cont pc).hand x = hand x pc := rfl
theorem ah_d (x : Id) (r : String) : (After.done r).hand x = 0 := rfl

/-- what happens to order `x` at the step taken from `pc` in state `s` -/
structure LEv where
  exec : Nat := 0
  ret : Nat := 0
  disc : Nat := 0
  up : Nat := 0
  down : Nat := 0
  deriving Repr, Inhabited

def LEv.plus (a b : LEv) : LEv := ⟨a.exec + b.exec, a.ret + b.ret, a.disc + b.disc, a.up + b.up, a.down + b.down⟩

def levAt (x : Id) (s : Shared) : Pc → LEv
  | .mUuid L o => { exec := exq x o L.rem }
  | .can4 o => { ret := otot x o }
  | .mHLeft _ o => { disc := ohid x o }
  | .am1 id n =>
    match s.map.find id with
    | none => {}
    | some o1 => { up := otot x (o1.withReduced n) - otot x o1, down := otot x o1 - otot x (o1.withReduced n) }
  | _ => {}

theorem afterVisit_hand (x : Id) (L : MLoc) : (afterVisit L).hand x = tot x L.aside := by
  unfold afterVisit
  split
  · cases ha : L.aside <;> simp [ah_c, ah_d, hand, tot, otot]
  · simp [ah_c, hand]

theorem tot_snoc (x : Id) (l : List Order) (u : Order) : tot x (l ++ [u]) = tot x l + otot x u := by
  rw [tot_append]; simp [tot, otot]

theorem afterStats_hand (x : Id) (L : MLoc) (o : Order) :
    (afterStats L o).hand x = (otot x o - exq x o L.rem) + tot x L.aside := by
  unfold afterStats
  simp only
  cases hu : (matchAgainst o L.rem).updated with
  | none =>
    obtain ⟨h1, _⟩ := ma_leave o L.rem hu
    simp only [ah_c, hand, otot, exq, ohid]
    split <;> simp_all <;> omega
  | some u =>
    obtain ⟨h1, h2, h3⟩ := ma_stay o u L.rem hu
    have hc := ma_consumed_le o L.rem
    simp only
    by_cases h0 : (matchAgainst o L.rem).consumed = 0 ∧ (matchAgainst o L.rem).hiddenRed = 0
    · rw [if_pos h0, afterVisit_hand]
      simp only [tot_snoc, otot, exq, h1]
      split <;> simp_all <;> omega
    · rw [if_neg h0]
      by_cases hr : (matchAgainst o L.rem).hiddenRed > 0
      · simp only [if_pos hr, ah_c, hand, otot, exq, h1]
        split <;> simp_all <;> omega
      · simp only [if_neg hr, ah_c, hand, otot, exq, h1]
        split <;> simp_all <;> omega


theorem tot_insert_fresh' {m : OMap} {o : Order} (h : o.id ∉ ids m) (x : Id) :
    tot x (m.insert o) = tot x m + otot x o := by
  rw [tot_insert_fresh h]; rfl

theorem tot_erase_found {m : OMap} {id : Id} {o : Order} (hn : (ids m).Nodup) (hf : m.find id = some o) (x : Id) :
    tot x (m.erase id) + otot x o = tot x m := by
  have hid := (find_some hf).2
  by_cases hx : x = id
  · subst hx
    rw [tot_erase_self, tot_find hn hf]
    simp [otot, hid]
  · rw [tot_erase_ne hx]
    have : o.id ≠ x := by rw [hid]; exact fun e => hx e.symm
    simp [otot, this]

/-- one step, locally: the quantity of order `x` in the map and in the stepping thread's hands, the
    events of the step -/
theorem tstep_ledger (x : Id) (s : Shared) (pc : Pc) (hn : (ids s.map).Nodup)
    (hfresh : ∀ y ∈ held pc, y ∉ ids s.map) (hok : PcOk pc) :
    tot x (tstep s pc).1.map + (tstep s pc).2.1.hand x + (levAt x s pc).exec + (levAt x s pc).ret +
        (levAt x s pc).disc + (levAt x s pc).down = tot x s.map + hand x pc + (levAt x s pc).up := by
  cases pc with
  | add4 o =>
    have hf : o.id ∉ ids s.map := hfresh o.id (by simp [held])
    simp only [tstep, hand, ah_c, levAt, tot_insert_fresh' hf]
  | amIns new =>
    have hf : new.id ∉ ids s.map := hfresh new.id (by simp [held])
    simp only [tstep, hand, ah_c, levAt, tot_insert_fresh' hf]
  | mIns L u =>
    have hf : u.id ∉ ids s.map := hfresh u.id (by simp [held])
    simp only [tstep, hand, ah_c, levAt, tot_insert_fresh' hf]
    omega
  | fIns L u rest =>
    have hf : u.id ∉ ids s.map := hfresh u.id (by simp [held])
    simp only [tstep, hand, ah_c, levAt, tot_insert_fresh' hf]
    omega
  | can0 id =>
    simp only [tstep]
    cases hf : s.map.find id with
    | none => simp [hand, ah_d, levAt]
    | some o =>
      have := tot_erase_found hn hf x
      simp only [hand, ah_c, levAt]
      omega
  | can4 o => simp [tstep, hand, ah_d, levAt]
  | am0 id n =>
    simp only [tstep]
    cases hf : s.map.find id <;> simp [hand, ah_c, ah_d, levAt]
  | am1 id n =>
    simp only [tstep, levAt]
    cases hf : s.map.find id with
    | none => simp [hand, ah_d]
    | some o1 =>
      have := tot_erase_found hn hf x
      simp only [ah_c]
      by_cases hv : o1.vis ≠ (o1.withReduced n).vis
      · simp only [if_pos hv, hand]; omega
      · by_cases hh : o1.hid ≠ (o1.withReduced n).hid
        · simp only [if_neg hv, if_pos hh, hand]; omega
        · simp only [if_neg hv, if_neg hh, hand]; omega
  | amV o1 new =>
    simp only [tstep]
    by_cases hgt : new.vis > o1.vis <;> by_cases hh : o1.hid ≠ new.hid <;>
      simp [hgt, hh, hand, ah_c, levAt]
  | amH o1 new =>
    simp only [tstep]
    by_cases hgt : new.hid > o1.hid <;> simp [hgt, hand, ah_c, levAt]
  | mPop L =>
    simp only [tstep]
    cases ht : s.tickets with
    | nil => cases ha : L.aside <;> simp [hand, ah_c, ah_d, levAt, ha, tot, otot]
    | cons t ts => simp [hand, ah_c, levAt]
  | mRm L t =>
    simp only [tstep]
    cases hf : s.map.find t with
    | none => simp [hand, ah_c, levAt]
    | some o =>
      have := tot_erase_found hn hf x
      by_cases hpos : (matchAgainst o L.rem).consumed > 0
      · simp only [if_pos hpos, hand, ah_c, levAt]; omega
      · have h0 : exq x o L.rem = 0 := by unfold exq; split <;> omega
        simp only [if_neg hpos, hand, ah_c, levAt, h0]; omega
  | mUuid L o =>
    have hc := ma_consumed_le o L.rem
    have : exq x o L.rem ≤ otot x o := by unfold exq otot; split <;> omega
    simp only [tstep, hand, ah_c, levAt]
    omega
  | mSt4 L o =>
    have := afterStats_hand x L o
    simp only [tstep, levAt]
    by_cases hts : o.ts > 0
    · simp [hts, hand, ah_c]
    · simp [hts, hand, this]
  | mSt5 L o =>
    have := afterStats_hand x L o
    simp [tstep, levAt, hand, this]
  | mTk L u =>
    have := afterVisit_hand x L
    simp [tstep, levAt, hand, this]
  | mCnt L o =>
    have hplain : o.kind.hasHidden = false → o.hid = 0 := hok
    have := afterVisit_hand x L
    simp only [tstep, levAt]
    by_cases hk : (o.kind.hasHidden && decide (o.hid > 0)) = true
    · simp [hk, hand, ah_c]
    · have h0 : o.hid = 0 := by
        cases hh : o.kind.hasHidden with
        | false => exact hplain hh
        | true => simp [hh] at hk; exact hk
      rw [if_neg hk]
      simp [hand, this, ohid, h0]
  | mHLeft L o =>
    have := afterVisit_hand x L
    simp only [tstep, levAt, hand, this]
    omega
  | fTk L u rest =>
    simp only [tstep]
    cases rest <;> simp [hand, ah_c, ah_d, levAt, tot, otot]
  | _ => simp [tstep, hand, ah_c, ah_d, levAt]


/-! ### over schedules -/

def opTot (x : Id) : COp → Nat
  | .add o => otot x o
  | _ => 0

/-- what a thread holds of order `x` outside the map, or will bring with the adds it has yet to issue -/
def thand (x : Id) (t : Thread) : Nat := hand x t.pc + sumOps (opTot x) t.todo

theorem norm_hand (x : Id) {t tn : Thread} (h : t.norm = some tn) : thand x tn = thand x t := by
  unfold Thread.norm at h
  split at h
  · simp at h
  · rename_i op rest hpc htodo
    simp at h; subst h
    simp only [thand, hpc, htodo, sumOps]
    cases op <;> simp [start, hand, opTot, tot]
  · simp at h; subst h; rfl

theorem after_hand (x : Id) (tn : Thread) (a : After) :
    thand x (tn.after a) = a.hand x + sumOps (opTot x) tn.todo := by
  cases a <;> simp [Thread.after, After.hand, thand, hand]

def levStep (x : Id) (c : Cfg) (i : Nat) : LEv :=
  match c.ts[i]? with
  | none => {}
  | some t =>
    match t.norm with
    | none => {}
    | some tn => levAt x c.sh tn.pc

def runLev (x : Id) (c : Cfg) : List Nat → LEv
  | [] => {}
  | i :: rest => (levStep x c i).plus (runLev x (step c i).1 rest)

/-- the ledger of order `x`: everything there is + everything that left = everything that came -/
def LInv (x : Id) (S0 : Nat) (c : Cfg) (E : LEv) : Prop :=
  tot x c.sh.map + sumT (thand x) c.ts + E.exec + E.ret + E.disc + E.down = S0 + E.up

theorem LInv.step {x : Id} {S0 : Nat} {c : Cfg} {E : LEv} (hc : CInv c) (h : LInv x S0 c E) (i : Nat) :
    LInv x S0 (Conc.step c i).1 (E.plus (levStep x c i)) := by
  cases hti : c.ts[i]? with
  | none =>
    rw [step_none (Or.inl hti)]
    simpa [levStep, hti, LEv.plus, LInv] using h
  | some t =>
    cases hn : t.norm with
    | none =>
      rw [step_none (Or.inr ⟨t, hti, hn⟩)]
      simpa [levStep, hti, hn, LEv.plus, LInv] using h
    | some tn =>
      obtain ⟨hstep, hfresh, hokn, _⟩ := step_some hc hti hn
      rw [hstep]
      have hl := tstep_ledger x c.sh tn.pc hc.nodup hfresh hokn.1
      have hs := sumT_set (thand x) c.ts i t (tn.after (tstep c.sh tn.pc).2.1) hti
      rw [after_hand] at hs
      have hnh := norm_hand x hn
      have htn : thand x tn = hand x tn.pc + sumOps (opTot x) tn.todo := rfl
      unfold LInv at h ⊢
      simp only [levStep, hti, hn, LEv.plus]
      omega

theorem LInv.run {x : Id} {S0 : Nat} (sched : List Nat) : ∀ {c : Cfg} {E : LEv}, CInv c → LInv x S0 c E →
    LInv x S0 (Conc.run c sched) (E.plus (runLev x c sched)) := by
  induction sched with
  | nil => intro c E _ h; simpa [Conc.run, runLev, LEv.plus, LInv] using h
  | cons i rest ih =>
    intro c E hc h
    have := ih (hc.step i) (h.step hc i)
    simpa [Conc.run, runLev, LEv.plus, LInv, Nat.add_assoc] using this

/-- once every thread has returned and has nothing left to do, nobody holds anything -/
theorem done_hand (x : Id) {c : Cfg} (hd : allDone c = true) : sumT (thand x) c.ts = 0 := by
  apply sumT_zero
  intro t ht
  have := List.all_eq_true.1 hd t ht
  unfold Thread.finished at this
  split at this
  · rename_i h1 h2; simp only [thand, h1, h2, hand, sumOps]
  · simp at this

end PLV.Conc

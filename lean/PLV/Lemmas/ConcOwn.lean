/-
  More local lemmas about the small-step model (helpers for C03 / C08 / C12 / C13): preservation of
  program-counter well-formedness, the ownership count, the supply potential, the ticket cover.
-/
import PLV.Lemmas.ConcLocal

namespace PLV.Conc
open PLV

/-! ### well-formedness is preserved -/

theorem tstep_ok (s : Shared) (pc : Pc) (hok : PcOk pc) : (tstep s pc).2.1.ok := by
  cases pc with
  | mPop L =>
    simp only [tstep]
    cases s.tickets with
    | nil => cases L.aside <;> simp [After.ok, PcOk]
    | cons t ts => simpa [After.ok, PcOk] using hok
  | mRm L t =>
    simp only [tstep]
    cases s.map.find t with
    | none => simpa [After.ok, PcOk] using hok
    | some o => simp only [After.ok]; split <;> simpa [PcOk] using hok
  | mSubV L o => simpa [tstep, After.ok, PcOk] using hok
  | mUuid L o => simpa [tstep, After.ok, PcOk] using hok
  | mSt1 L o => simpa [tstep, After.ok, PcOk] using hok
  | mSt2 L o => simpa [tstep, After.ok, PcOk] using hok
  | mSt3 L o => simpa [tstep, After.ok, PcOk] using hok
  | mSt4 L o =>
    simp only [tstep]
    split
    · simpa [After.ok, PcOk] using hok
    · exact afterStats_ok L o
  | mSt5 L o => exact afterStats_ok L o
  | mHSub L u hr => simpa [tstep, After.ok, PcOk] using hok
  | mTk L u => exact afterVisit_ok L
  | mCnt L o =>
    simp only [tstep]
    split
    · simp [After.ok, PcOk]
    · exact afterVisit_ok L
  | mHLeft L o => exact afterVisit_ok L
  | can0 id => simp only [tstep]; cases s.map.find id <;> simp [After.ok, PcOk]
  | am0 id n => simp only [tstep]; cases s.map.find id <;> simp [After.ok, PcOk]
  | am1 id n =>
    simp only [tstep]
    cases s.map.find id with
    | none => simp [After.ok]
    | some o1 => simp only [After.ok]; split <;> (try split) <;> simp [PcOk]
  | amV o1 new => simp only [tstep]; split <;> (simp only [After.ok]; split <;> simp [PcOk])
  | amH o1 new => simp only [tstep]; split <;> simp [After.ok, PcOk]
  | fTk L u rest => simp only [tstep]; cases rest <;> simp [After.ok, PcOk]
  | _ => simp [tstep, After.ok, PcOk]

/-! ### ownership, by counting: no id gains an owner in a step -/

theorem count_ids_erase_le (m : OMap) (id x : Id) : (ids (m.erase id)).count x ≤ (ids m).count x := by
  induction m with
  | nil => simp [OMap.erase]
  | cons y rest ih =>
    unfold OMap.erase
    split
    · simp only [ids_cons, List.count_cons]; omega
    · simp only [ids_cons, List.count_cons]; omega

theorem count_ids_insert_le (m : OMap) (o : Order) (x : Id) :
    (ids (m.insert o)).count x ≤ (ids m).count x + (if o.id = x then 1 else 0) := by
  have := count_ids_erase_le m o.id x
  simp only [OMap.insert, ids_append, ids_cons, ids_nil, List.count_append, List.count_cons, List.count_nil]
  by_cases h : o.id = x
  · subst h; simp; omega
  · simp [h]; omega

theorem count_ids_erase_found {m : OMap} {id : Id} {o : Order} (hf : m.find id = some o) (x : Id) :
    (ids (m.erase id)).count x + (if id = x then 1 else 0) ≤ (ids m).count x := by
  by_cases h : id = x
  · subst h
    have h0 : (ids (m.erase id)).count id = 0 := List.count_eq_zero.2 (fun hm => (mem_ids_erase.1 hm).2 rfl)
    have h1 : 0 < (ids m).count id := List.count_pos_iff.2 ((find_some hf).2 ▸ mem_ids_of_mem (find_some hf).1)
    rw [h0, if_pos rfl]; exact h1
  · have := count_ids_erase_le m id x; simp [h]; omega

theorem tstep_own (s : Shared) (pc : Pc) (x : Id) :
    (ids (tstep s pc).1.map).count x + (tstep s pc).2.1.held.count x ≤ (ids s.map).count x + (held pc).count x := by
  cases pc with
  | add4 o =>
    have := count_ids_insert_le s.map o x
    simp only [tstep, After.held, held, List.count_cons, List.count_nil, beq_iff_eq] at *
    by_cases h : o.id = x <;> simp [h] at * <;> omega
  | amIns new =>
    have := count_ids_insert_le s.map new x
    simp only [tstep, After.held, held, List.count_cons, List.count_nil, beq_iff_eq] at *
    by_cases h : new.id = x <;> simp [h] at * <;> omega
  | mIns L u =>
    have := count_ids_insert_le s.map u x
    simp only [tstep, After.held, held, List.count_cons, beq_iff_eq] at *
    by_cases h : u.id = x <;> simp [h] at * <;> omega
  | fIns L u rest =>
    have := count_ids_insert_le s.map u x
    simp only [tstep, After.held, held, List.count_cons, beq_iff_eq] at *
    by_cases h : u.id = x <;> simp [h] at * <;> omega
  | can0 id =>
    simp only [tstep]
    cases hf : s.map.find id with
    | none => simp [After.held, held]
    | some o => have := count_ids_erase_le s.map id x; simp [After.held, held]; omega
  | am0 id n => simp only [tstep]; cases s.map.find id <;> simp [After.held, held]
  | am1 id n =>
    simp only [tstep]
    cases hf : s.map.find id with
    | none => simp [After.held, held]
    | some o1 =>
      have := count_ids_erase_found hf x
      have hid : (o1.withReduced n).id = id := by
        unfold Order.withReduced; split <;> exact (find_some hf).2
      simp only [After.held]
      split <;> (try split) <;> simp only [held, hid, List.count_cons, List.count_nil, beq_iff_eq] <;>
        (by_cases h : id = x <;> simp [h] at * <;> omega)
  | amV o1 new => simp only [tstep]; split <;> (simp only [After.held]; split <;> simp [held])
  | amH o1 new => simp only [tstep]; split <;> simp [After.held, held]
  | mPop L =>
    simp only [tstep]
    cases s.tickets with
    | nil => cases ha : L.aside <;> simp [After.held, held, ha]
    | cons t ts => simp [After.held, held]
  | mRm L t =>
    simp only [tstep]
    cases hf : s.map.find t with
    | none => simp [After.held, held]
    | some o =>
      have := count_ids_erase_found hf x
      have ho : o.id = t := (find_some hf).2
      simp only [After.held]
      split <;> simp only [held, ho, List.count_cons, beq_iff_eq] <;>
        (by_cases h : t = x <;> simp [h] at * <;> omega)
  | mSt4 L o =>
    simp only [tstep]
    split
    · simp [After.held, held]
    · have := afterStats_held L o x; simp only [held]; omega
  | mSt5 L o => have := afterStats_held L o x; simp only [tstep, held]; omega
  | mTk L u => simp only [tstep, afterVisit_held, held]; omega
  | mCnt L o =>
    simp only [tstep]
    split
    · simp [After.held, held]
    · simp only [afterVisit_held, held]; omega
  | mHLeft L o => simp only [tstep, afterVisit_held, held]; omega
  | fTk L u rest => simp only [tstep]; cases rest <;> simp [After.held, held]
  | _ => simp [tstep, After.held, held]

end PLV.Conc

/-
  Helper lemmas: every way of building a level from a list of orders establishes `Level.Inv`
  and derives the aggregates from the orders.
-/
import PLV.Lemmas.LevelInv

namespace PLV

theorem sadd_eq {a b : Nat} (h : a + b < W) : sadd a b = a + b := by simp [sadd, h]

def sumF (f : Order → Nat) : List Order → Nat
  | [] => 0
  | o :: rest => f o + sumF f rest

theorem sumF_vis (os : List Order) : sumF Order.vis os = sumVis os := by
  induction os with
  | nil => rfl
  | cons o rest ih => simp [sumF, sumVis, ih]

theorem sumF_hid (os : List Order) : sumF Order.hid os = sumHid os := by
  induction os with
  | nil => rfl
  | cons o rest ih => simp [sumF, sumHid, ih]

theorem foldl_sadd (f : Order → Nat) (os : List Order) :
    ∀ acc, acc + sumF f os < W → os.foldl (fun acc o => sadd acc (f o)) acc = acc + sumF f os := by
  induction os with
  | nil => intro acc _; simp [sumF]
  | cons o rest ih =>
    intro acc h
    simp only [List.foldl, sumF] at *
    rw [sadd_eq (by omega), ih _ (by omega)]; omega

/-- `refresh_aggregates` computes the true sums whenever they fit in 64 bits -/
theorem satFold_eq (f : Order → Nat) (os : List Order) (h : sumF f os < W) : satFold f os = sumF f os := by
  unfold satFold; rw [foldl_sadd f os 0 (by omega)]; omega

/-- pushing a list of fresh orders one by one -/
theorem foldl_push_spec (os : List Order) :
    ∀ (q : Q), (ids q.map).Nodup → (ids os).Nodup → (∀ x ∈ ids os, x ∉ ids q.map) →
      (∀ x ∈ ids q.map, x ∈ q.tickets) →
      (ids (os.foldl Q.push q).map).Nodup ∧
      (∀ x ∈ ids (os.foldl Q.push q).map, x ∈ (os.foldl Q.push q).tickets) ∧
      sumVis (os.foldl Q.push q).map = sumVis q.map + sumVis os ∧
      sumHid (os.foldl Q.push q).map = sumHid q.map + sumHid os ∧
      (os.foldl Q.push q).map.length = q.map.length + os.length ∧
      (∀ x, x ∈ ids (os.foldl Q.push q).map ↔ x ∈ ids q.map ∨ x ∈ ids os) := by
  induction os with
  | nil => intro q hn _ _ hc; simp [sumVis, sumHid, hn]; exact hc
  | cons o rest ih =>
    intro q hn ho hd hc
    simp at ho
    have hfresh : o.id ∉ ids q.map := hd o.id (by simp)
    have hs := sum_insert_fresh hfresh
    have := ih (q.push o) (nodup_insert _ hn) ho.2
      (by
        intro x hx hm
        rcases ids_insert.1 hm with hm | rfl
        · exact hd x (by simp [hx]) hm
        · exact ho.1 hx)
      (by
        intro x hx
        rcases ids_insert.1 hx with hx | rfl
        · exact List.mem_append_left _ (hc x hx)
        · simp [Q.push])
    simp only [List.foldl]
    refine ⟨this.1, this.2.1, ?_, ?_, ?_, ?_⟩
    · rw [this.2.2.1]; simp [Q.push, sumVis]; omega
    · rw [this.2.2.2.1]; simp [Q.push, sumHid]; omega
    · rw [this.2.2.2.2.1]; simp [Q.push]; omega
    · intro x; rw [this.2.2.2.2.2 x]; simp only [Q.push, ids_cons, List.mem_cons]
      constructor
      · rintro (h | h)
        · rcases ids_insert.1 h with h | h
          · exact Or.inl h
          · exact Or.inr (Or.inl h)
        · exact Or.inr (Or.inr h)
      · rintro (h | h | h)
        · exact Or.inl (ids_insert.2 (Or.inl h))
        · exact Or.inl (ids_insert.2 (Or.inr h))
        · exact Or.inr h

/-- what a snapshot must satisfy for the level rebuilt from it to be well-formed: distinct ids and
    sums that fit in 64 bits. Nothing is asked of the aggregate figures it carries. -/
structure Snapshot.Good (s : Snapshot) : Prop where
  nodup : (ids s.orders).Nodup
  fits : sumVis s.orders + sumHid s.orders < W
  cfits : s.orders.length < W

theorem Level.fromSnapshot_fields (s : Snapshot) (h : s.Good) :
    (Level.fromSnapshot s).price = s.price ∧
    (Level.fromSnapshot s).vis = sumVis s.orders ∧ (Level.fromSnapshot s).hid = sumHid s.orders ∧
    (Level.fromSnapshot s).cnt = s.orders.length ∧
    (Level.fromSnapshot s).map = (Q.fromVec s.orders).map ∧
    (Level.fromSnapshot s).tickets = (Q.fromVec s.orders).tickets := by
  have hf := h.fits
  simp only [Level.fromSnapshot, Snapshot.refresh]
  rw [satFold_eq _ _ (by rw [sumF_vis]; omega), satFold_eq _ _ (by rw [sumF_hid]; omega), sumF_vis, sumF_hid]
  simp

theorem Level.fromSnapshot_inv (s : Snapshot) (h : s.Good) : (Level.fromSnapshot s).Inv := by
  obtain ⟨_, e1, e2, e3, e4, e5⟩ := Level.fromSnapshot_fields s h
  have hp := foldl_push_spec s.orders {} (by simp) h.nodup (by simp) (by simp)
  have hf := h.fits; have hc := h.cfits
  unfold Q.fromVec at e4 e5
  refine ⟨?_, ?_, ?_, ?_, ?_, ?_, ?_⟩
  · rw [e4]; exact hp.1
  · rw [e4, e5]; exact hp.2.1
  · rw [e1, e4, hp.2.2.1]; simp [sumVis]
  · rw [e2, e4, hp.2.2.2.1]; simp [sumHid]
  · rw [e3, e4, hp.2.2.2.2.1]; simp
  · rw [e4, hp.2.2.1, hp.2.2.2.1]; simp [sumVis, sumHid]; omega
  · rw [e4, hp.2.2.2.2.1]; simp; omega

/-- adding a list of fresh orders one by one (`TryFrom<PriceLevelData>`, serde, text) -/
theorem foldl_add_inv (os : List Order) :
    ∀ (l : Level), l.Inv → (ids os).Nodup → (∀ x ∈ ids os, x ∉ ids l.map) →
      sumVis l.map + sumHid l.map + sumVis os + sumHid os < W → l.map.length + os.length < W →
      (os.foldl Level.addOrder l).Inv ∧
      (∀ x, x ∈ ids (os.foldl Level.addOrder l).map ↔ x ∈ ids l.map ∨ x ∈ ids os) ∧
      sumVis (os.foldl Level.addOrder l).map = sumVis l.map + sumVis os ∧
      sumHid (os.foldl Level.addOrder l).map = sumHid l.map + sumHid os ∧
      (os.foldl Level.addOrder l).map.length = l.map.length + os.length ∧
      (os.foldl Level.addOrder l).price = l.price := by
  induction os with
  | nil => intro l h _ _ _ _; simp [sumVis, sumHid, h]
  | cons o rest ih =>
    intro l h ho hd hf hc
    simp at ho
    simp only [sumVis, sumHid, List.length_cons] at hf hc
    have hfresh : o.id ∉ ids l.map := hd o.id (by simp)
    have hs := sum_insert_fresh hfresh
    have hadm : Adm l (.add o) := ⟨find_none.2 hfresh, by omega, by omega⟩
    have hmap : (l.addOrder o).map = l.map.insert o := rfl
    have := ih (l.addOrder o) (h.addOrder_inv hadm) ho.2
      (by
        intro x hx hm
        rw [hmap] at hm
        rcases ids_insert.1 hm with hm | rfl
        · exact hd x (by simp [hx]) hm
        · exact ho.1 hx)
      (by rw [hmap]; omega) (by rw [hmap]; omega)
    simp only [List.foldl]
    refine ⟨this.1, ?_, ?_, ?_, ?_, ?_⟩
    · intro x; rw [this.2.1 x, hmap]; simp only [ids_cons, List.mem_cons]
      constructor
      · rintro (h | h)
        · rcases ids_insert.1 h with h | h
          · exact Or.inl h
          · exact Or.inr (Or.inl h)
        · exact Or.inr (Or.inr h)
      · rintro (h | h | h)
        · exact Or.inl (ids_insert.2 (Or.inl h))
        · exact Or.inl (ids_insert.2 (Or.inr h))
        · exact Or.inr h
    · rw [this.2.2.1, hmap]; simp [sumVis]; omega
    · rw [this.2.2.2.1, hmap]; simp [sumHid]; omega
    · rw [this.2.2.2.2.1, hmap]; simp; omega
    · rw [this.2.2.2.2.2]; rfl

theorem Level.fromOrders_inv (p : Nat) (os : List Order) (hn : (ids os).Nodup)
    (hf : sumVis os + sumHid os < W) (hc : os.length < W) :
    (Level.fromOrders p os).Inv ∧ (Level.fromOrders p os).price = p ∧
      (∀ x, x ∈ ids (Level.fromOrders p os).map ↔ x ∈ ids os) := by
  have := foldl_add_inv os (Level.new p) (Level.inv_new p) hn (by simp [Level.new])
    (by simp [Level.new, sumVis, sumHid]; omega) (by simp [Level.new]; omega)
  refine ⟨this.1, ?_, ?_⟩
  · unfold Level.fromOrders; rw [this.2.2.2.2.2]; rfl
  · intro x; unfold Level.fromOrders; rw [this.2.1 x]; simp [Level.new]

end PLV

/-
  Helper lemmas for C15: the statistics counters follow the events, over the loop of `match_order`
  and over histories.
-/
import PLV.Lemmas.Lifetime

namespace PLV

structure StatsInv (price : Nat) (s0 : Stats) (m : OMap) (a : Acc) : Prop where
  prices : ∀ x ∈ m, x.price = price
  asidePrices : ∀ x ∈ a.aside, x.price = price
  added : a.stats.added = s0.added
  removed : a.stats.removed = s0.removed
  qty : a.stats.qty = (s0.qty + sumQty a.txs) % W
  value : a.stats.value = (s0.value + price * sumQty a.txs) % W

theorem visit_stats (a : Acc) (p : Nat) (t : Id) (o : Order) (r : MatchOut) :
    (a.visit p t o r).stats = a.stats.recordExec r.consumed o.price := by
  unfold Acc.visit; split <;> rfl

theorem StatsInv.visit {price s0 m a} (t : Id) (o : Order) (rem : Nat) (hi : StatsInv price s0 m a) (hom : o ∈ m) :
    (a.visit price t o (matchAgainst o rem)).stats.added = s0.added ∧
    (a.visit price t o (matchAgainst o rem)).stats.removed = s0.removed ∧
    (a.visit price t o (matchAgainst o rem)).stats.qty =
      (s0.qty + sumQty (a.visit price t o (matchAgainst o rem)).txs) % W ∧
    (a.visit price t o (matchAgainst o rem)).stats.value =
      (s0.value + price * sumQty (a.visit price t o (matchAgainst o rem)).txs) % W := by
  have hp := hi.prices o hom
  rw [visit_stats, sumQty_visit]
  simp only [Stats.recordExec, wadd, hi.added, hi.removed, hi.qty, hi.value, hp]
  refine ⟨trivial, trivial, ?_, ?_⟩
  · rw [Nat.mod_add_mod]; congr 1; omega
  · rw [Nat.add_mod_mod, Nat.mod_add_mod]; congr 1
    rw [Nat.mul_add, Nat.mul_comm (matchAgainst o rem).consumed price]; omega

theorem matchLoop_stats (price : Nat) (taker : Id) (s0 : Stats) (rem : Nat) (m : OMap) (ts : List Id)
    (a : Acc) (h : StatsInv price s0 m a) :
    let res := matchLoop price taker rem m ts a
    StatsInv price s0 res.2.1 res.2.2.2 := by
  refine matchLoop_ind price taker (fun _ m _ a => StatsInv price s0 m a) ?_ ?_ ?_ ?_ rem m ts a h
  · intro rem m ts a _ _ h; exact h
  · intro rem m ts a o m' ts' u _ hp hu _ hi
    obtain ⟨hf, rfl, _, _⟩ := popLive_spec hp
    have hv := hi.visit taker o rem (find_some hf).1
    have hom := (find_some hf).1
    refine ⟨fun x hx => hi.prices x (mem_erase.1 hx).1, ?_, by simpa using hv.1, by simpa using hv.2.1,
      by simpa using hv.2.2.1, by simpa using hv.2.2.2⟩
    intro x hx
    simp at hx
    rcases hx with hx | rfl
    · exact hi.asidePrices x hx
    · rw [(ma_stay_fields o x rem hu).2.1]; exact hi.prices o hom
  · intro rem m ts a o m' ts' u _ hp hu _ hi
    obtain ⟨hf, rfl, _, _⟩ := popLive_spec hp
    have hom := (find_some hf).1
    have hv := hi.visit taker o rem hom
    refine ⟨?_, by simpa using hi.asidePrices, by simpa using hv.1, by simpa using hv.2.1, by simpa using hv.2.2.1, by simpa using hv.2.2.2⟩
    intro x hx
    rcases mem_insert.1 hx with hx | rfl
    · exact hi.prices x (mem_erase.1 hx.1).1
    · rw [(ma_stay_fields o x rem hu).2.1]; exact hi.prices o hom
  · intro rem m ts a o m' ts' _ hp hu hi
    obtain ⟨hf, rfl, _, _⟩ := popLive_spec hp
    have hv := hi.visit taker o rem (find_some hf).1
    exact ⟨fun x hx => hi.prices x (mem_erase.1 hx).1, by simpa using hi.asidePrices, by simpa using hv.1,
      by simpa using hv.2.1, by simpa using hv.2.2.1, by simpa using hv.2.2.2⟩

/-- every order of the level carries the level's price (what an order book guarantees) -/
def Level.PriceOk (l : Level) : Prop := ∀ x ∈ l.map, x.price = l.price

end PLV

namespace PLV

/-- a price move / cancel (as opposed to a same-price amend) -/
def Update.isRemoval (price : Nat) : Update → Bool
  | .cancel _ => true
  | .price _ p => p != price
  | .priceQty _ p _ => p != price
  | .replace _ p _ _ => p != price
  | .quantity _ _ => false

/-- the events of one operation as an observer counts them from the call's result -/
structure Events where
  adds    : Nat := 0
  removed : Nat := 0
  exec    : Nat := 0
  deriving Repr

def eventsOfStep (price : Nat) (op : Op) (out : Out) : Events :=
  match op, out with
  | .add _, _ => { adds := 1 }
  | .matchQ _ _, .matched r => { exec := sumQty r.txs }
  | .update u, .updated (.ok (some _)) => if u.isRemoval price then { removed := 1 } else {}
  | _, _ => {}

def eventsOver (s : Sys) : List Op → Events
  | [] => {}
  | op :: rest =>
    let e := eventsOfStep s.lvl.price op (s.step op).2
    let e' := eventsOver (s.step op).1 rest
    { adds := e.adds + e'.adds, removed := e.removed + e'.removed, exec := e.exec + e'.exec }

/-- admissibility for C15: additionally every added order carries the level's price -/
def AdmP (l : Level) (op : Op) : Prop :=
  Adm l op ∧ (match op with | .add o => o.price = l.price | _ => True)

def AdmAllP (s : Sys) : List Op → Prop
  | [] => True
  | op :: rest => AdmP s.lvl op ∧ AdmAllP (s.step op).1 rest

/-- the four counters after a step, modulo 2^64 -/
structure StatsFollow (price : Nat) (s0 s1 : Stats) (e : Events) : Prop where
  added : s1.added = (s0.added + e.adds) % W
  removed : s1.removed = (s0.removed + e.removed) % W
  qty : s1.qty = (s0.qty + e.exec) % W
  value : s1.value = (s0.value + price * e.exec) % W

structure StatsOk (s : Stats) : Prop where
  a : s.added < W
  r : s.removed < W
  q : s.qty < W
  v : s.value < W

theorem withReduced_price (o : Order) (n : Nat) : (o.withReduced n).price = o.price := by
  unfold Order.withReduced; split <;> rfl

theorem Level.finishMatch_stats (l : Level) (t : Id) (res : Nat × OMap × List Id × Acc) (s0 : Stats)
    (hok : StatsOk s0) (hi : StatsInv l.price s0 res.2.1 res.2.2.2) :
    (l.finishMatch t res).1.PriceOk ∧ (l.finishMatch t res).1.price = l.price ∧
      StatsFollow l.price s0 (l.finishMatch t res).1.stats { exec := sumQty (l.finishMatch t res).2.1.txs } := by
  obtain ⟨rem, m, ts, a⟩ := res
  simp only at hi
  simp only [Level.finishMatch]
  refine ⟨?_, trivial, ?_⟩
  · intro x hx
    rcases requeueAside_mem a.aside m ts x hx with h | h
    · exact hi.prices x h
    · exact hi.asidePrices x h
  · exact ⟨by simp [hi.added, Nat.mod_eq_of_lt hok.a], by simp [hi.removed, Nat.mod_eq_of_lt hok.r],
      by simp [hi.qty], by simp [hi.value]⟩

theorem Sys.step_stats {s : Sys} (hinv : s.lvl.Inv) (hp : s.lvl.PriceOk) (hok : StatsOk s.lvl.stats) (op : Op)
    (ha : AdmP s.lvl op) :
    (s.step op).1.lvl.PriceOk ∧ (s.step op).1.lvl.price = s.lvl.price ∧ StatsOk (s.step op).1.lvl.stats ∧
      StatsFollow s.lvl.price s.lvl.stats (s.step op).1.lvl.stats (eventsOfStep s.lvl.price op (s.step op).2) := by
  have ha' := hok.a; have hr' := hok.r; have hq' := hok.q; have hv' := hok.v
  cases op with
  | add o =>
    have hprice : o.price = s.lvl.price := ha.2
    refine ⟨?_, rfl, ?_, ?_⟩
    · intro x hx
      rcases mem_insert.1 hx with hx | rfl
      · exact hp x hx.1
      · exact hprice
    · exact ⟨Nat.mod_lt _ (by decide), hr', hq', hv'⟩
    · exact ⟨rfl, by simp [Sys.step, Level.addOrder, eventsOfStep, Nat.mod_eq_of_lt hr'],
        by simp [Sys.step, Level.addOrder, eventsOfStep, Nat.mod_eq_of_lt hq'],
        by simp [Sys.step, Level.addOrder, eventsOfStep, Nat.mod_eq_of_lt hv']⟩
  | matchQ q t =>
    have h0 : StatsInv s.lvl.price s.lvl.stats s.lvl.map
        { vis := s.lvl.vis, hid := s.lvl.hid, cnt := s.lvl.cnt, stats := s.lvl.stats, g := s.g } :=
      ⟨hp, by simp, rfl, rfl, by simp [sumQty, Nat.mod_eq_of_lt hq'], by simp [sumQty, Nat.mod_eq_of_lt hv']⟩
    have hl := matchLoop_stats s.lvl.price t s.lvl.stats q s.lvl.map s.lvl.tickets _ h0
    have := Level.finishMatch_stats s.lvl t _ s.lvl.stats hok hl
    refine ⟨this.1, this.2.1, ?_, ?_⟩
    · have hf := this.2.2
      exact ⟨by rw [show (s.step (.matchQ q t)).1.lvl.stats.added = _ from hf.added]; exact Nat.mod_lt _ (by decide),
        by rw [show (s.step (.matchQ q t)).1.lvl.stats.removed = _ from hf.removed]; exact Nat.mod_lt _ (by decide),
        by rw [show (s.step (.matchQ q t)).1.lvl.stats.qty = _ from hf.qty]; exact Nat.mod_lt _ (by decide),
        by rw [show (s.step (.matchQ q t)).1.lvl.stats.value = _ from hf.value]; exact Nat.mod_lt _ (by decide)⟩
    · exact this.2.2
  | read =>
    exact ⟨hp, rfl, hok, by simp [Sys.step, eventsOfStep, Nat.mod_eq_of_lt ha'],
      by simp [Sys.step, eventsOfStep, Nat.mod_eq_of_lt hr'], by simp [Sys.step, eventsOfStep, Nat.mod_eq_of_lt hq'],
      by simp [Sys.step, eventsOfStep, Nat.mod_eq_of_lt hv']⟩
  | update u =>
    -- every update is either the removal body or the amend body or the same-price rejection
    have hrem : ∀ id, (s.lvl.removeOrder id).1.PriceOk ∧ (s.lvl.removeOrder id).1.price = s.lvl.price ∧
        StatsOk (s.lvl.removeOrder id).1.stats ∧
        StatsFollow s.lvl.price s.lvl.stats (s.lvl.removeOrder id).1.stats
          (match (s.lvl.removeOrder id).2 with | .ok (some _) => { removed := 1 } | _ => {}) := by
      intro id
      cases hf : s.lvl.map.find id with
      | none =>
        rw [Level.removeOrder_none hf]
        exact ⟨hp, rfl, hok, by simp [Nat.mod_eq_of_lt ha'], by simp [Nat.mod_eq_of_lt hr'],
          by simp [Nat.mod_eq_of_lt hq'], by simp [Nat.mod_eq_of_lt hv']⟩
      | some o =>
        obtain ⟨e0, e1, _, _, _, _, e6, e7⟩ := Level.removeOrder_some hf
        refine ⟨?_, e6, ?_, ?_⟩
        · intro x hx; rw [e1] at hx; rw [e6]; exact hp x (mem_erase.1 hx).1
        · rw [e7]; exact ⟨ha', Nat.mod_lt _ (by decide), hq', hv'⟩
        · rw [e0, e7]
          exact ⟨by simp [Nat.mod_eq_of_lt ha'], rfl, by simp [Nat.mod_eq_of_lt hq'], by simp [Nat.mod_eq_of_lt hv']⟩
    have ham : ∀ id n, (s.lvl.amend id n).1.PriceOk ∧ (s.lvl.amend id n).1.price = s.lvl.price ∧
        (s.lvl.amend id n).1.stats = s.lvl.stats := by
      intro id n
      cases hf : s.lvl.map.find id with
      | none => rw [Level.amend_none hf]; exact ⟨hp, rfl, rfl⟩
      | some old =>
        obtain ⟨_, e1, _, _, _, _, e6, e7⟩ := Level.amend_some (n := n) hf
        refine ⟨?_, e6, e7⟩
        intro x hx; rw [e1] at hx; rw [e6]
        rcases mem_insert.1 hx with hx | rfl
        · exact hp x (mem_erase.1 hx.1).1
        · rw [withReduced_price]; exact hp old (find_some hf).1
    have hsame : StatsFollow s.lvl.price s.lvl.stats s.lvl.stats {} :=
      ⟨by simp [Nat.mod_eq_of_lt ha'], by simp [Nat.mod_eq_of_lt hr'], by simp [Nat.mod_eq_of_lt hq'],
        by simp [Nat.mod_eq_of_lt hv']⟩
    have remcase : ∀ id, (u.isRemoval s.lvl.price = true) → s.lvl.update u = s.lvl.removeOrder id →
        (s.step (.update u)).1.lvl.PriceOk ∧ (s.step (.update u)).1.lvl.price = s.lvl.price ∧
        StatsOk (s.step (.update u)).1.lvl.stats ∧
        StatsFollow s.lvl.price s.lvl.stats (s.step (.update u)).1.lvl.stats
          (eventsOfStep s.lvl.price (.update u) (s.step (.update u)).2) := by
      intro id hr he
      have := hrem id
      simp only [Sys.step, he, eventsOfStep]
      refine ⟨this.1, this.2.1, this.2.2.1, ?_⟩
      have hf := this.2.2.2
      cases hout : (s.lvl.removeOrder id).2 with
      | errSamePrice => simpa [hout] using hf
      | ok oo => cases oo with
        | none => simpa [hout] using hf
        | some o => simpa [hout, hr] using hf
    have amcase : ∀ id n, (u.isRemoval s.lvl.price = false) → s.lvl.update u = s.lvl.amend id n →
        (s.step (.update u)).1.lvl.PriceOk ∧ (s.step (.update u)).1.lvl.price = s.lvl.price ∧
        StatsOk (s.step (.update u)).1.lvl.stats ∧
        StatsFollow s.lvl.price s.lvl.stats (s.step (.update u)).1.lvl.stats
          (eventsOfStep s.lvl.price (.update u) (s.step (.update u)).2) := by
      intro id n hr he
      have := ham id n
      simp only [Sys.step, he, eventsOfStep]
      refine ⟨this.1, this.2.1, by rw [this.2.2]; exact hok, ?_⟩
      rw [this.2.2]
      cases hout : (s.lvl.amend id n).2 with
      | errSamePrice => simpa using hsame
      | ok oo => cases oo with
        | none => simpa using hsame
        | some o => simpa [hr] using hsame
    cases u with
    | cancel id => exact remcase id rfl rfl
    | quantity id n => exact amcase id n rfl rfl
    | price id p =>
      by_cases hpne : p ≠ s.lvl.price
      · exact remcase id (by simp [Update.isRemoval, hpne]) (by simp [Level.update, hpne])
      · have : s.lvl.update (.price id p) = (s.lvl, .errSamePrice) := by simp [Level.update, hpne]
        simp only [Sys.step, this, eventsOfStep]
        exact ⟨hp, trivial, hok, hsame⟩
    | priceQty id p n =>
      by_cases hpne : p ≠ s.lvl.price
      · exact remcase id (by simp [Update.isRemoval, hpne]) (by simp [Level.update, hpne])
      · exact amcase id n (by simp at hpne; simp [Update.isRemoval, hpne]) (by simp [Level.update, hpne])
    | replace id p n sd =>
      by_cases hpne : p ≠ s.lvl.price
      · exact remcase id (by simp [Update.isRemoval, hpne]) (by simp [Level.update, hpne])
      · exact amcase id n (by simp at hpne; simp [Update.isRemoval, hpne]) (by simp [Level.update, hpne])

end PLV

/-
  From a well-formed sequential level and an admissible program to the concurrent invariant, and
  what the invariant says once every thread has returned (helper lemmas for C03 / C08 / C12).
-/
import PLV.Lemmas.ConcBound
import PLV.Lemmas.LevelInv

namespace PLV.Conc
open PLV

/-- the shared state a concurrent execution starts from -/
def Shared.ofLevel (l : Level) (g : Nat) : Shared :=
  { price := l.price, vis := l.vis, hid := l.hid, cnt := l.cnt, map := l.map, tickets := l.tickets, stats := l.stats, g := g }

def Cfg.init (l : Level) (g : Nat) (progs : List (List COp)) : Cfg :=
  { sh := Shared.ofLevel l g, ts := progs.map (fun ops => { todo := ops }) }

/-- ids the program's adds will bring -/
def progIds (progs : List (List COp)) : List Id := progs.flatMap (fun ops => ops.flatMap opHeld)

/-- admissibility of a program on a level (the properties' quantifier): the adds use ids not
    otherwise present, every match asks for at least 1, and everything supplied fits in 64 bits -/
structure ProgAdm (l : Level) (progs : List (List COp)) : Prop where
  fresh : (ids l.map ++ progIds progs).Nodup
  ok : ∀ ops ∈ progs, ∀ op ∈ ops, OpOk op

/-- total quantity / number of orders the program can ever supply, on top of what rests -/
def supplyQ (l : Level) (progs : List (List COp)) : Nat :=
  sumVis l.map + sumHid l.map + sumT (fun t => sumOps opPend t.todo) (progs.map (fun ops => ({ todo := ops } : Thread)))
def supplyC (l : Level) (progs : List (List COp)) : Nat :=
  l.map.length + sumT (fun t => sumOps opPendC t.todo) (progs.map (fun ops => ({ todo := ops } : Thread)))

theorem sumT_zero {f : Thread → Nat} (ts : List Thread) (h : ∀ t ∈ ts, f t = 0) : sumT f ts = 0 := by
  induction ts with
  | nil => rfl
  | cons t rest ih =>
    simp only [sumT, h t (by simp), ih (fun t' ht' => h t' (by simp [ht']))]

theorem sumT_congr {f g : Thread → Nat} (ts : List Thread) (h : ∀ t ∈ ts, f t = g t) : sumT f ts = sumT g ts := by
  induction ts with
  | nil => rfl
  | cons t rest ih =>
    simp only [sumT, h t (by simp), ih (fun t' ht' => h t' (by simp [ht']))]

theorem count_flatMap_threads (x : Id) (progs : List (List COp)) :
    sumT (fun t => (theld t).count x) (progs.map (fun ops => ({ todo := ops } : Thread))) = (progIds progs).count x := by
  induction progs with
  | nil => rfl
  | cons ops rest ih =>
    have h0 : theld ({ todo := ops } : Thread) = ops.flatMap opHeld := by simp [theld, held]
    simp only [List.map_cons, sumT, h0, ih, progIds, List.flatMap_cons, List.count_append]

theorem init_inv {l : Level} (h : l.Inv) (g : Nat) {progs : List (List COp)} (ha : ProgAdm l progs) :
    BInv (supplyQ l progs) (supplyC l progs) (Cfg.init l g progs) := by
  have hidle : ∀ t ∈ progs.map (fun ops => ({ todo := ops } : Thread)), t.pc = .idle := by
    intro t ht; obtain ⟨ops, _, rfl⟩ := List.mem_map.1 ht; rfl
  have z1 : sumT (fun t => cV t.pc) (progs.map (fun ops => ({ todo := ops } : Thread))) = 0 :=
    sumT_zero _ (fun t ht => by rw [hidle t ht]; rfl)
  have z2 : sumT (fun t => cH t.pc) (progs.map (fun ops => ({ todo := ops } : Thread))) = 0 :=
    sumT_zero _ (fun t ht => by rw [hidle t ht]; rfl)
  have z3 : sumT (fun t => cC t.pc) (progs.map (fun ops => ({ todo := ops } : Thread))) = 0 :=
    sumT_zero _ (fun t ht => by rw [hidle t ht]; rfl)
  refine ⟨⟨?_, ?_, ?_, ?_, ?_⟩, ?_, ?_, ?_⟩
  · intro x
    simp only [Cfg.init, Shared.ofLevel]
    rw [count_flatMap_threads]
    have := (List.nodup_iff_count.1 ha.fresh) x
    simpa [List.count_append] using this
  · intro t ht
    obtain ⟨ops, hops, rfl⟩ := List.mem_map.1 ht
    exact ⟨trivial, fun op hop => ha.ok ops hops op hop⟩
  · simp only [Cfg.init, Shared.ofLevel, z1]; rw [h.vis]; rfl
  · simp only [Cfg.init, Shared.ofLevel, z2]; rw [h.hid]; rfl
  · simp only [Cfg.init, Shared.ofLevel, z3]; rw [h.cnt]; rfl
  · simp only [potQ, supplyQ, Cfg.init, Shared.ofLevel]
    have : sumT (fun t => cV t.pc + cH t.pc + tpend t) (progs.map (fun ops => ({ todo := ops } : Thread))) =
        sumT (fun t => sumOps opPend t.todo) (progs.map (fun ops => ({ todo := ops } : Thread))) :=
      sumT_congr _ (fun t ht => by rw [tpend, hidle t ht]; simp [cV, cH, pend])
    omega
  · simp only [potC, supplyC, Cfg.init, Shared.ofLevel]
    have : sumT (fun t => cC t.pc + tpendC t) (progs.map (fun ops => ({ todo := ops } : Thread))) =
        sumT (fun t => sumOps opPendC t.todo) (progs.map (fun ops => ({ todo := ops } : Thread))) :=
      sumT_congr _ (fun t ht => by rw [tpendC, hidle t ht]; simp [cC, pendC])
    omega
  · have := h.vis; have := h.hid; have := h.cnt; have := h.fits; have := h.cfits
    simp only [Cfg.init, Shared.ofLevel]
    refine ⟨by omega, by omega, by omega⟩

/-- once every thread has returned, nobody holds any credit -/
theorem done_credits {c : Cfg} (hd : allDone c = true) :
    sumT (fun t => cV t.pc) c.ts = 0 ∧ sumT (fun t => cH t.pc) c.ts = 0 ∧ sumT (fun t => cC t.pc) c.ts = 0 := by
  have hidle : ∀ t ∈ c.ts, t.pc = .idle := by
    intro t ht
    have := List.all_eq_true.1 hd t ht
    unfold Thread.finished at this
    split at this
    · rename_i h1 _; exact h1
    · simp at this
  exact ⟨sumT_zero _ (fun t ht => by rw [hidle t ht]; rfl), sumT_zero _ (fun t ht => by rw [hidle t ht]; rfl),
    sumT_zero _ (fun t ht => by rw [hidle t ht]; rfl)⟩

end PLV.Conc

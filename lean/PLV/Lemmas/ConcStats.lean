/-
  Statistics under concurrency (helper lemmas for C15): along EVERY schedule the four counters
  equal, modulo 2^64, the events that have happened so far plus/minus what the calls in progress
  have recorded early or still owe.

  Events (what an observer counts): an `add_order` call returns; a cancel returns its order; a
  transaction is created (quantity `q`, maker price `p`: executed quantity `q`, value `q·p`).
-/
import PLV.Lemmas.ConcInit
import PLV.Lemmas.Stats

namespace PLV.Conc
open PLV

structure Ev where
  adds : Nat := 0
  removed : Nat := 0
  qty : Nat := 0
  value : Nat := 0
  deriving Repr, Inhabited, DecidableEq

def Ev.plus (a b : Ev) : Ev := ⟨a.adds + b.adds, a.removed + b.removed, a.qty + b.qty, a.value + b.value⟩

/-- the event that happens at the step a thread takes from `pc` -/
def evAt : Pc → Ev
  | .add5 _ => { adds := 1 }
  | .can4 _ => { removed := 1 }
  | .mUuid L o => { qty := (matchAgainst o L.rem).consumed, value := (matchAgainst o L.rem).consumed * o.price }
  | _ => {}

/-- `orders_added` already bumped although the add has not returned yet -/
def owedA : Pc → Nat
  | .add4 _ | .add5 _ => 1
  | _ => 0

/-- a transaction exists whose quantity is not recorded yet -/
def dueQ : Pc → Nat
  | .mSt1 L o | .mSt2 L o => (matchAgainst o L.rem).consumed
  | _ => 0

/-- a transaction exists whose value is not recorded yet -/
def dueV : Pc → Nat
  | .mSt1 L o | .mSt2 L o | .mSt3 L o => (matchAgainst o L.rem).consumed * o.price
  | _ => 0

def After.owedA : After → Nat | .cont pc => Conc.owedA pc | .done _ => 0
def After.dueQ : After → Nat | .cont pc => Conc.dueQ pc | .done _ => 0
def After.dueV : After → Nat | .cont pc => Conc.dueV pc | .done _ => 0

theorem aO_c (pc : Pc) : (After.cont pc).owedA = owedA pc := rfl
theorem aO_d (r : String) : (After.done r).owedA = 0 := rfl
theorem aQ_c (pc : Pc) : (After.cont pc).dueQ = dueQ pc := rfl
theorem aQ_d (r : String) : (After.done r).dueQ = 0 := rfl
theorem aV_c (pc : Pc) : (After.cont pc).dueV = dueV pc := rfl
theorem aV_d (r : String) : (After.done r).dueV = 0 := rfl

theorem owedA_ite (c : Prop) [Decidable c] (a b : Pc) : owedA (if c then a else b) = if c then owedA a else owedA b := apply_ite _ _ _ _
theorem dueQ_ite (c : Prop) [Decidable c] (a b : Pc) : dueQ (if c then a else b) = if c then dueQ a else dueQ b := apply_ite _ _ _ _
theorem dueV_ite (c : Prop) [Decidable c] (a b : Pc) : dueV (if c then a else b) = if c then dueV a else dueV b := apply_ite _ _ _ _
theorem aOwedA_ite (c : Prop) [Decidable c] (a b : After) : (if c then a else b).owedA = if c then a.owedA else b.owedA := apply_ite _ _ _ _
theorem aDueQ_ite (c : Prop) [Decidable c] (a b : After) : (if c then a else b).dueQ = if c then a.dueQ else b.dueQ := apply_ite _ _ _ _
theorem aDueV_ite (c : Prop) [Decidable c] (a b : After) : (if c then a else b).dueV = if c then a.dueV else b.dueV := apply_ite _ _ _ _

theorem afterVisit_zero (L : MLoc) : (afterVisit L).owedA = 0 ∧ (afterVisit L).dueQ = 0 ∧ (afterVisit L).dueV = 0 := by
  unfold afterVisit
  split
  · split <;> simp [After.owedA, After.dueQ, After.dueV, owedA, dueQ, dueV]
  · simp [After.owedA, After.dueQ, After.dueV, owedA, dueQ, dueV]

theorem afterStats_zero (L : MLoc) (o : Order) :
    (afterStats L o).owedA = 0 ∧ (afterStats L o).dueQ = 0 ∧ (afterStats L o).dueV = 0 := by
  unfold afterStats
  simp only
  split
  · split
    · exact afterVisit_zero _
    · split <;> simp [After.owedA, After.dueQ, After.dueV, owedA, dueQ, dueV]
  · simp [After.owedA, After.dueQ, After.dueV, owedA, dueQ, dueV]

/-- one step, locally: how the counters, the thread's early/owed amounts and the event relate -/
theorem tstep_stats (s : Shared) (pc : Pc) :
    ((tstep s pc).1.stats.added + owedA pc) % W = (s.stats.added + (evAt pc).adds + (tstep s pc).2.1.owedA) % W ∧
    (tstep s pc).1.stats.removed % W = (s.stats.removed + (evAt pc).removed) % W ∧
    ((tstep s pc).1.stats.qty + (tstep s pc).2.1.dueQ) % W = (s.stats.qty + dueQ pc + (evAt pc).qty) % W ∧
    ((tstep s pc).1.stats.value + (tstep s pc).2.1.dueV) % W = (s.stats.value + dueV pc + (evAt pc).value) % W := by
  cases pc
  case can0 id => simp only [tstep]; split <;> simp [owedA, dueQ, dueV, evAt, aO_c, aO_d, aQ_c, aQ_d, aV_c, aV_d]
  case am0 id n => simp only [tstep]; split <;> simp [owedA, dueQ, dueV, evAt, aO_c, aO_d, aQ_c, aQ_d, aV_c, aV_d]
  case am1 id n =>
    simp only [tstep]; split
    · simp [owedA, dueQ, dueV, evAt, aO_c, aO_d, aQ_c, aQ_d, aV_c, aV_d]
    · rename_i o _
      by_cases h1 : o.vis ≠ (o.withReduced n).vis <;> by_cases h2 : o.hid ≠ (o.withReduced n).hid <;>
        simp [h1, h2, owedA, dueQ, dueV, evAt, aO_c, aO_d, aQ_c, aQ_d, aV_c, aV_d]
  case amV o1 new =>
    by_cases hv : new.vis > o1.vis <;> by_cases h2 : o1.hid ≠ new.hid <;>
      simp [tstep, hv, h2, owedA, dueQ, dueV, evAt, aO_c, aO_d, aQ_c, aQ_d, aV_c, aV_d]
  case amH o1 new => simp only [tstep]; split <;> simp [owedA, dueQ, dueV, evAt, aO_c, aO_d, aQ_c, aQ_d, aV_c, aV_d]
  case mPop L =>
    simp only [tstep]; split
    · split <;> simp [owedA, dueQ, dueV, evAt, aO_c, aO_d, aQ_c, aQ_d, aV_c, aV_d]
    · simp [owedA, dueQ, dueV, evAt, aO_c, aO_d, aQ_c, aQ_d, aV_c, aV_d]
  case mRm L t =>
    simp only [tstep]; split
    · simp [owedA, dueQ, dueV, evAt, aO_c, aO_d, aQ_c, aQ_d, aV_c, aV_d]
    · rename_i o _
      by_cases hc : (matchAgainst o L.rem).consumed > 0
      · simp [hc, owedA, dueQ, dueV, evAt, aO_c, aO_d, aQ_c, aQ_d, aV_c, aV_d]
      · have h0 : (matchAgainst o L.rem).consumed = 0 := by omega
        simp [hc, h0, owedA, dueQ, dueV, evAt, aO_c, aO_d, aQ_c, aQ_d, aV_c, aV_d]
  case mSt4 L o =>
    obtain ⟨z1, z2, z3⟩ := afterStats_zero L o
    by_cases h : o.ts > 0 <;> simp [tstep, h, owedA, dueQ, dueV, evAt, aO_c, aO_d, aQ_c, aQ_d, aV_c, aV_d, z1, z2, z3]
  case mSt5 L o =>
    obtain ⟨z1, z2, z3⟩ := afterStats_zero L o
    simp [tstep, owedA, dueQ, dueV, evAt, z1, z2, z3]
  case mTk L u =>
    obtain ⟨z1, z2, z3⟩ := afterVisit_zero L
    simp [tstep, owedA, dueQ, dueV, evAt, z1, z2, z3]
  case mCnt L o =>
    obtain ⟨z1, z2, z3⟩ := afterVisit_zero L
    by_cases h : (o.kind.hasHidden && decide (o.hid > 0)) = true <;>
      simp [tstep, h, owedA, dueQ, dueV, evAt, aO_c, aO_d, aQ_c, aQ_d, aV_c, aV_d, z1, z2, z3]
  case mHLeft L o =>
    obtain ⟨z1, z2, z3⟩ := afterVisit_zero L
    simp [tstep, owedA, dueQ, dueV, evAt, z1, z2, z3]
  case fTk L u rest =>
    simp only [tstep]
    split <;> simp [owedA, dueQ, dueV, evAt, aO_c, aO_d, aQ_c, aQ_d, aV_c, aV_d]
  all_goals
    simp only [tstep, owedA, dueQ, dueV, evAt, aO_c, aO_d, aQ_c, aQ_d, aV_c, aV_d, wadd, Nat.add_zero, Nat.zero_add,
      Nat.mod_mod, Nat.add_mod_mod, Nat.mod_add_mod, and_self]


/-! ### over schedules -/

theorem norm_stats {t tn : Thread} (h : t.norm = some tn) :
    owedA tn.pc = owedA t.pc ∧ dueQ tn.pc = dueQ t.pc ∧ dueV tn.pc = dueV t.pc := by
  unfold Thread.norm at h
  split at h
  · simp at h
  · rename_i op rest hpc htodo
    simp at h; subst h
    rw [hpc]
    cases op <;> simp [start, owedA, dueQ, dueV]
  · simp at h; subst h; exact ⟨rfl, rfl, rfl⟩

theorem after_stats (tn : Thread) (a : After) :
    owedA (tn.after a).pc = a.owedA ∧ dueQ (tn.after a).pc = a.dueQ ∧ dueV (tn.after a).pc = a.dueV := by
  cases a <;> simp [Thread.after, After.owedA, After.dueQ, After.dueV, owedA, dueQ, dueV]

/-- the event of thread `i`'s next step -/
def evStep (c : Cfg) (i : Nat) : Ev :=
  match c.ts[i]? with
  | none => {}
  | some t =>
    match t.norm with
    | none => {}
    | some tn => evAt tn.pc

/-- the events along a schedule -/
def runEv (c : Cfg) : List Nat → Ev
  | [] => {}
  | i :: rest => (evStep c i).plus (runEv (step c i).1 rest)

/-- the statistics invariant: counters = start + events, corrected by what calls in progress have
    recorded early (`owedA`) or still owe (`dueQ`, `dueV`) — all modulo 2^64 -/
structure SInv (s0 : Stats) (c : Cfg) (E : Ev) : Prop where
  added : c.sh.stats.added % W = (s0.added + E.adds + sumT (fun t => owedA t.pc) c.ts) % W
  removed : c.sh.stats.removed % W = (s0.removed + E.removed) % W
  qty : (c.sh.stats.qty + sumT (fun t => dueQ t.pc) c.ts) % W = (s0.qty + E.qty) % W
  value : (c.sh.stats.value + sumT (fun t => dueV t.pc) c.ts) % W = (s0.value + E.value) % W

theorem SInv.step {s0 : Stats} {c : Cfg} {E : Ev} (h : SInv s0 c E) (i : Nat) :
    SInv s0 (Conc.step c i).1 (E.plus (evStep c i)) := by
  unfold Conc.step evStep
  cases hti : c.ts[i]? with
  | none => simpa [Ev.plus] using h
  | some t =>
    simp only
    cases hn : t.norm with
    | none => simpa [Ev.plus] using h
    | some tn =>
      simp only
      obtain ⟨n1, n2, n3⟩ := norm_stats hn
      obtain ⟨l1, l2, l3, l4⟩ := tstep_stats c.sh tn.pc
      obtain ⟨a1, a2, a3⟩ := after_stats tn (tstep c.sh tn.pc).2.1
      have s1 := sumT_set (fun t => owedA t.pc) c.ts i t (tn.after (tstep c.sh tn.pc).2.1) hti
      have s2 := sumT_set (fun t => dueQ t.pc) c.ts i t (tn.after (tstep c.sh tn.pc).2.1) hti
      have s3 := sumT_set (fun t => dueV t.pc) c.ts i t (tn.after (tstep c.sh tn.pc).2.1) hti
      simp only [a1, a2, a3] at s1 s2 s3
      rw [n1] at l1; rw [n2] at l3; rw [n3] at l4
      have h1 := h.added; have h2 := h.removed; have h3 := h.qty; have h4 := h.value
      refine ⟨?_, ?_, ?_, ?_⟩ <;> (simp only [Ev.plus]; (try dsimp only); simp only [W] at *; omega)

theorem SInv.run {s0 : Stats} (sched : List Nat) : ∀ {c : Cfg} {E : Ev}, SInv s0 c E →
    SInv s0 (Conc.run c sched) (E.plus (runEv c sched)) := by
  induction sched with
  | nil => intro c E h; simpa [Conc.run, runEv, Ev.plus] using h
  | cons i rest ih =>
    intro c E h
    have := ih (h.step i)
    simpa [Conc.run, runEv, Ev.plus, Nat.add_assoc] using this


/-- the counters stay 64-bit values: every update is a wrapping add -/
theorem tstep_statsOk (s : Shared) (pc : Pc) (h : StatsOk s.stats) : StatsOk (tstep s pc).1.stats := by
  have hw : 0 < W := by simp [W]
  cases pc
  case can0 id => simp only [tstep]; split <;> exact h
  case am0 id n => simp only [tstep]; split <;> exact h
  case am1 id n => simp only [tstep]; split <;> exact h
  case amV o1 new => simp only [tstep]; split <;> exact h
  case amH o1 new => simp only [tstep]; split <;> exact h
  case mPop L => simp only [tstep]; split <;> exact h
  case mRm L t => simp only [tstep]; split <;> exact h
  case add3 o => exact ⟨Nat.mod_lt _ hw, h.r, h.q, h.v⟩
  case can4 o => exact ⟨h.a, Nat.mod_lt _ hw, h.q, h.v⟩
  case mSt1 L o => exact ⟨h.a, h.r, h.q, h.v⟩
  case mSt2 L o => exact ⟨h.a, h.r, Nat.mod_lt _ hw, h.v⟩
  case mSt3 L o => exact ⟨h.a, h.r, h.q, Nat.mod_lt _ hw⟩
  all_goals exact h

theorem statsOk_step {c : Cfg} (h : StatsOk c.sh.stats) (i : Nat) : StatsOk (Conc.step c i).1.sh.stats := by
  unfold Conc.step
  cases c.ts[i]? with
  | none => exact h
  | some t =>
    simp only
    cases t.norm with
    | none => exact h
    | some tn => exact tstep_statsOk c.sh tn.pc h

theorem statsOk_run (sched : List Nat) : ∀ {c : Cfg}, StatsOk c.sh.stats → StatsOk (Conc.run c sched).sh.stats := by
  induction sched with
  | nil => intro c h; exact h
  | cons i rest ih => intro c h; exact ih (statsOk_step h i)

theorem sinv_init (l : Level) (g : Nat) (progs : List (List COp)) : SInv l.stats (Cfg.init l g progs) {} := by
  have hidle : ∀ t ∈ progs.map (fun ops => ({ todo := ops } : Thread)), t.pc = .idle := by
    intro t ht; obtain ⟨ops, _, rfl⟩ := List.mem_map.1 ht; rfl
  have z1 : sumT (fun t => owedA t.pc) (progs.map (fun ops => ({ todo := ops } : Thread))) = 0 :=
    sumT_zero _ (fun t ht => by rw [hidle t ht]; rfl)
  have z2 : sumT (fun t => dueQ t.pc) (progs.map (fun ops => ({ todo := ops } : Thread))) = 0 :=
    sumT_zero _ (fun t ht => by rw [hidle t ht]; rfl)
  have z3 : sumT (fun t => dueV t.pc) (progs.map (fun ops => ({ todo := ops } : Thread))) = 0 :=
    sumT_zero _ (fun t ht => by rw [hidle t ht]; rfl)
  refine ⟨?_, ?_, ?_, ?_⟩ <;> simp [Cfg.init, Shared.ofLevel, z1, z2, z3]

theorem done_stats {c : Cfg} (hd : allDone c = true) :
    sumT (fun t => owedA t.pc) c.ts = 0 ∧ sumT (fun t => dueQ t.pc) c.ts = 0 ∧ sumT (fun t => dueV t.pc) c.ts = 0 := by
  have hidle : ∀ t ∈ c.ts, t.pc = .idle := by
    intro t ht
    have := List.all_eq_true.1 hd t ht
    unfold Thread.finished at this
    split at this
    · rename_i h1 _; exact h1
    · simp at this
  exact ⟨sumT_zero _ (fun t ht => by rw [hidle t ht]; rfl), sumT_zero _ (fun t ht => by rw [hidle t ht]; rfl),
    sumT_zero _ (fun t ht => by rw [hidle t ht]; rfl)⟩

end PLV.Conc

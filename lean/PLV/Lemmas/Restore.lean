/-
  Helper lemmas for C10 / C11: listing, snapshot and rebuild.
-/
import PLV.Lemmas.Construct
import PLV.Lemmas.Queue

namespace PLV

def SortedTs : List Order → Prop
  | [] => True
  | x :: rest => (∀ y ∈ rest, x.ts ≤ y.ts) ∧ SortedTs rest

theorem mem_insertByTs {o x : Order} {l : List Order} : x ∈ insertByTs o l ↔ x = o ∨ x ∈ l :=
  (insertByTs_perm o l).mem_iff.trans List.mem_cons

theorem sorted_insertByTs (o : Order) (l : List Order) (h : SortedTs l) : SortedTs (insertByTs o l) := by
  induction l with
  | nil => simp [insertByTs, SortedTs]
  | cons x xs ih =>
    unfold insertByTs
    split
    · rename_i hlt
      refine ⟨?_, h⟩
      intro y hy
      rcases List.mem_cons.1 hy with rfl | hy
      · omega
      · have := h.1 y hy; omega
    · rename_i hge
      refine ⟨?_, ih h.2⟩
      intro y hy
      rcases mem_insertByTs.1 hy with rfl | hy
      · omega
      · exact h.1 y hy

theorem sorted_sortByTs (l : List Order) : SortedTs (sortByTs l) := by
  induction l with
  | nil => trivial
  | cons x xs ih => exact sorted_insertByTs x _ ih

theorem perm_ids {a b : List Order} (h : a.Perm b) : (ids a).Perm (ids b) := by
  unfold ids; exact h.map _

theorem perm_sums {a b : List Order} (h : a.Perm b) :
    sumVis a = sumVis b ∧ sumHid a = sumHid b ∧ a.length = b.length := by
  induction h with
  | nil => simp
  | cons x _ ih => simp [sumVis, sumHid, ih.1, ih.2.1, ih.2.2]
  | swap x y l => simp [sumVis, sumHid]; omega
  | trans _ _ ih1 ih2 => exact ⟨ih1.1.trans ih2.1, ih1.2.1.trans ih2.2.1, ih1.2.2.trans ih2.2.2⟩

theorem find_perm {a b : OMap} (h : a.Perm b) (hn : (ids a).Nodup) (id : Id) :
    OMap.find a id = OMap.find b id := by
  have hnb : (ids b).Nodup := (perm_ids h).nodup_iff.1 hn
  cases hf : OMap.find a id with
  | none =>
    have : id ∉ ids b := fun hx => find_none.1 hf ((perm_ids h).mem_iff.2 hx)
    exact (find_none.2 this).symm
  | some o =>
    have hm := find_some hf
    have := find_of_mem hnb (h.mem_iff.1 hm.1)
    rw [hm.2] at this; exact this.symm

/-- the snapshot of a well-formed level is a good snapshot -/
theorem Level.Inv.snapshot_good {l : Level} (h : l.Inv) : l.snapshot.Good := by
  have hp := sortByTs_perm l.map
  have hs := perm_sums hp
  refine ⟨(perm_ids hp).nodup_iff.2 h.nodup, ?_, ?_⟩
  · simp only [Level.snapshot, Level.listing]; rw [hs.1, hs.2.1]; exact h.fits
  · simp only [Level.snapshot, Level.listing]; rw [hs.2.2]; exact h.cfits

/-- the map of a level rebuilt from a good snapshot holds exactly the snapshot's orders -/
theorem fromVec_perm (os : List Order) (hn : (ids os).Nodup) : (Q.fromVec os).map.Perm os := by
  have gen : ∀ (os : List Order) (q : Q), (ids os).Nodup → (∀ x ∈ ids os, x ∉ ids q.map) →
      (os.foldl Q.push q).map.Perm (q.map ++ os) := by
    intro os
    induction os with
    | nil => intro q _ _; simp
    | cons o rest ih =>
      intro q hn hd
      simp at hn
      have hfresh : o.id ∉ ids q.map := hd o.id (by simp)
      have := ih (q.push o) hn.2 (by
        intro x hx hm
        rcases ids_insert.1 hm with hm | rfl
        · exact hd x (by simp [hx]) hm
        · exact hn.1 hx)
      simp only [List.foldl]
      refine this.trans ?_
      simp only [Q.push, OMap.insert, erase_of_not_mem hfresh]
      simp
  simpa [Q.fromVec] using gen os {} hn (by simp)

end PLV

/-
  Helper lemmas for C19 / C04: the hand-out order `liveOrder` of a ticket queue and how the queue
  operations act on it.
-/
import PLV.Lemmas.OMap
import PLV.Judge

namespace PLV

theorem lookup_eq_find (id : Id) (l : List Order) : lookup id l = OMap.find l id := by
  induction l with
  | nil => rfl
  | cons x rest ih => simp [lookup, OMap.find, ih]

theorem find_erase_ne {m : OMap} {id t : Id} (h : id ≠ t) : (m.erase t).find id = m.find id := by
  induction m with
  | nil => rfl
  | cons x rest ih =>
    unfold OMap.erase
    split
    · rename_i hx
      have : x.id ≠ id := fun e => h (e.symm.trans hx)
      rw [ih]; simp [OMap.find, this]
    · simp [OMap.find, ih]

theorem find_erase_self (m : OMap) (id : Id) : (m.erase id).find id = none :=
  find_none.2 (fun h => (mem_ids_erase.1 h).2 rfl)

theorem erase_cons_eq {x : Order} {rest : OMap} {id : Id} (h : x.id = id) :
    OMap.erase (x :: rest) id = OMap.erase rest id := by simp [OMap.erase, h]

theorem erase_cons_ne {x : Order} {rest : OMap} {id : Id} (h : ¬ x.id = id) :
    OMap.erase (x :: rest) id = x :: OMap.erase rest id := by simp [OMap.erase, h]

theorem erase_comm (m : OMap) (a b : Id) : OMap.erase (OMap.erase m a) b = OMap.erase (OMap.erase m b) a := by
  induction m with
  | nil => rfl
  | cons x rest ih =>
    by_cases ha : x.id = a <;> by_cases hb : x.id = b
    · rw [erase_cons_eq ha, erase_cons_eq hb, ih]
    · rw [erase_cons_eq ha, erase_cons_ne hb, erase_cons_eq ha, ih]
    · rw [erase_cons_ne ha, erase_cons_eq hb, erase_cons_eq hb, ih]
    · rw [erase_cons_ne ha, erase_cons_ne hb, erase_cons_ne hb, erase_cons_ne ha, ih]

theorem erase_idem (m : OMap) (a : Id) : (m.erase a).erase a = m.erase a :=
  erase_of_not_mem (fun h => (mem_ids_erase.1 h).2 rfl)

theorem erase_append (a b : OMap) (id : Id) : (a ++ b).erase id = a.erase id ++ b.erase id := by
  induction a with
  | nil => rfl
  | cons x rest ih => by_cases h : x.id = id <;> simp [OMap.erase, h, ih]

theorem erase_insert_comm (m : OMap) (o : Order) (t : Id) (h : t ≠ o.id) :
    (m.insert o).erase t = (m.erase t).insert o := by
  unfold OMap.insert
  rw [erase_append, erase_comm]
  have hne : ¬ o.id = t := fun e => h e.symm
  have : OMap.erase [o] t = [o] := by simp [OMap.erase, hne]
  rw [this]

theorem find_insert_ne {m : OMap} {o : Order} {t : Id} (h : t ≠ o.id) : (m.insert o).find t = m.find t := by
  have hx : ∀ (a b : OMap), (a ++ b).find t = (a.find t).orElse (fun _ => b.find t) := by
    intro a b
    induction a with
    | nil => simp [OMap.find]
    | cons x rest ih => by_cases e : x.id = t <;> simp [OMap.find, e, ih]
  unfold OMap.insert
  rw [hx, find_erase_ne h]
  have hne : ¬ o.id = t := fun e => h e.symm
  cases m.find t <;> simp [OMap.find, hne]

/-! ### liveOrder -/

theorem liveOrder_mem {m : OMap} {ts : List Id} {x : Order} (h : x ∈ liveOrder m ts) : x ∈ m := by
  induction ts generalizing m with
  | nil => simp [liveOrder] at h
  | cons t rest ih =>
    unfold liveOrder at h
    split at h
    · rename_i o hf
      rcases List.mem_cons.1 h with rfl | h
      · exact (find_some hf).1
      · exact (mem_erase.1 (ih h)).1
    · exact ih h

/-- pushing an id that has no ticket and no entry appends it to the hand-out order -/
theorem liveOrder_push_fresh (o : Order) (ts : List Id) :
    ∀ (m : OMap), o.id ∉ ts → o.id ∉ ids m → liveOrder (m.insert o) (ts ++ [o.id]) = liveOrder m ts ++ [o] := by
  induction ts with
  | nil =>
    intro m _ hm
    have : (m.insert o).find o.id = some o := by
      unfold OMap.insert
      rw [erase_of_not_mem hm]
      have hx : ∀ (a : OMap), o.id ∉ ids a → (a ++ [o]).find o.id = some o := by
        intro a
        induction a with
        | nil => simp [OMap.find]
        | cons x rest ih =>
          intro h; simp at h
          have : x.id ≠ o.id := fun e => h.1 e.symm
          simp [OMap.find, this]; exact ih h.2
      exact hx m hm
    simp [liveOrder, this]
  | cons t rest ih =>
    intro m ht hm
    simp at ht
    have hne : t ≠ o.id := fun e => ht.1 e.symm
    simp only [List.cons_append, liveOrder, find_insert_ne hne]
    cases hf : m.find t with
    | none => exact ih m ht.2 hm
    | some x =>
      simp only
      rw [erase_insert_comm m o t hne, ih (m.erase t) ht.2 (fun h => hm (mem_ids_erase.1 h).1)]
      rfl

theorem removeAll_of_not_mem {id : Id} {l : List Order} (h : ∀ x ∈ l, x.id ≠ id) : Fifo.removeAll id l = l := by
  induction l with
  | nil => rfl
  | cons x rest ih =>
    have := h x (by simp)
    simp [Fifo.removeAll, this]; exact ih (fun y hy => h y (by simp [hy]))

/-- removing an id from the map removes it from the hand-out order and nothing else -/
theorem liveOrder_erase (id : Id) (ts : List Id) :
    ∀ (m : OMap), liveOrder (m.erase id) ts = Fifo.removeAll id (liveOrder m ts) := by
  induction ts with
  | nil => intro m; rfl
  | cons t rest ih =>
    intro m
    by_cases ht : t = id
    · subst ht
      simp only [liveOrder, find_erase_self]
      cases hf : m.find t with
      | none => simp only; exact ih m
      | some o =>
        simp only [Fifo.removeAll, (find_some hf).2, if_true]
        rw [← ih (m.erase t), erase_idem]
    · have hne : t ≠ id := ht
      simp only [liveOrder, find_erase_ne hne]
      cases hf : m.find t with
      | none => simp only; exact ih m
      | some o =>
        have : o.id ≠ id := by rw [(find_some hf).2]; exact hne
        simp only [Fifo.removeAll, this, if_false]
        rw [erase_comm, ih (m.erase t)]

theorem lookup_liveOrder (id : Id) (ts : List Id) :
    ∀ (m : OMap), lookup id (liveOrder m ts) = if id ∈ ts then m.find id else none := by
  induction ts with
  | nil => intro m; simp [liveOrder, lookup]
  | cons t rest ih =>
    intro m
    simp only [liveOrder]
    cases hf : m.find t with
    | none =>
      simp only
      rw [ih m]
      by_cases e : id = t
      · subst e; simp [hf]
      · simp [e]
    | some o =>
      have ho := (find_some hf).2
      simp only [lookup]
      by_cases e : id = t
      · subst e; simp [ho, hf]
      · have : o.id ≠ id := by rw [ho]; exact fun h => e h.symm
        simp only [this, if_false, List.mem_cons, e, false_or]
        rw [ih (m.erase t), find_erase_ne e]

theorem perm_cons_erase {m : OMap} {id : Id} {o : Order} (hn : (ids m).Nodup) (hf : m.find id = some o) :
    (o :: m.erase id).Perm m := by
  induction m with
  | nil => simp [OMap.find] at hf
  | cons x rest ih =>
    simp at hn
    unfold OMap.find at hf
    unfold OMap.erase
    split at hf
    · rename_i hx
      simp at hf; subst hf
      have : id ∉ ids rest := hx ▸ hn.1
      simp [hx, erase_of_not_mem this]
    · rename_i hx
      simp only [hx, if_false]
      exact (List.Perm.swap x o _).trans ((ih hn.2 hf).cons x)

/-- with distinct keys that all have a ticket, the hand-out order lists exactly the map's orders -/
theorem liveOrder_perm (ts : List Id) :
    ∀ (m : OMap), (ids m).Nodup → (∀ x ∈ ids m, x ∈ ts) → (liveOrder m ts).Perm m := by
  induction ts with
  | nil =>
    intro m _ hc
    cases m with
    | nil => exact List.Perm.refl _
    | cons o rest => exact absurd (hc o.id (by simp)) (by simp)
  | cons t rest ih =>
    intro m hn hc
    simp only [liveOrder]
    cases hf : m.find t with
    | none =>
      simp only
      refine ih m hn (fun x hx => ?_)
      rcases List.mem_cons.1 (hc x hx) with rfl | h
      · exact absurd hx (find_none.1 hf)
      · exact h
    | some o =>
      simp only
      have := ih (m.erase t) (nodup_erase _ hn) (fun x hx => by
        have hm := mem_ids_erase.1 hx
        rcases List.mem_cons.1 (hc x hm.1) with rfl | h
        · exact absurd rfl hm.2
        · exact h)
      exact (this.cons o).trans (perm_cons_erase hn hf)

theorem insertByTs_perm (o : Order) (l : List Order) : (insertByTs o l).Perm (o :: l) := by
  induction l with
  | nil => exact List.Perm.refl _
  | cons x xs ih =>
    unfold insertByTs
    split
    · exact List.Perm.refl _
    · exact (ih.cons x).trans (List.Perm.swap o x xs)

theorem sortByTs_perm (l : List Order) : (sortByTs l).Perm l := by
  induction l with
  | nil => exact List.Perm.refl _
  | cons x xs ih => exact (insertByTs_perm x _).trans (ih.cons x)

/-- `pop` hands out the head of the hand-out order and leaves its tail -/
theorem pop_liveOrder (m : OMap) (ts : List Id) :
    (match popLive m ts with
     | some (o, m', ts') => liveOrder m ts = o :: liveOrder m' ts'
     | none => liveOrder m ts = []) := by
  induction ts with
  | nil => simp [popLive, liveOrder]
  | cons t rest ih =>
    unfold popLive
    cases hf : m.find t with
    | none => simp only [liveOrder, hf]; exact ih
    | some o => simp only [liveOrder, hf]

end PLV

namespace PLV

/-- a ticket whose id is not in the map hands out nothing -/
theorem liveOrder_append_dead (t : Id) (ts : List Id) :
    ∀ (m : OMap), t ∉ ids m → liveOrder m (ts ++ [t]) = liveOrder m ts := by
  induction ts with
  | nil => intro m h; simp [liveOrder, find_none.2 h]
  | cons x rest ih =>
    intro m h
    simp only [List.cons_append, liveOrder]
    cases hf : m.find x with
    | none => exact ih m h
    | some o => simp only; rw [ih (m.erase x) (fun hm => h (mem_ids_erase.1 hm).1)]

theorem erase_insert_same (m : OMap) (o : Order) : (m.insert o).erase o.id = m.erase o.id := by
  unfold OMap.insert
  rw [erase_append, erase_idem]
  simp [OMap.erase]

theorem find_insert_same (m : OMap) (o : Order) : (m.insert o).find o.id = some o := by
  have hx : ∀ (a : OMap), o.id ∉ ids a → (a ++ [o]).find o.id = some o := by
    intro a
    induction a with
    | nil => simp [OMap.find]
    | cons x rest ih =>
      intro h; simp at h
      have : x.id ≠ o.id := fun e => h.1 e.symm
      simp [OMap.find, this]; exact ih h.2
  exact hx _ (fun h => (mem_ids_erase.1 h).2 rfl)

/-- replace the entry for `new.id` in place -/
def replaceById (new : Order) : List Order → List Order
  | [] => []
  | x :: rest => (if x.id = new.id then new else x) :: replaceById new rest

theorem replaceById_of_not_mem {new : Order} {l : List Order} (h : ∀ x ∈ l, x.id ≠ new.id) :
    replaceById new l = l := by
  induction l with
  | nil => rfl
  | cons x rest ih =>
    have := h x (by simp)
    simp [replaceById, this]; exact ih (fun y hy => h y (by simp [hy]))

/-- a same-price amend (remove, re-insert under the same id, append a second ticket) keeps the
    order's place in the hand-out order: the old ticket still comes first -/
theorem liveOrder_amend (new : Order) (ts : List Id) :
    ∀ (m : OMap), new.id ∈ ts → new.id ∈ ids m →
      liveOrder ((m.erase new.id).insert new) (ts ++ [new.id]) = replaceById new (liveOrder m ts) := by
  induction ts with
  | nil => intro m h; simp at h
  | cons t rest ih =>
    intro m hts hm
    by_cases ht : t = new.id
    · subst ht
      obtain ⟨old, hf⟩ := find_isSome hm
      simp only [List.cons_append, liveOrder, find_insert_same, hf, replaceById, (find_some hf).2, if_true]
      rw [erase_insert_same, erase_idem,
        liveOrder_append_dead _ _ _ (fun h => (mem_ids_erase.1 h).2 rfl)]
      rw [replaceById_of_not_mem]
      intro x hx e
      exact (mem_erase.1 (liveOrder_mem hx)).2 e
    · have hne : t ≠ new.id := ht
      have hts' : new.id ∈ rest := by
        rcases List.mem_cons.1 hts with e | h
        · exact absurd e.symm ht
        · exact h
      simp only [List.cons_append, liveOrder, find_insert_ne hne, find_erase_ne hne]
      cases hf : m.find t with
      | none => simp only; exact ih m hts' hm
      | some x =>
        have hx : x.id ≠ new.id := by rw [(find_some hf).2]; exact hne
        simp only [replaceById, hx, if_false]
        rw [erase_insert_comm _ _ _ hne, erase_comm,
          ih (m.erase t) hts' (mem_ids_erase.2 ⟨hm, fun e => hne e.symm⟩)]

end PLV

/-
  Helper lemmas about the association-list map, sums and `popLive`.
-/
import PLV.Model.Level

namespace PLV

def ids (m : OMap) : List Id := m.map (·.id)

/-- per-id resting total: displayed + hidden of the order(s) stored under `id` -/
def tot (id : Id) : OMap → Nat
  | [] => 0
  | o :: rest => (if o.id = id then o.vis + o.hid else 0) + tot id rest

@[simp] theorem ids_nil : ids [] = [] := rfl
@[simp] theorem ids_cons (o : Order) (m : OMap) : ids (o :: m) = o.id :: ids m := rfl
@[simp] theorem ids_append (a b : OMap) : ids (a ++ b) = ids a ++ ids b := by simp [ids]

theorem mem_ids {m : OMap} {id : Id} : id ∈ ids m ↔ ∃ o ∈ m, o.id = id := by simp [ids]

theorem mem_ids_of_mem {m : OMap} {o : Order} (h : o ∈ m) : o.id ∈ ids m := mem_ids.2 ⟨o, h, rfl⟩

/-! ### find -/

theorem find_some {m : OMap} {id : Id} {o : Order} (h : m.find id = some o) : o ∈ m ∧ o.id = id := by
  induction m with
  | nil => simp [OMap.find] at h
  | cons x rest ih =>
    unfold OMap.find at h
    split at h
    · simp at h; subst h; simp_all
    · have := ih h; simp_all

theorem find_none {m : OMap} {id : Id} : m.find id = none ↔ id ∉ ids m := by
  induction m with
  | nil => simp [OMap.find]
  | cons x rest ih =>
    unfold OMap.find
    split
    · simp_all
    · rename_i hx
      simp [ih]; intro _ e; exact hx e.symm

theorem find_isSome {m : OMap} {id : Id} (h : id ∈ ids m) : ∃ o, m.find id = some o := by
  cases hf : m.find id with
  | none => exact absurd h (find_none.1 hf)
  | some o => exact ⟨o, rfl⟩

theorem find_of_mem {m : OMap} {o : Order} (hn : (ids m).Nodup) (h : o ∈ m) : m.find o.id = some o := by
  induction m with
  | nil => simp at h
  | cons x rest ih =>
    simp at hn
    unfold OMap.find
    rcases List.mem_cons.1 h with rfl | h'
    · simp
    · have : x.id ≠ o.id := fun e => hn.1 (e ▸ mem_ids_of_mem h')
      simp [this]; exact ih hn.2 h'

/-! ### erase -/

theorem mem_erase {m : OMap} {id : Id} {x : Order} : x ∈ m.erase id ↔ x ∈ m ∧ x.id ≠ id := by
  induction m with
  | nil => simp [OMap.erase]
  | cons y rest ih =>
    unfold OMap.erase
    split
    · rename_i hy
      rw [ih, List.mem_cons]
      constructor
      · intro h; exact ⟨Or.inr h.1, h.2⟩
      · rintro ⟨rfl | h, hne⟩
        · exact absurd hy hne
        · exact ⟨h, hne⟩
    · rename_i hy
      rw [List.mem_cons, ih, List.mem_cons]
      constructor
      · rintro (rfl | h)
        · exact ⟨Or.inl rfl, hy⟩
        · exact ⟨Or.inr h.1, h.2⟩
      · rintro ⟨rfl | h, hne⟩
        · exact Or.inl rfl
        · exact Or.inr ⟨h, hne⟩

theorem mem_ids_erase {m : OMap} {id x : Id} : x ∈ ids (m.erase id) ↔ x ∈ ids m ∧ x ≠ id := by
  simp only [mem_ids, mem_erase]
  constructor
  · rintro ⟨o, ⟨ho, hne⟩, rfl⟩; exact ⟨⟨o, ho, rfl⟩, hne⟩
  · rintro ⟨⟨o, ho, rfl⟩, hne⟩; exact ⟨o, ⟨ho, hne⟩, rfl⟩

theorem erase_of_not_mem {m : OMap} {id : Id} (h : id ∉ ids m) : m.erase id = m := by
  induction m with
  | nil => rfl
  | cons x rest ih =>
    simp at h
    unfold OMap.erase
    have : x.id ≠ id := fun e => h.1 e.symm
    simp [this]; exact ih h.2

theorem nodup_erase {m : OMap} (id : Id) (h : (ids m).Nodup) : (ids (m.erase id)).Nodup := by
  induction m with
  | nil => simp [OMap.erase]
  | cons x rest ih =>
    simp at h
    unfold OMap.erase
    split
    · exact ih h.2
    · simp; exact ⟨fun hm => h.1 (mem_ids_erase.1 hm).1, ih h.2⟩

theorem sumVis_append (a b : OMap) : sumVis (a ++ b) = sumVis a + sumVis b := by
  induction a with
  | nil => simp [sumVis]
  | cons x rest ih => simp [sumVis, ih]; omega

theorem tot_append (id : Id) (a b : OMap) : tot id (a ++ b) = tot id a + tot id b := by
  induction a with
  | nil => simp [tot]
  | cons x rest ih => simp [tot, ih]; omega

theorem tot_of_not_mem {m : OMap} {id : Id} (h : id ∉ ids m) : tot id m = 0 := by
  induction m with
  | nil => rfl
  | cons x rest ih =>
    simp at h
    have : x.id ≠ id := fun e => h.1 e.symm
    simp [tot, this, ih h.2]

/-- erasing the (unique) entry found under `id` -/
theorem erase_find {m : OMap} {id : Id} {o : Order} (hn : (ids m).Nodup) (hf : m.find id = some o) :
    sumVis (m.erase id) + o.vis = sumVis m ∧ sumHid (m.erase id) + o.hid = sumHid m ∧
      (m.erase id).length + 1 = m.length := by
  induction m with
  | nil => simp [OMap.find] at hf
  | cons x rest ih =>
    simp at hn
    unfold OMap.find at hf
    unfold OMap.erase
    split at hf
    · rename_i hx
      simp at hf; subst hf
      have : id ∉ ids rest := hx ▸ hn.1
      simp [hx, erase_of_not_mem this, sumVis, sumHid]; omega
    · rename_i hx
      have := ih hn.2 hf
      simp [hx, sumVis, sumHid]; omega

theorem tot_erase_self (m : OMap) (id : Id) : tot id (m.erase id) = 0 :=
  tot_of_not_mem (fun h => (mem_ids_erase.1 h).2 rfl)

theorem tot_erase_ne {m : OMap} {id x : Id} (h : x ≠ id) : tot x (m.erase id) = tot x m := by
  induction m with
  | nil => rfl
  | cons y rest ih =>
    unfold OMap.erase
    split
    · rename_i hy
      have : y.id ≠ x := fun e => h (e.symm.trans hy)
      simp [tot, this, ih]
    · simp [tot, ih]

theorem tot_find {m : OMap} {id : Id} {o : Order} (hn : (ids m).Nodup) (hf : m.find id = some o) :
    tot id m = o.vis + o.hid := by
  induction m with
  | nil => simp [OMap.find] at hf
  | cons x rest ih =>
    simp at hn
    unfold OMap.find at hf
    split at hf
    · rename_i hx
      simp at hf; subst hf
      have : id ∉ ids rest := hx ▸ hn.1
      simp [tot, hx, tot_of_not_mem this]
    · rename_i hx
      simp [tot, hx, ih hn.2 hf]

/-! ### insert -/

theorem mem_insert {m : OMap} {o x : Order} : x ∈ m.insert o ↔ (x ∈ m ∧ x.id ≠ o.id) ∨ x = o := by
  simp [OMap.insert, mem_erase]

theorem ids_insert {m : OMap} {o : Order} {x : Id} : x ∈ ids (m.insert o) ↔ x ∈ ids m ∨ x = o.id := by
  simp only [OMap.insert, ids_append, List.mem_append, mem_ids_erase]
  simp
  constructor
  · rintro (⟨h, _⟩ | h)
    · exact Or.inl h
    · exact Or.inr h
  · rintro (h | h)
    · by_cases e : x = o.id
      · exact Or.inr e
      · exact Or.inl ⟨h, e⟩
    · exact Or.inr h

theorem nodup_insert {m : OMap} (o : Order) (h : (ids m).Nodup) : (ids (m.insert o)).Nodup := by
  simp only [OMap.insert, ids_append]
  rw [List.nodup_append]
  refine ⟨nodup_erase _ h, by simp, ?_⟩
  intro a ha b hb
  simp at hb; subst hb
  exact (mem_ids_erase.1 ha).2

theorem sum_insert_fresh {m : OMap} {o : Order} (h : o.id ∉ ids m) :
    sumVis (m.insert o) = sumVis m + o.vis ∧ sumHid (m.insert o) = sumHid m + o.hid ∧
      (m.insert o).length = m.length + 1 := by
  simp [OMap.insert, erase_of_not_mem h, sumVis_append, sumHid_append, sumVis, sumHid]

theorem tot_insert_fresh {m : OMap} {o : Order} (h : o.id ∉ ids m) (x : Id) :
    tot x (m.insert o) = tot x m + (if o.id = x then o.vis + o.hid else 0) := by
  simp [OMap.insert, erase_of_not_mem h, tot_append, tot]

/-! ### popLive -/

/-- what `pop` returns: an order of the map, removed from it; the tickets dropped in front of it
    were stale, and every other key keeps its ticket. -/
theorem popLive_spec {m : OMap} {ts : List Id} {o : Order} {m' : OMap} {ts' : List Id}
    (h : popLive m ts = some (o, m', ts')) :
    m.find o.id = some o ∧ m' = m.erase o.id ∧
      (∀ x, x ∈ ids m → x ≠ o.id → x ∈ ts → x ∈ ts') ∧ (∀ x, x ∈ ts' → x ∈ ts) := by
  induction ts with
  | nil => simp [popLive] at h
  | cons t rest ih =>
    unfold popLive at h
    split at h
    · rename_i o' hf
      simp at h; obtain ⟨rfl, rfl, rfl⟩ := h
      have := find_some hf
      refine ⟨this.2 ▸ hf, by rw [this.2], ?_, fun x hx => List.mem_cons_of_mem _ hx⟩
      intro x _ hne hx
      rcases List.mem_cons.1 hx with rfl | hx
      · exact absurd this.2.symm hne
      · exact hx
    · rename_i hf
      obtain ⟨h1, h2, h3, h4⟩ := ih h
      refine ⟨h1, h2, ?_, fun x hx => List.mem_cons_of_mem _ (h4 x hx)⟩
      intro x hxm hne hx
      rcases List.mem_cons.1 hx with rfl | hx
      · exact absurd hxm (find_none.1 hf)
      · exact h3 x hxm hne hx

/-- `pop` returns `none` only when no ticket names a live order -/
theorem popLive_none {m : OMap} {ts : List Id} (h : popLive m ts = none) : ∀ x ∈ ts, x ∉ ids m := by
  induction ts with
  | nil => simp
  | cons t rest ih =>
    unfold popLive at h
    split at h
    · simp at h
    · rename_i hf
      intro x hx
      rcases List.mem_cons.1 hx with rfl | hx
      · exact find_none.1 hf
      · exact ih h x hx

/-! ### wrapping arithmetic on values that do not wrap -/

theorem wadd_eq {a b : Nat} (h : a + b < W) : wadd a b = a + b := by
  unfold wadd; exact Nat.mod_eq_of_lt h

theorem wsub_eq {a b : Nat} (hb : b ≤ a) (ha : a < W) : wsub a b = a - b := by
  unfold wsub
  have h1 : b % W = b := Nat.mod_eq_of_lt (by omega)
  rw [h1]
  have : W - b + a = (a - b) + W := by omega
  rw [this, Nat.add_mod_right]
  exact Nat.mod_eq_of_lt (by omega)

end PLV

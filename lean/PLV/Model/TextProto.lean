/-
  Driver-side glue for the text codecs: protocol forms of the codec values and dispatch by type
  name. Driver-only code.
-/
import PLV.Model.Text
import PLV.Model.Proto

namespace PLV.TextProto
open PLV PLV.Proto

def hexOfString (s : String) : String :=
  let hexd (n : Nat) : Char := if n < 10 then Char.ofNat (48 + n) else Char.ofNat (87 + n)
  String.ofList (s.toUTF8.toList.flatMap (fun b => [hexd (b.toNat / 16), hexd (b.toNat % 16)]))

def hexNib (c : Char) : Option Nat :=
  if '0' ≤ c ∧ c ≤ '9' then some (c.toNat - 48) else if 'a' ≤ c ∧ c ≤ 'f' then some (c.toNat - 87) else none

def bytesOfHex : List Char → Option (List UInt8)
  | [] => some []
  | a :: b :: rest => do
    let x ← hexNib a
    let y ← hexNib b
    let r ← bytesOfHex rest
    some (UInt8.ofNat (x * 16 + y) :: r)
  | _ => none

def stringOfHex (h : String) : Option String := do
  let bs ← bytesOfHex h.toList
  String.fromUTF8? (ByteArray.mk bs.toArray)

def showErr : Text.Err → String
  | .invalidFormat => "InvalidFormat" | .unknownType => "UnknownOrderType" | .missingField => "MissingField"
  | .invalidFieldValue => "InvalidFieldValue" | .parseError => "ParseError"

def showUpd : Update → String
  | .price id p => "price:" ++ showId id ++ ":" ++ toString p
  | .quantity id n => "qty:" ++ showId id ++ ":" ++ toString n
  | .priceQty id p n => "pq:" ++ showId id ++ ":" ++ toString p ++ ":" ++ toString n
  | .cancel id => "cancel:" ++ showId id
  | .replace id p n sd => "replace:" ++ showId id ++ ":" ++ toString p ++ ":" ++ toString n ++ ":" ++ showSide sd

def parseUpd (s : String) : Option Update :=
  match s.splitOn ":" with
  | ["price", id, p] => do some (.price (← parseId id) (← p.toNat?))
  | ["qty", id, n] => do some (.quantity (← parseId id) (← n.toNat?))
  | ["pq", id, p, n] => do some (.priceQty (← parseId id) (← p.toNat?) (← n.toNat?))
  | ["cancel", id] => do some (.cancel (← parseId id))
  | ["replace", id, p, n, sd] => do some (.replace (← parseId id) (← p.toNat?) (← n.toNat?) (← parseSide sd))
  | _ => none

def showTxRec (t : Text.TxRec) : String :=
  toString t.txid ++ ":" ++ showId t.taker ++ ":" ++ showId t.maker ++ ":" ++ toString t.price ++ ":" ++
    toString t.qty ++ ":" ++ showSide t.side ++ ":" ++ toString t.ts

def parseTxRec (s : String) : Option Text.TxRec :=
  match s.splitOn ":" with
  | [k, tk, mk, p, q, sd, ts] => do
    some ⟨← k.toNat?, ← parseId tk, ← parseId mk, ← p.toNat?, ← q.toNat?, ← parseSide sd, ← ts.toNat?⟩
  | _ => none

def showMRRec (r : Text.MRRec) : String :=
  showId r.orderId ++ ";" ++ toString r.remaining ++ ";" ++ showBool r.complete ++ ";" ++
    showList showTxRec r.txs ++ ";" ++ showList showId r.filled

def parseMRRec (s : String) : Option Text.MRRec :=
  match s.splitOn ";" with
  | [id, rem, c, txs, filled] => do
    some ⟨← parseId id, ← parseList parseTxRec txs, ← rem.toNat?, ← parseBool c, ← parseList parseId filled⟩
  | _ => none

def showNats (l : List Nat) : String := joinWith "," (l.map toString)

/-- `txt.show <type> <value>`: the text the model prints for the value -/
def showByType (ty v : String) : Option String :=
  let str (x : Text.Str) : Option String := some (String.ofList x)
  match ty with
  | "order" => (parseOrder v).bind (fun o => str (Text.showOrder o))
  | "update" => (parseUpd v).bind (fun u => str (Text.showUpdate u))
  | "id" => (parseId v).bind (fun i => str (Text.showId i))
  | "side" => (parseSide v).bind (fun x => str (Text.showSide x))
  | "tif" => (parseTif v).bind (fun x => str (Text.showTif x))
  | "peg" => (parsePeg v).bind (fun x => str (Text.showPeg x))
  | "tx" => (parseTxRec v).bind (fun x => str (Text.showTx x))
  | "txlist" => (parseList parseTxRec v).bind (fun x => str (Text.showTxList x))
  | "mr" => (parseMRRec v).bind (fun x => str (Text.showMR x))
  | "stats" =>
    (match (v.splitOn ",").mapM String.toNat? with
     | some [a, r, e, q, vv, l, f, w] => str (Text.showStats ⟨a, r, e, q, vv, l, f, w⟩)
     | _ => none)
  | "snap" =>
    (match (v.splitOn ",").mapM String.toNat? with
     | some [p, vv, h, c] => str (Text.showSnap ⟨p, vv, h, c⟩)
     | _ => none)
  | "queue" => (parseList parseOrder v).bind (fun os => str (Text.showQueue (sortByTs os)))
  | "level" =>
    (match v.splitOn ";" with
     | [p, os] => do
       let p ← p.toNat?
       let os ← parseList parseOrder os
       let l := Level.fromOrders p os
       str (Text.showLevel l.price l.vis l.hid l.cnt l.listing)
     | _ => none)
  | _ => none

def resStr {α : Type} (f : α → String) : Text.Res α → String
  | .ok v => "ok " ++ f v
  | .error e => "err " ++ showErr e

def optStr {α : Type} (f : α → String) (e : String) : Option α → String
  | some v => "ok " ++ f v
  | none => "err " ++ e

/-- `txt.parse <type> <text>`: the model's parse outcome in canonical form -/
def parseByType (ty : String) (text : String) : Option String :=
  let s : Text.Str := text.toList
  match ty with
  | "order" => some (resStr showOrder (Text.parseOrder s))
  | "update" => some (resStr showUpd (Text.parseUpdate s))
  | "id" => some (optStr showId "ParseError" (Text.parseId s))
  | "side" => some (optStr showSide "ParseError" (Text.parseSide s))
  | "tif" => some (optStr showTif "ParseError" (Text.parseTif s))
  | "peg" => some (optStr showPeg "ParseError" (Text.parsePeg s))
  | "tx" => some (resStr showTxRec (Text.parseTx s))
  | "txlist" => some (resStr (showList showTxRec) (Text.parseTxList s))
  | "mr" => some (resStr showMRRec (Text.parseMR s))
  | "stats" => some (resStr (fun (x : Text.StatsRec) => showNats [x.added, x.removed, x.executed, x.qty, x.value, x.last, x.first, x.wait]) (Text.parseStats s))
  | "snap" => some (resStr (fun (x : Text.SnapSummary) => showNats [x.price, x.vis, x.hid, x.cnt]) (Text.parseSnap s))
  -- the crate pushes the parsed orders one by one into a queue / adds them to a level: an id that occurs twice in
  -- the text is stored once (the later element replaces the earlier), so the listing is that of the level built
  | "queue" => some (resStr (fun os => showList showOrder (canonSort (Level.fromOrders 0 os).listing)) (Text.parseQueue s))
  | "level" => some (resStr (fun (x : Nat × List Order) => toString x.1 ++ ";" ++ showList showOrder (canonSort (Level.fromOrders x.1 x.2).listing)) (Text.parseLevel s))
  | _ => none

end PLV.TextProto

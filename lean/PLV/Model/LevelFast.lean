/-
  PLV.Model.LevelFast — the match loop with its three output lists built in reverse (cons instead of
  append at the end), proved equal to `matchLoop` and registered with `@[csimp]`, so that the COMPILED
  driver runs a sweep of n visits in O(n) instead of O(n²). No theorem about the model mentions this
  file; the only thing it contributes is `matchLoop_eq_fast`, which the kernel checks like any other
  theorem (csimp accepts nothing but a proved equation between the two constants).
-/
import PLV.Model.Level

namespace PLV

/-- the accumulator with `txs`, `filled`, `aside` reversed -/
def Acc.rev (a : Acc) : Acc := { a with txs := a.txs.reverse, filled := a.filled.reverse, aside := a.aside.reverse }

theorem Acc.rev_rev (a : Acc) : a.rev.rev = a := by simp [Acc.rev]

/-- `Acc.visit` on the reversed representation -/
def Acc.visitR (a : Acc) (price : Nat) (taker : Id) (o : Order) (r : MatchOut) : Acc :=
  let a1 : Acc :=
    if r.consumed > 0 then
      { a with vis := wsub a.vis r.consumed, g := wadd a.g 1,
               txs := ⟨a.g, taker, o.id, price, r.consumed, o.side.opposite⟩ :: a.txs,
               filled := if r.updated.isNone then o.id :: a.filled else a.filled }
    else a
  { a1 with stats := a1.stats.recordExec r.consumed o.price }

def Acc.pushAsideR (a : Acc) (u : Order) : Acc := { a with aside := u :: a.aside }

theorem visit_rev (a : Acc) (price : Nat) (taker : Id) (o : Order) (r : MatchOut) :
    (a.visit price taker o r).rev = a.rev.visitR price taker o r := by
  unfold Acc.visit Acc.visitR Acc.rev
  by_cases h : r.consumed > 0
  · by_cases h2 : r.updated.isNone <;> simp [h, h2]
  · simp [h]

theorem pushAside_rev (a : Acc) (u : Order) : (a.pushAside u).rev = a.rev.pushAsideR u := by
  simp [Acc.pushAside, Acc.pushAsideR, Acc.rev]

theorem requeue_rev (a : Acc) (hr : Nat) : (a.requeue hr).rev = a.rev.requeue hr := by
  unfold Acc.requeue Acc.rev
  by_cases h : hr > 0 <;> simp [h]

theorem leave_rev (a : Acc) (o : Order) (hr : Nat) : (a.leave o hr).rev = a.rev.leave o hr := by
  simp [Acc.leave, Acc.rev]

/-- the same loop on the reversed accumulator -/
def matchLoopR (price : Nat) (taker : Id) (rem : Nat) (m : OMap) (ts : List Id) (a : Acc) :
    Nat × OMap × List Id × Acc :=
  if hz : rem = 0 then (rem, m, ts, a) else
  match hp : popLive m ts with
  | none => (rem, m, [], a)
  | some (o, m', ts') =>
    let r := matchAgainst o rem
    let a2 := a.visitR price taker o r
    match hu : r.updated with
    | some u =>
      if hs : r.consumed = 0 ∧ r.hiddenRed = 0 then
        matchLoopR price taker r.remaining m' ts' (a2.pushAsideR u)
      else
        matchLoopR price taker r.remaining (m'.insert u) (ts' ++ [u.id]) (a2.requeue r.hiddenRed)
    | none =>
      matchLoopR price taker r.remaining m' ts' (a2.leave o r.hiddenRed)
termination_by (rem + sumHid m, ts.length)
decreasing_by
  · have h1 := popLive_len hp
    have h2 := popLive_sumHid hp
    have h3 := matchAgainst_remaining_le o rem
    simp only [Prod.lex_def]
    omega
  · have h1 := popLive_sumHid hp
    have h3 := visit_progress o rem u hz hu hs
    have h4 := sumHid_insert_le m' u
    simp only [Prod.lex_def]
    left; omega
  · have h1 := popLive_len hp
    have h2 := popLive_sumHid hp
    have h3 := matchAgainst_remaining_le o rem
    simp only [Prod.lex_def]
    omega

/-- the reversed loop computes the reversed accumulator of the model's loop, and the same everything else -/
theorem matchLoopR_eq (price : Nat) (taker : Id) (rem : Nat) (m : OMap) (ts : List Id) (a : Acc) :
    matchLoopR price taker rem m ts a.rev =
      ((matchLoop price taker rem m ts a).1, (matchLoop price taker rem m ts a).2.1,
        (matchLoop price taker rem m ts a).2.2.1, (matchLoop price taker rem m ts a).2.2.2.rev) := by
  fun_induction matchLoop price taker rem m ts a with
  | case1 m ts a => rw [matchLoopR]; simp
  | case2 rem m ts a hz hp =>
    rw [matchLoopR]; simp only [dif_neg hz]
    split
    · rfl
    · rename_i o m' ts' heq; rw [hp] at heq; simp at heq
  | case3 rem m ts a hz o m' ts' hp r a2 u hu hs ih =>
    rw [matchLoopR]; simp only [dif_neg hz]
    split
    · rename_i heq; rw [hp] at heq; simp at heq
    · rename_i o2 m2 ts2 heq
      rw [hp] at heq
      simp only [Option.some.injEq, Prod.mk.injEq] at heq
      obtain ⟨rfl, rfl, rfl⟩ := heq
      split
      · rename_i u2 hu2
        have : u2 = u := by rw [hu] at hu2; exact (Option.some.inj hu2).symm
        subst this
        rw [dif_pos hs, ← visit_rev, ← pushAside_rev]
        exact ih
      · rename_i hu2; rw [hu] at hu2; simp at hu2
  | case4 rem m ts a hz o m' ts' hp r a2 u hu hs ih =>
    rw [matchLoopR]; simp only [dif_neg hz]
    split
    · rename_i heq; rw [hp] at heq; simp at heq
    · rename_i o2 m2 ts2 heq
      rw [hp] at heq
      simp only [Option.some.injEq, Prod.mk.injEq] at heq
      obtain ⟨rfl, rfl, rfl⟩ := heq
      split
      · rename_i u2 hu2
        have : u2 = u := by rw [hu] at hu2; exact (Option.some.inj hu2).symm
        subst this
        rw [dif_neg hs, ← visit_rev, ← requeue_rev]
        exact ih
      · rename_i hu2; rw [hu] at hu2; simp at hu2
  | case5 rem m ts a hz o m' ts' hp r a2 hu ih =>
    rw [matchLoopR]; simp only [dif_neg hz]
    split
    · rename_i heq; rw [hp] at heq; simp at heq
    · rename_i o2 m2 ts2 heq
      rw [hp] at heq
      simp only [Option.some.injEq, Prod.mk.injEq] at heq
      obtain ⟨rfl, rfl, rfl⟩ := heq
      split
      · rename_i u2 hu2; rw [hu] at hu2; simp at hu2
      · rw [← visit_rev, ← leave_rev]
        exact ih

/-- what the compiled driver runs instead of `matchLoop` -/
def matchLoopFast (price : Nat) (taker : Id) (rem : Nat) (m : OMap) (ts : List Id) (a : Acc) :
    Nat × OMap × List Id × Acc :=
  let r := matchLoopR price taker rem m ts a.rev
  (r.1, r.2.1, r.2.2.1, r.2.2.2.rev)

@[csimp] theorem matchLoop_eq_fast : @matchLoop = @matchLoopFast := by
  funext price taker rem m ts a
  simp only [matchLoopFast, matchLoopR_eq, Acc.rev_rev]

end PLV

namespace PLV

/-- `Level.matchOrder` again, compiled after `matchLoop_eq_fast` (so its loop is the fast one) -/
def Level.matchOrderFast (l : Level) (q : Nat) (taker : Id) (g : Nat) : Level × MatchResult × Nat :=
  l.finishMatch taker (matchLoop l.price taker q l.map l.tickets
      { vis := l.vis, hid := l.hid, cnt := l.cnt, stats := l.stats, g := g })

@[csimp] theorem matchOrder_eq_fast : @Level.matchOrder = @Level.matchOrderFast := rfl

end PLV

/-
  SHA-256 (FIPS 180-4) over a list of bytes, and lower-case hex rendering of the digest — the
  checksum of a snapshot package is `format!("{:x}", Sha256::digest(json))` (snapshot.rs:137-148).
  Compared bit for bit with the `sha2` crate on every package the correspondence engine produces.
-/
namespace PLV.Sha256

def K : Array UInt32 := #[
  0x428a2f98, 0x71374491, 0xb5c0fbcf, 0xe9b5dba5, 0x3956c25b, 0x59f111f1, 0x923f82a4, 0xab1c5ed5,
  0xd807aa98, 0x12835b01, 0x243185be, 0x550c7dc3, 0x72be5d74, 0x80deb1fe, 0x9bdc06a7, 0xc19bf174,
  0xe49b69c1, 0xefbe4786, 0x0fc19dc6, 0x240ca1cc, 0x2de92c6f, 0x4a7484aa, 0x5cb0a9dc, 0x76f988da,
  0x983e5152, 0xa831c66d, 0xb00327c8, 0xbf597fc7, 0xc6e00bf3, 0xd5a79147, 0x06ca6351, 0x14292967,
  0x27b70a85, 0x2e1b2138, 0x4d2c6dfc, 0x53380d13, 0x650a7354, 0x766a0abb, 0x81c2c92e, 0x92722c85,
  0xa2bfe8a1, 0xa81a664b, 0xc24b8b70, 0xc76c51a3, 0xd192e819, 0xd6990624, 0xf40e3585, 0x106aa070,
  0x19a4c116, 0x1e376c08, 0x2748774c, 0x34b0bcb5, 0x391c0cb3, 0x4ed8aa4a, 0x5b9cca4f, 0x682e6ff3,
  0x748f82ee, 0x78a5636f, 0x84c87814, 0x8cc70208, 0x90befffa, 0xa4506ceb, 0xbef9a3f7, 0xc67178f2]

def H0 : Array UInt32 := #[0x6a09e667, 0xbb67ae85, 0x3c6ef372, 0xa54ff53a, 0x510e527f, 0x9b05688c, 0x1f83d9ab, 0x5be0cd19]

def rotr (x : UInt32) (n : UInt32) : UInt32 := (x >>> n) ||| (x <<< (32 - n))

/-- message padding: 0x80, zeros, 64-bit big-endian bit length -/
def pad (msg : List UInt8) : List UInt8 :=
  let l := msg.length
  let zeros := (119 - (l % 64)) % 64     -- so that l + 1 + zeros ≡ 56 (mod 64)
  let bits := l * 8
  msg ++ [(0x80 : UInt8)] ++ List.replicate zeros (0 : UInt8) ++
    (List.range 8).map (fun i => UInt8.ofNat ((bits >>> (8 * (7 - i))) % 256))

def word (b0 b1 b2 b3 : UInt8) : UInt32 :=
  (b0.toUInt32 <<< 24) ||| (b1.toUInt32 <<< 16) ||| (b2.toUInt32 <<< 8) ||| b3.toUInt32

def words : List UInt8 → List UInt32
  | b0 :: b1 :: b2 :: b3 :: rest => word b0 b1 b2 b3 :: words rest
  | _ => []

/-- the 64-entry message schedule of one block -/
def schedule (block : Array UInt32) : Array UInt32 :=
  (List.range 48).foldl (fun (w : Array UInt32) i =>
    let t := i + 16
    let w15 := w[t - 15]!
    let w2 := w[t - 2]!
    let s0 := rotr w15 7 ^^^ rotr w15 18 ^^^ (w15 >>> 3)
    let s1 := rotr w2 17 ^^^ rotr w2 19 ^^^ (w2 >>> 10)
    w.push (w[t - 16]! + s0 + w[t - 7]! + s1)) block

def compress (h : Array UInt32) (block : Array UInt32) : Array UInt32 :=
  let w := schedule block
  let init := (h[0]!, h[1]!, h[2]!, h[3]!, h[4]!, h[5]!, h[6]!, h[7]!)
  let (a, b, c, d, e, f, g, hh) := (List.range 64).foldl
    (fun (st : UInt32 × UInt32 × UInt32 × UInt32 × UInt32 × UInt32 × UInt32 × UInt32) i =>
      let (a, b, c, d, e, f, g, hh) := st
      let s1 := rotr e 6 ^^^ rotr e 11 ^^^ rotr e 25
      let ch := (e &&& f) ^^^ ((~~~ e) &&& g)
      let t1 := hh + s1 + ch + K[i]! + w[i]!
      let s0 := rotr a 2 ^^^ rotr a 13 ^^^ rotr a 22
      let maj := (a &&& b) ^^^ (a &&& c) ^^^ (b &&& c)
      let t2 := s0 + maj
      (t1 + t2, a, b, c, d + t1, e, f, g)) init
  #[h[0]! + a, h[1]! + b, h[2]! + c, h[3]! + d, h[4]! + e, h[5]! + f, h[6]! + g, h[7]! + hh]

def blocksAux : Nat → List UInt32 → List (Array UInt32)
  | 0, _ => []
  | fuel + 1, l => if l.isEmpty then [] else (l.take 16).toArray :: blocksAux fuel (l.drop 16)

def blocks (l : List UInt32) : List (Array UInt32) := blocksAux (l.length + 1) l

def digestWords (msg : List UInt8) : Array UInt32 :=
  (blocks (words (pad msg))).foldl compress H0

def hexDigit (n : Nat) : Char := if n < 10 then Char.ofNat (48 + n) else Char.ofNat (87 + n)

/-- the digest as 64 lower-case hex characters -/
def hexDigest (msg : List UInt8) : List Char :=
  (digestWords msg).toList.flatMap (fun w =>
    (List.range 8).map (fun i => hexDigit (((w.toNat >>> (4 * (7 - i))) % 16))))

end PLV.Sha256

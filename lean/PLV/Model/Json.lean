/-
  PLV.Model.Json — the serde data-model codecs of the crate at the level of JSON trees: what
  `#[derive(Serialize, Deserialize)]` with the crate's attributes and the hand-written visitors
  (orders/base.rs:116-136, orders/time_in_force.rs:8-32, price_level/snapshot.rs:151-310,
  price_level/statistics.rs:279-489, price_level/level.rs:523-636, price_level/order_queue.rs) produce
  and accept; the compact text `serde_json::to_string` prints for such a tree; snapshot packages with
  their checksum (snapshot.rs:66-148).

  `obj` is a *list* of pairs, so field order and duplicates are representable.
-/
import PLV.Model.Text
import PLV.Model.Sha256

namespace PLV.J
open PLV PLV.Text

inductive Json where
  | null
  | bool (b : Bool)
  | num (n : Int)                      -- an integer literal
  | float                              -- any number that is not an integer literal, or out of 64-bit range
  | str (s : Str)
  | arr (l : List Json)
  | obj (kvs : List (Str × Json))
  deriving Repr, Inhabited

/-! ### compact rendering (`serde_json::to_string`) for trees whose strings need no escaping -/

mutual
  def render : Json → Str
    | .null => lit "null"
    | .bool b => if b then lit "true" else lit "false"
    | .num n => showInt n
    | .float => lit "0.5"
    | .str s => ['"'] ++ s ++ ['"']
    | .arr l => ['['] ++ renderList l ++ [']']
    | .obj kvs => ['{'] ++ renderFields kvs ++ ['}']
  def renderList : List Json → Str
    | [] => []
    | [x] => render x
    | x :: rest => render x ++ [','] ++ renderList rest
  def renderFields : List (Str × Json) → Str
    | [] => []
    | [(k, v)] => ['"'] ++ k ++ ['"', ':'] ++ render v
    | (k, v) :: rest => ['"'] ++ k ++ ['"', ':'] ++ render v ++ [','] ++ renderFields rest
end

/-! ### decoding primitives -/

inductive DErr where
  | wrongType | missing | duplicate | unknownField | unknownVariant | badValue
  deriving DecidableEq, Repr, Inhabited

abbrev D (α : Type) := Except DErr α

/- the range tests are written on the constructors of `Int` with `Nat` comparisons: an `Int`
   comparison against a 20-digit literal makes the kernel unfold the literal (`Int.sub` recurses on it) -/
def decU64 : Json → D Nat
  | .num (.ofNat n) => if n < 18446744073709551616 then .ok n else .error .wrongType
  | _ => .error .wrongType

def decU32 : Json → D Nat
  | .num (.ofNat n) => if n < 4294967296 then .ok n else .error .wrongType
  | _ => .error .wrongType

def decI64 : Json → D Int
  | .num (.ofNat n) => if n < 9223372036854775808 then .ok (.ofNat n) else .error .wrongType
  | .num (.negSucc n) => if n < 9223372036854775808 then .ok (.negSucc n) else .error .wrongType
  | _ => .error .wrongType

def decBool : Json → D Bool
  | .bool b => .ok b
  | _ => .error .wrongType

def decStr : Json → D Str
  | .str s => .ok s
  | _ => .error .wrongType

def decUnit : Json → D Unit
  | .null => .ok ()
  | _ => .error .wrongType

def countKey (k : String) (kvs : List (Str × Json)) : Nat := (kvs.filter (fun p => p.1 = lit k)).length

/-- a required field of a derived struct: exactly once (a second occurrence is `duplicate field`) -/
def field (kvs : List (Str × Json)) (k : String) : D Json :=
  match kvs.filter (fun p => p.1 = lit k) with
  | [] => .error .missing
  | [p] => .ok p.2
  | _ => .error .duplicate

/-- an `Option` field of a derived struct: absent or `null` is `None` -/
def fieldOpt (kvs : List (Str × Json)) (k : String) : D (Option Json) :=
  match kvs.filter (fun p => p.1 = lit k) with
  | [] => .ok none
  | [p] => (match p.2 with | .null => .ok none | j => .ok (some j))
  | _ => .error .duplicate

def asObj : Json → D (List (Str × Json))
  | .obj kvs => .ok kvs
  | _ => .error .wrongType

def asArr : Json → D (List Json)
  | .arr l => .ok l
  | _ => .error .wrongType

/-! ### small enums and ids -/

def encSide : Side → Json
  | .buy => .str (lit "BUY")
  | .sell => .str (lit "SELL")

/-- `#[serde(alias = "buy", alias = "Buy", alias = "BUY")]` … (a unit variant may also come as `{"BUY": null}`) -/
def decSide : Json → D Side
  | .str s =>
    if s = lit "BUY" ∨ s = lit "buy" ∨ s = lit "Buy" then .ok .buy
    else if s = lit "SELL" ∨ s = lit "sell" ∨ s = lit "Sell" then .ok .sell
    else .error .unknownVariant
  | .obj [(k, .null)] =>
    if k = lit "BUY" ∨ k = lit "buy" ∨ k = lit "Buy" then .ok .buy
    else if k = lit "SELL" ∨ k = lit "sell" ∨ k = lit "Sell" then .ok .sell
    else .error .unknownVariant
  | _ => .error .wrongType

def encTif : Tif → Json
  | .gtc => .str (lit "GTC")
  | .ioc => .str (lit "IOC")
  | .fok => .str (lit "FOK")
  | .day => .str (lit "DAY")
  | .gtd n => .obj [(lit "GTD", .num n)]

def tifUnit (s : Str) : Option Tif :=
  if s = lit "GTC" ∨ s = lit "gtc" ∨ s = lit "Gtc" then some .gtc
  else if s = lit "IOC" ∨ s = lit "ioc" ∨ s = lit "Ioc" then some .ioc
  else if s = lit "FOK" ∨ s = lit "fok" ∨ s = lit "Fok" then some .fok
  else if s = lit "DAY" ∨ s = lit "day" ∨ s = lit "Day" then some .day
  else none

def decTif : Json → D Tif
  | .str s => (match tifUnit s with | some t => .ok t | none => .error .unknownVariant)
  | .obj [(k, v)] =>
    if k = lit "GTD" ∨ k = lit "gtd" ∨ k = lit "Gtd" then (decU64 v).map Tif.gtd
    else (match tifUnit k, v with
      | some t, .null => .ok t
      | some _, _ => .error .wrongType
      | none, _ => .error .unknownVariant)
  | _ => .error .wrongType

def encPeg (p : PegRef) : Json := .str (showPeg p)

def decPeg : Json → D PegRef
  | .str s => (match parsePegExact s with | some p => .ok p | none => .error .unknownVariant)
  | .obj [(k, .null)] => (match parsePegExact k with | some p => .ok p | none => .error .unknownVariant)
  | _ => .error .wrongType

def encId (i : Id) : Json := .str (showId i)

/-- `String::deserialize` then `OrderId::from_str` -/
def decId : Json → D Id
  | .str s => (match parseId s with | some i => .ok i | none => .error .badValue)
  | _ => .error .wrongType

def encUuid (v : Nat) : Json := .str (showUuid v)

def decUuid : Json → D Nat
  | .str s => (match parseUuid s with | some v => .ok v | none => .error .badValue)
  | _ => .error .wrongType

/-! ### orders (externally tagged struct variants) -/

def orderFields (o : Order) : String × List (Str × Json) :=
  let head (q : String) : List (Str × Json) :=
    [(lit "id", encId o.id), (lit "price", .num o.price), (lit q, .num o.vis)]
  let tail : List (Str × Json) :=
    [(lit "side", encSide o.side), (lit "timestamp", .num o.ts), (lit "time_in_force", encTif o.tif)]
  let extra : List (Str × Json) := [(lit "extra_fields", .null)]
  match o.kind with
  | .standard => ("Standard", head "quantity" ++ tail ++ extra)
  | .postOnly => ("PostOnly", head "quantity" ++ tail ++ extra)
  | .marketToLimit => ("MarketToLimit", head "quantity" ++ tail ++ extra)
  | .trailingStop t r =>
    ("TrailingStop", head "quantity" ++ tail ++ [(lit "trail_amount", .num t), (lit "last_reference_price", .num r)] ++ extra)
  | .pegged off r =>
    ("PeggedOrder", head "quantity" ++ tail ++
      [(lit "reference_price_offset", .num off), (lit "reference_price_type", encPeg r)] ++ extra)
  | .iceberg h => ("IcebergOrder", head "visible_quantity" ++ [(lit "hidden_quantity", .num h)] ++ tail ++ extra)
  | .reserve h thr amt auto =>
    ("ReserveOrder", head "visible_quantity" ++ [(lit "hidden_quantity", .num h)] ++ tail ++
      [(lit "replenish_threshold", .num thr),
       (lit "replenish_amount", match amt with | none => .null | some a => .num a),
       (lit "auto_replenish", .bool auto)] ++ extra)

def encOrder (o : Order) : Json :=
  let (name, fs) := orderFields o
  .obj [(lit name, .obj fs)]

def decOrder : Json → D Order
  | .obj [(name, .obj fs)] => do
    let id ← (field fs "id") >>= decId
    let price ← (field fs "price") >>= decU64
    let side ← (field fs "side") >>= decSide
    let ts ← (field fs "timestamp") >>= decU64
    let tif ← (field fs "time_in_force") >>= decTif
    let _ ← (field fs "extra_fields") >>= decUnit
    if name = lit "Standard" then do
      let q ← (field fs "quantity") >>= decU64
      .ok ⟨id, price, q, side, ts, tif, .standard⟩
    else if name = lit "PostOnly" then do
      let q ← (field fs "quantity") >>= decU64
      .ok ⟨id, price, q, side, ts, tif, .postOnly⟩
    else if name = lit "MarketToLimit" then do
      let q ← (field fs "quantity") >>= decU64
      .ok ⟨id, price, q, side, ts, tif, .marketToLimit⟩
    else if name = lit "TrailingStop" then do
      let q ← (field fs "quantity") >>= decU64
      let t ← (field fs "trail_amount") >>= decU64
      let r ← (field fs "last_reference_price") >>= decU64
      .ok ⟨id, price, q, side, ts, tif, .trailingStop t r⟩
    else if name = lit "PeggedOrder" then do
      let q ← (field fs "quantity") >>= decU64
      let off ← (field fs "reference_price_offset") >>= decI64
      let r ← (field fs "reference_price_type") >>= decPeg
      .ok ⟨id, price, q, side, ts, tif, .pegged off r⟩
    else if name = lit "IcebergOrder" then do
      let v ← (field fs "visible_quantity") >>= decU64
      let h ← (field fs "hidden_quantity") >>= decU64
      .ok ⟨id, price, v, side, ts, tif, .iceberg h⟩
    else if name = lit "ReserveOrder" then do
      let v ← (field fs "visible_quantity") >>= decU64
      let h ← (field fs "hidden_quantity") >>= decU64
      let thr ← (field fs "replenish_threshold") >>= decU64
      let amtJ ← fieldOpt fs "replenish_amount"
      let amt ← (match amtJ with | none => .ok none | some j => (decU64 j).map some)
      let auto ← (field fs "auto_replenish") >>= decBool
      .ok ⟨id, price, v, side, ts, tif, .reserve h thr amt auto⟩
    else .error .unknownVariant
  | _ => .error .wrongType

def encOrders (os : List Order) : Json := .arr (os.map encOrder)

def decOrders (j : Json) : D (List Order) := do
  let l ← asArr j
  l.mapM decOrder

/-! ### order updates -/

def encUpdate : Update → Json
  | .price id p => .obj [(lit "UpdatePrice", .obj [(lit "order_id", encId id), (lit "new_price", .num p)])]
  | .quantity id n => .obj [(lit "UpdateQuantity", .obj [(lit "order_id", encId id), (lit "new_quantity", .num n)])]
  | .priceQty id p n =>
    .obj [(lit "UpdatePriceAndQuantity", .obj [(lit "order_id", encId id), (lit "new_price", .num p), (lit "new_quantity", .num n)])]
  | .cancel id => .obj [(lit "Cancel", .obj [(lit "order_id", encId id)])]
  | .replace id p n sd =>
    .obj [(lit "Replace", .obj [(lit "order_id", encId id), (lit "price", .num p), (lit "quantity", .num n), (lit "side", encSide sd)])]

def decUpdate : Json → D Update
  | .obj [(name, .obj fs)] => do
    let id ← (field fs "order_id") >>= decId
    if name = lit "UpdatePrice" then do
      .ok (.price id (← (field fs "new_price") >>= decU64))
    else if name = lit "UpdateQuantity" then do
      .ok (.quantity id (← (field fs "new_quantity") >>= decU64))
    else if name = lit "UpdatePriceAndQuantity" then do
      let p ← (field fs "new_price") >>= decU64
      let n ← (field fs "new_quantity") >>= decU64
      .ok (.priceQty id p n)
    else if name = lit "Cancel" then .ok (.cancel id)
    else if name = lit "Replace" then do
      let p ← (field fs "price") >>= decU64
      let n ← (field fs "quantity") >>= decU64
      let sd ← (field fs "side") >>= decSide
      .ok (.replace id p n sd)
    else .error .unknownVariant
  | _ => .error .wrongType

/-! ### transactions and match results -/

def encTx (t : TxRec) : Json :=
  .obj [(lit "transaction_id", encUuid t.txid), (lit "taker_order_id", encId t.taker), (lit "maker_order_id", encId t.maker),
        (lit "price", .num t.price), (lit "quantity", .num t.qty), (lit "taker_side", encSide t.side), (lit "timestamp", .num t.ts)]

def decTx (j : Json) : D TxRec := do
  let fs ← asObj j
  let txid ← (field fs "transaction_id") >>= decUuid
  let taker ← (field fs "taker_order_id") >>= decId
  let maker ← (field fs "maker_order_id") >>= decId
  let price ← (field fs "price") >>= decU64
  let qty ← (field fs "quantity") >>= decU64
  let side ← (field fs "taker_side") >>= decSide
  let ts ← (field fs "timestamp") >>= decU64
  .ok ⟨txid, taker, maker, price, qty, side, ts⟩

def encTxList (l : List TxRec) : Json := .obj [(lit "transactions", .arr (l.map encTx))]

def decTxList (j : Json) : D (List TxRec) := do
  let fs ← asObj j
  let l ← (field fs "transactions") >>= asArr
  l.mapM decTx

def encMR (r : MRRec) : Json :=
  .obj [(lit "order_id", encId r.orderId), (lit "transactions", encTxList r.txs), (lit "remaining_quantity", .num r.remaining),
        (lit "is_complete", .bool r.complete), (lit "filled_order_ids", .arr (r.filled.map encId))]

def decMR (j : Json) : D MRRec := do
  let fs ← asObj j
  let id ← (field fs "order_id") >>= decId
  let txs ← (field fs "transactions") >>= decTxList
  let rem ← (field fs "remaining_quantity") >>= decU64
  let c ← (field fs "is_complete") >>= decBool
  let fl ← (field fs "filled_order_ids") >>= asArr
  let ids ← fl.mapM decId
  .ok ⟨id, txs, rem, c, ids⟩

/-! ### statistics (hand-written visitor: unknown field rejected, missing field defaults) -/

def statKeys : List String :=
  ["orders_added", "orders_removed", "orders_executed", "quantity_executed", "value_executed",
   "last_execution_time", "first_arrival_time", "sum_waiting_time"]

def encStats (s : StatsRec) : Json :=
  .obj [(lit "orders_added", .num s.added), (lit "orders_removed", .num s.removed), (lit "orders_executed", .num s.executed),
        (lit "quantity_executed", .num s.qty), (lit "value_executed", .num s.value), (lit "last_execution_time", .num s.last),
        (lit "first_arrival_time", .num s.first), (lit "sum_waiting_time", .num s.wait)]

/-- a field of the statistics visitor: at most once; absent ⇒ `dflt` (the clock for
    `first_arrival_time`, which the model takes as an input) -/
def statField (kvs : List (Str × Json)) (k : String) (dflt : Nat) : D Nat :=
  match kvs.filter (fun p => p.1 = lit k) with
  | [] => .ok dflt
  | [p] => decU64 p.2
  | _ => .error .duplicate

def decStats (now : Nat) (j : Json) : D StatsRec := do
  let fs ← asObj j
  if fs.any (fun p => !(statKeys.any (fun k => p.1 = lit k))) then .error .unknownField else
  let a ← statField fs "orders_added" 0
  let r ← statField fs "orders_removed" 0
  let e ← statField fs "orders_executed" 0
  let q ← statField fs "quantity_executed" 0
  let v ← statField fs "value_executed" 0
  let l ← statField fs "last_execution_time" 0
  let f ← statField fs "first_arrival_time" now
  let w ← statField fs "sum_waiting_time" 0
  .ok ⟨a, r, e, q, v, l, f, w⟩

/-! ### snapshots, level data, packages -/

def snapKeys : List String := ["price", "visible_quantity", "hidden_quantity", "order_count", "orders"]

def encSnapshot (s : Snapshot) : Json :=
  .obj [(lit "price", .num s.price), (lit "visible_quantity", .num s.vis), (lit "hidden_quantity", .num s.hid),
        (lit "order_count", .num s.cnt), (lit "orders", encOrders s.orders)]

/-- the strict snapshot deserializer (snapshot.rs:172-310): unknown and duplicate fields are errors,
    the four scalars are required, `orders` defaults to empty -/
def decSnapshot (j : Json) : D Snapshot := do
  let fs ← asObj j
  if fs.any (fun p => !(snapKeys.any (fun k => p.1 = lit k))) then .error .unknownField else
  if snapKeys.any (fun k => countKey k fs > 1) then .error .duplicate else
  let price ← (field fs "price") >>= decU64
  let vis ← (field fs "visible_quantity") >>= decU64
  let hid ← (field fs "hidden_quantity") >>= decU64
  let cnt ← (field fs "order_count") >>= decU64
  let orders ← (match fs.filter (fun p => p.1 = lit "orders") with
    | [] => .ok []
    | p :: _ => decOrders p.2)
  .ok ⟨price, vis, hid, cnt, orders⟩

/-- `PriceLevelData` (derived: unknown fields ignored) -/
def decLevelData (j : Json) : D Snapshot := do
  let fs ← asObj j
  let price ← (field fs "price") >>= decU64
  let vis ← (field fs "visible_quantity") >>= decU64
  let hid ← (field fs "hidden_quantity") >>= decU64
  let cnt ← (field fs "order_count") >>= decU64
  let orders ← (field fs "orders") >>= decOrders
  .ok ⟨price, vis, hid, cnt, orders⟩

/-- the bytes the checksum is computed over: `serde_json::to_vec(&snapshot)` (all ASCII) -/
def ser (s : Snapshot) : List UInt8 := (render (encSnapshot s)).map (fun c => UInt8.ofNat c.toNat)

structure Package where
  version  : Nat
  snapshot : Snapshot
  checksum : Str
  deriving Repr, Inhabited

/-- `PriceLevelSnapshotPackage::new`: refresh the aggregates, then checksum -/
def Package.new (H : List UInt8 → Str) (s : Snapshot) : Package :=
  let s' := s.refresh
  { version := formatVersion, snapshot := s', checksum := H (ser s') }

inductive VErr where
  | version | checksum
  deriving DecidableEq, Repr, Inhabited

/-- `validate`: version gate, then recompute and compare -/
def Package.validate (H : List UInt8 → Str) (p : Package) : Except VErr Unit :=
  if p.version ≠ formatVersion then .error .version
  else if H (ser p.snapshot) ≠ p.checksum then .error .checksum
  else .ok ()

/-- `PriceLevel::from_snapshot_package`: validate, then rebuild -/
def restore (H : List UInt8 → Str) (p : Package) : Except VErr Level :=
  match p.validate H with
  | .error e => .error e
  | .ok () => .ok (Level.fromSnapshot p.snapshot)

def encPackage (p : Package) : Json :=
  .obj [(lit "version", .num p.version), (lit "snapshot", encSnapshot p.snapshot), (lit "checksum", .str p.checksum)]

def decPackage (j : Json) : D Package := do
  let fs ← asObj j
  let v ← (field fs "version") >>= decU32
  let s ← (field fs "snapshot") >>= decSnapshot
  let c ← (field fs "checksum") >>= decStr
  .ok ⟨v, s, c⟩

/-- the real hash: SHA-256, lower-case hex -/
def sha (bytes : List UInt8) : Str := Sha256.hexDigest bytes

end PLV.J

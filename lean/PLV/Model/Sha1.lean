/-
  SHA-1 (FIPS 180-4) over a list of bytes and the name-based UUID (version 5, RFC 4122 §4.3) built on it —
  `UuidGenerator::next` returns `Uuid::new_v5(&namespace, counter.to_string().as_bytes())` (src/utils/uuid.rs:79-84).
  The `uuid` and `sha1` crates are dependencies of the crate under verification, not part of it: this model of them
  is compared bit for bit with the ids the real generator hands out (driver command `v5`).
-/
import PLV.Model.Sha256

namespace PLV.Sha1
open PLV.Sha256 (pad words blocks)

def rotl (x : UInt32) (n : UInt32) : UInt32 := (x <<< n) ||| (x >>> (32 - n))

def H0 : Array UInt32 := #[0x67452301, 0xEFCDAB89, 0x98BADCFE, 0x10325476, 0xC3D2E1F0]

/-- the 80-entry message schedule of one block -/
def schedule (block : Array UInt32) : Array UInt32 :=
  (List.range 64).foldl (fun (w : Array UInt32) i =>
    let t := i + 16
    w.push (rotl (w[t - 3]! ^^^ w[t - 8]! ^^^ w[t - 14]! ^^^ w[t - 16]!) 1)) block

def compress (h : Array UInt32) (block : Array UInt32) : Array UInt32 :=
  let w := schedule block
  let init := (h[0]!, h[1]!, h[2]!, h[3]!, h[4]!)
  let (a, b, c, d, e) := (List.range 80).foldl
    (fun (st : UInt32 × UInt32 × UInt32 × UInt32 × UInt32) i =>
      let (a, b, c, d, e) := st
      let fk : UInt32 × UInt32 :=
        if i < 20 then ((b &&& c) ||| ((~~~ b) &&& d), 0x5A827999)
        else if i < 40 then (b ^^^ c ^^^ d, 0x6ED9EBA1)
        else if i < 60 then ((b &&& c) ||| (b &&& d) ||| (c &&& d), 0x8F1BBCDC)
        else (b ^^^ c ^^^ d, 0xCA62C1D6)
      let temp := rotl a 5 + fk.1 + e + fk.2 + w[i]!
      (temp, a, rotl b 30, c, d)) init
  #[h[0]! + a, h[1]! + b, h[2]! + c, h[3]! + d, h[4]! + e]

def digestWords (msg : List UInt8) : Array UInt32 :=
  (blocks (words (pad msg))).foldl compress H0

/-- the 20 digest bytes, big-endian per word -/
def digestBytes (msg : List UInt8) : List UInt8 :=
  (digestWords msg).toList.flatMap (fun w =>
    (List.range 4).map (fun i => UInt8.ofNat ((w.toNat >>> (8 * (3 - i))) % 256)))

/-- the 16 bytes of a 128-bit value, big-endian (`Uuid::as_bytes`) -/
def bytes16 (v : Nat) : List UInt8 := (List.range 16).map (fun i => UInt8.ofNat ((v >>> (8 * (15 - i))) % 256))

def ofBytes (bs : List UInt8) : Nat := bs.foldl (fun acc b => acc * 256 + b.toNat) 0

/-- the first 16 digest bytes with the version (5) and variant (RFC 4122) bits forced -/
def stamp (d : List UInt8) : List UInt8 :=
  let d := d.take 16
  (d.set 6 ((d.getD 6 0 &&& 0x0f) ||| 0x50)).set 8 ((d.getD 8 0 &&& 0x3f) ||| 0x80)

/-- `Uuid::new_v5(namespace, name)` as a 128-bit number -/
def uuid5 (ns : Nat) (name : List UInt8) : Nat := ofBytes (stamp (digestBytes (bytes16 ns ++ name)))

/-- `counter.to_string().as_bytes()` -/
def nameOfCounter (c : Nat) : List UInt8 := (Nat.toDigits 10 c).map (fun ch => UInt8.ofNat ch.toNat)

/-- the id `UuidGenerator::next` returns when it draws counter value `c` -/
def txId (ns c : Nat) : Nat := uuid5 ns (nameOfCounter c)

end PLV.Sha1

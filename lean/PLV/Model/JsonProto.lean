/-
  Driver-side glue for the JSON codecs and snapshot packages. Driver-only code.
-/
import PLV.Model.JsonText
import PLV.Model.TextProto

namespace PLV.JsonProto
open PLV PLV.Proto PLV.J

def nats (s : String) : Option (List Nat) := (s.splitOn ",").mapM String.toNat?

def parseSnapV (s : String) : Option Snapshot :=
  match s.splitOn ";" with
  | [ns, os] =>
    (match nats ns, parseList parseOrder os with
     | some [p, v, h, c], some l => some ⟨p, v, h, c, l⟩
     | _, _ => none)
  | _ => none

def showSnapV (s : Snapshot) : String :=
  toString s.price ++ "," ++ toString s.vis ++ "," ++ toString s.hid ++ "," ++ toString s.cnt ++ ";" ++ showList showOrder s.orders

def encByType (ty v : String) : Option Json :=
  match ty with
  | "order" => (parseOrder v).map encOrder
  | "update" => (TextProto.parseUpd v).map encUpdate
  | "id" => (parseId v).map encId
  | "side" => (parseSide v).map encSide
  | "tif" => (parseTif v).map encTif
  | "peg" => (parsePeg v).map encPeg
  | "tx" => (TextProto.parseTxRec v).map encTx
  | "mr" => (TextProto.parseMRRec v).map encMR
  | "stats" => (match nats v with | some [a, r, e, q, vv, l, f, w] => some (encStats ⟨a, r, e, q, vv, l, f, w⟩) | _ => none)
  | "snapj" => (parseSnapV v).map encSnapshot
  | "leveldata" => (parseSnapV v).map encSnapshot
  | "pkg" =>
    (match v.splitOn "#" with
     | [ver, sn, ck] => do
       let ver ← ver.toNat?
       let sn ← parseSnapV sn
       some (encPackage ⟨ver, sn, ck.toList⟩)
     | _ => none)
  | _ => none

def dStr {α : Type} (f : α → String) : D α → String
  | .ok v => "ok " ++ f v
  | .error _ => "err"

def decByType (ty : String) (j : Json) : Option String :=
  match ty with
  | "order" => some (dStr showOrder (decOrder j))
  | "update" => some (dStr TextProto.showUpd (decUpdate j))
  | "id" => some (dStr showId (decId j))
  | "side" => some (dStr showSide (decSide j))
  | "tif" => some (dStr showTif (decTif j))
  | "peg" => some (dStr showPeg (decPeg j))
  | "tx" => some (dStr TextProto.showTxRec (decTx j))
  | "mr" => some (dStr TextProto.showMRRec (decMR j))
  | "stats" => some (dStr (fun (x : Text.StatsRec) => TextProto.showNats [x.added, x.removed, x.executed, x.qty, x.value, x.last, x.first, x.wait]) (decStats 0 j))
  | "snapj" => some (dStr showSnapV (decSnapshot j))
  | "leveldata" =>
    -- a level deserialized from its data form: price, derived aggregates, canonical listing
    some (dStr (fun (s : Snapshot) =>
      let l := Level.fromOrders s.price s.orders
      toString l.price ++ "," ++ toString l.vis ++ "," ++ toString l.hid ++ "," ++ toString l.cnt ++ ";" ++
        showList showOrder (canonSort l.map)) (decLevelData j))
  | "pkg" => some (dStr (fun (p : Package) => toString p.version ++ "#" ++ showSnapV p.snapshot ++ "#" ++ String.ofList p.checksum) (decPackage j))
  | _ => none

/-- the content a restore must reproduce: price, aggregates, canonical listing -/
def levelContent (l : Level) : String :=
  toString l.price ++ "/" ++ toString l.vis ++ "/" ++ toString l.hid ++ "/" ++ toString l.cnt ++ "/" ++
    showList showOrder (canonSort l.map)

/-- `PriceLevel::from_snapshot_json` on a JSON text -/
def restoreText (text : String) : String :=
  match parseJson text.toList with
  | none => "restored err"
  | some j =>
    match decPackage j with
    | .error _ => "restored err"
    | .ok p =>
      match restore sha p with
      | .error _ => "restored err"
      | .ok l => "restored ok " ++ levelContent l

end PLV.JsonProto

/-
  A JSON text reader for the driver (not used by any theorem): turns the text the harness hands
  over into a `Json` tree, keeping key order and duplicates. Numbers that are not plain integer
  literals within the 64-bit ranges become `.float`; strings containing an escape are kept with the
  escape undone only for `\"`, `\\`, `\/`; anything else escaped makes the string unequal to any
  keyword (a private-use marker is inserted).
-/
import PLV.Model.Json

namespace PLV.J
open PLV PLV.Text

def isWs (c : Char) : Bool := c = ' ' ∨ c = '\n' ∨ c = '\t' ∨ c = '\r'

def skipWs : Str → Str
  | c :: rest => if isWs c then skipWs rest else c :: rest
  | [] => []

/-- after the opening quote: the string's content and the rest -/
def readString : Str → Str → Option (Str × Str)
  | _, [] => none
  | acc, '"' :: rest => some (acc.reverse, rest)
  | acc, '\\' :: c :: rest =>
    if c = '"' ∨ c = '\\' ∨ c = '/' then readString (c :: acc) rest
    else if c = 'u' then readString ('' :: acc) rest
    else if c = 'b' ∨ c = 'f' ∨ c = 'n' ∨ c = 'r' ∨ c = 't' then readString ('' :: acc) rest
    else none
  | acc, c :: rest => if c.toNat < 32 then none else readString (c :: acc) rest

def takeDigits : Str → Str × Str
  | c :: rest => if c.isDigit then let (d, r) := takeDigits rest; (c :: d, r) else ([], c :: rest)
  | [] => ([], [])

/-- a JSON number: `-? int frac? exp?`; returns the tree and the rest -/
def readNumber (s : Str) : Option (Json × Str) :=
  let (neg, s1) := match s with | '-' :: r => (true, r) | _ => (false, s)
  let (ds, s2) := takeDigits s1
  if ds.isEmpty then none
  else if ds.length > 1 ∧ ds.head? = some '0' then none       -- leading zeros are not JSON
  else
    let (isInt, s3) : Bool × Str :=
      match s2 with
      | '.' :: r =>
        let (fs, r') := takeDigits r
        if fs.isEmpty then (false, '.' :: r) else
        (match r' with
         | e :: r'' =>
           if e = 'e' ∨ e = 'E' then
             let r3 := match r'' with | '+' :: x => x | '-' :: x => x | x => x
             let (es, r4) := takeDigits r3
             if es.isEmpty then (false, r') else (false, r4)
           else (false, r')
         | [] => (false, []))
      | e :: r =>
        if e = 'e' ∨ e = 'E' then
          let r3 := match r with | '+' :: x => x | '-' :: x => x | x => x
          let (es, r4) := takeDigits r3
          if es.isEmpty then (true, s2) else (false, r4)
        else (true, s2)
      | [] => (true, [])
    -- a dangling '.' or 'e' is left in the rest and makes the document invalid
    let n := Nat.ofDigitChars 10 ds 0
    if !isInt then some (.float, s3)
    else if neg then
      (if n = 0 then some (.float, s3)     -- "-0" is a float for serde_json
       else if n ≤ 9223372036854775808 then some (.num (-(n : Int)), s3) else some (.float, s3))
    else (if n < 18446744073709551616 then some (.num n, s3) else some (.float, s3))

mutual
  def readValue (fuel : Nat) (s : Str) : Option (Json × Str) :=
    match fuel with
    | 0 => none
    | fuel + 1 =>
      match skipWs s with
      | 'n' :: 'u' :: 'l' :: 'l' :: rest => some (.null, rest)
      | 't' :: 'r' :: 'u' :: 'e' :: rest => some (.bool true, rest)
      | 'f' :: 'a' :: 'l' :: 's' :: 'e' :: rest => some (.bool false, rest)
      | '"' :: rest => (readString [] rest).map (fun (p : Str × Str) => (.str p.1, p.2))
      | '[' :: rest =>
        (match skipWs rest with
         | ']' :: r => some (.arr [], r)
         | _ => (readElems fuel rest []).map (fun (p : List Json × Str) => (.arr p.1, p.2)))
      | '{' :: rest =>
        (match skipWs rest with
         | '}' :: r => some (.obj [], r)
         | _ => (readMembers fuel rest []).map (fun (p : List (Str × Json) × Str) => (.obj p.1, p.2)))
      | c :: rest => if c = '-' ∨ c.isDigit then readNumber (c :: rest) else none
      | [] => none
  def readElems (fuel : Nat) (s : Str) (acc : List Json) : Option (List Json × Str) :=
    match fuel with
    | 0 => none
    | fuel + 1 =>
      match readValue fuel s with
      | none => none
      | some (v, rest) =>
        match skipWs rest with
        | ',' :: r => readElems fuel r (acc ++ [v])
        | ']' :: r => some (acc ++ [v], r)
        | _ => none
  def readMembers (fuel : Nat) (s : Str) (acc : List (Str × Json)) : Option (List (Str × Json) × Str) :=
    match fuel with
    | 0 => none
    | fuel + 1 =>
      match skipWs s with
      | '"' :: rest =>
        (match readString [] rest with
         | none => none
         | some (k, r1) =>
           match skipWs r1 with
           | ':' :: r2 =>
             (match readValue fuel r2 with
              | none => none
              | some (v, r3) =>
                match skipWs r3 with
                | ',' :: r4 => readMembers fuel r4 (acc ++ [(k, v)])
                | '}' :: r4 => some (acc ++ [(k, v)], r4)
                | _ => none)
           | _ => none)
      | _ => none
end

/-- a complete JSON document (trailing whitespace allowed, nothing else) -/
def parseJson (s : Str) : Option Json :=
  match readValue (s.length + 2) s with
  | some (v, rest) => if (skipWs rest).isEmpty then some v else none
  | none => none

end PLV.J

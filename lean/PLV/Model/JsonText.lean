/-
  A JSON text reader for the driver (not used by any theorem): turns the text the harness hands
  over into a `Json` tree, keeping key order and duplicates. Numbers that are not plain integer
  literals within the 64-bit ranges become `.float`; strings containing an escape are kept with the
  escape undone only for `\"`, `\\`, `\/`; anything else escaped makes the string unequal to any
  keyword (a private-use marker is inserted).
-/
import PLV.Model.Json

namespace PLV.J
open PLV PLV.Text

def isWs (c : Char) : Bool := c = ' ' ∨ c = '\n' ∨ c = '\t' ∨ c = '\r'

def skipWs : Str → Str
  | c :: rest => if isWs c then skipWs rest else c :: rest
  | [] => []

/-- after the opening quote: the string's content and the rest -/
def readString : Str → Str → Option (Str × Str)
  | _, [] => none
  | acc, c :: rest =>
    if c = '"' then some (acc.reverse, rest)
    else if c = '\\' then
      (match rest with
       | [] => none
       | e :: rest' =>
         if e = '"' ∨ e = '\\' ∨ e = '/' then readString (e :: acc) rest'
         else if e = 'u' then readString ('\uE000' :: acc) rest'
         else if e = 'b' ∨ e = 'f' ∨ e = 'n' ∨ e = 'r' ∨ e = 't' then readString ('\uE000' :: acc) rest'
         else none)
    else if c.toNat < 32 then none
    else readString (c :: acc) rest

def takeDigits : Str → Str × Str
  | c :: rest => if c.isDigit then let (d, r) := takeDigits rest; (c :: d, r) else ([], c :: rest)
  | [] => ([], [])

/-- what follows the integer part of a number: `(is it an integer literal?, rest)` -/
def numTail (s2 : Str) : Bool × Str :=
  match s2 with
  | '.' :: r =>
    let (fs, r') := takeDigits r
    if fs.isEmpty then (false, '.' :: r) else
    (match r' with
     | e :: r'' =>
       if e = 'e' ∨ e = 'E' then
         let r3 := match r'' with | '+' :: x => x | '-' :: x => x | x => x
         let (es, r4) := takeDigits r3
         if es.isEmpty then (false, r') else (false, r4)
       else (false, r')
     | [] => (false, []))
  | e :: r =>
    if e = 'e' ∨ e = 'E' then
      let r3 := match r with | '+' :: x => x | '-' :: x => x | x => x
      let (es, r4) := takeDigits r3
      if es.isEmpty then (true, s2) else (false, r4)
    else (true, s2)
  | [] => (true, [])

/-- a JSON number: `-? int frac? exp?`; returns the tree and the rest -/
def readNumber (s : Str) : Option (Json × Str) :=
  let neg : Bool := s.head? = some '-'
  let s1 := if neg then s.tail else s
  let ds := (takeDigits s1).1
  let s2 := (takeDigits s1).2
  if ds.isEmpty then none
  else if ds.length > 1 ∧ ds.head? = some '0' then none       -- leading zeros are not JSON
  else
    let isInt := (numTail s2).1
    let s3 := (numTail s2).2
    -- a dangling '.' or 'e' is left in the rest and makes the document invalid
    let n := Nat.ofDigitChars 10 ds 0
    if !isInt then some (.float, s3)
    else if neg then
      (if n = 0 then some (.float, s3)     -- "-0" is a float for serde_json
       else if n ≤ 9223372036854775808 then some (.num (Int.negSucc (n - 1)), s3) else some (.float, s3))
    else (if n < 18446744073709551616 then some (.num (Int.ofNat n), s3) else some (.float, s3))

/-- may a JSON value start with this character? (the reader dispatches on it) -/
def litAt (w : Str) (s : Str) : Option Str := if s.take w.length = w then some (s.drop w.length) else none

mutual
  def readValue (fuel : Nat) (s : Str) : Option (Json × Str) :=
    match fuel with
    | 0 => none
    | fuel + 1 =>
      match skipWs s with
      | [] => none
      | c :: rest =>
        if c = '"' then (readString [] rest).map (fun (p : Str × Str) => (.str p.1, p.2))
        else if c = '[' then
          (match skipWs rest with
           | ']' :: r => some (.arr [], r)
           | _ => (readElems fuel rest []).map (fun (p : List Json × Str) => (.arr p.1, p.2)))
        else if c = '{' then
          (match skipWs rest with
           | '}' :: r => some (.obj [], r)
           | _ => (readMembers fuel rest []).map (fun (p : List (Str × Json) × Str) => (.obj p.1, p.2)))
        else if c = '-' ∨ c.isDigit then readNumber (c :: rest)
        else if c = 'n' then (litAt (lit "ull") rest).map (fun r => (.null, r))
        else if c = 't' then (litAt (lit "rue") rest).map (fun r => (.bool true, r))
        else if c = 'f' then (litAt (lit "alse") rest).map (fun r => (.bool false, r))
        else none
  def readElems (fuel : Nat) (s : Str) (acc : List Json) : Option (List Json × Str) :=
    match fuel with
    | 0 => none
    | fuel + 1 =>
      match readValue fuel s with
      | none => none
      | some (v, rest) =>
        match skipWs rest with
        | ',' :: r => readElems fuel r (acc ++ [v])
        | ']' :: r => some (acc ++ [v], r)
        | _ => none
  def readMembers (fuel : Nat) (s : Str) (acc : List (Str × Json)) : Option (List (Str × Json) × Str) :=
    match fuel with
    | 0 => none
    | fuel + 1 =>
      match skipWs s with
      | '"' :: rest =>
        (match readString [] rest with
         | none => none
         | some (k, r1) =>
           match skipWs r1 with
           | ':' :: r2 =>
             (match readValue fuel r2 with
              | none => none
              | some (v, r3) =>
                match skipWs r3 with
                | ',' :: r4 => readMembers fuel r4 (acc ++ [(k, v)])
                | '}' :: r4 => some (acc ++ [(k, v)], r4)
                | _ => none)
           | _ => none)
      | _ => none
end

/-- a complete JSON document (trailing whitespace allowed, nothing else) -/
def parseJson (s : Str) : Option Json :=
  match readValue (s.length + 2) s with
  | some (v, rest) => if (skipWs rest).isEmpty then some v else none
  | none => none

end PLV.J

/-
  PLV.Model.Text — the hand-written `Display` / `FromStr` codecs of the crate
  (orders/order_type.rs:832-1225, orders/update.rs, orders/base.rs, orders/time_in_force.rs,
  orders/pegged.rs, execution/transaction.rs, execution/list.rs, execution/match_result.rs,
  price_level/level.rs:535-671, price_level/snapshot.rs, price_level/statistics.rs,
  price_level/order_queue.rs:133-164) and the text forms of `uuid::Uuid` / `ulid::Ulid`.

  Strings are `List Char`. Errors are mapped to a small enum (the variant of `PriceLevelError`).
-/
import PLV.Model.Level

namespace PLV.Text
open PLV

abbrev Str := List Char

/-- `str::split(c)`: always at least one piece -/
def splitOn (c : Char) : Str → List Str
  | [] => [[]]
  | x :: rest =>
    if x = c then [] :: splitOn c rest
    else match splitOn c rest with
      | [] => [[x]]            -- unreachable
      | p :: ps => (x :: p) :: ps

def joinSep (sep : Str) : List Str → Str
  | [] => []
  | [x] => x
  | x :: rest => x ++ sep ++ joinSep sep rest

def lit (s : String) : Str := s.toList

def showNat (n : Nat) : Str := Nat.toDigits 10 n

/-- the value of a non-empty all-digit string (`none` if some character is not an ASCII digit) -/
def digitsVal (s : Str) : Option Nat :=
  if s.all Char.isDigit then some (Nat.ofDigitChars 10 s 0) else none

def stripPlus : Str → Str
  | '+' :: rest => rest
  | s => s

/-- `str::parse::<u64>()`: optional `+`, at least one digit, only ASCII digits, below 2^64 -/
def parseU64 (s : Str) : Option Nat :=
  let body := stripPlus s
  if body.isEmpty then none
  else match digitsVal body with
    | some n => if n < W then some n else none
    | none => none

def showInt (i : Int) : Str :=
  match i with
  | .ofNat n => showNat n
  | .negSucc n => '-' :: showNat (n + 1)

/-- `str::parse::<i64>()` -/
def parseI64 (s : Str) : Option Int :=
  match s with
  | '-' :: rest =>
    if rest.isEmpty then none else
    match digitsVal rest with
    | some n => if n ≤ 9223372036854775808 then some (-(n : Int)) else none
    | none => none
  | _ =>
    let body := stripPlus s
    if body.isEmpty then none else
    match digitsVal body with
    | some n => if n < 9223372036854775808 then some (n : Int) else none
    | none => none

/-! ### ids -/

def hexDigit (n : Nat) : Char := if n < 10 then Char.ofNat (48 + n) else Char.ofNat (87 + n)

def hexVal (c : Char) : Option Nat :=
  if '0' ≤ c ∧ c ≤ '9' then some (c.toNat - 48)
  else if 'a' ≤ c ∧ c ≤ 'f' then some (c.toNat - 87)
  else if 'A' ≤ c ∧ c ≤ 'F' then some (c.toNat - 55)
  else none

/-- `n` as exactly `k` lower-case hex digits, most significant first -/
def hexFixed : Nat → Nat → Str
  | 0, _ => []
  | k + 1, n => hexFixed k (n / 16) ++ [hexDigit (n % 16)]

/-- value of a string of hex digits, most significant first -/
def hexValue : Str → Option Nat
  | [] => some 0
  | s => s.foldl (fun acc c => match acc, hexVal c with
    | some a, some d => some (a * 16 + d)
    | _, _ => none) (some 0)

/-- `Uuid`'s `Display`: 8-4-4-4-12 lower-case hex -/
def showUuid (v : Nat) : Str :=
  joinSep ['-'] [hexFixed 8 (v / 16 ^ 24), hexFixed 4 (v / 16 ^ 20), hexFixed 4 (v / 16 ^ 16), hexFixed 4 (v / 16 ^ 12), hexFixed 12 v]

/-- the hyphenated form: 36 characters, `-` at positions 8, 13, 18, 23, hex digits elsewhere —
    equivalently five `-`-separated groups of 8, 4, 4, 4, 12 hex digits -/
def parseHyphenated (s : Str) : Option Nat :=
  match splitOn '-' s with
  | [g1, g2, g3, g4, g5] =>
    if g1.length = 8 ∧ g2.length = 4 ∧ g3.length = 4 ∧ g4.length = 4 ∧ g5.length = 12 then
      match hexValue g1, hexValue g2, hexValue g3, hexValue g4, hexValue g5 with
      | some a, some b, some c, some d, some e => some ((((a * 16 ^ 4 + b) * 16 ^ 4 + c) * 16 ^ 4 + d) * 16 ^ 12 + e)
      | _, _, _, _, _ => none
    else none
  | _ => none

def isAscii (s : Str) : Bool := s.all (fun c => c.toNat < 128)

/-- `Uuid::from_str`: simple (32 hex), hyphenated (36), braced (38), urn (45); lengths in bytes -/
def parseUuid (s : Str) : Option Nat :=
  if !isAscii s then none
  else if s.length = 32 then hexValue s
  else if s.length = 36 then parseHyphenated s
  else if s.length = 38 then
    (if s.head? = some '{' ∧ s.getLast? = some '}' then parseHyphenated ((s.drop 1).take 36) else none)
  else if s.length = 45 then
    (if s.take 9 = lit "urn:uuid:" then parseHyphenated (s.drop 9) else none)
  else none

def crockford : Str := lit "0123456789ABCDEFGHJKMNPQRSTVWXYZ"

def b32Fixed : Nat → Nat → Str
  | 0, _ => []
  | k + 1, n => b32Fixed k (n / 32) ++ [crockford.getD (n % 32) '0']

/-- `Ulid`'s `Display`: 26 Crockford base-32 characters -/
def showUlid (v : Nat) : Str := b32Fixed 26 v

def b32Val (c : Char) : Option Nat :=
  let u := if 'a' ≤ c ∧ c ≤ 'z' then Char.ofNat (c.toNat - 32) else c
  (crockford.idxOf? u)

def b32Value (s : Str) : Option Nat :=
  s.foldl (fun acc c => match acc, b32Val c with
    | some a, some d => some (a * 32 + d)
    | _, _ => none) (some 0)

/-- `Ulid::from_string`: 26 characters of the alphabet (either case); the two bits above 2^128 are
    silently dropped (`value << 5` on a `u128`) -/
def parseUlid (s : Str) : Option Nat :=
  if !isAscii s ∨ s.length ≠ 26 then none
  else (b32Value s).map (· % 2 ^ 128)

def showId (i : Id) : Str := if i.ulid then showUlid i.val else showUuid i.val

/-- `OrderId::from_str`: UUID first, then ULID -/
def parseId (s : Str) : Option Id :=
  match parseUuid s with
  | some v => some ⟨false, v⟩
  | none => (parseUlid s).map (⟨true, ·⟩)

/-! ### small enums -/

/-- `str::to_uppercase` restricted to what can produce the keywords compared against: ASCII letters
    and the non-ASCII characters whose upper-case form is ASCII -/
def upperChar (c : Char) : Str :=
  if 'a' ≤ c ∧ c ≤ 'z' then [Char.ofNat (c.toNat - 32)]
  else if c = 'ſ' then ['S']
  else if c = 'ı' then ['I']
  else if c = 'ß' then ['S', 'S']
  else if c = 'ﬀ' then ['F', 'F']
  else if c = 'ﬁ' then ['F', 'I']
  else if c = 'ﬂ' then ['F', 'L']
  else if c = 'ﬃ' then ['F', 'F', 'I']
  else if c = 'ﬄ' then ['F', 'F', 'L']
  else if c = 'ﬅ' then ['S', 'T']
  else if c = 'ﬆ' then ['S', 'T']
  else [c]

def toUpper (s : Str) : Str := s.flatMap upperChar

def showSide : Side → Str
  | .buy => lit "BUY"
  | .sell => lit "SELL"

def parseSide (s : Str) : Option Side :=
  let u := toUpper s
  if u = lit "BUY" then some .buy else if u = lit "SELL" then some .sell else none

def showTif : Tif → Str
  | .gtc => lit "GTC" | .ioc => lit "IOC" | .fok => lit "FOK" | .day => lit "DAY"
  | .gtd n => lit "GTD-" ++ showNat n

def parseTif (s : Str) : Option Tif :=
  let u := toUpper s
  if u = lit "GTC" then some .gtc
  else if u = lit "IOC" then some .ioc
  else if u = lit "FOK" then some .fok
  else if u = lit "DAY" then some .day
  else if u.take 4 = lit "GTD-" then
    match splitOn '-' u with
    | [_, n] => (parseU64 n).map Tif.gtd
    | _ => none
  else none

def showPeg : PegRef → Str
  | .bestBid => lit "BestBid" | .bestAsk => lit "BestAsk" | .midPrice => lit "MidPrice" | .lastTrade => lit "LastTrade"

/-- `PegReferenceType::from_str` (three spellings each) -/
def parsePeg (s : Str) : Option PegRef :=
  if s = lit "BestBid" ∨ s = lit "BESTBID" ∨ s = lit "bestbid" then some .bestBid
  else if s = lit "BestAsk" ∨ s = lit "BESTASK" ∨ s = lit "bestask" then some .bestAsk
  else if s = lit "MidPrice" ∨ s = lit "MIDPRICE" ∨ s = lit "midprice" then some .midPrice
  else if s = lit "LastTrade" ∨ s = lit "LASTTRADE" ∨ s = lit "lasttrade" then some .lastTrade
  else none

/-- inside `OrderType::from_str` only the exact spelling is accepted -/
def parsePegExact (s : Str) : Option PegRef :=
  if s = lit "BestBid" then some .bestBid
  else if s = lit "BestAsk" then some .bestAsk
  else if s = lit "MidPrice" then some .midPrice
  else if s = lit "LastTrade" then some .lastTrade
  else none

/-! ### key=value records -/

inductive Err where
  | invalidFormat | unknownType | missingField | invalidFieldValue | parseError
  deriving DecidableEq, Repr, Inhabited

abbrev Res (α : Type) := Except Err α

/-- the `HashMap` built by `for pair in s.split(';') { kv = pair.split('='); if kv.len()==2 { insert } }`:
    later pairs override earlier ones -/
def parseFields (s : Str) : List (Str × Str) :=
  (splitOn ';' s).filterMap (fun p => match splitOn '=' p with
    | [k, v] => some (k, v)
    | _ => none)

def getField (fs : List (Str × Str)) (k : String) : Res Str :=
  match (fs.reverse.find? (fun kv => kv.1 = lit k)) with
  | some kv => .ok kv.2
  | none => .error .missingField

def reqU64 (fs : List (Str × Str)) (k : String) : Res Nat := do
  let v ← getField fs k
  match parseU64 v with
  | some n => .ok n
  | none => .error .invalidFieldValue

def kv (k : String) (v : Str) : Str := lit k ++ ['='] ++ v

def record (name : String) (fields : List Str) : Str := lit name ++ [':'] ++ joinSep [';'] fields

/-! ### orders -/

def showOrder (o : Order) : Str :=
  let common (q : String) := [kv "id" (showId o.id), kv "price" (showNat o.price), kv q (showNat o.vis)]
  let tail := [kv "side" (showSide o.side), kv "timestamp" (showNat o.ts), kv "time_in_force" (showTif o.tif)]
  match o.kind with
  | .standard => record "Standard" (common "quantity" ++ tail)
  | .postOnly => record "PostOnly" (common "quantity" ++ tail)
  | .marketToLimit => record "MarketToLimit" (common "quantity" ++ tail)
  | .trailingStop t r =>
    record "TrailingStop" (common "quantity" ++ tail ++ [kv "trail_amount" (showNat t), kv "last_reference_price" (showNat r)])
  | .pegged off r =>
    record "PeggedOrder" (common "quantity" ++ tail ++
      [kv "reference_price_offset" (showInt off), kv "reference_price_type" (showPeg r)])
  | .iceberg h =>
    record "IcebergOrder" (common "visible_quantity" ++ [kv "hidden_quantity" (showNat h)] ++ tail)
  | .reserve h thr amt auto =>
    record "ReserveOrder" (common "visible_quantity" ++ [kv "hidden_quantity" (showNat h)] ++ tail ++
      [kv "replenish_threshold" (showNat thr),
       kv "replenish_amount" (match amt with | none => lit "None" | some a => showNat a),
       kv "auto_replenish" (if auto then lit "true" else lit "false")])

/-- `OrderType::<()>::from_str` -/
def parseOrder (s : Str) : Res Order :=
  match splitOn ':' s with
  | [ty, body] => do
    let fs := parseFields body
    let idS ← getField fs "id"
    let id ← (match parseId idS with | some i => .ok i | none => .error .invalidFieldValue)
    let price ← reqU64 fs "price"
    let sideS ← getField fs "side"
    let side ← (match parseSide sideS with | some x => .ok x | none => .error .parseError)
    let ts ← reqU64 fs "timestamp"
    let tifS ← getField fs "time_in_force"
    let tif ← (match parseTif tifS with | some x => .ok x | none => .error .parseError)
    if ty = lit "Standard" then do
      let q ← reqU64 fs "quantity"
      .ok ⟨id, price, q, side, ts, tif, .standard⟩
    else if ty = lit "IcebergOrder" then do
      let v ← reqU64 fs "visible_quantity"
      let h ← reqU64 fs "hidden_quantity"
      .ok ⟨id, price, v, side, ts, tif, .iceberg h⟩
    else if ty = lit "PostOnly" then do
      let q ← reqU64 fs "quantity"
      .ok ⟨id, price, q, side, ts, tif, .postOnly⟩
    else if ty = lit "TrailingStop" then do
      let q ← reqU64 fs "quantity"
      let t ← reqU64 fs "trail_amount"
      let r ← reqU64 fs "last_reference_price"
      .ok ⟨id, price, q, side, ts, tif, .trailingStop t r⟩
    else if ty = lit "PeggedOrder" then do
      let q ← reqU64 fs "quantity"
      let offS ← getField fs "reference_price_offset"
      let off ← (match parseI64 offS with | some x => .ok x | none => .error .invalidFieldValue)
      let rS ← getField fs "reference_price_type"
      let r ← (match parsePegExact rS with | some x => .ok x | none => .error .invalidFieldValue)
      .ok ⟨id, price, q, side, ts, tif, .pegged off r⟩
    else if ty = lit "MarketToLimit" then do
      let q ← reqU64 fs "quantity"
      .ok ⟨id, price, q, side, ts, tif, .marketToLimit⟩
    else if ty = lit "ReserveOrder" then do
      let v ← reqU64 fs "visible_quantity"
      let h ← reqU64 fs "hidden_quantity"
      let thr ← reqU64 fs "replenish_threshold"
      let amtS ← getField fs "replenish_amount"
      let amt ← (if amtS = lit "None" then .ok none else
        match parseU64 amtS with | some a => .ok (some a) | none => .error .invalidFieldValue)
      let autoS ← getField fs "auto_replenish"
      let auto ← (if autoS = lit "true" then .ok true else if autoS = lit "false" then .ok false
        else .error .invalidFieldValue)
      .ok ⟨id, price, v, side, ts, tif, .reserve h thr amt auto⟩
    else .error .unknownType
  | _ => .error .invalidFormat

/-! ### order updates -/

def showUpdate : Update → Str
  | .price id p => record "UpdatePrice" [kv "order_id" (showId id), kv "new_price" (showNat p)]
  | .quantity id n => record "UpdateQuantity" [kv "order_id" (showId id), kv "new_quantity" (showNat n)]
  | .priceQty id p n =>
    record "UpdatePriceAndQuantity" [kv "order_id" (showId id), kv "new_price" (showNat p), kv "new_quantity" (showNat n)]
  | .cancel id => record "Cancel" [kv "order_id" (showId id)]
  | .replace id p n sd =>
    record "Replace" [kv "order_id" (showId id), kv "price" (showNat p), kv "quantity" (showNat n), kv "side" (showSide sd)]

def parseUpdate (s : Str) : Res Update :=
  match splitOn ':' s with
  | [ty, body] => do
    let fs := parseFields body
    let idS ← getField fs "order_id"
    let id ← (match parseId idS with | some i => .ok i | none => .error .invalidFieldValue)
    if ty = lit "UpdatePrice" then do
      .ok (.price id (← reqU64 fs "new_price"))
    else if ty = lit "UpdateQuantity" then do
      .ok (.quantity id (← reqU64 fs "new_quantity"))
    else if ty = lit "UpdatePriceAndQuantity" then do
      let p ← reqU64 fs "new_price"
      let n ← reqU64 fs "new_quantity"
      .ok (.priceQty id p n)
    else if ty = lit "Cancel" then .ok (.cancel id)
    else if ty = lit "Replace" then do
      let p ← reqU64 fs "price"
      let n ← reqU64 fs "quantity"
      let sdS ← getField fs "side"
      let sd ← (match parseSide sdS with | some x => .ok x | none => .error .invalidFieldValue)
      .ok (.replace id p n sd)
    else .error .unknownType
  | _ => .error .invalidFormat

/-! ### transactions, lists, match results -/

/-- a transaction as the codecs see it: the id is a UUID value, the timestamp is carried -/
structure TxRec where
  txid  : Nat
  taker : Id
  maker : Id
  price : Nat
  qty   : Nat
  side  : Side
  ts    : Nat
  deriving DecidableEq, Repr, Inhabited

def showTx (t : TxRec) : Str :=
  record "Transaction" [kv "transaction_id" (showUuid t.txid), kv "taker_order_id" (showId t.taker),
    kv "maker_order_id" (showId t.maker), kv "price" (showNat t.price), kv "quantity" (showNat t.qty),
    kv "taker_side" (showSide t.side), kv "timestamp" (showNat t.ts)]

def parseTx (s : Str) : Res TxRec :=
  match splitOn ':' s with
  | [ty, body] =>
    if ty ≠ lit "Transaction" then .error .invalidFormat else do
    let fs := parseFields body
    let tS ← getField fs "transaction_id"
    let txid ← (match parseUuid tS with | some x => .ok x | none => .error .invalidFieldValue)
    let tkS ← getField fs "taker_order_id"
    let taker ← (match parseId tkS with | some x => .ok x | none => .error .invalidFieldValue)
    let mkS ← getField fs "maker_order_id"
    let maker ← (match parseId mkS with | some x => .ok x | none => .error .invalidFieldValue)
    let price ← reqU64 fs "price"
    let qty ← reqU64 fs "quantity"
    let sdS ← getField fs "taker_side"
    let side ← (match parseSide sdS with | some x => .ok x | none => .error .invalidFieldValue)
    let ts ← reqU64 fs "timestamp"
    .ok ⟨txid, taker, maker, price, qty, side, ts⟩
  | _ => .error .invalidFormat

def showTxList (l : List TxRec) : Str := lit "Transactions:[" ++ joinSep [','] (l.map showTx) ++ [']']

/-- the bracket-depth splitter of `TransactionList::from_str` -/
def splitTop (depth : Int) (cur : Str) : Str → List Str
  | [] => if cur.isEmpty then [] else [cur]
  | c :: rest =>
    if c = ',' ∧ depth = 0 then
      (if cur.isEmpty then splitTop depth cur rest else cur :: splitTop depth [] rest)
    else if c = '[' then splitTop (depth + 1) (cur ++ [c]) rest
    else if c = ']' then splitTop (depth - 1) (cur ++ [c]) rest
    else splitTop depth (cur ++ [c]) rest

def startsWith (p s : Str) : Bool := s.take p.length = p
def endsWith (p s : Str) : Bool := s.drop (s.length - p.length) = p ∧ p.length ≤ s.length

def idxOf (c : Char) (s : Str) : Option Nat := s.idxOf? c
def ridxOf (c : Char) (s : Str) : Option Nat := (s.reverse.idxOf? c).map (fun i => s.length - 1 - i)

def parseTxList (s : Str) : Res (List TxRec) :=
  if !(startsWith (lit "Transactions:[") s) ∨ !(endsWith [']'] s) then .error .invalidFormat
  else
    match idxOf '[' s, ridxOf ']' s with
    | some a, some b =>
      if a ≥ b then .error .invalidFormat
      else
        let content := (s.drop (a + 1)).take (b - a - 1)
        if content.isEmpty then .ok []
        else (splitTop 0 [] content).mapM parseTx
    | _, _ => .error .invalidFormat

/-- a match result as the codecs see it -/
structure MRRec where
  orderId   : Id
  txs       : List TxRec
  remaining : Nat
  complete  : Bool
  filled    : List Id
  deriving DecidableEq, Repr, Inhabited

def showBool (b : Bool) : Str := if b then lit "true" else lit "false"

def showMR (r : MRRec) : Str :=
  lit "MatchResult:order_id=" ++ showId r.orderId ++ lit ";remaining_quantity=" ++ showNat r.remaining ++
    lit ";is_complete=" ++ showBool r.complete ++ lit ";transactions=" ++ showTxList r.txs ++
    lit ";filled_order_ids=[" ++ joinSep [','] (r.filled.map showId) ++ [']']

/-- the bracket scanner of `MatchResult::from_str`: from position `i` with depth 1, the index of
    the matching `]` (or `none` if the input ends first) -/
def scanClose (s : Str) (i : Nat) (depth : Nat) (fuel : Nat) : Option Nat :=
  match fuel with
  | 0 => none
  | fuel + 1 =>
    match s[i]? with
    | none => none
    | some c =>
      if c = ']' then (if depth = 1 then some i else scanClose s (i + 1) (depth - 1) fuel)
      else if c = '[' then scanClose s (i + 1) (depth + 1) fuel
      else scanClose s (i + 1) depth fuel

structure MRFields where
  orderId : Option Str := none
  remaining : Option Str := none
  complete : Option Str := none
  txs : Option Str := none
  filled : Option Str := none

/-- the field loop of `MatchResult::from_str` (positions are character indices; every position the
    repaired code slices at is produced by `find` or follows an ASCII delimiter) -/
def mrLoop (s : Str) (pos : Nat) (acc : MRFields) (fuel : Nat) : Res MRFields :=
  match fuel with
  | 0 => .ok acc
  | fuel + 1 =>
    if pos ≥ s.length then .ok acc else
    match idxOf '=' (s.drop pos) with
    | none => .error .invalidFormat
    | some k =>
      let name := (s.drop pos).take k
      let p := pos + k + 1
      let simple (set : Str → MRFields) : Res MRFields :=
        match idxOf ';' (s.drop p) with
        | some j => mrLoop s (p + j + 1) (set ((s.drop p).take j)) fuel
        | none => mrLoop s s.length (set (s.drop p)) fuel
      if name = lit "order_id" then simple (fun v => { acc with orderId := some v })
      else if name = lit "remaining_quantity" then simple (fun v => { acc with remaining := some v })
      else if name = lit "is_complete" then simple (fun v => { acc with complete := some v })
      else if name = lit "transactions" then
        if !(startsWith (lit "Transactions:[") (s.drop p)) then .error .invalidFormat
        else match scanClose s (p + 14) 1 (s.length + 1) with
          | none => .error .invalidFormat
          | some i =>
            let acc' := { acc with txs := some ((s.drop p).take (i + 1 - p)) }
            let q := i + 1
            if q < s.length then
              (if s[q]? = some ';' then mrLoop s (q + 1) acc' fuel else .error .invalidFormat)
            else mrLoop s q acc' fuel
      else if name = lit "filled_order_ids" then
        if !(startsWith ['['] (s.drop p)) then .error .invalidFormat
        else match scanClose s (p + 1) 1 (s.length + 1) with
          | none => .error .invalidFormat
          | some i =>
            let acc' := { acc with filled := some ((s.drop p).take (i + 1 - p)) }
            let q := i + 1
            if q < s.length ∧ s[q]? = some ';' then mrLoop s (q + 1) acc' fuel else mrLoop s q acc' fuel
      else .error .invalidFormat

/-- `MatchResult::from_str` -/
def parseMR (s : Str) : Res MRRec :=
  if !(startsWith (lit "MatchResult:") s) then .error .invalidFormat else
  match mrLoop s 12 {} (s.length + 1) with
  | .error e => .error e
  | .ok f =>
    match f.orderId, f.remaining, f.complete, f.txs, f.filled with
    | some oid, some rem, some comp, some txs, some filled =>
      match parseId oid with
      | none => .error .invalidFieldValue
      | some id =>
        match parseU64 rem with
        | none => .error .invalidFieldValue
        | some r =>
          (if comp = lit "true" then finishMR id r true txs filled
           else if comp = lit "false" then finishMR id r false txs filled
           else .error .invalidFieldValue)
    | _, _, _, _, _ => .error .missingField
where
  finishMR (id : Id) (r : Nat) (c : Bool) (txs filled : Str) : Res MRRec :=
    match parseTxList txs with
    | .error e => .error e
    | .ok l =>
      if filled = lit "[]" then .ok ⟨id, l, r, c, []⟩
      else
        let content := (filled.drop 1).take (filled.length - 2)
        if content.isEmpty then .ok ⟨id, l, r, c, []⟩
        else match (splitOn ',' content).mapM parseId with
          | some ids => .ok ⟨id, l, r, c, ids⟩
          | none => .error .invalidFieldValue

/-! ### statistics, snapshot summary -/

structure StatsRec where
  added : Nat
  removed : Nat
  executed : Nat
  qty : Nat
  value : Nat
  last : Nat
  first : Nat
  wait : Nat
  deriving DecidableEq, Repr, Inhabited

def showStats (s : StatsRec) : Str :=
  record "PriceLevelStatistics" [kv "orders_added" (showNat s.added), kv "orders_removed" (showNat s.removed),
    kv "orders_executed" (showNat s.executed), kv "quantity_executed" (showNat s.qty),
    kv "value_executed" (showNat s.value), kv "last_execution_time" (showNat s.last),
    kv "first_arrival_time" (showNat s.first), kv "sum_waiting_time" (showNat s.wait)]

def parseStats (s : Str) : Res StatsRec :=
  match splitOn ':' s with
  | [ty, body] =>
    if ty ≠ lit "PriceLevelStatistics" then .error .invalidFormat else do
    let fs := parseFields body
    let a ← reqU64 fs "orders_added"
    let r ← reqU64 fs "orders_removed"
    let e ← reqU64 fs "orders_executed"
    let q ← reqU64 fs "quantity_executed"
    let v ← reqU64 fs "value_executed"
    let l ← reqU64 fs "last_execution_time"
    let f ← reqU64 fs "first_arrival_time"
    let w ← reqU64 fs "sum_waiting_time"
    .ok ⟨a, r, e, q, v, l, f, w⟩
  | _ => .error .invalidFormat

/-- the snapshot's text form carries price and aggregates only -/
structure SnapSummary where
  price : Nat
  vis : Nat
  hid : Nat
  cnt : Nat
  deriving DecidableEq, Repr, Inhabited

def showSnap (s : SnapSummary) : Str :=
  record "PriceLevelSnapshot" [kv "price" (showNat s.price), kv "visible_quantity" (showNat s.vis),
    kv "hidden_quantity" (showNat s.hid), kv "order_count" (showNat s.cnt)]

def parseSnap (s : Str) : Res SnapSummary :=
  match splitOn ':' s with
  | [ty, body] =>
    if ty ≠ lit "PriceLevelSnapshot" then .error .invalidFormat else do
    let fs := parseFields body
    let p ← reqU64 fs "price"
    let v ← reqU64 fs "visible_quantity"
    let h ← reqU64 fs "hidden_quantity"
    let c ← reqU64 fs "order_count"
    .ok ⟨p, v, h, c⟩
  | _ => .error .invalidFormat

/-! ### order queue and level -/

def showQueue (os : List Order) : Str := lit "OrderQueue:orders=[" ++ joinSep [','] (os.map showOrder) ++ [']']

/-- `OrderQueue::from_str`: the orders in the text, in text order -/
def parseQueue (s : Str) : Res (List Order) :=
  let pre := lit "OrderQueue:orders=["
  if !(startsWith pre s) ∨ !(endsWith [']'] s) then .error .parseError
  else
    let content := (s.drop pre.length).take (s.length - pre.length - 1)
    if content.isEmpty then .ok []
    else (splitOn ',' content).mapM (fun p => match parseOrder p with
      | .ok o => .ok o
      | .error _ => .error .parseError)

def showLevel (price vis hid cnt : Nat) (os : List Order) : Str :=
  lit "PriceLevel:price=" ++ showNat price ++ lit ";visible_quantity=" ++ showNat vis ++ lit ";hidden_quantity=" ++
    showNat hid ++ lit ";order_count=" ++ showNat cnt ++ lit ";orders=[" ++ joinSep [','] (os.map showOrder) ++ [']']

/-- index of the first occurrence of `pat` in `s` -/
def findSub (pat : Str) : Str → Option Nat
  | [] => if pat.isEmpty then some 0 else none
  | c :: rest =>
    if startsWith pat (c :: rest) then some 0 else (findSub pat rest).map (· + 1)

/-- the bracket-aware comma splitter of `PriceLevel::from_str` (round and square brackets) -/
def splitOrders (depth : Int) (cur : Str) : Str → List Str
  | [] => [cur]
  | c :: rest =>
    if c = '(' ∨ c = '[' then splitOrders (depth + 1) (cur ++ [c]) rest
    else if c = ')' ∨ c = ']' then splitOrders (depth - 1) (cur ++ [c]) rest
    else if c = ',' ∧ depth = 0 then cur :: splitOrders depth [] rest
    else splitOrders depth (cur ++ [c]) rest

/-- a `key=value` part split at its first `=` (parts without one are skipped) -/
def kvOf (p : Str) : Option (Str × Str) :=
  match idxOf '=' p with
  | some i => some (p.take i, p.drop (i + 1))
  | none => none

/-- `PriceLevel::from_str`: price and the orders in text order (aggregates in the text are ignored) -/
def parseLevel (s : Str) : Res (Nat × List Order) :=
  let pre := lit "PriceLevel:"
  if !(startsWith pre s) then .error .parseError
  else
    let content := s.drop pre.length
    let tag := lit "orders=["
    match findSub tag content with
    | some a =>
      (match idxOf ']' (content.drop a) with
       | none => .error .parseError
       | some e =>
         let ordersStr := ((content.drop a).drop tag.length).take (e - tag.length)
         let remaining := content.take a ++ (content.drop a).drop (e + 1)
         finish remaining (some ordersStr))
    | none => finish content none
where
  finish (remaining : Str) (orders : Option Str) : Res (Nat × List Order) :=
    -- the `HashMap` of the code: the extracted bracket section first, then every `k=v` part of the
    -- rest (a later `orders=…` part overrides the extracted section)
    let parts : List (Str × Str) :=
      (match orders with | some os => [(lit "orders", os)] | none => []) ++
      ((splitOn ';' remaining).filter (fun p => !p.isEmpty)).filterMap kvOf
    match (parts.reverse.find? (fun kv => kv.1 = lit "price")).bind (fun kv => parseU64 kv.2) with
    | none => .error .parseError
    | some price =>
      match (parts.reverse.find? (fun kv => kv.1 = lit "orders")).map (·.2) with
      | none => .ok (price, [])
      | some os =>
        if os.isEmpty then .ok (price, [])
        else
          let pieces := splitOrders 0 [] os
          -- every piece but a trailing empty one must parse
          let pieces' := match pieces.reverse with
            | last :: initRev => if last.isEmpty then initRev.reverse else pieces
            | [] => pieces
          match pieces'.mapM (fun p => match parseOrder p with
              | .ok o => (.ok o : Res Order)
              | .error _ => .error .parseError) with
          | .ok l => .ok (price, l)
          | .error e => .error e

end PLV.Text

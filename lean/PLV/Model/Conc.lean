/-
  PLV.Model.Conc — small-step interleaving semantics of the public mutators of a price level, at
  the granularity of one atomic / map / queue operation (DESIGN §3, §6-C03, Appendix B).

  One `tstep` = the single shared-memory operation a thread performs next, together with the local
  computation that follows it up to the next shared-memory operation. The order of operations
  inside each call is the one the instrumented crate logs (level.rs, order_queue.rs,
  statistics.rs, uuid.rs); the correspondence engine E-conc compares the two event traces.
  Memory is sequentially consistent; map and queue operations are atomic (linearizable).
-/
import PLV.Model.Level
import PLV.Model.Proto

namespace PLV.Conc
open PLV

/-- operations a thread may issue -/
inductive COp where
  | add (o : Order)
  | matchQ (q : Nat) (taker : Id)      -- q ≥ 1
  | cancel (id : Id)
  | amend (id : Id) (n : Nat)          -- same-price quantity amendment
  | readVis | readHid | readCnt | readList
  | next                               -- UuidGenerator::next
  deriving Repr, Inhabited

structure Shared where
  price   : Nat
  vis     : Nat
  hid     : Nat
  cnt     : Nat
  map     : OMap
  tickets : List Id
  stats   : Stats
  g       : Nat
  deriving Repr, Inhabited

/-- locals of a `match_order` call in progress -/
structure MLoc where
  taker  : Id
  rem    : Nat
  txs    : List Tx := []
  filled : List Id := []
  aside  : List Order := []
  deriving Repr, Inhabited

/-- Program counter of a thread: the next shared-memory operation it will perform, with the locals
    that operation and the rest of the call need. -/
inductive Pc where
  | idle
  -- add_order
  | add0 (o : Order) | add1 (o : Order) | add2 (o : Order) | add3 (o : Order) | add4 (o : Order) | add5 (o : Order)
  -- cancel
  | can0 (id : Id) | can1 (o : Order) | can2 (o : Order) | can3 (o : Order) | can4 (o : Order)
  -- same-price amend
  | am0 (id : Id) (n : Nat) | am1 (id : Id) (n : Nat)
  | amV (o1 new : Order) | amH (o1 new : Order) | amIns (new : Order) | amTk (new : Order)
  -- match_order: loop
  | mPop (L : MLoc) | mRm (L : MLoc) (t : Id)
  | mSubV (L : MLoc) (o : Order) | mUuid (L : MLoc) (o : Order)
  | mSt1 (L : MLoc) (o : Order) | mSt2 (L : MLoc) (o : Order) | mSt3 (L : MLoc) (o : Order)
  | mSt4 (L : MLoc) (o : Order) | mSt5 (L : MLoc) (o : Order)
  | mHSub (L : MLoc) (u : Order) (hr : Nat) | mVAdd (L : MLoc) (u : Order) (hr : Nat)
  | mIns (L : MLoc) (u : Order) | mTk (L : MLoc) (u : Order)
  | mCnt (L : MLoc) (o : Order) | mHLeft (L : MLoc) (o : Order)
  -- match_order: re-queue the set-aside orders
  | fIns (L : MLoc) (u : Order) (rest : List Order) | fTk (L : MLoc) (u : Order) (rest : List Order)
  -- reads and the id generator
  | rdVis | rdHid | rdCnt | rdList | nx
  deriving Repr, Inhabited

structure Thread where
  pc   : Pc := .idle
  todo : List COp := []
  rets : List String := []
  deriving Repr, Inhabited

def Thread.finished (t : Thread) : Bool :=
  match t.pc, t.todo with
  | .idle, [] => true
  | _, _ => false

def start : COp → Pc
  | .add o => .add0 o
  | .matchQ q t => .mPop { taker := t, rem := q }
  | .cancel id => .can0 id
  | .amend id n => .am0 id n
  | .readVis => .rdVis
  | .readHid => .rdHid
  | .readCnt => .rdCnt
  | .readList => .rdList
  | .next => .nx

/-- result of one step: the thread continues at `pc`, or its current call returns `ret` -/
inductive After where
  | cont (pc : Pc)
  | done (ret : String)
  deriving Repr, Inhabited

open PLV.Proto in
def showResult (L : MLoc) : String :=
  "txs=" ++ showList showTx L.txs ++ "~rem=" ++ toString L.rem ++ "~complete=" ++
    showBool (L.rem == 0) ++ "~filled=" ++ showList showId L.filled

/-- where a match goes once a maker visit is over -/
def afterVisit (L : MLoc) : After :=
  if L.rem = 0 then
    match L.aside with
    | [] => .done (showResult L)
    | u :: rest => .cont (.fIns L u rest)
  else .cont (.mPop L)

/-- after the statistics of a visit: what to do with the visited maker (`r` recomputed from the
    order and the remaining quantity the visit started with) -/
def afterStats (L : MLoc) (o : Order) : After :=
  let r := matchAgainst o L.rem
  let L' : MLoc := { L with rem := r.remaining }
  match r.updated with
  | some u =>
    if r.consumed = 0 ∧ r.hiddenRed = 0 then afterVisit { L' with aside := L.aside ++ [u] }
    else if r.hiddenRed > 0 then .cont (.mHSub L' u r.hiddenRed)
    else .cont (.mIns L' u)
  | none => .cont (.mCnt L' o)

open PLV.Proto in
def ev (obj op detail : String) : String := obj ++ "." ++ op ++ ":" ++ detail

def arrow (a b : Nat) : String := toString a ++ "->" ++ toString b

open PLV.Proto in
/-- One shared-memory step of a thread at `pc`. Returns the new shared state, what the thread does
    next, and the logged event. -/
def tstep (s : Shared) : Pc → Shared × After × String
  | .idle => (s, .cont .idle, "idle")
  -- add_order: count first, publish second
  | .add0 o => ({ s with vis := wadd s.vis o.vis }, .cont (.add1 o), ev "vis" "fetch_add" (arrow o.vis s.vis))
  | .add1 o => ({ s with hid := wadd s.hid o.hid }, .cont (.add2 o), ev "hid" "fetch_add" (arrow o.hid s.hid))
  | .add2 o => ({ s with cnt := wadd s.cnt 1 }, .cont (.add3 o), ev "cnt" "fetch_add" (arrow 1 s.cnt))
  | .add3 o => ({ s with stats := { s.stats with added := wadd s.stats.added 1 } }, .cont (.add4 o),
                ev "st.added" "fetch_add" (arrow 1 s.stats.added))
  | .add4 o => ({ s with map := s.map.insert o }, .cont (.add5 o),
                ev "map" "insert" (showId o.id ++ "->" ++ (if (s.map.find o.id).isSome then "replaced" else "new")))
  | .add5 o => ({ s with tickets := s.tickets ++ [o.id] }, .done "ok", ev "q" "push" (showId o.id))
  -- cancel: take first, discount second
  | .can0 id =>
    match s.map.find id with
    | none => (s, .done "ok=-", ev "map" "remove" (showId id ++ "->none"))
    | some o => ({ s with map := s.map.erase id }, .cont (.can1 o), ev "map" "remove" (showId id ++ "->found"))
  | .can1 o => ({ s with vis := wsub s.vis o.vis }, .cont (.can2 o), ev "vis" "fetch_sub" (arrow o.vis s.vis))
  | .can2 o => ({ s with hid := wsub s.hid o.hid }, .cont (.can3 o), ev "hid" "fetch_sub" (arrow o.hid s.hid))
  | .can3 o => ({ s with cnt := wsub s.cnt 1 }, .cont (.can4 o), ev "cnt" "fetch_sub" (arrow 1 s.cnt))
  | .can4 o => ({ s with stats := { s.stats with removed := wadd s.stats.removed 1 } },
                .done ("ok=" ++ showOrder o), ev "st.removed" "fetch_add" (arrow 1 s.stats.removed))
  -- amend: find, remove, adjust by the difference to the order actually removed, re-insert, ticket
  | .am0 id n =>
    match s.map.find id with
    | none => (s, .done "ok=-", ev "map" "get" (showId id ++ "->none"))
    | some _ => (s, .cont (.am1 id n), ev "map" "get" (showId id ++ "->found"))
  | .am1 id n =>
    match s.map.find id with
    | none => (s, .done "ok=-", ev "map" "remove" (showId id ++ "->none"))
    | some o1 =>
      let new := o1.withReduced n
      let next : Pc := if o1.vis ≠ new.vis then .amV o1 new else if o1.hid ≠ new.hid then .amH o1 new else .amIns new
      ({ s with map := s.map.erase id }, .cont next, ev "map" "remove" (showId id ++ "->found"))
  | .amV o1 new =>
    let next : Pc := if o1.hid ≠ new.hid then .amH o1 new else .amIns new
    if new.vis > o1.vis then
      ({ s with vis := wadd s.vis (new.vis - o1.vis) }, .cont next, ev "vis" "fetch_add" (arrow (new.vis - o1.vis) s.vis))
    else
      ({ s with vis := wsub s.vis (o1.vis - new.vis) }, .cont next, ev "vis" "fetch_sub" (arrow (o1.vis - new.vis) s.vis))
  | .amH o1 new =>
    if new.hid > o1.hid then
      ({ s with hid := wadd s.hid (new.hid - o1.hid) }, .cont (.amIns new), ev "hid" "fetch_add" (arrow (new.hid - o1.hid) s.hid))
    else
      ({ s with hid := wsub s.hid (o1.hid - new.hid) }, .cont (.amIns new), ev "hid" "fetch_sub" (arrow (o1.hid - new.hid) s.hid))
  | .amIns new => ({ s with map := s.map.insert new }, .cont (.amTk new),
                   ev "map" "insert" (showId new.id ++ "->" ++ (if (s.map.find new.id).isSome then "replaced" else "new")))
  | .amTk new => ({ s with tickets := s.tickets ++ [new.id] }, .done ("ok=" ++ showOrder new), ev "q" "push" (showId new.id))
  -- match_order
  | .mPop L =>
    match s.tickets with
    | [] =>
      -- queue empty: the loop ends with quantity remaining
      (s, (match L.aside with
           | [] => .done (showResult L)
           | u :: rest => .cont (.fIns L u rest)), ev "q" "pop" "->none")
    | t :: ts => ({ s with tickets := ts }, .cont (.mRm L t), ev "q" "pop" ("->" ++ showId t))
  | .mRm L t =>
    match s.map.find t with
    | none => (s, .cont (.mPop L), ev "map" "remove" (showId t ++ "->none"))
    | some o =>
      let r := matchAgainst o L.rem
      ({ s with map := s.map.erase t },
       .cont (if r.consumed > 0 then .mSubV L o else .mSt1 L o),
       ev "map" "remove" (showId t ++ "->found"))
  | .mSubV L o =>
    let r := matchAgainst o L.rem
    ({ s with vis := wsub s.vis r.consumed }, .cont (.mUuid L o), ev "vis" "fetch_sub" (arrow r.consumed s.vis))
  | .mUuid L o =>
    -- the transaction is built from the counter value just drawn
    let r := matchAgainst o L.rem
    let L' : MLoc := { L with txs := L.txs ++ [⟨s.g, L.taker, o.id, s.price, r.consumed, o.side.opposite⟩],
                              filled := if r.updated.isNone then L.filled ++ [o.id] else L.filled }
    ({ s with g := wadd s.g 1 }, .cont (.mSt1 L' o), ev "uuid" "fetch_add" (arrow 1 s.g))
  | .mSt1 L o => ({ s with stats := { s.stats with executed := wadd s.stats.executed 1 } }, .cont (.mSt2 L o),
                  ev "st.executed" "fetch_add" (arrow 1 s.stats.executed))
  | .mSt2 L o =>
    let r := matchAgainst o L.rem
    ({ s with stats := { s.stats with qty := wadd s.stats.qty r.consumed } }, .cont (.mSt3 L o),
     ev "st.qty" "fetch_add" (arrow r.consumed s.stats.qty))
  | .mSt3 L o =>
    let r := matchAgainst o L.rem
    ({ s with stats := { s.stats with value := wadd s.stats.value ((r.consumed * o.price) % W) } }, .cont (.mSt4 L o),
     ev "st.value" "fetch_add" (arrow ((r.consumed * o.price) % W) s.stats.value))
  | .mSt4 L o => (s, (if o.ts > 0 then .cont (.mSt5 L o) else afterStats L o), ev "st.last" "store" "")
  | .mSt5 L o => (s, afterStats L o, ev "st.wait" "fetch_add" "")
  | .mHSub L u hr => ({ s with hid := wsub s.hid hr }, .cont (.mVAdd L u hr), ev "hid" "fetch_sub" (arrow hr s.hid))
  | .mVAdd L u hr => ({ s with vis := wadd s.vis hr }, .cont (.mIns L u), ev "vis" "fetch_add" (arrow hr s.vis))
  | .mIns L u => ({ s with map := s.map.insert u }, .cont (.mTk L u),
                  ev "map" "insert" (showId u.id ++ "->" ++ (if (s.map.find u.id).isSome then "replaced" else "new")))
  | .mTk L u => ({ s with tickets := s.tickets ++ [u.id] }, afterVisit L, ev "q" "push" (showId u.id))
  | .mCnt L o =>
    ({ s with cnt := wsub s.cnt 1 },
     (if o.kind.hasHidden && decide (o.hid > 0) then .cont (.mHLeft L o) else afterVisit L),
     ev "cnt" "fetch_sub" (arrow 1 s.cnt))
  | .mHLeft L o => ({ s with hid := wsub s.hid o.hid }, afterVisit L, ev "hid" "fetch_sub" (arrow o.hid s.hid))
  | .fIns L u rest => ({ s with map := s.map.insert u }, .cont (.fTk L u rest),
                       ev "map" "insert" (showId u.id ++ "->" ++ (if (s.map.find u.id).isSome then "replaced" else "new")))
  | .fTk L u rest =>
    ({ s with tickets := s.tickets ++ [u.id] },
     (match rest with
      | [] => .done (showResult L)
      | v :: rest' => .cont (.fIns L v rest')),
     ev "q" "push" (showId u.id))
  | .rdVis => (s, .done (toString s.vis), ev "vis" "load" ("->" ++ toString s.vis))
  | .rdHid => (s, .done (toString s.hid), ev "hid" "load" ("->" ++ toString s.hid))
  | .rdCnt => (s, .done (toString s.cnt), ev "cnt" "load" ("->" ++ toString s.cnt))
  | .rdList => (s, .done (showList showOrder (canonSort s.map)), ev "map" "iter" "")
  | .nx => ({ s with g := wadd s.g 1 }, .done (toString s.g), ev "uuid" "fetch_add" (arrow 1 s.g))

/-! ### configurations and schedules -/

structure Cfg where
  sh : Shared
  ts : List Thread
  deriving Repr, Inhabited

/-- a thread that is between two calls starts its next call; `none` = nothing left to do -/
def Thread.norm (t : Thread) : Option Thread :=
  match t.pc, t.todo with
  | .idle, [] => none
  | .idle, op :: rest => some { t with pc := start op, todo := rest }
  | _, _ => some t

/-- the thread after its step -/
def Thread.after (t : Thread) : After → Thread
  | .cont pc' => { t with pc := pc' }
  | .done r => { pc := .idle, todo := t.todo, rets := t.rets ++ [r] }

/-- thread `i` performs its next shared-memory step (a finished or missing thread does nothing) -/
def step (c : Cfg) (i : Nat) : Cfg × Option String :=
  match c.ts[i]? with
  | none => (c, none)
  | some t =>
    match t.norm with
    | none => (c, none)
    | some tn =>
      let r := tstep c.sh tn.pc
      ({ sh := r.1, ts := c.ts.set i (tn.after r.2.1) }, some ("t" ++ toString i ++ ":" ++ r.2.2))

def run (c : Cfg) : List Nat → Cfg
  | [] => c
  | i :: rest => run (step c i).1 rest

def allDone (c : Cfg) : Bool := c.ts.all Thread.finished

end PLV.Conc

/-
  PLV.Model.Order — orders and the per-order matching rule.

  Models  src/orders/order_type.rs : OrderType<()>, visible_quantity, hidden_quantity,
  with_reduced_quantity (278-339), match_against (417-649)
  and the small enums of src/orders/base.rs, time_in_force.rs, pegged.rs.

  Import-free on purpose: this file is compiled into the native `driver`.
-/
import PLV.Generated.Constants

namespace PLV

inductive Side where
  | buy | sell
  deriving DecidableEq, Repr, Inhabited

def Side.opposite : Side → Side
  | .buy => .sell
  | .sell => .buy

inductive Tif where
  | gtc | ioc | fok | gtd (expiry : Nat) | day
  deriving DecidableEq, Repr, Inhabited

inductive PegRef where
  | bestBid | bestAsk | midPrice | lastTrade
  deriving DecidableEq, Repr, Inhabited

/-- `OrderId`: a 128-bit value in one of two textual families. -/
structure Id where
  ulid : Bool
  val  : Nat
  deriving DecidableEq, Repr, Inhabited

/-- Everything that distinguishes the seven variants of `OrderType`, apart from the fields they
    all share. The hidden quantity lives here, so the five plain kinds have none by construction. -/
inductive Kind where
  | standard
  | postOnly
  | marketToLimit
  | trailingStop (trail : Nat) (ref : Nat)
  | pegged (off : Int) (ref : PegRef)
  | iceberg (hid : Nat)
  | reserve (hid : Nat) (thr : Nat) (amt : Option Nat) (auto : Bool)
  deriving DecidableEq, Repr, Inhabited

structure Order where
  id    : Id
  price : Nat
  vis   : Nat        -- `quantity` / `visible_quantity`
  side  : Side
  ts    : Nat
  tif   : Tif
  kind  : Kind
  deriving DecidableEq, Repr, Inhabited

def Kind.hidden : Kind → Nat
  | .iceberg h => h
  | .reserve h _ _ _ => h
  | _ => 0

/-- `OrderType::hidden_quantity` -/
def Order.hid (o : Order) : Nat := o.kind.hidden

def Kind.setHidden : Kind → Nat → Kind
  | .iceberg _, h => .iceberg h
  | .reserve _ t a au, h => .reserve h t a au
  | k, _ => k

/-- Does the variant carry a hidden quantity at all (`IcebergOrder` / `ReserveOrder`)? -/
def Kind.hasHidden : Kind → Bool
  | .iceberg _ => true
  | .reserve _ _ _ _ => true
  | _ => false

/-- `with_reduced_quantity`: rewrites the displayed quantity of Standard, Iceberg and PostOnly;
    a no-op for the other four variants (pinned by the crate's own tests). -/
def Order.withReduced (o : Order) (n : Nat) : Order :=
  match o.kind with
  | .standard | .postOnly | .iceberg _ => { o with vis := n }
  | _ => o

/-- Result of `match_against`: `(consumed, updated order, hidden reduced, remaining)`. -/
structure MatchOut where
  consumed  : Nat
  updated   : Option Order
  hiddenRed : Nat
  remaining : Nat
  deriving DecidableEq, Repr, Inhabited

/-- `OrderType::match_against` (order_type.rs:417-649). -/
def matchAgainst (o : Order) (q : Nat) : MatchOut :=
  match o.kind with
  | .iceberg h =>
    if o.vis ≤ q then
      if h > 0 then
        let refresh := min h o.vis
        ⟨o.vis, some { o with vis := refresh, kind := .iceberg (h - refresh) }, refresh, q - o.vis⟩
      else ⟨o.vis, none, 0, q - o.vis⟩
    else ⟨q, some { o with vis := o.vis - q }, 0, 0⟩
  | .reserve h thr amt auto =>
    let safeThr := if auto && thr == 0 then 1 else thr
    let rq := min (amt.getD defaultReplenish) h
    if o.vis ≤ q then
      if h > 0 && auto then
        ⟨o.vis, some { o with vis := rq, kind := .reserve (h - rq) thr amt auto }, rq, q - o.vis⟩
      else ⟨o.vis, none, 0, q - o.vis⟩
    else
      let nv := o.vis - q
      if nv < safeThr && h > 0 && auto then
        ⟨q, some { o with vis := nv + rq, kind := .reserve (h - rq) thr amt auto }, rq, 0⟩
      else ⟨q, some { o with vis := nv }, 0, 0⟩
  | _ =>
    if o.vis ≤ q then ⟨o.vis, none, 0, q - o.vis⟩
    else ⟨q, some { o with vis := o.vis - q }, 0, 0⟩

/-- `OrderType::refresh_iceberg` (order_type.rs:342-407): the displayed quantity of an Iceberg /
    Reserve order is *replaced* by `n` and up to `n` units are taken out of the hidden quantity
    (`saturating_sub`); returns the new order and the hidden quantity used. Identity with 0 used
    for the five plain variants. -/
def Order.refresh (o : Order) (n : Nat) : Order × Nat :=
  match o.kind with
  | .iceberg h => ({ o with vis := n, kind := .iceberg (h - n) }, h - (h - n))
  | .reserve h thr amt auto => ({ o with vis := n, kind := .reserve (h - n) thr amt auto }, h - (h - n))
  | _ => (o, 0)

/-- `TimeInForce::is_immediate` -/
def Tif.isImmediate : Tif → Bool
  | .ioc | .fok => true
  | _ => false

/-- `TimeInForce::has_expiry` -/
def Tif.hasExpiry : Tif → Bool
  | .gtd _ | .day => true
  | _ => false

/-- `TimeInForce::is_expired(now, market_close)` -/
def Tif.isExpired : Tif → Nat → Option Nat → Bool
  | .gtd e, now, _ => decide (e ≤ now)
  | .day, now, some close => decide (close ≤ now)
  | _, _, _ => false

/-- `OrderType::is_immediate` / `is_fill_or_kill` / `is_post_only` -/
def Order.isImmediate (o : Order) : Bool := o.tif.isImmediate
def Order.isFok (o : Order) : Bool := o.tif == .fok
def Order.isPostOnly (o : Order) : Bool :=
  match o.kind with
  | .postOnly => true
  | _ => false

end PLV

/-
  PLV.Model.Level — the ticket queue (src/price_level/order_queue.rs), the price level with its
  wrapping 64-bit counters (src/price_level/level.rs), statistics counters
  (src/price_level/statistics.rs), match results (src/execution/match_result.rs) and snapshots'
  aggregate refresh (src/price_level/snapshot.rs:51-64).

  Big-step, sequential semantics: one public call = one function.
-/
import PLV.Model.Order

namespace PLV

/-! ## 64-bit wrapping arithmetic (`AtomicU64::fetch_add/fetch_sub`, `usize` = 64 bit) -/

@[reducible] def W : Nat := 18446744073709551616   -- 2^64

def wadd (a b : Nat) : Nat := (a + b) % W
/-- written `(W - b % W) + a` rather than `a + W - …`: addition recurses on its *second* argument, and a
    kernel unfolding of `a + 18446744073709551616` would recurse 2^64 deep -/
def wsub (a b : Nat) : Nat := ((W - b % W) + a) % W
/-- `u64::saturating_add` -/
def sadd (a b : Nat) : Nat := if a + b < W then a + b else W - 1

/-! ## The map half of `OrderQueue`: `DashMap<OrderId, Arc<Order>>`
    An association list keyed by `Order.id`; iteration order is unspecified in the crate and is
    canonicalised away wherever it is observed. -/

abbrev OMap := List Order

def OMap.find (m : OMap) (id : Id) : Option Order :=
  match m with
  | [] => none
  | o :: rest => if o.id = id then some o else OMap.find rest id

def OMap.erase (m : OMap) (id : Id) : OMap :=
  match m with
  | [] => []
  | o :: rest => if o.id = id then OMap.erase rest id else o :: OMap.erase rest id

/-- `DashMap::insert`: replaces the value stored under the same key. -/
def OMap.insert (m : OMap) (o : Order) : OMap := OMap.erase m o.id ++ [o]

def sumVis : OMap → Nat
  | [] => 0
  | o :: rest => o.vis + sumVis rest

def sumHid : OMap → Nat
  | [] => 0
  | o :: rest => o.hid + sumHid rest

/-! ## `OrderQueue` -/

/-- `OrderQueue::pop` (order_queue.rs:40-52): take tickets from the front until one names an order
    that is still in the map; that order leaves the map. `none` = the ticket queue ran empty. -/
def popLive (m : OMap) : List Id → Option (Order × OMap × List Id)
  | [] => none
  | t :: ts =>
    match m.find t with
    | some o => some (o, m.erase t, ts)
    | none => popLive m ts

/-- the order in which successive `pop`s would hand out the current orders -/
def liveOrder (m : OMap) : List Id → List Order
  | [] => []
  | t :: ts =>
    match m.find t with
    | some o => o :: liveOrder (m.erase t) ts
    | none => liveOrder m ts

structure Q where
  map     : OMap := []
  tickets : List Id := []
  deriving Repr, Inhabited

/-- `OrderQueue::push`: map insert, then ticket append. -/
def Q.push (q : Q) (o : Order) : Q := { map := q.map.insert o, tickets := q.tickets ++ [o.id] }

def Q.pop (q : Q) : Option Order × Q :=
  match popLive q.map q.tickets with
  | some (o, m, ts) => (some o, { map := m, tickets := ts })
  | none => (none, { map := q.map, tickets := [] })

def Q.find (q : Q) (id : Id) : Option Order := q.map.find id

def Q.remove (q : Q) (id : Id) : Option Order × Q :=
  match q.map.find id with
  | some o => (some o, { q with map := q.map.erase id })
  | none => (none, q)

def Q.len (q : Q) : Nat := q.map.length
def Q.isEmpty (q : Q) : Bool := q.map.isEmpty

/-- insertion of `o` into a list sorted by timestamp, after all entries with `ts ≤ o.ts`
    (stable). -/
def insertByTs (o : Order) : List Order → List Order
  | [] => [o]
  | x :: xs => if o.ts < x.ts then o :: x :: xs else x :: insertByTs o xs

/-- `OrderQueue::to_vec`: the map's values, stably sorted by timestamp. The order among equal
    timestamps is the map's iteration order, which the crate leaves unspecified. -/
def sortByTs : List Order → List Order
  | [] => []
  | o :: rest => insertByTs o (sortByTs rest)

def Q.toVec (q : Q) : List Order := sortByTs q.map

def Q.fromVec (os : List Order) : Q := os.foldl Q.push {}

/-! ## Statistics (the five event counters; time-valued fields are not modelled) -/

structure Stats where
  added    : Nat := 0
  removed  : Nat := 0
  executed : Nat := 0
  qty      : Nat := 0
  value    : Nat := 0
  deriving DecidableEq, Repr, Inhabited

/-- `record_execution(quantity, price, _)`; `quantity * price` is modelled wrapping (release
    semantics); histories in scope keep it below 2^64. -/
def Stats.recordExec (s : Stats) (qty price : Nat) : Stats :=
  { s with executed := wadd s.executed 1, qty := wadd s.qty qty,
           value := wadd s.value ((qty * price) % W) }

/-! ## Transactions and match results -/

structure Tx where
  txid      : Nat          -- the generator's counter value the id was derived from
  taker     : Id
  maker     : Id
  price     : Nat
  qty       : Nat
  takerSide : Side
  deriving DecidableEq, Repr, Inhabited

structure MatchResult where
  taker     : Id
  txs       : List Tx := []
  remaining : Nat
  complete  : Bool := false
  filled    : List Id := []
  deriving DecidableEq, Repr, Inhabited

def MatchResult.new (taker : Id) (q : Nat) : MatchResult := { taker := taker, remaining := q }

/-- `MatchResult::add_transaction` (match_result.rs:41-45) -/
def MatchResult.addTx (r : MatchResult) (t : Tx) : MatchResult :=
  let rem := r.remaining - t.qty     -- saturating_sub = truncated subtraction on Nat
  { r with remaining := rem, complete := rem == 0, txs := r.txs ++ [t] }

def sumQty : List Tx → Nat
  | [] => 0
  | t :: ts => t.qty + sumQty ts

def MatchResult.executed (r : MatchResult) : Nat := sumQty r.txs

/-- `MatchResult::executed_value` (match_result.rs:58-64): Σ price · quantity over the transactions -/
def sumValue : List Tx → Nat
  | [] => 0
  | t :: ts => t.price * t.qty + sumValue ts

def MatchResult.executedValue (r : MatchResult) : Nat := sumValue r.txs

/-! ## The level -/

structure Level where
  price   : Nat
  vis     : Nat := 0        -- AtomicU64, wrapping
  hid     : Nat := 0        -- AtomicU64, wrapping
  cnt     : Nat := 0        -- AtomicUsize, wrapping
  map     : OMap := []
  tickets : List Id := []
  stats   : Stats := {}
  deriving Repr, Inhabited

def Level.new (p : Nat) : Level := { price := p }

def Level.q (l : Level) : Q := { map := l.map, tickets := l.tickets }

/-- `PriceLevel::add_order` (level.rs:115-134) -/
def Level.addOrder (l : Level) (o : Order) : Level :=
  { l with vis := wadd l.vis o.vis, hid := wadd l.hid o.hid, cnt := wadd l.cnt 1,
           stats := { l.stats with added := wadd l.stats.added 1 },
           map := l.map.insert o, tickets := l.tickets ++ [o.id] }

/-- `iter_orders` -/
def Level.listing (l : Level) : List Order := sortByTs l.map

/-- Everything `match_order` accumulates besides the queue itself. -/
structure Acc where
  vis    : Nat
  hid    : Nat
  cnt    : Nat
  stats  : Stats
  g      : Nat              -- UuidGenerator counter (wrapping u64)
  txs    : List Tx := []
  filled : List Id := []
  aside  : List Order := [] -- orders that made no progress, re-queued before returning
  deriving Repr, Inhabited

/-- Bookkeeping of one maker visit up to and including the statistics update. -/
def Acc.visit (a : Acc) (price : Nat) (taker : Id) (o : Order) (r : MatchOut) : Acc :=
  let a1 : Acc :=
    if r.consumed > 0 then
      { a with vis := wsub a.vis r.consumed, g := wadd a.g 1,
               txs := a.txs ++ [⟨a.g, taker, o.id, price, r.consumed, o.side.opposite⟩],
               filled := if r.updated.isNone then a.filled ++ [o.id] else a.filled }
    else a
  { a1 with stats := a1.stats.recordExec r.consumed o.price }

/-- an order that made no progress is kept out of the queue until the match is over -/
def Acc.pushAside (a : Acc) (u : Order) : Acc := { a with aside := a.aside ++ [u] }

/-- the counter updates done when the visited maker is re-queued -/
def Acc.requeue (a : Acc) (hr : Nat) : Acc :=
  if hr > 0 then { a with hid := wsub a.hid hr, vis := wadd a.vis hr } else a

/-- the counter updates done when the visited maker leaves the book -/
def Acc.leave (a : Acc) (o : Order) (hr : Nat) : Acc :=
  { a with cnt := wsub a.cnt 1,
           hid := if o.kind.hasHidden && decide (o.hid > 0) && hr == 0 then wsub a.hid o.hid else a.hid }

theorem popLive_len {m : OMap} {ts : List Id} {o m' ts'} (h : popLive m ts = some (o, m', ts')) :
    ts'.length < ts.length := by
  induction ts with
  | nil => simp [popLive] at h
  | cons t rest ih =>
    unfold popLive at h
    split at h
    · simp at h; obtain ⟨_, _, rfl⟩ := h; simp
    · have := ih h; simp; omega

theorem sumHid_erase_le (m : OMap) (id : Id) : sumHid (m.erase id) ≤ sumHid m := by
  induction m with
  | nil => simp [OMap.erase, sumHid]
  | cons x rest ih =>
    unfold OMap.erase
    split
    · simp [sumHid]; omega
    · simp [sumHid]; omega

theorem sumHid_append (a b : OMap) : sumHid (a ++ b) = sumHid a + sumHid b := by
  induction a with
  | nil => simp [sumHid]
  | cons x rest ih => simp [sumHid, ih]; omega

theorem sumHid_find_erase {m : OMap} {id : Id} {o : Order} (h : m.find id = some o) :
    sumHid (m.erase id) + o.hid ≤ sumHid m := by
  induction m with
  | nil => simp [OMap.find] at h
  | cons x rest ih =>
    unfold OMap.find at h
    unfold OMap.erase
    split at h
    · simp at h; subst h
      rename_i hx
      simp [hx, sumHid]
      have := sumHid_erase_le rest id
      omega
    · rename_i hx
      simp [hx, sumHid]
      have := ih h
      omega

theorem popLive_sumHid {m : OMap} {ts : List Id} {o m' ts'} (h : popLive m ts = some (o, m', ts')) :
    sumHid m' + o.hid ≤ sumHid m := by
  induction ts with
  | nil => simp [popLive] at h
  | cons t rest ih =>
    unfold popLive at h
    split at h
    · rename_i o' hf
      simp at h; obtain ⟨rfl, rfl, _⟩ := h
      exact sumHid_find_erase hf
    · exact ih h

theorem sumHid_insert_le (m : OMap) (u : Order) : sumHid (m.insert u) ≤ sumHid m + u.hid := by
  unfold OMap.insert
  rw [sumHid_append]
  have := sumHid_erase_le m u.id
  simp [sumHid]; omega

/-- An order that stays in the book and is not set aside lowers `remaining + hidden`. -/
theorem visit_progress (o : Order) (q : Nat) (u : Order) (hq : q ≠ 0)
    (hu : (matchAgainst o q).updated = some u)
    (hp : ¬ ((matchAgainst o q).consumed = 0 ∧ (matchAgainst o q).hiddenRed = 0)) :
    (matchAgainst o q).remaining + u.hid < q + o.hid := by
  grind [matchAgainst, Order.hid, Kind.hidden]

theorem matchAgainst_remaining_le (o : Order) (q : Nat) : (matchAgainst o q).remaining ≤ q := by
  grind [matchAgainst]

/-- The loop of `match_order` (level.rs:170-243, with the set-aside list). Total: the measure is
    `(remaining + Σ hidden in the map, number of tickets)`, lexicographic. -/
def matchLoop (price : Nat) (taker : Id) (rem : Nat) (m : OMap) (ts : List Id) (a : Acc) :
    Nat × OMap × List Id × Acc :=
  if hz : rem = 0 then (rem, m, ts, a) else
  match hp : popLive m ts with
  | none => (rem, m, [], a)
  | some (o, m', ts') =>
    let r := matchAgainst o rem
    let a2 := a.visit price taker o r
    match hu : r.updated with
    | some u =>
      if hs : r.consumed = 0 ∧ r.hiddenRed = 0 then
        matchLoop price taker r.remaining m' ts' (a2.pushAside u)
      else
        matchLoop price taker r.remaining (m'.insert u) (ts' ++ [u.id]) (a2.requeue r.hiddenRed)
    | none =>
      matchLoop price taker r.remaining m' ts' (a2.leave o r.hiddenRed)
termination_by (rem + sumHid m, ts.length)
decreasing_by
  · have h1 := popLive_len hp
    have h2 := popLive_sumHid hp
    have h3 := matchAgainst_remaining_le o rem
    simp only [Prod.lex_def]
    omega
  · have h1 := popLive_sumHid hp
    have h3 := visit_progress o rem u hz hu hs
    have h4 := sumHid_insert_le m' u
    simp only [Prod.lex_def]
    left; omega
  · have h1 := popLive_len hp
    have h2 := popLive_sumHid hp
    have h3 := matchAgainst_remaining_le o rem
    simp only [Prod.lex_def]
    omega

/-- re-queue the set-aside orders (`for order in set_aside { self.orders.push(..) }`) -/
def requeueAside (m : OMap) (ts : List Id) : List Order → OMap × List Id
  | [] => (m, ts)
  | o :: rest => requeueAside (m.insert o) (ts ++ [o.id]) rest

/-- what `match_order` does once its loop has stopped: re-queue the set-aside orders, publish the
    result -/
def Level.finishMatch (l : Level) (taker : Id) (res : Nat × OMap × List Id × Acc) :
    Level × MatchResult × Nat :=
  let a := res.2.2.2
  let rq := requeueAside res.2.1 res.2.2.1 a.aside
  ({ l with vis := a.vis, hid := a.hid, cnt := a.cnt, stats := a.stats, map := rq.1, tickets := rq.2 },
   { taker := taker, txs := a.txs, remaining := res.1, complete := res.1 == 0, filled := a.filled },
   a.g)

/-- `PriceLevel::match_order` (level.rs:161-249). `g` is the transaction-id generator's counter. -/
def Level.matchOrder (l : Level) (q : Nat) (taker : Id) (g : Nat) : Level × MatchResult × Nat :=
  l.finishMatch taker (matchLoop l.price taker q l.map l.tickets
      { vis := l.vis, hid := l.hid, cnt := l.cnt, stats := l.stats, g := g })

/-! ## `update_order` -/

inductive Update where
  | price (id : Id) (newPrice : Nat)
  | quantity (id : Id) (newQty : Nat)
  | priceQty (id : Id) (newPrice newQty : Nat)
  | cancel (id : Id)
  | replace (id : Id) (price qty : Nat) (side : Side)
  deriving DecidableEq, Repr, Inhabited

inductive UpdOut where
  | ok (o : Option Order)
  | errSamePrice                 -- `InvalidOperation` "Cannot update price to the same value"
  deriving DecidableEq, Repr, Inhabited

/-- the shared body of Cancel and of the three "price differs" arms (level.rs:286-303 etc.) -/
def Level.removeOrder (l : Level) (id : Id) : Level × UpdOut :=
  match l.map.find id with
  | none => (l, .ok none)
  | some o =>
    ({ l with map := l.map.erase id,
              vis := wsub l.vis o.vis, hid := wsub l.hid o.hid, cnt := wsub l.cnt 1,
              stats := { l.stats with removed := wadd l.stats.removed 1 } },
     .ok (some o))

/-- `fetch_add`/`fetch_sub` of the difference, skipped when equal (level.rs:337-355) -/
def adjust (c old new : Nat) : Nat :=
  if old = new then c else if new > old then wadd c (new - old) else wsub c (old - new)

/-- the `UpdateQuantity` arm (level.rs:313-365); sequentially the `find` and the `remove` see the
    same order. -/
def Level.amend (l : Level) (id : Id) (newQty : Nat) : Level × UpdOut :=
  match l.map.find id with
  | none => (l, .ok none)
  | some old =>
    let new := old.withReduced newQty
    ({ l with vis := adjust l.vis old.vis new.vis, hid := adjust l.hid old.hid new.hid,
              map := (l.map.erase id).insert new, tickets := l.tickets ++ [id] },
     .ok (some new))

/-- `PriceLevel::update_order` (level.rs:275-455) -/
def Level.update (l : Level) : Update → Level × UpdOut
  | .price id p => if p ≠ l.price then l.removeOrder id else (l, .errSamePrice)
  | .quantity id n => l.amend id n
  | .priceQty id p n => if p ≠ l.price then l.removeOrder id else l.amend id n
  | .cancel id => l.removeOrder id
  | .replace id p n _ => if p ≠ l.price then l.removeOrder id else l.amend id n

/-! ## Snapshots (content only; packages and checksums are in `PLV.Model.Snapshot`) -/

structure Snapshot where
  price  : Nat
  vis    : Nat
  hid    : Nat
  cnt    : Nat
  orders : List Order
  deriving DecidableEq, Repr, Inhabited

def satSumVis : List Order → Nat
  | [] => 0
  | o :: rest => sadd o.vis (satSumVis rest)

/-- Σ with `saturating_add`, folded from the left as the code does. -/
def satFold (f : Order → Nat) (os : List Order) : Nat := os.foldl (fun acc o => sadd acc (f o)) 0

/-- `PriceLevelSnapshot::refresh_aggregates` (snapshot.rs:51-64) -/
def Snapshot.refresh (s : Snapshot) : Snapshot :=
  { s with cnt := s.orders.length, vis := satFold Order.vis s.orders, hid := satFold Order.hid s.orders }

/-- `PriceLevel::snapshot` -/
def Level.snapshot (l : Level) : Snapshot :=
  { price := l.price, vis := l.vis, hid := l.hid, cnt := l.cnt, orders := l.listing }

/-- `PriceLevel::from_snapshot` and `From<&PriceLevelSnapshot>` (level.rs:40-54, 489-506) -/
def Level.fromSnapshot (s : Snapshot) : Level :=
  let s' := s.refresh
  let q := Q.fromVec s'.orders
  { price := s'.price, vis := s'.vis, hid := s'.hid, cnt := s'.cnt, map := q.map, tickets := q.tickets }

/-- `TryFrom<PriceLevelData>` / serde / text constructors: `new(price)` then `add_order` each. -/
def Level.fromOrders (p : Nat) (os : List Order) : Level := os.foldl Level.addOrder (Level.new p)

end PLV

/-
  PLV.Model.Proto — canonical text forms of the line protocol between the Rust harness and the
  model driver (DESIGN §2.4). Driver-only code: nothing here is used by a theorem.
-/
import PLV.Model.Level

namespace PLV.Proto
open PLV

def showId (i : Id) : String := (if i.ulid then "l" else "u") ++ toString i.val

def parseId (s : String) : Option Id :=
  if s.startsWith "u" then (s.drop 1).toString.toNat?.map (⟨false, ·⟩)
  else if s.startsWith "l" then (s.drop 1).toString.toNat?.map (⟨true, ·⟩)
  else none

def showSide : Side → String
  | .buy => "B" | .sell => "S"

def parseSide : String → Option Side
  | "B" => some .buy | "S" => some .sell | _ => none

def showTif : Tif → String
  | .gtc => "GTC" | .ioc => "IOC" | .fok => "FOK" | .day => "DAY"
  | .gtd n => "GTD-" ++ toString n

def parseTif (s : String) : Option Tif :=
  match s with
  | "GTC" => some .gtc | "IOC" => some .ioc | "FOK" => some .fok | "DAY" => some .day
  | _ => if s.startsWith "GTD-" then (s.drop 4).toString.toNat?.map Tif.gtd else none

def showPeg : PegRef → String
  | .bestBid => "BB" | .bestAsk => "BA" | .midPrice => "MP" | .lastTrade => "LT"

def parsePeg : String → Option PegRef
  | "BB" => some .bestBid | "BA" => some .bestAsk | "MP" => some .midPrice | "LT" => some .lastTrade
  | _ => none

def showOptNat : Option Nat → String
  | none => "-" | some n => toString n

def parseOptNat (s : String) : Option (Option Nat) :=
  if s == "-" then some none else s.toNat?.map some

def showBool (b : Bool) : String := if b then "1" else "0"
def parseBool : String → Option Bool
  | "1" => some true | "0" => some false | _ => none

def showOrder (o : Order) : String :=
  let common := showId o.id ++ "|" ++ toString o.price ++ "|" ++ toString o.vis ++ "|" ++
    showSide o.side ++ "|" ++ toString o.ts ++ "|" ++ showTif o.tif
  match o.kind with
  | .standard => "S|" ++ common
  | .postOnly => "P|" ++ common
  | .marketToLimit => "M|" ++ common
  | .trailingStop t r => "T|" ++ common ++ "|" ++ toString t ++ "|" ++ toString r
  | .pegged off r => "G|" ++ common ++ "|" ++ toString off ++ "|" ++ showPeg r
  | .iceberg h => "I|" ++ common ++ "|" ++ toString h
  | .reserve h t a au =>
    "R|" ++ common ++ "|" ++ toString h ++ "|" ++ toString t ++ "|" ++ showOptNat a ++ "|" ++ showBool au

def parseOrder (s : String) : Option Order := do
  match s.splitOn "|" with
  | k :: id :: price :: vis :: side :: ts :: tif :: rest =>
    let id ← parseId id
    let price ← price.toNat?
    let vis ← vis.toNat?
    let side ← parseSide side
    let ts ← ts.toNat?
    let tif ← parseTif tif
    let kind ← (match k, rest with
      | "S", [] => some Kind.standard
      | "P", [] => some Kind.postOnly
      | "M", [] => some Kind.marketToLimit
      | "T", [t, r] => do some (Kind.trailingStop (← t.toNat?) (← r.toNat?))
      | "G", [off, r] => do some (Kind.pegged (← off.toInt?) (← parsePeg r))
      | "I", [h] => do some (Kind.iceberg (← h.toNat?))
      | "R", [h, t, a, au] => do
          some (Kind.reserve (← h.toNat?) (← t.toNat?) (← parseOptNat a) (← parseBool au))
      | _, _ => none)
    some { id, price, vis, side, ts, tif, kind }
  | _ => none

def showOptOrder : Option Order → String
  | none => "-" | some o => showOrder o

def parseOptOrder (s : String) : Option (Option Order) :=
  if s == "-" then some none else (parseOrder s).map some

def joinWith (sep : String) : List String → String
  | [] => ""
  | x :: xs => xs.foldl (fun acc y => acc ++ sep ++ y) x     -- appends to the accumulator: linear

def showList (f : α → String) (l : List α) : String := "[" ++ joinWith "," (l.map f) ++ "]"

/-- parse `[a,b,c]` with element parser `f` -/
def parseList (f : String → Option α) (s : String) : Option (List α) :=
  if s.startsWith "[" && s.endsWith "]" then
    let inner := ((s.drop 1).dropEnd 1).toString
    if inner.isEmpty then some [] else (inner.splitOn ",").mapM f
  else none

def idKey (a : Id) : Nat := (if a.ulid then 2 ^ 128 else 0) + a.val

/-- canonical order of a listing: by `(timestamp, id)` (DESIGN §4.7) -/
def canonLe (a b : Order) : Bool := a.ts < b.ts || (a.ts == b.ts && idKey a.id ≤ idKey b.id)

def insertCanon (o : Order) : List Order → List Order
  | [] => [o]
  | x :: xs => if canonLe o x then o :: x :: xs else x :: insertCanon o xs

def canonSort : List Order → List Order
  | [] => []
  | o :: rest => insertCanon o (canonSort rest)

def showTx (t : Tx) : String :=
  toString t.txid ++ ":" ++ showId t.taker ++ ":" ++ showId t.maker ++ ":" ++ toString t.price ++ ":" ++
    toString t.qty ++ ":" ++ showSide t.takerSide

def parseTx (s : String) : Option Tx :=
  match s.splitOn ":" with
  | [k, tk, mk, p, q, sd] => do
    some ⟨← k.toNat?, ← parseId tk, ← parseId mk, ← p.toNat?, ← q.toNat?, ← parseSide sd⟩
  | _ => none

def showMatch (r : MatchResult) : String :=
  "txs=" ++ showList showTx r.txs ++ " rem=" ++ toString r.remaining ++ " complete=" ++
    showBool r.complete ++ " filled=" ++ showList showId r.filled

def showStats (s : Stats) : String :=
  toString s.added ++ "," ++ toString s.removed ++ "," ++ toString s.executed ++ "," ++
    toString s.qty ++ "," ++ toString s.value

def showState (l : Level) : String :=
  "vis=" ++ toString l.vis ++ " hid=" ++ toString l.hid ++ " cnt=" ++ toString l.cnt ++
    " list=" ++ showList showOrder (canonSort l.map) ++ " stats=" ++ showStats l.stats

def showUpd : UpdOut → String
  | .ok o => "ok=" ++ showOptOrder o
  | .errSamePrice => "err=SamePrice"

end PLV.Proto

/-
  Sequential histories on one level: the operations of the public API as data, one `step` function,
  and `run` over a list of operations. (The properties quantify over histories.)
-/
import PLV.Model.Level

namespace PLV

inductive Op where
  | add (o : Order)
  | matchQ (q : Nat) (taker : Id)
  | update (u : Update)
  /-- any read-only call: aggregates, listing, snapshot, Display, serde, statistics -/
  | read
  deriving Repr, Inhabited

inductive Out where
  | added (o : Order)
  | matched (r : MatchResult)
  | updated (u : UpdOut)
  | readDone
  deriving Repr, Inhabited

/-- a level together with the transaction-id generator's counter -/
structure Sys where
  lvl : Level
  g   : Nat := 0
  deriving Repr, Inhabited

def Sys.step (s : Sys) : Op → Sys × Out
  | .add o => ({ s with lvl := s.lvl.addOrder o }, .added o)
  | .matchQ q t =>
    let (l, r, g) := s.lvl.matchOrder q t s.g
    ({ lvl := l, g := g }, .matched r)
  | .update u =>
    let (l, out) := s.lvl.update u
    ({ s with lvl := l }, .updated out)
  | .read => (s, .readDone)

def Sys.run (s : Sys) : List Op → Sys
  | [] => s
  | op :: rest => Sys.run (s.step op).1 rest

/-- the outputs of a history, in order -/
def Sys.outs (s : Sys) : List Op → List Out
  | [] => []
  | op :: rest => (s.step op).2 :: Sys.outs (s.step op).1 rest

/-- Admissibility of one operation in a state — the side conditions of the properties'
    quantifier: ids unique among the orders resting at the same time, sums that fit in 64 bits. -/
def Adm (l : Level) : Op → Prop
  | .add o => l.map.find o.id = none ∧ sumVis l.map + sumHid l.map + o.vis + o.hid < W ∧ l.map.length + 1 < W
  | .update (.quantity id n) | .update (.priceQty id _ n) | .update (.replace id _ n _) =>
    ∀ old, l.map.find id = some old → sumVis l.map + sumHid l.map + (old.withReduced n).vis < W
  | _ => True

/-- every operation of the history is admissible in the state in which it is issued -/
def AdmAll (s : Sys) : List Op → Prop
  | [] => True
  | op :: rest => Adm s.lvl op ∧ AdmAll (s.step op).1 rest

end PLV

/-
  PLV.Judge — each property restated as a *decidable predicate over observations*.

  Used twice (DESIGN §1): the theorems in `PLV/Props/Cxx.lean` say that the model's own
  observations always satisfy the predicate, for all inputs / histories / schedules; the compiled
  driver evaluates the very same predicate on what the *real crate* did (lines `judge.Cxx …` of the
  protocol), so the oracle applied to the implementation is the theorem's statement.
  Import-free (compiled into the driver).
-/
import PLV.Model.Level

namespace PLV

/-! ## C05 — the per-order matching rule, stated outright -/

/-- same variant and same type parameters (everything except the hidden quantity) -/
def Kind.sameParams : Kind → Kind → Bool
  | .standard, .standard => true
  | .postOnly, .postOnly => true
  | .marketToLimit, .marketToLimit => true
  | .trailingStop t r, .trailingStop t' r' => t == t' && r == r'
  | .pegged o r, .pegged o' r' => o == o' && r == r'
  | .iceberg _, .iceberg _ => true
  | .reserve _ t a au, .reserve _ t' a' au' => t == t' && a == a' && au == au'
  | _, _ => false

/-- identity fields and type parameters unchanged -/
def Order.sameIdentity (o u : Order) : Bool :=
  u.id == o.id && u.price == o.price && u.side == o.side && u.ts == o.ts && u.tif == o.tif &&
    Kind.sameParams o.kind u.kind

/-- the order stays with displayed `v` and hidden `h`, having moved `hr` out of hidden -/
def staysWith (o : Order) (r : MatchOut) (v h hr : Nat) : Bool :=
  match r.updated with
  | some u => o.sameIdentity u && u.vis == v && u.hid == h && r.hiddenRed == hr
  | none => false

def leaves (r : MatchOut) : Bool := r.updated.isNone && r.hiddenRed == 0

/-- C05: what `match_against o q` must return, read off the property statement. -/
def C05.ok (o : Order) (q : Nat) (r : MatchOut) : Bool :=
  let consumed := min q o.vis
  r.consumed == consumed && r.remaining == q - consumed &&
  (match o.kind with
   | .iceberg h =>
     if o.vis ≤ q then
       -- display exhausted: a new tranche no larger than the exhausted one, taken from hidden;
       -- leaves when nothing is hidden
       if h > 0 then staysWith o r (min h o.vis) (h - min h o.vis) (min h o.vis) else leaves r
     else staysWith o r (o.vis - q) h 0
   | .reserve h thr amt auto =>
     let safeThr := if auto && thr == 0 then 1 else thr
     let amount := min (amt.getD 80) h
     let replenishes := auto && decide (h > 0) && (decide (o.vis ≤ q) || decide (o.vis - q < safeThr))
     if replenishes then staysWith o r (o.vis - consumed + amount) (h - amount) amount
     else if o.vis ≤ q then leaves r
     else staysWith o r (o.vis - q) h 0
   | _ =>
     if o.vis ≤ q then leaves r else staysWith o r (o.vis - q) 0 0)

/-- conservation, as a separate reading of the first sentence of C05 -/
def C05.conserves (o : Order) (q : Nat) (r : MatchOut) : Bool :=
  match r.updated with
  | some u => u.vis + u.hid + r.consumed == o.vis + o.hid
  | none => true

end PLV

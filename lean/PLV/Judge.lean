/-
  PLV.Judge — each property restated as a *decidable predicate over observations*.

  Used twice (DESIGN §1): the theorems in `PLV/Props/Cxx.lean` say that the model's own
  observations always satisfy the predicate, for all inputs / histories / schedules; the compiled
  driver evaluates the very same predicate on what the *real crate* did (lines `judge.Cxx …` of the
  protocol), so the oracle applied to the implementation is the theorem's statement.
  Import-free (compiled into the driver).
-/
import PLV.Model.Level

namespace PLV

/-! ## C05 — the per-order matching rule, stated outright -/

/-- same variant and same type parameters (everything except the hidden quantity) -/
def Kind.sameParams : Kind → Kind → Bool
  | .standard, .standard => true
  | .postOnly, .postOnly => true
  | .marketToLimit, .marketToLimit => true
  | .trailingStop t r, .trailingStop t' r' => t == t' && r == r'
  | .pegged o r, .pegged o' r' => o == o' && r == r'
  | .iceberg _, .iceberg _ => true
  | .reserve _ t a au, .reserve _ t' a' au' => t == t' && a == a' && au == au'
  | _, _ => false

/-- identity fields and type parameters unchanged -/
def Order.sameIdentity (o u : Order) : Bool :=
  u.id == o.id && u.price == o.price && u.side == o.side && u.ts == o.ts && u.tif == o.tif &&
    Kind.sameParams o.kind u.kind

/-- the order stays with displayed `v` and hidden `h`, having moved `hr` out of hidden -/
def staysWith (o : Order) (r : MatchOut) (v h hr : Nat) : Bool :=
  match r.updated with
  | some u => o.sameIdentity u && u.vis == v && u.hid == h && r.hiddenRed == hr
  | none => false

def leaves (r : MatchOut) : Bool := r.updated.isNone && r.hiddenRed == 0

/-- C05 (tranche helper): what `refresh_iceberg o n` must return — the identity and the type
    parameters stay, the display becomes `n`, the amount used is `min hidden n`, and it is exactly
    what left the hidden quantity; the five plain variants come back unchanged with 0 used. -/
def C05.refreshOk (o : Order) (n : Nat) (r : Order) (used : Nat) : Bool :=
  if o.kind.hasHidden then
    o.sameIdentity r && r.vis == n && used == min o.hid n && r.hid + used == o.hid
  else r == o && used == 0

/-- C05: what `match_against o q` must return, read off the property statement. -/
def C05.ok (o : Order) (q : Nat) (r : MatchOut) : Bool :=
  let consumed := min q o.vis
  r.consumed == consumed && r.remaining == q - consumed &&
  (match o.kind with
   | .iceberg h =>
     if o.vis ≤ q then
       -- display exhausted: a new tranche no larger than the exhausted one, taken from hidden;
       -- leaves when nothing is hidden
       if h > 0 then staysWith o r (min h o.vis) (h - min h o.vis) (min h o.vis) else leaves r
     else staysWith o r (o.vis - q) h 0
   | .reserve h thr amt auto =>
     let safeThr := if auto && thr == 0 then 1 else thr
     let amount := min (amt.getD 80) h
     let replenishes := auto && decide (h > 0) && (decide (o.vis ≤ q) || decide (o.vis - q < safeThr))
     if replenishes then staysWith o r (o.vis - consumed + amount) (h - amount) amount
     else if o.vis ≤ q then leaves r
     else staysWith o r (o.vis - q) h 0
   | _ =>
     if o.vis ≤ q then leaves r else staysWith o r (o.vis - q) 0 0)

/-- conservation, as a separate reading of the first sentence of C05 -/
def C05.conserves (o : Order) (q : Nat) (r : MatchOut) : Bool :=
  match r.updated with
  | some u => u.vis + u.hid + r.consumed == o.vis + o.hid
  | none => true

/-! ## C01 — aggregates equal the sums over the listed orders -/

/-- what a reader must see: the three counters against the listing -/
def C01.ok (vis hid cnt : Nat) (listing : List Order) : Bool :=
  vis == sumVis listing && hid == sumHid listing && cnt == listing.length &&
    decide (vis + hid < W)

/-! ## C02 — every match fully accounted for; no order over-filled -/

def fillsOf (id : Id) : List Tx → Nat
  | [] => 0
  | t :: ts => (if t.maker = id then t.qty else 0) + fillsOf id ts

def lookup (id : Id) : List Order → Option Order
  | [] => none
  | o :: rest => if o.id = id then some o else lookup id rest

def restTot (id : Id) (l : List Order) : Nat :=
  match lookup id l with
  | some o => o.vis + o.hid
  | none => 0

/-- transaction counters strictly increase and start at or after everything issued before -/
def freshIds : Nat → List Nat → Bool
  | _, [] => true
  | g, k :: ks => decide (g ≤ k) && freshIds (k + 1) ks

/-- what one `match_order` call was asked and what it answered, with the listing before and after -/
structure MatchObs where
  q      : Nat
  taker  : Id
  price  : Nat            -- the level's price
  gprev  : Nat            -- number of transaction ids issued by the generator before the call
  r      : MatchResult
  pre    : List Order
  post   : List Order
  deriving Repr, Inhabited

def C02.ok (o : MatchObs) : Bool :=
  -- executed + remaining = requested; complete exactly when nothing remains
  sumQty o.r.txs + o.r.remaining == o.q && (o.r.complete == (o.r.remaining == 0)) &&
  o.r.taker == o.taker &&
  -- every transaction: positive quantity, level price, given taker, resting maker, opposite side
  o.r.txs.all (fun t => decide (t.qty > 0) && t.price == o.price && t.taker == o.taker &&
    (match lookup t.maker o.pre with
     | some m => t.takerSide == m.side.opposite
     | none => false)) &&
  -- transaction ids not issued before
  freshIds o.gprev (o.r.txs.map (·.txid)) &&
  -- the filled list names exactly the makers that traded and left the book in this call
  o.r.filled.all (fun id => decide (fillsOf id o.r.txs > 0) && (lookup id o.post).isNone) &&
  o.r.txs.all (fun t => (lookup t.maker o.post).isSome || o.r.filled.contains t.maker) &&
  -- no maker trades more than it had; what it still rests with shrank by at least its fills
  o.pre.all (fun m => decide (fillsOf m.id o.r.txs + restTot m.id o.post ≤ m.vis + m.hid))

/-! ## C06 — a match that returns with quantity remaining leaves nothing displayed, and executes at
    least min(requested, displayed at the start) -/

def C06.ok (q : Nat) (r : MatchResult) (pre post : List Order) : Bool :=
  (r.remaining == 0 || sumVis post == 0) && decide (min q (sumVis pre) ≤ sumQty r.txs)

/-! ## C07 — cancel / move / amend do exactly what they report -/

/-- all orders other than `id` are untouched -/
def othersSame (id : Id) (pre post : List Order) : Bool :=
  pre.all (fun o => o.id == id || lookup o.id post == some o) &&
  post.all (fun o => o.id == id || lookup o.id pre == some o)

/-- the order that must rest after a same-price amend of `old` to `n`: new displayed quantity for
    Standard, PostOnly and Iceberg; identical for the other four kinds -/
def amended (old : Order) (n : Nat) : Order :=
  match old.kind with
  | .standard | .postOnly | .iceberg _ => { old with vis := n }
  | _ => old

def C07.ok (price : Nat) (u : Update) (out : UpdOut) (pre post : List Order) : Bool :=
  let removes (id : Id) : Bool :=
    match lookup id pre with
    | some o => out == .ok (some o) && (lookup id post).isNone && othersSame id pre post
    | none => out == .ok none && othersSame id pre post && (lookup id post).isNone
  let amends (id : Id) (n : Nat) : Bool :=
    match lookup id pre with
    | some o => out == .ok (some (amended o n)) && lookup id post == some (amended o n) && othersSame id pre post
    | none => out == .ok none && othersSame id pre post && (lookup id post).isNone
  match u with
  | .cancel id => removes id
  | .price id p => if p ≠ price then removes id else out == .errSamePrice && pre == post
  | .quantity id n => amends id n
  | .priceQty id p n => if p ≠ price then removes id else amends id n
  | .replace id p n _ => if p ≠ price then removes id else amends id n

/-! ## C15 — statistics agree with the events -/

/-- `(added, removed, qty, value)` against the events counted by the observer -/
def C15.ok (price : Nat) (s : Stats) (nAdds nRemoved sumExec : Nat) : Bool :=
  s.added == nAdds && s.removed == nRemoved && s.qty == sumExec && s.value == price * sumExec

/-! ## C19 — the exported order queue is a FIFO with lookup and removal by id

The abstract queue the property describes: the orders in push order. -/

abbrev Fifo := List Order

def Fifo.push (f : Fifo) (o : Order) : Fifo := f ++ [o]

def Fifo.pop : Fifo → Option Order × Fifo
  | [] => (none, [])
  | o :: rest => (some o, rest)

def Fifo.find (f : Fifo) (id : Id) : Option Order := lookup id f

def Fifo.removeAll (id : Id) : Fifo → Fifo
  | [] => []
  | o :: rest => if o.id = id then Fifo.removeAll id rest else o :: Fifo.removeAll id rest

def Fifo.remove (f : Fifo) (id : Id) : Option Order × Fifo := (lookup id f, Fifo.removeAll id f)

/-! ## C04 — time priority, as a local comparison of hand-out orders

`before` / `after`: the order in which pops would hand out the resting orders before and after one
`match_order` call. The property's rules: an order that is still there with its hidden quantity
untouched (partially filled, or not reached) keeps its place; an order whose display was
replenished from hidden moves to the back; an order that left is gone. -/

def hidOf (id : Id) (l : List Order) : Option Nat := (lookup id l).map (·.hid)

/-- ids that must keep their relative place, in order -/
def stayIds (before after : List Order) : List Id :=
  (before.filter (fun x => hidOf x.id after == some x.hid)).map (·.id)

/-- ids that were replenished and must be behind all the others -/
def backIds (before after : List Order) : List Id :=
  (before.filter (fun x => match hidOf x.id after with | some h => h != x.hid | none => false)).map (·.id)

/-- `after` = the stayers in their old order, followed by the replenished ones in some order -/
def C04.matchOrderOk (before after : List Order) : Bool :=
  let ids := after.map (·.id)
  let s := stayIds before after
  let b := backIds before after
  ids.take s.length == s && (ids.drop s.length).all (fun i => b.contains i) && ids.length == s.length + b.length

/-! ## Judges over event traces of concurrent executions (C03, C08, C12, C13, C14)

An event is one shared-memory operation as logged by the instrumented crate. -/

structure Ev where
  t      : Nat
  obj    : String
  op     : String
  detail : String
  deriving Repr, Inhabited

/-- `id->result` details of map operations -/
def Ev.key (e : Ev) : String := (e.detail.splitOn "->").headD ""
def Ev.res (e : Ev) : String := (e.detail.splitOn "->").getD 1 ""

/-- C08 (hand-out discipline): per key, inserts and successful removes alternate starting from the
    pre-loaded state, an insert never replaces a live entry, and a remove finds the key exactly
    when it is there. `present` = keys in the map so far. -/
def C08.scan (present : List String) : List Ev → Bool
  | [] => true
  | e :: rest =>
    if e.obj == "map" && e.op == "insert" then
      e.res == "new" && !present.contains e.key && C08.scan (e.key :: present) rest
    else if e.obj == "map" && e.op == "remove" then
      if e.res == "found" then present.contains e.key && C08.scan (present.filter (· != e.key)) rest
      else !present.contains e.key && C08.scan present rest
    else if e.obj == "map" && e.op == "get" then
      (e.res == "found") == present.contains e.key && C08.scan present rest
    else C08.scan present rest

/-- C12: every observation of the three aggregates lies within what was ever supplied -/
def C12.ok (maxTotal maxHid maxCnt : Nat) (obs : List (Nat × Nat × Nat)) : Bool :=
  obs.all (fun o => decide (o.1 ≤ maxTotal) && decide (o.2.1 ≤ maxHid) && decide (o.2.2 ≤ maxCnt))

/-- C14: the counter values handed out are pairwise distinct and form the range starting at `g0` -/
def C14.ok (g0 : Nat) (evs : List Ev) : Bool :=
  let ks := (evs.filter (fun e => e.obj == "uuid")).map (fun e => (e.res.toNat?, e.key, e.op))
  ks.all (fun k => k.2.1 == "1" && k.2.2 == "fetch_add" && k.1.isSome) &&
    (let vals := ks.filterMap (·.1)
     vals.all (fun v => decide (g0 ≤ v) && decide (v < g0 + vals.length)) &&
       vals.all (fun v => (vals.filter (· == v)).length == 1))

/-- C13, for one not-found answer at position `k` for key `id`: is some *other* thread holding the
    order in flight (removed it before `k`, re-inserts it after `k`)? -/
def C13.inFlight (evs : List Ev) (k : Nat) (me : Nat) (id : String) : Bool :=
  let before := evs.take k
  let after := evs.drop (k + 1)
  -- the last map event on `id` before `k`
  match (before.filter (fun e => e.obj == "map" && e.key == id && (e.op == "insert" || (e.op == "remove" && e.res == "found")))).getLast? with
  | some e => e.op == "remove" && e.t != me &&
      after.any (fun a => a.obj == "map" && a.op == "insert" && a.key == id && a.t == e.t)
  | none => false

/-- C13: after a successful cancel of `id` at position `k`, nobody else takes or re-inserts it -/
def C13.finalAfter (evs : List Ev) (k : Nat) (id : String) : Bool :=
  (evs.drop (k + 1)).all (fun a => !(a.obj == "map" && a.key == id && (a.op == "insert" || (a.op == "remove" && a.res == "found"))))

/-- C03 (conservation through a quantity amendment). A same-price amendment rewrites the displayed quantity only
    (`with_reduced_quantity`), so between its lookup (`map.get … found`) and its ticket (`q.push`) the amending
    thread must not move the hidden-quantity counter: a non-zero `hid.fetch_add / fetch_sub` there creates or
    destroys quantity of that order. `inAmend` = threads currently inside such a call. -/
def C03.amendScan (inAmend : List Nat) : List Ev → Bool
  | [] => true
  | e :: rest =>
    if e.obj == "map" && e.op == "get" then
      C03.amendScan (if e.res == "found" then e.t :: inAmend else inAmend) rest
    else if e.obj == "map" && e.op == "remove" && e.res != "found" then
      C03.amendScan (inAmend.filter (· != e.t)) rest
    else if e.obj == "q" && e.op == "push" then
      C03.amendScan (inAmend.filter (· != e.t)) rest
    else if e.obj == "hid" && inAmend.contains e.t && e.key != "0" then false
    else C03.amendScan inAmend rest

/-! ## C03 — conservation at quiescence, per order id

`supplied id` (pre-loaded or added), `executed id` (sum over all threads' transactions),
`returned id` (by a successful cancel), `resting id` (final listing). For ids that no thread amends:
supplied = executed + returned + resting, except that a non-replenishing reserve order that was
exhausted discards its hidden quantity. -/
def C03.idOk (supplied : Option Order) (executed returned resting : Nat) : Bool :=
  match supplied with
  | none => executed == 0 && returned == 0 && resting == 0
  | some o =>
    let tot := o.vis + o.hid
    executed + returned + resting == tot ||
      (match o.kind with
       | .reserve h _ _ _ => resting == 0 && returned == 0 && executed + h == tot
       | _ => false)

end PLV

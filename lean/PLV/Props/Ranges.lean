/-
  Which values "fit their Rust types": the range hypotheses of the codec theorems (C16, C17, C09).
  The model's numbers are unbounded `Nat`/`Int`; the crate's are `u64` / `i64` / `u128` ids. Every
  codec theorem is stated for every value satisfying these predicates and nothing else.
-/
import PLV.Model.Json

namespace PLV
open PLV.Text PLV.J

/-- numeric fields of an order fit their Rust types -/
structure OrderOk (o : Order) : Prop where
  id : o.id.val < 2 ^ 128
  price : o.price < W
  vis : o.vis < W
  ts : o.ts < W
  tif : ∀ n, o.tif = .gtd n → n < W
  kind : match o.kind with
    | .trailingStop t r => t < W ∧ r < W
    | .pegged off _ => -9223372036854775808 ≤ off ∧ off < 9223372036854775808
    | .iceberg h => h < W
    | .reserve h thr amt _ => h < W ∧ thr < W ∧ (∀ a, amt = some a → a < W)
    | _ => True

/-- numeric fields of an update fit their Rust types -/
def UpdateOk : Update → Prop
  | .price id p => id.val < 2 ^ 128 ∧ p < W
  | .quantity id n => id.val < 2 ^ 128 ∧ n < W
  | .priceQty id p n => id.val < 2 ^ 128 ∧ p < W ∧ n < W
  | .cancel id => id.val < 2 ^ 128
  | .replace id p n _ => id.val < 2 ^ 128 ∧ p < W ∧ n < W

/-- numeric fields of a transaction fit their Rust types -/
structure TxOk (t : TxRec) : Prop where
  txid : t.txid < 2 ^ 128
  taker : t.taker.val < 2 ^ 128
  maker : t.maker.val < 2 ^ 128
  price : t.price < W
  qty : t.qty < W
  ts : t.ts < W

/-- numeric fields of a match result fit their Rust types -/
structure MROk (r : MRRec) : Prop where
  id : r.orderId.val < 2 ^ 128
  txs : ∀ t ∈ r.txs, TxOk t
  rem : r.remaining < W
  filled : ∀ i ∈ r.filled, i.val < 2 ^ 128

/-- numeric fields of a snapshot fit their Rust types -/
structure SnapOk (s : Snapshot) : Prop where
  price : s.price < W
  vis : s.vis < W
  hid : s.hid < W
  cnt : s.cnt < W
  orders : ∀ o ∈ s.orders, OrderOk o


end PLV

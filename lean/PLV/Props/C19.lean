/-
  C19 — The exported order queue is a FIFO with lookup and removal by id.
  Property theorems only.
-/
import PLV.Lemmas.Queue

namespace PLV.C19
open PLV

/-- the queue's API as data -/
inductive QOp where
  | push (o : Order) | pop | find (id : Id) | remove (id : Id) | len | isEmpty | toVec
  deriving Repr

inductive QOut where
  | unit | order (o : Option Order) | num (n : Nat) | bool (b : Bool) | orders (l : List Order)
  deriving Repr, DecidableEq

/-- the implementation (model of `OrderQueue`) -/
def step (q : Q) : QOp → Q × QOut
  | .push o => (q.push o, .unit)
  | .pop => ((q.pop).2, .order (q.pop).1)
  | .find id => (q, .order (q.find id))
  | .remove id => ((q.remove id).2, .order (q.remove id).1)
  | .len => (q, .num q.len)
  | .isEmpty => (q, .bool q.isEmpty)
  | .toVec => (q, .orders q.toVec)

/-- the specification: a plain list of orders in push order -/
def specStep (f : Fifo) : QOp → Fifo × QOut
  | .push o => (f.push o, .unit)
  | .pop => ((f.pop).2, .order (f.pop).1)
  | .find id => (f, .order (f.find id))
  | .remove id => ((f.remove id).2, .order (f.remove id).1)
  | .len => (f, .num f.length)
  | .isEmpty => (f, .bool f.isEmpty)
  | .toVec => (f, .orders (sortByTs f))

/-- abstraction: the orders in the order successive pops would hand them out -/
def abs (q : Q) : Fifo := liveOrder q.map q.tickets

/-- well-formedness of a queue: distinct keys, each with a ticket -/
structure QInv (q : Q) : Prop where
  nodup : (ids q.map).Nodup
  covered : ∀ x ∈ ids q.map, x ∈ q.tickets

/-- the side condition of the refinement: a push does not re-use an id that still has a ticket in
    the queue (a queued id, or an id removed earlier whose stale ticket has not been skipped yet) -/
def Fresh (q : Q) : QOp → Prop
  | .push o => o.id ∉ q.tickets
  | _ => True

theorem QInv.step {q : Q} (h : QInv q) (op : QOp) : QInv (step q op).1 := by
  cases op with
  | push o =>
    refine ⟨nodup_insert _ h.nodup, ?_⟩
    intro x hx
    rcases ids_insert.1 hx with hx | rfl
    · exact List.mem_append_left _ (h.covered x hx)
    · simp [C19.step, Q.push]
  | pop =>
    simp only [C19.step, Q.pop]
    cases hp : popLive q.map q.tickets with
    | none =>
      have hn := popLive_none hp
      exact ⟨h.nodup, fun x hx => absurd hx (hn x (h.covered x hx))⟩
    | some r =>
      obtain ⟨o, m', ts'⟩ := r
      obtain ⟨_, rfl, ht, _⟩ := popLive_spec hp
      refine ⟨nodup_erase _ h.nodup, ?_⟩
      intro x hx
      have := mem_ids_erase.1 hx
      exact ht x this.1 this.2 (h.covered x this.1)
  | remove id =>
    simp only [C19.step, Q.remove]
    cases hf : q.map.find id with
    | none => exact h
    | some o => exact ⟨nodup_erase _ h.nodup, fun x hx => h.covered x (mem_ids_erase.1 hx).1⟩
  | find id => exact h
  | len => exact h
  | isEmpty => exact h
  | toVec => exact h

/-- **refinement** (`C19_partial`): every operation whose push does not re-use a ticketed id acts on
    the hand-out order exactly as the abstract FIFO does, and returns the same answer (the listing
    up to the unspecified order among equal timestamps: as a permutation) -/
theorem C19_refines {q : Q} (h : QInv q) (op : QOp) (hf : Fresh q op) :
    abs (step q op).1 = (specStep (abs q) op).1 ∧
      (match op with
       | .toVec => ∃ l l', (step q op).2 = .orders l ∧ (specStep (abs q) op).2 = .orders l' ∧ l.Perm l'
       | _ => (step q op).2 = (specStep (abs q) op).2) := by
  cases op with
  | push o =>
    have hm : o.id ∉ ids q.map := fun hx => hf (h.covered _ hx)
    exact ⟨liveOrder_push_fresh o q.tickets q.map hf hm, rfl⟩
  | pop =>
    have := pop_liveOrder q.map q.tickets
    simp only [C19.step, C19.specStep, abs, Q.pop]
    cases hp : popLive q.map q.tickets with
    | none => rw [hp] at this; simp [this, Fifo.pop, liveOrder]
    | some r =>
      obtain ⟨o, m', ts'⟩ := r
      rw [hp] at this
      simp [this, Fifo.pop]
  | find id =>
    refine ⟨rfl, ?_⟩
    simp only [C19.step, C19.specStep, abs, Q.find, Fifo.find, lookup_liveOrder]
    by_cases hid : id ∈ q.tickets
    · simp [hid]
    · have : q.map.find id = none := find_none.2 (fun hx => hid (h.covered _ hx))
      simp [hid, this]
  | remove id =>
    have hl : lookup id (abs q) = q.map.find id := by
      simp only [abs, lookup_liveOrder]
      by_cases hid : id ∈ q.tickets
      · simp [hid]
      · have : q.map.find id = none := find_none.2 (fun hx => hid (h.covered _ hx))
        simp [hid, this]
    simp only [C19.step, C19.specStep, abs, Q.remove, Fifo.remove]
    cases hfd : q.map.find id with
    | none =>
      have hx : ∀ x ∈ liveOrder q.map q.tickets, x.id ≠ id := by
        intro x hx e
        exact find_none.1 hfd (e ▸ mem_ids_of_mem (liveOrder_mem hx))
      refine ⟨(removeAll_of_not_mem hx).symm, ?_⟩
      simp only [abs] at hl; rw [hl, hfd]
    | some o =>
      refine ⟨liveOrder_erase id q.tickets q.map, ?_⟩
      simp only [abs] at hl; rw [hl, hfd]
  | len =>
    refine ⟨rfl, ?_⟩
    simp only [C19.step, C19.specStep, abs, Q.len]
    rw [(liveOrder_perm q.tickets q.map h.nodup h.covered).length_eq]
  | isEmpty =>
    refine ⟨rfl, ?_⟩
    have := (liveOrder_perm q.tickets q.map h.nodup h.covered).length_eq
    simp only [C19.step, C19.specStep, abs, Q.isEmpty]
    cases hm : q.map with
    | nil => rw [hm] at this; simp at this; simp [this]
    | cons x rest =>
      rw [hm] at this
      cases hl : liveOrder (x :: rest) q.tickets with
      | nil => rw [hl] at this; simp at this
      | cons y ys => simp
  | toVec =>
    refine ⟨rfl, _, _, rfl, rfl, ?_⟩
    exact (sortByTs_perm _).trans ((liveOrder_perm q.tickets q.map h.nodup h.covered).symm.trans (sortByTs_perm _).symm)

/-- parts of the contract that hold for **every** sequence, stale tickets or not: lookup and
    removal find exactly the queued orders, length and emptiness count exactly them, the listing
    shows each of them once -/
theorem C19_always {q : Q} (h : QInv q) :
    (∀ id, q.find id = lookup id (abs q)) ∧ q.len = (abs q).length ∧ (q.isEmpty = true ↔ abs q = []) ∧
      q.toVec.Perm (abs q) ∧ (ids (abs q)).Nodup := by
  have hp := liveOrder_perm q.tickets q.map h.nodup h.covered
  refine ⟨?_, ?_, ?_, ?_, ?_⟩
  · intro id
    simp only [abs, Q.find, lookup_liveOrder]
    by_cases hid : id ∈ q.tickets
    · simp [hid]
    · have : q.map.find id = none := find_none.2 (fun hx => hid (h.covered _ hx))
      simp [hid, this]
  · simp only [Q.len, abs]; rw [hp.length_eq]
  · simp only [Q.isEmpty, abs]
    have hlen := hp.length_eq
    constructor
    · intro he
      have hm : q.map = [] := by simpa using he
      rw [hm] at hlen ⊢
      exact List.eq_nil_of_length_eq_zero (by simpa using hlen)
    · intro he
      rw [he] at hlen
      have : q.map = [] := List.eq_nil_of_length_eq_zero (by simpa using hlen.symm)
      simp [this]
  · exact (sortByTs_perm _).trans hp.symm
  · have hn := h.nodup
    unfold ids at hn ⊢
    exact (hp.map (fun o : Order => o.id)).nodup_iff.2 hn

/-- sequences of operations: the refinement lifts to every history whose pushes are fresh -/
def run (q : Q) : List QOp → Q
  | [] => q
  | op :: rest => run (step q op).1 rest

def specRun (f : Fifo) : List QOp → Fifo
  | [] => f
  | op :: rest => specRun (specStep f op).1 rest

def FreshAll (q : Q) : List QOp → Prop
  | [] => True
  | op :: rest => Fresh q op ∧ FreshAll (step q op).1 rest

theorem C19_history (ops : List QOp) : ∀ (q : Q), QInv q → FreshAll q ops → abs (run q ops) = specRun (abs q) ops := by
  induction ops with
  | nil => intro q _ _; rfl
  | cons op rest ih =>
    intro q h hf
    simp only [run, specRun]
    rw [ih _ (h.step op) hf.2, (C19_refines h op hf.1).1]

/-- building a queue from a list of orders with distinct ids (`from_vec`, `From<Vec>`, and through
    them the text and JSON constructors) yields a queue that hands them out in list order -/
theorem C19_from_vec (os : List Order) (hn : (ids os).Nodup) : QInv (Q.fromVec os) ∧ abs (Q.fromVec os) = os := by
  have gen : ∀ (os : List Order) (q : Q), QInv q → (ids os).Nodup → (∀ x ∈ ids os, x ∉ q.tickets) →
      QInv (os.foldl Q.push q) ∧ abs (os.foldl Q.push q) = abs q ++ os := by
    intro os
    induction os with
    | nil => intro q h _ _; simp [h]
    | cons o rest ih =>
      intro q h hn hd
      simp at hn
      have hfresh : o.id ∉ q.tickets := hd o.id (by simp)
      have hq : QInv (q.push o) := h.step (.push o)
      have := ih (q.push o) hq hn.2 (by
        intro x hx hm
        simp only [Q.push, List.mem_append, List.mem_singleton] at hm
        rcases hm with hm | rfl
        · exact hd x (by simp [hx]) hm
        · exact hn.1 hx)
      simp only [List.foldl]
      refine ⟨this.1, ?_⟩
      rw [this.2]
      have := (C19_refines h (.push o) hfresh).1
      simp only [C19.step, specStep, Fifo.push] at this
      rw [this]; simp
  have := gen os {} ⟨by simp, by simp⟩ hn (by simp)
  simpa [Q.fromVec, abs, liveOrder] using this

/-- **the full property fails**: push A, push B, remove A, push A again, pop → A (B was pushed
    first and is still queued). The re-pushed order lands on its stale ticket. -/
theorem C19_counterexample :
    let A : Order := ⟨⟨false, 1⟩, 100, 5, .sell, 1, .gtc, .standard⟩
    let B : Order := ⟨⟨false, 2⟩, 100, 5, .sell, 2, .gtc, .standard⟩
    let q := run {} [.push A, .push B, .remove A.id, .push A]
    (step q .pop).2 = .order (some A) ∧ (specStep (specRun [] [.push A, .push B, .remove A.id, .push A]) .pop).2 = .order (some B) := by
  decide

/-! non-vacuity of the refinement's premises -/
example : FreshAll {} [.push ⟨⟨false, 1⟩, 100, 5, .sell, 1, .gtc, .standard⟩,
    .push ⟨⟨false, 2⟩, 100, 5, .sell, 2, .gtc, .iceberg 3⟩, .remove ⟨false, 1⟩, .pop, .len] := by
  simp [FreshAll, Fresh, step, Q.push]

end PLV.C19

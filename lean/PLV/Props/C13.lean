/-
  C13 — Cancel / amend acknowledgements stay truthful under concurrency.
  Property theorems only; every schedule.

  The first half of the property is FALSE of the crate (and of the model): `C13_counterexample` — a
  cancel that runs while a matcher holds the order between its pop and its re-push reports
  not-found although the order is back in the book afterwards (known finding C13/in-flight).
  Proved: the second half in full (`C13_success_is_final`), and `C13_partial`: a cancel / amend
  whose lookup happens while the order is in the map finds it — so not-found can only be
  untruthful while another thread holds the order in flight.
-/
import PLV.Lemmas.ConcCover

namespace PLV.C13
open PLV PLV.Conc

/-- how many places hold id `x`: the map plus every thread's hands (and pending adds) -/
def places (x : Id) (c : Cfg) : Nat := (ids c.sh.map).count x + sumT (fun t => (theld t).count x) c.ts

/-- no step of any thread ever creates a new holder of an id -/
theorem places_mono (x : Id) {c : Cfg} (hinv : CInv c) (i : Nat) : places x (Conc.step c i).1 ≤ places x c := by
  cases hti : c.ts[i]? with
  | none => rw [step_none (Or.inl hti)]; exact Nat.le_refl _
  | some t =>
    cases hn : t.norm with
    | none => rw [step_none (Or.inr ⟨t, hti, hn⟩)]; exact Nat.le_refl _
    | some tn =>
      obtain ⟨hst, _⟩ := step_some hinv hti hn
      have htm : t ∈ c.ts := List.mem_of_getElem? hti
      obtain ⟨_, _, _, e4, _⟩ := norm_measures hn (hinv.ok t htm)
      obtain ⟨_, _, _, a4⟩ := after_measures tn (tstep c.sh tn.pc).2.1
      have hs := sumT_set (fun t => (theld t).count x) c.ts i t (tn.after (tstep c.sh tn.pc).2.1) hti
      have h5 := tstep_own c.sh tn.pc x
      have h6 : (theld t).count x = (held tn.pc).count x + (tn.todo.flatMap opHeld).count x := by
        rw [← e4]; simp [theld, List.count_append]
      rw [hst]
      simp only [places, a4, List.count_append] at hs ⊢
      omega

theorem places_run (x : Id) (sched : List Nat) : ∀ {c : Cfg}, CInv c → places x (Conc.run c sched) ≤ places x c := by
  induction sched with
  | nil => intro c _; exact Nat.le_refl _
  | cons i rest ih =>
    intro c hinv
    exact Nat.le_trans (ih (hinv.step i)) (places_mono x hinv i)

/-- **a cancel that reports success has really taken the order out**: right after the step in
    which a cancel finds and removes `x`, nobody holds `x` — and along every continuation, under
    every schedule, `x` is never in the map again and never in any thread's hands: it cannot trade,
    cannot be returned by another cancel, cannot be re-queued. (No operation of the program re-adds
    the id: program ids are distinct, `ProgAdm`.) -/
theorem C13_success_is_final {c : Cfg} (hinv : CInv c) (i : Nat) {t tn : Thread} {x : Id} {o : Order}
    (hti : c.ts[i]? = some t) (hn : t.norm = some tn) (hpc : tn.pc = .can0 x) (hf : c.sh.map.find x = some o)
    (sched : List Nat) :
    places x (Conc.run (Conc.step c i).1 sched) = 0 := by
  have h1 : places x c ≤ 1 := hinv.own x
  have hmem : 0 < (ids c.sh.map).count x := List.count_pos_iff.2 ((find_some hf).2 ▸ mem_ids_of_mem (find_some hf).1)
  obtain ⟨hst, _⟩ := step_some hinv hti hn
  have htm : t ∈ c.ts := List.mem_of_getElem? hti
  obtain ⟨_, _, _, e4, _⟩ := norm_measures hn (hinv.ok t htm)
  have hs := sumT_set (fun t => (theld t).count x) c.ts i t (tn.after (tstep c.sh tn.pc).2.1) hti
  have h0 : places x (Conc.step c i).1 = 0 := by
    rw [hst]
    have herase : (ids (c.sh.map.erase x)).count x = 0 := List.count_eq_zero.2 (fun hm => (mem_ids_erase.1 hm).2 rfl)
    have hafter : theld (tn.after (tstep c.sh tn.pc).2.1) = tn.todo.flatMap opHeld := by
      rw [hpc]; simp [tstep, hf, Thread.after, theld, held]
    have h6 : (theld t).count x = (held tn.pc).count x + (tn.todo.flatMap opHeld).count x := by
      rw [← e4]; simp [theld, List.count_append]
    have hmap : (tstep c.sh tn.pc).1.map = c.sh.map.erase x := by rw [hpc]; simp [tstep, hf]
    simp only [places, hmap, herase, hafter] at hs h1 ⊢
    omega
  have := places_run x sched (hinv.step i)
  omega

/-- **C13_partial**: a cancel (resp. the lookup of an amend) that runs while the order is in the
    map finds it -/
theorem C13_partial (s : Shared) (x : Id) (n : Nat) (o : Order) (hf : s.map.find x = some o) :
    (tstep s (.can0 x)).2.1 = .cont (.can1 o) ∧ (tstep s (.am0 x n)).2.1 = .cont (.am1 x n) := by
  simp [tstep, hf]

/-- … and not-found is answered exactly when the order is not in the map at that instant -/
theorem C13_not_found_iff (s : Shared) (x : Id) :
    (tstep s (.can0 x)).2.1 = .done "ok=-" ↔ x ∉ ids s.map := by
  cases hf : s.map.find x with
  | none => simp [tstep, hf, find_none.1 hf]
  | some o =>
    have : x ∈ ids s.map := (find_some hf).2 ▸ mem_ids_of_mem (find_some hf).1
    simp [tstep, hf, this]

def X : Order := ⟨⟨false, 1⟩, 100, 10, .sell, 1, .gtc, .standard⟩

/-- **the first half fails**: X(10) rests; thread 0 matches 4, thread 1 cancels X. Schedule: the
    matcher pops X and takes it out of the map, the cancel looks X up (not found, returns), the
    matcher finishes and pushes the remaining 6 back. The cancel said not-found; X rests. -/
theorem C13_counterexample :
    let c := Conc.run (Cfg.init ((Level.new 100).addOrder X) 0 [[.matchQ 4 ⟨false, 9⟩], [.cancel X.id]])
      [0, 0, 1, 0, 0, 0, 0, 0, 0, 0, 0, 0]
    allDone c = true ∧ (c.ts[1]?.map (·.rets)) = some ["ok=-"] ∧ (c.sh.map.map (·.id)) = [X.id] := by
  decide

end PLV.C13

/-
  C02 — Every match is fully accounted for and no order is ever over-filled.
  Property theorems only.
-/
import PLV.Judge
import PLV.Lemmas.Lifetime

namespace PLV.C02
open PLV

/-- executed + remaining = requested, and completion is reported exactly when nothing remains -/
theorem C02_accounting {l : Level} (h : l.Inv) (q : Nat) (t : Id) (g : Nat) :
    (l.matchOrder q t g).2.1.executed + (l.matchOrder q t g).2.1.remaining = q ∧
      ((l.matchOrder q t g).2.1.complete = true ↔ (l.matchOrder q t g).2.1.remaining = 0) :=
  ⟨(Level.matchOrder_facts h q t g).acct, (Level.matchOrder_facts h q t g).complete⟩

/-- `executed_value` is the level's price times `executed_quantity` (every transaction trades at the level's price) -/
theorem C02_executed_value {l : Level} (h : l.Inv) (q : Nat) (t : Id) (g : Nat) :
    (l.matchOrder q t g).2.1.executedValue = l.price * (l.matchOrder q t g).2.1.executed := by
  have hp : ∀ tx ∈ (l.matchOrder q t g).2.1.txs, tx.price = l.price :=
    fun tx htx => ((Level.matchOrder_facts h q t g).txok tx htx).2.1
  unfold MatchResult.executedValue MatchResult.executed
  generalize (l.matchOrder q t g).2.1.txs = txs at hp
  induction txs with
  | nil => simp [sumValue, sumQty]
  | cons x rest ih =>
    simp only [sumValue, sumQty]
    rw [ih (fun tx htx => hp tx (by simp [htx])), hp x (by simp), Nat.mul_add]

/-- every transaction has a positive quantity, the level's price, the given taker id, a maker that
    was resting when the call started, and the side opposite to that maker's -/
theorem C02_transactions {l : Level} (h : l.Inv) (q : Nat) (t : Id) (g : Nat) :
    ∀ tx ∈ (l.matchOrder q t g).2.1.txs, tx.qty > 0 ∧ tx.price = l.price ∧ tx.taker = t ∧
      ∃ maker, l.map.find tx.maker = some maker ∧ tx.takerSide = maker.side.opposite :=
  (Level.matchOrder_facts h q t g).txok

/-- transaction ids are the generator's next consecutive counter values, so (C14: the id is an
    injective function of the counter) none was issued before and none repeats -/
theorem C02_txids {l : Level} (h : l.Inv) (q : Nat) (t : Id) (g : Nat) (hg : g < W) :
    idsFrom g (l.matchOrder q t g).2.1.txs ∧
      (l.matchOrder q t g).2.2 = (g + (l.matchOrder q t g).2.1.txs.length) % W :=
  (Level.matchOrder_facts h q t g).gids hg

/-- consecutive counters are fresh (`freshIds`, the check the driver runs on the real crate) as long
    as the 64-bit counter does not wrap -/
theorem C02_txids_fresh (g : Nat) (txs : List Tx) (h : idsFrom g txs) (hw : g + txs.length ≤ W) :
    freshIds g (txs.map (·.txid)) = true := by
  induction txs generalizing g with
  | nil => rfl
  | cons x rest ih =>
    simp only [idsFrom] at h
    simp only [List.length_cons] at hw
    have hx : x.txid = g := by rw [h.1]; exact Nat.mod_eq_of_lt (by omega)
    simp only [List.map, freshIds, hx, Nat.le_refl, decide_true, Bool.true_and]
    exact ih (g + 1) h.2 (by omega)

/-- the filled-order list names exactly the makers that traded and left the book in that call -/
theorem C02_filled {l : Level} (h : l.Inv) (q : Nat) (t : Id) (g : Nat) (id : Id) :
    id ∈ (l.matchOrder q t g).2.1.filled ↔
      (0 < fillsOf id (l.matchOrder q t g).2.1.txs ∧ id ∉ ids (l.matchOrder q t g).1.map) :=
  (Level.matchOrder_facts h q t g).filled id

/-- per call, no maker trades more than it had: what was executed against it plus what it still
    rests with is at most what it rested with before -/
theorem C02_no_overfill {l : Level} (h : l.Inv) (q : Nat) (t : Id) (g : Nat) (id : Id) :
    fillsOf id (l.matchOrder q t g).2.1.txs + tot id (l.matchOrder q t g).1.map ≤ tot id l.map :=
  (Level.matchOrder_facts h q t g).ledger id

/-- **lifetime**: over any admissible history, an order never trades more than the quantity it
    brought (what it rested with at the start, plus what its adds and upward amendments brought) -/
theorem C02_lifetime (id : Id) (s : Sys) (ops : List Op) (h : s.lvl.Inv) (ha : AdmAll s ops) :
    filledOver id s ops ≤ tot id s.lvl.map + broughtOver id s ops := by
  have := lifetime_ledger id ops s h ha; omega

theorem C02_lifetime_from_new (id : Id) (p : Nat) (ops : List Op) (ha : AdmAll ⟨Level.new p, 0⟩ ops) :
    filledOver id ⟨Level.new p, 0⟩ ops ≤ broughtOver id ⟨Level.new p, 0⟩ ops := by
  have := C02_lifetime id ⟨Level.new p, 0⟩ ops (Level.inv_new p) ha
  simpa [Level.new, tot] using this

/-- what "brought" means for an add: the order's displayed plus hidden quantity -/
theorem C02_brought_add (id : Id) (s : Sys) (o : Order) (rest : List Op) (h : s.lvl.Inv)
    (ha : Adm s.lvl (.add o)) :
    broughtOver id s (.add o :: rest) =
      (if o.id = id then o.vis + o.hid else 0) + broughtOver id (s.step (.add o)).1 rest := by
  have hfresh := find_none.1 ha.1
  simp only [broughtOver, Sys.step, Level.addOrder, tot_insert_fresh hfresh]
  omega

/-- a match result built incrementally keeps remaining = initial − Σ transactions (truncated at 0,
    as the code saturates), and after at least one transaction reports completion exactly when
    nothing remains -/
theorem C02_add_transaction (taker : Id) (q : Nat) (txs : List Tx) :
    (txs.foldl MatchResult.addTx (MatchResult.new taker q)).remaining = q - sumQty txs ∧
      (txs ≠ [] → ((txs.foldl MatchResult.addTx (MatchResult.new taker q)).complete = true ↔
        (txs.foldl MatchResult.addTx (MatchResult.new taker q)).remaining = 0)) ∧
      (txs.foldl MatchResult.addTx (MatchResult.new taker q)).txs = txs := by
  have gen : ∀ (txs : List Tx) (r : MatchResult),
      (txs.foldl MatchResult.addTx r).remaining = r.remaining - sumQty txs ∧
      (txs ≠ [] → ((txs.foldl MatchResult.addTx r).complete = true ↔ (txs.foldl MatchResult.addTx r).remaining = 0)) ∧
      (txs.foldl MatchResult.addTx r).txs = r.txs ++ txs := by
    intro txs
    induction txs with
    | nil => intro r; simp [sumQty]
    | cons x rest ih =>
      intro r
      have := ih (r.addTx x)
      simp only [List.foldl]
      refine ⟨?_, ?_, ?_⟩
      · rw [this.1]; simp [MatchResult.addTx, sumQty]; omega
      · intro _
        by_cases hr : rest = []
        · subst hr; simp [MatchResult.addTx]
        · exact this.2.1 hr
      · rw [this.2.2]; simp [MatchResult.addTx]
  have := gen txs (MatchResult.new taker q)
  simpa [MatchResult.new] using this

/-- C02 over histories: in every state reachable by an admissible history every match request is
    fully accounted for -/
theorem C02_history (p : Nat) (ops : List Op) (ha : AdmAll ⟨Level.new p, 0⟩ ops) (q : Nat) (t : Id) :
    let s := Sys.run ⟨Level.new p, 0⟩ ops
    MatchFacts s.lvl q t s.g (s.lvl.matchOrder q t s.g).1 (s.lvl.matchOrder q t s.g).2.1
      (s.lvl.matchOrder q t s.g).2.2 :=
  Level.matchOrder_facts (Sys.run_inv ops (Level.inv_new p) ha) q t _

/-! non-vacuity: `Level.Inv` holds of a level with an iceberg and a pegged order (see C01's example
    for an admissible history with matches) -/
example : (Level.addOrder (Level.addOrder (Level.new 100) ⟨⟨false, 1⟩, 100, 5, .sell, 1, .gtc, .iceberg 20⟩)
    ⟨⟨false, 2⟩, 100, 10, .sell, 2, .gtc, .pegged 3 .bestBid⟩).Inv :=
  ((Level.inv_new 100).addOrder_inv (by unfold Adm; decide)).addOrder_inv (by unfold Adm; decide)

end PLV.C02

/-
  C15 — Level statistics agree with the events that actually happened.
  Property theorems only. Sequential half: over all admissible histories (`C15_history`, `C15_ok`).
  Concurrent half: over EVERY schedule of any number of threads (`C15_concurrent`,
  `C15_concurrent_prefix`): the counters are 64-bit `fetch_add`s, so no update is lost; at any point
  they equal the events so far corrected by what calls in progress recorded early / still owe, and
  at quiescence they equal the events exactly (modulo 2^64; exactly while the sums fit).
  An event is: an add returns; a cancel returns its order; a transaction is created.
-/
import PLV.Judge
import PLV.Lemmas.Stats
import PLV.Lemmas.ConcStats

namespace PLV.C15
open PLV

/-- one operation: the four counters move by exactly the events an observer counts from the
    call's result — one add; one removal per successful cancel / price move; the executed quantity
    of a match and that quantity times the level price -/
theorem C15_step (s : Sys) (op : Op) (hinv : s.lvl.Inv) (hp : s.lvl.PriceOk) (hok : StatsOk s.lvl.stats)
    (ha : AdmP s.lvl op) :
    StatsFollow s.lvl.price s.lvl.stats (s.step op).1.lvl.stats (eventsOfStep s.lvl.price op (s.step op).2) :=
  (Sys.step_stats hinv hp hok op ha).2.2.2

/-- **C15 over histories** (counters are 64-bit, hence "modulo 2^64"; below that bound they are the
    exact counts) -/
theorem C15_history (ops : List Op) :
    ∀ (s : Sys), s.lvl.Inv → s.lvl.PriceOk → StatsOk s.lvl.stats → AdmAllP s ops →
      StatsFollow s.lvl.price s.lvl.stats (s.run ops).lvl.stats (eventsOver s ops) := by
  induction ops with
  | nil =>
    intro s _ _ hok _
    exact ⟨by simp [Sys.run, eventsOver, Nat.mod_eq_of_lt hok.a], by simp [Sys.run, eventsOver, Nat.mod_eq_of_lt hok.r],
      by simp [Sys.run, eventsOver, Nat.mod_eq_of_lt hok.q], by simp [Sys.run, eventsOver, Nat.mod_eq_of_lt hok.v]⟩
  | cons op rest ih =>
    intro s hinv hp hok ha
    obtain ⟨hp', hprice, hok', hf⟩ := Sys.step_stats hinv hp hok op ha.1
    have := ih (s.step op).1 (Sys.step_inv hinv op ha.1.1) hp' hok' ha.2
    rw [hprice] at this
    simp only [Sys.run, eventsOver]
    refine ⟨?_, ?_, ?_, ?_⟩
    · rw [this.added, hf.added, Nat.mod_add_mod]; simp only; congr 1; omega
    · rw [this.removed, hf.removed, Nat.mod_add_mod]; simp only; congr 1; omega
    · rw [this.qty, hf.qty, Nat.mod_add_mod]; simp only; congr 1; omega
    · rw [this.value, hf.value, Nat.mod_add_mod]; simp only; congr 1
      rw [Nat.mul_add]; omega

/-- from a fresh level, as the observation predicate the driver evaluates on the real crate: while
    the figures fit in 64 bits the statistics are *exactly* the event counts -/
theorem C15_ok (p : Nat) (ops : List Op) (ha : AdmAllP ⟨Level.new p, 0⟩ ops)
    (hfit : p * (eventsOver ⟨Level.new p, 0⟩ ops).exec < W)
    (hfit' : (eventsOver ⟨Level.new p, 0⟩ ops).adds < W ∧ (eventsOver ⟨Level.new p, 0⟩ ops).removed < W ∧
      (eventsOver ⟨Level.new p, 0⟩ ops).exec < W) :
    C15.ok p (Sys.run ⟨Level.new p, 0⟩ ops).lvl.stats (eventsOver ⟨Level.new p, 0⟩ ops).adds
      (eventsOver ⟨Level.new p, 0⟩ ops).removed (eventsOver ⟨Level.new p, 0⟩ ops).exec = true := by
  have h := C15_history ops ⟨Level.new p, 0⟩ (Level.inv_new p) (by intro x hx; simp [Level.new] at hx)
    ⟨by simp [Level.new], by simp [Level.new], by simp [Level.new], by simp [Level.new]⟩ ha
  have e1 := h.added; have e2 := h.removed; have e3 := h.qty; have e4 := h.value
  rw [show (⟨Level.new p, 0⟩ : Sys).lvl.stats.added = 0 from rfl, Nat.zero_add, Nat.mod_eq_of_lt hfit'.1] at e1
  rw [show (⟨Level.new p, 0⟩ : Sys).lvl.stats.removed = 0 from rfl, Nat.zero_add, Nat.mod_eq_of_lt hfit'.2.1] at e2
  rw [show (⟨Level.new p, 0⟩ : Sys).lvl.stats.qty = 0 from rfl, Nat.zero_add, Nat.mod_eq_of_lt hfit'.2.2] at e3
  rw [show (⟨Level.new p, 0⟩ : Sys).lvl.stats.value = 0 from rfl, Nat.zero_add,
    show (⟨Level.new p, 0⟩ : Sys).lvl.price = p from rfl, Nat.mod_eq_of_lt hfit] at e4
  simp [C15.ok, e1, e2, e3, e4]

/-! ### concurrent half -/

open PLV.Conc in
/-- at EVERY point of EVERY schedule: counters = start + events so far, corrected by the calls in
    progress (an add that has bumped `orders_added` but not returned; a transaction whose quantity /
    value is not recorded yet) — modulo 2^64 -/
theorem C15_concurrent_prefix (l : Level) (g : Nat) (progs : List (List COp)) (sched : List Nat) :
    SInv l.stats (Conc.run (Cfg.init l g progs) sched) (runEv (Cfg.init l g progs) sched) := by
  have := (sinv_init l g progs).run sched
  simpa [Ev.plus] using this

open PLV.Conc in
/-- **at quiescence the statistics are exactly the events**: for every level, any number of threads
    and calls, and every schedule after which all calls have returned — `orders_added` counts the
    adds that returned, `orders_removed` the cancels that returned their order, `quantity_executed`
    and `value_executed` the quantities and quantity × price of the transactions created (modulo
    2^64; the stored values are 64-bit, so they are exact whenever the sums fit) -/
theorem C15_concurrent (l : Level) (g : Nat) (progs : List (List COp)) (sched : List Nat) (hok : StatsOk l.stats)
    (hd : allDone (Conc.run (Cfg.init l g progs) sched) = true) :
    let c := Conc.run (Cfg.init l g progs) sched
    let E := runEv (Cfg.init l g progs) sched
    c.sh.stats.added = (l.stats.added + E.adds) % W ∧ c.sh.stats.removed = (l.stats.removed + E.removed) % W ∧
      c.sh.stats.qty = (l.stats.qty + E.qty) % W ∧ c.sh.stats.value = (l.stats.value + E.value) % W := by
  intro c E
  have h := C15_concurrent_prefix l g progs sched
  obtain ⟨z1, z2, z3⟩ := done_stats hd
  have hlt : StatsOk c.sh.stats := statsOk_run sched (c := Cfg.init l g progs) hok
  have e1 := h.added; have e2 := h.removed; have e3 := h.qty; have e4 := h.value
  rw [z1, Nat.add_zero] at e1
  rw [z2, Nat.add_zero] at e3
  rw [z3, Nat.add_zero] at e4
  rw [Nat.mod_eq_of_lt hlt.a] at e1
  rw [Nat.mod_eq_of_lt hlt.r] at e2
  rw [Nat.mod_eq_of_lt hlt.q] at e3
  rw [Nat.mod_eq_of_lt hlt.v] at e4
  exact ⟨e1, e2, e3, e4⟩

/-! non-vacuity: two threads, an add racing a match; the schedule below completes both -/
example : Conc.allDone (Conc.run (Conc.Cfg.init ((Level.new 100).addOrder ⟨⟨false, 1⟩, 100, 5, .sell, 1, .gtc, .standard⟩) 0
    [[.add ⟨⟨false, 2⟩, 100, 7, .sell, 2, .gtc, .standard⟩], [.matchQ 3 ⟨false, 9⟩]])
    [1, 0, 1, 0, 1, 0, 1, 0, 1, 0, 1, 0, 1, 1, 1, 1, 1, 1]) = true := by decide

/-! non-vacuity -/
example : AdmAllP ⟨Level.new 100, 0⟩
    [.add ⟨⟨false, 1⟩, 100, 10, .sell, 1, .gtc, .standard⟩, .matchQ 4 ⟨false, 9⟩, .update (.cancel ⟨false, 1⟩)] := by
  refine ⟨⟨by unfold Adm; decide, rfl⟩, ⟨trivial, trivial⟩, ⟨trivial, trivial⟩, trivial⟩

end PLV.C15

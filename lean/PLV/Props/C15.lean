/-
  C15 — Level statistics agree with the events that actually happened (sequential half; the
  concurrent half is in the small-step model).
  Property theorems only.
-/
import PLV.Judge
import PLV.Lemmas.Stats

namespace PLV.C15
open PLV

/-- one operation: the four counters move by exactly the events an observer counts from the
    call's result — one add; one removal per successful cancel / price move; the executed quantity
    of a match and that quantity times the level price -/
theorem C15_step (s : Sys) (op : Op) (hinv : s.lvl.Inv) (hp : s.lvl.PriceOk) (hok : StatsOk s.lvl.stats)
    (ha : AdmP s.lvl op) :
    StatsFollow s.lvl.price s.lvl.stats (s.step op).1.lvl.stats (eventsOfStep s.lvl.price op (s.step op).2) :=
  (Sys.step_stats hinv hp hok op ha).2.2.2

/-- **C15 over histories** (counters are 64-bit, hence "modulo 2^64"; below that bound they are the
    exact counts) -/
theorem C15_history (ops : List Op) :
    ∀ (s : Sys), s.lvl.Inv → s.lvl.PriceOk → StatsOk s.lvl.stats → AdmAllP s ops →
      StatsFollow s.lvl.price s.lvl.stats (s.run ops).lvl.stats (eventsOver s ops) := by
  induction ops with
  | nil =>
    intro s _ _ hok _
    exact ⟨by simp [Sys.run, eventsOver, Nat.mod_eq_of_lt hok.a], by simp [Sys.run, eventsOver, Nat.mod_eq_of_lt hok.r],
      by simp [Sys.run, eventsOver, Nat.mod_eq_of_lt hok.q], by simp [Sys.run, eventsOver, Nat.mod_eq_of_lt hok.v]⟩
  | cons op rest ih =>
    intro s hinv hp hok ha
    obtain ⟨hp', hprice, hok', hf⟩ := Sys.step_stats hinv hp hok op ha.1
    have := ih (s.step op).1 (Sys.step_inv hinv op ha.1.1) hp' hok' ha.2
    rw [hprice] at this
    simp only [Sys.run, eventsOver]
    refine ⟨?_, ?_, ?_, ?_⟩
    · rw [this.added, hf.added, Nat.mod_add_mod]; simp only; congr 1; omega
    · rw [this.removed, hf.removed, Nat.mod_add_mod]; simp only; congr 1; omega
    · rw [this.qty, hf.qty, Nat.mod_add_mod]; simp only; congr 1; omega
    · rw [this.value, hf.value, Nat.mod_add_mod]; simp only; congr 1
      rw [Nat.mul_add]; omega

/-- from a fresh level, as the observation predicate the driver evaluates on the real crate: while
    the figures fit in 64 bits the statistics are *exactly* the event counts -/
theorem C15_ok (p : Nat) (ops : List Op) (ha : AdmAllP ⟨Level.new p, 0⟩ ops)
    (hfit : p * (eventsOver ⟨Level.new p, 0⟩ ops).exec < W)
    (hfit' : (eventsOver ⟨Level.new p, 0⟩ ops).adds < W ∧ (eventsOver ⟨Level.new p, 0⟩ ops).removed < W ∧
      (eventsOver ⟨Level.new p, 0⟩ ops).exec < W) :
    C15.ok p (Sys.run ⟨Level.new p, 0⟩ ops).lvl.stats (eventsOver ⟨Level.new p, 0⟩ ops).adds
      (eventsOver ⟨Level.new p, 0⟩ ops).removed (eventsOver ⟨Level.new p, 0⟩ ops).exec = true := by
  have h := C15_history ops ⟨Level.new p, 0⟩ (Level.inv_new p) (by intro x hx; simp [Level.new] at hx)
    ⟨by simp [Level.new], by simp [Level.new], by simp [Level.new], by simp [Level.new]⟩ ha
  have e1 := h.added; have e2 := h.removed; have e3 := h.qty; have e4 := h.value
  rw [show (⟨Level.new p, 0⟩ : Sys).lvl.stats.added = 0 from rfl, Nat.zero_add, Nat.mod_eq_of_lt hfit'.1] at e1
  rw [show (⟨Level.new p, 0⟩ : Sys).lvl.stats.removed = 0 from rfl, Nat.zero_add, Nat.mod_eq_of_lt hfit'.2.1] at e2
  rw [show (⟨Level.new p, 0⟩ : Sys).lvl.stats.qty = 0 from rfl, Nat.zero_add, Nat.mod_eq_of_lt hfit'.2.2] at e3
  rw [show (⟨Level.new p, 0⟩ : Sys).lvl.stats.value = 0 from rfl, Nat.zero_add,
    show (⟨Level.new p, 0⟩ : Sys).lvl.price = p from rfl, Nat.mod_eq_of_lt hfit] at e4
  simp [C15.ok, e1, e2, e3, e4]

/-! non-vacuity -/
example : AdmAllP ⟨Level.new 100, 0⟩
    [.add ⟨⟨false, 1⟩, 100, 10, .sell, 1, .gtc, .standard⟩, .matchQ 4 ⟨false, 9⟩, .update (.cancel ⟨false, 1⟩)] := by
  refine ⟨⟨by unfold Adm; decide, rfl⟩, ⟨trivial, trivial⟩, ⟨trivial, trivial⟩, trivial⟩

end PLV.C15

/-
  C07 — Cancel, move and amend do exactly what they report; read-only calls are pure.
  Property theorems only.
-/
import PLV.Judge
import PLV.Lemmas.Stats

namespace PLV.C07
open PLV

/-- cancelling (or moving away) a resting order returns that order with its current quantities,
    removes it and only it (no other entry and no ticket changes) -/
theorem C07_remove_present {l : Level} {id : Id} {o : Order} (hf : l.map.find id = some o) :
    (l.removeOrder id).2 = .ok (some o) ∧
      (∀ x, x ∈ (l.removeOrder id).1.map ↔ (x ∈ l.map ∧ x.id ≠ id)) ∧
      (l.removeOrder id).1.tickets = l.tickets ∧ (l.removeOrder id).1.price = l.price := by
  obtain ⟨e0, e1, e2, _, _, _, e6, _⟩ := Level.removeOrder_some hf
  exact ⟨e0, fun x => by rw [e1]; exact mem_erase, e2, e6⟩

/-- an unknown id reports not-found and changes nothing -/
theorem C07_remove_absent {l : Level} {id : Id} (hf : l.map.find id = none) :
    l.removeOrder id = (l, .ok none) := Level.removeOrder_none hf

/-- the five update kinds dispatch on the price: different price ⇒ remove; same price ⇒ amend, or
    an error for a pure price update -/
theorem C07_dispatch (l : Level) (id : Id) (p n : Nat) (sd : Side) :
    l.update (.cancel id) = l.removeOrder id ∧
    l.update (.quantity id n) = l.amend id n ∧
    (p ≠ l.price → l.update (.price id p) = l.removeOrder id ∧ l.update (.priceQty id p n) = l.removeOrder id ∧
      l.update (.replace id p n sd) = l.removeOrder id) ∧
    (p = l.price → l.update (.price id p) = (l, .errSamePrice) ∧ l.update (.priceQty id p n) = l.amend id n ∧
      l.update (.replace id p n sd) = l.amend id n) := by
  refine ⟨rfl, rfl, ?_, ?_⟩
  · intro hp; simp [Level.update, hp]
  · intro hp; simp [Level.update, hp]

/-- a price update to the level's own price is rejected without effect -/
theorem C07_same_price_rejected (l : Level) (id : Id) : l.update (.price id l.price) = (l, .errSamePrice) := by
  simp [Level.update]

/-- `amended` (the judge's reading of the property) is what `with_reduced_quantity` computes -/
theorem C07_amended_eq (old : Order) (n : Nat) : old.withReduced n = amended old n := by
  obtain ⟨i, p, v, s, t, tf, k⟩ := old
  cases k <;> rfl

/-- a same-price amendment returns the order that now rests: new displayed quantity for Standard,
    PostOnly and Iceberg, unchanged for the other four kinds; every other order and all identity
    fields untouched -/
theorem C07_amend_present {l : Level} (h : l.Inv) {id : Id} {old : Order} (n : Nat) (hf : l.map.find id = some old) :
    (l.amend id n).2 = .ok (some (amended old n)) ∧
      (l.amend id n).1.map.find id = some (amended old n) ∧
      (∀ x, x.id ≠ id → (x ∈ (l.amend id n).1.map ↔ x ∈ l.map)) ∧
      (amended old n).id = old.id ∧ (amended old n).price = old.price ∧ (amended old n).side = old.side ∧
      (amended old n).ts = old.ts ∧ (amended old n).tif = old.tif ∧ (amended old n).hid = old.hid ∧
      Kind.sameParams old.kind (amended old n).kind = true := by
  obtain ⟨e0, e1, _, _, _, _, _, _⟩ := Level.amend_some (n := n) hf
  have hid : old.id = id := (find_some hf).2
  rw [C07_amended_eq] at e0 e1
  have hida : (amended old n).id = id := by rw [← C07_amended_eq, withReduced_id, hid]
  refine ⟨e0, ?_, ?_, ?_⟩
  · rw [e1]
    have hn : (ids ((l.map.erase id).insert (amended old n))).Nodup := nodup_insert _ (nodup_erase _ h.nodup)
    have := find_of_mem hn (mem_insert.2 (Or.inr rfl))
    rwa [hida] at this
  · intro x hx
    rw [e1, mem_insert, mem_erase, hida]
    constructor
    · rintro (⟨⟨h1, _⟩, _⟩ | rfl)
      · exact h1
      · exact absurd hida hx
    · intro hm; exact Or.inl ⟨⟨hm, hx⟩, hx⟩
  · obtain ⟨i, p, v, s, t, tf, k⟩ := old
    cases k <;> simp [amended, Order.hid, Kind.hidden, Kind.sameParams]

theorem C07_amend_absent {l : Level} {id : Id} (n : Nat) (hf : l.map.find id = none) :
    l.amend id n = (l, .ok none) := Level.amend_none hf

/-- an order that is not in the book never trades: every maker of a match was resting when the
    call started -/
theorem C07_absent_never_trades {l : Level} (h : l.Inv) (id : Id) (hid : id ∉ ids l.map) (q : Nat) (t : Id) (g : Nat) :
    ∀ tx ∈ (l.matchOrder q t g).2.1.txs, tx.maker ≠ id := by
  intro tx htx e
  obtain ⟨_, _, _, x0, hx0, _⟩ := (Level.matchOrder_facts h q t g).txok tx htx
  exact hid (e ▸ (find_some hx0).2 ▸ mem_ids_of_mem (find_some hx0).1)

/-- does the operation add an order with this id? -/
def addsId (id : Id) : Op → Bool
  | .add o => o.id == id
  | _ => false

/-- **a removed order never trades afterwards** (until it is added again): along any admissible
    history that does not add `id`, starting from a state where `id` does not rest (e.g. right
    after its successful cancel), no transaction names it -/
theorem C07_never_trades (id : Id) (ops : List Op) :
    ∀ (s : Sys), s.lvl.Inv → AdmAll s ops → id ∉ ids s.lvl.map → (∀ op ∈ ops, addsId id op = false) →
      ∀ out ∈ s.outs ops, ∀ r, out = .matched r → ∀ tx ∈ r.txs, tx.maker ≠ id := by
  induction ops with
  | nil => intro s _ _ _ _ out hout; simp [Sys.outs] at hout
  | cons op rest ih =>
    intro s h ha hid hno out hout r hr tx htx
    have hstay : id ∉ ids (s.step op).1.lvl.map := by
      cases op with
      | add o =>
        have : o.id ≠ id := by have := hno (.add o) (by simp); simpa [addsId] using this
        intro hm
        rcases ids_insert.1 hm with hm | e
        · exact hid hm
        · exact this e.symm
      | matchQ q t =>
        intro hm
        obtain ⟨x, hx, rfl⟩ := mem_ids.1 hm
        exact hid (Level.matchOrder_ids_subset s.lvl q t s.g x hx)
      | read => exact hid
      | update u =>
        have hrem : ∀ i, id ∉ ids (s.lvl.removeOrder i).1.map := by
          intro i
          cases hf : s.lvl.map.find i with
          | none => rw [Level.removeOrder_none hf]; exact hid
          | some o => rw [(Level.removeOrder_some hf).2.1]; exact fun hm => hid (mem_ids_erase.1 hm).1
        have ham : ∀ i n, id ∉ ids (s.lvl.amend i n).1.map := by
          intro i n
          cases hf : s.lvl.map.find i with
          | none => rw [Level.amend_none hf]; exact hid
          | some o =>
            rw [(Level.amend_some hf).2.1]
            intro hm
            rcases ids_insert.1 hm with hm | e
            · exact hid (mem_ids_erase.1 hm).1
            · rw [withReduced_id] at e
              exact hid (e ▸ mem_ids_of_mem (find_some hf).1)
        cases u with
        | cancel i => exact hrem i
        | quantity i n => exact ham i n
        | price i p =>
          by_cases hp : p ≠ s.lvl.price
          · simp only [Sys.step, Level.update, if_pos hp]; exact hrem i
          · simp only [Sys.step, Level.update, if_neg hp]; exact hid
        | priceQty i p n =>
          by_cases hp : p ≠ s.lvl.price
          · simp only [Sys.step, Level.update, if_pos hp]; exact hrem i
          · simp only [Sys.step, Level.update, if_neg hp]; exact ham i n
        | replace i p n sd =>
          by_cases hp : p ≠ s.lvl.price
          · simp only [Sys.step, Level.update, if_pos hp]; exact hrem i
          · simp only [Sys.step, Level.update, if_neg hp]; exact ham i n
    simp only [Sys.outs, List.mem_cons] at hout
    rcases hout with rfl | hout
    · cases op with
      | matchQ q t =>
        simp only [Sys.step] at hr
        injection hr with hr; subst hr
        exact C07_absent_never_trades h id hid q t s.g tx htx
      | add o => simp [Sys.step] at hr
      | update u => simp [Sys.step] at hr
      | read => simp [Sys.step] at hr
    · exact ih (s.step op).1 (Sys.step_inv h op ha.1) ha.2 hstay
        (fun op' hop => hno op' (List.mem_cons_of_mem _ hop)) out hout r hr tx htx

/-- listing, snapshotting, displaying, serializing and reading statistics never change any later
    result: in the model a read is the identity on the state (the force of this statement comes from
    the correspondence check, which runs the real crate with reads inserted at arbitrary points) -/
theorem C07_reads_pure (s : Sys) (ops : List Op) :
    (s.step .read).1 = s ∧ Sys.outs (s.step .read).1 ops = Sys.outs s ops := ⟨rfl, rfl⟩

/-! non-vacuity -/
example : (Level.addOrder (Level.new 100) ⟨⟨false, 1⟩, 100, 5, .sell, 1, .gtc, .iceberg 20⟩).map.find ⟨false, 1⟩ =
    some ⟨⟨false, 1⟩, 100, 5, .sell, 1, .gtc, .iceberg 20⟩ := by decide

end PLV.C07

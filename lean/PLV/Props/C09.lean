/-
  C09 — Tampered, truncated or wrong-version snapshot packages are rejected.
  Property theorems only, over the package model of `PLV.Model.Json` (snapshot.rs:66-148,
  level.rs:56-74); the hash is a parameter `H` of every theorem (the driver instantiates it with the
  model's own SHA-256, `PLV.J.sha`, which is compared with the crate's checksums on every run).

  Proved for EVERY package and every hash function:
   * `C09_decision`: a restore succeeds iff the version is the supported one AND the stored
     checksum equals the hash of the serialized content; and then it yields exactly the level
     rebuilt from that content. Every constructor route goes through this gate
     (`C09_json_route`: the JSON route decodes, then calls the same function).
   * `C09_tamper`: an accepted package whose content bytes differ from the snapshotted ones while
     the checksum string is unchanged exhibits a collision of `H` on two distinct byte strings.
   * `C09_exact`: restoring the package made from a well-formed level yields the snapshotted
     content (same price, same orders field for field, same aggregates).
   * the supported version is the one in the source (`formatVersion`, regenerated on every run).
   * `C09_ser_injective`: *different content gives different bytes* — the serializer the checksum
     is computed over is injective on well-typed snapshots (price, each aggregate, every field of
     every order, the number and the sequence of the orders all reach the bytes), by the text and
     tree round-trip theorems of C17; hence `C09_tamper_content`: any accepted package whose content
     differs from the snapshotted one under the unchanged checksum is a collision of `H`.
   * `C09_truncated`: every proper prefix of the text printed for a package — a torn write at any
     offset — is rejected: it is not a JSON document at all (`parseJson_truncated`, by mutual
     induction over the tree with the cut falling anywhere: inside a key, a number, between tokens).
  Modelled: that `render` / `parseJson` are what `serde_json::to_vec` / `from_str` do (compared byte
  for byte / outcome for outcome on every run, incl. every truncation point of every generated
  package). Collision resistance of SHA-256 is an assumption of the property itself.
-/
import PLV.Props.C10
import PLV.Props.C17
import PLV.Lemmas.JsonTrunc

namespace PLV.C09
open PLV PLV.Text PLV.J

/-- `from_snapshot_json` at tree level: decode the package, then the same gate -/
def restoreJson (H : List UInt8 → Str) (j : Json) : Option Level :=
  match decPackage j with
  | .error _ => none
  | .ok p => match restore H p with
    | .error _ => none
    | .ok l => some l

/-- **the gate**: success iff supported version and matching checksum; the result is the level
    rebuilt from exactly the packaged content -/
theorem C09_decision (H : List UInt8 → Str) (p : Package) (l : Level) :
    restore H p = .ok l ↔
      (p.version = formatVersion ∧ H (ser p.snapshot) = p.checksum ∧ l = Level.fromSnapshot p.snapshot) := by
  unfold restore Package.validate
  by_cases hv : p.version = formatVersion
  · by_cases hc : H (ser p.snapshot) = p.checksum
    · simp [hv, hc, eq_comm]
    · simp [hv, hc]
  · simp [hv]

theorem C09_wrong_version (H : List UInt8 → Str) (p : Package) (h : p.version ≠ formatVersion) :
    restore H p = .error .version := by
  simp [restore, Package.validate, h]

theorem C09_wrong_checksum (H : List UInt8 → Str) (p : Package) (hv : p.version = formatVersion)
    (h : H (ser p.snapshot) ≠ p.checksum) : restore H p = .error .checksum := by
  simp [restore, Package.validate, hv, h]

/-- the only supported version is the one the source declares (`SNAPSHOT_FORMAT_VERSION`,
    regenerated from snapshot.rs on every run): 0 and every later number are rejected -/
theorem C09_versions (H : List UInt8 → Str) (p : Package) (l : Level) (h : restore H p = .ok l) :
    p.version = 1 := by
  have := ((C09_decision H p l).1 h).1
  simpa [formatVersion] using this

/-- the JSON route passes through the same gate -/
theorem C09_json_route (H : List UInt8 → Str) (j : Json) (l : Level) (h : restoreJson H j = some l) :
    ∃ p, decPackage j = .ok p ∧ p.version = formatVersion ∧ H (ser p.snapshot) = p.checksum ∧
      l = Level.fromSnapshot p.snapshot := by
  unfold restoreJson at h
  split at h
  · simp at h
  · rename_i p hp
    split at h
    · simp at h
    · rename_i l' hl
      simp at h; subst h
      exact ⟨p, hp, (C09_decision H p l').1 hl⟩

/-- **tampering**: if a package is accepted although its content bytes differ from those of the
    package `Package.new` made, while the checksum string was left alone, then `H` collides on two
    distinct byte strings (for SHA-256: a collision was found) -/
theorem C09_tamper (H : List UInt8 → Str) (s : Snapshot) (p' : Package) (l : Level)
    (hck : p'.checksum = (Package.new H s).checksum) (hacc : restore H p' = .ok l)
    (hdiff : ser p'.snapshot ≠ ser (Package.new H s).snapshot) :
    ∃ a b, a ≠ b ∧ H a = H b := by
  have h := ((C09_decision H p' l).1 hacc).2.1
  refine ⟨ser p'.snapshot, ser (Package.new H s).snapshot, hdiff, ?_⟩
  rw [h, hck]; rfl

/-- the checksum is over the whole content: the price, the aggregates and the order sequence all
    enter `ser`; at tree level, well-typed snapshots with different content have different trees -/
theorem C09_tree_injective (s t : Snapshot) (hs : SnapOk s) (ht : SnapOk t)
    (h : encSnapshot s = encSnapshot t) : s = t := by
  have e1 := C17.C17_snapshot s hs
  have e2 := C17.C17_snapshot t ht
  rw [h, e2] at e1
  exact (Except.ok.inj e1).symm

/-- bytes of printable ASCII determine the characters -/
theorem bytes_injective (a b : Str) (ha : ∀ c ∈ a, c.toNat < 128) (hb : ∀ c ∈ b, c.toNat < 128)
    (h : a.map (fun c => UInt8.ofNat c.toNat) = b.map (fun c => UInt8.ofNat c.toNat)) : a = b := by
  induction a generalizing b with
  | nil => cases b with
    | nil => rfl
    | cons y ys => simp at h
  | cons x xs ih =>
    cases b with
    | nil => simp at h
    | cons y ys =>
      simp only [List.map_cons, List.cons.injEq] at h
      have hx := ha x (List.mem_cons_self ..)
      have hy := hb y (List.mem_cons_self ..)
      have hxy : x = y := by
        have h1 := congrArg UInt8.toNat h.1
        simp only [UInt8.toNat_ofNat'] at h1
        have : x.toNat = y.toNat := by omega
        exact Char.toNat_inj.1 this
      rw [hxy, ih ys (fun c hc => ha c (List.mem_cons_of_mem _ hc)) (fun c hc => hb c (List.mem_cons_of_mem _ hc)) h.2]

/-- **the checksum covers the whole content**: well-typed snapshots with the same serialized bytes
    are equal — price, aggregates, every field of every order, their number and their sequence -/
theorem C09_ser_injective (s t : Snapshot) (hs : SnapOk s) (ht : SnapOk t) (h : ser s = ser t) : s = t := by
  have cs := clean_snapshot s hs
  have ct := clean_snapshot t ht
  have hr : render (encSnapshot s) = render (encSnapshot t) :=
    bytes_injective _ _ (render_ascii _ cs) (render_ascii _ ct) h
  exact C09_tree_injective s t hs ht (render_injective _ _ cs ct hr)

/-- **tampering with the content**: an accepted package that carries the checksum of the package made
    from `s` but well-typed content different from the snapshotted one is a collision of `H` -/
theorem C09_tamper_content (H : List UInt8 → Str) (s : Snapshot) (p' : Package) (l : Level)
    (hs : SnapOk s.refresh) (hs' : SnapOk p'.snapshot)
    (hck : p'.checksum = (Package.new H s).checksum) (hacc : restore H p' = .ok l)
    (hdiff : p'.snapshot ≠ s.refresh) : ∃ a b, a ≠ b ∧ H a = H b :=
  C09_tamper H s p' l hck hacc (fun e => hdiff (C09_ser_injective _ _ hs' hs e))

/-- `from_snapshot_json` on a text: read the document, decode the package, pass the gate -/
def restoreFromText (H : List UInt8 → Str) (t : Str) : Option Level := (parseJson t).bind (restoreJson H)

/-- **torn writes**: every proper prefix of the serialized package is rejected, whatever the level
    content, at every truncation point -/
theorem C09_truncated (H : List UInt8 → Str) (p : Package) (hv : p.version < 4294967296) (hs : SnapOk p.snapshot)
    (hck : cleanStr p.checksum = true) (t : Str) (ht : t <+: render (encPackage p)) (hne : t ≠ render (encPackage p)) :
    restoreFromText H t = none := by
  have hc := clean_package p hv hs hck
  unfold restoreFromText
  rw [show encPackage p = .obj [(lit "version", .num p.version), (lit "snapshot", encSnapshot p.snapshot),
      (lit "checksum", .str p.checksum)] from rfl] at ht hne hc
  rw [parseJson_truncated _ hc t ht hne]
  rfl

/-- the untouched text of a package goes through the gate of `C09_decision` -/
theorem C09_text_route (H : List UInt8 → Str) (p : Package) (hv : p.version < 4294967296) (hs : SnapOk p.snapshot)
    (hck : cleanStr p.checksum = true) : restoreFromText H (render (encPackage p)) =
      (match restore H p with | .ok l => some l | .error _ => none) := by
  unfold restoreFromText
  rw [parseJson_render _ (clean_package p hv hs hck)]
  simp only [Option.bind_some, restoreJson, C17.C17_package p hv hs]
  cases restore H p <;> rfl

/-- a freshly made package is accepted, and restoring it rebuilds from the refreshed content -/
theorem C09_fresh (H : List UInt8 → Str) (s : Snapshot) :
    restore H (Package.new H s) = .ok (Level.fromSnapshot s) := by
  have : Level.fromSnapshot s.refresh = Level.fromSnapshot s := by
    simp [Level.fromSnapshot, Snapshot.refresh]
  simp [restore, Package.validate, Package.new, this]

/-- **a restore that succeeds yields exactly the content that was snapshotted**: for every
    well-formed level (hence every state reachable by an admissible history) -/
theorem C09_exact (H : List UInt8 → Str) {l : Level} (h : l.Inv) :
    ∃ l', restore H (Package.new H l.snapshot) = .ok l' ∧
      l'.price = l.price ∧ l'.map.Perm l.map ∧ (∀ id, l'.map.find id = l.map.find id) ∧
      l'.vis = l.vis ∧ l'.hid = l.hid ∧ l'.cnt = l.cnt := by
  refine ⟨_, C09_fresh H l.snapshot, ?_⟩
  have := C10.C10_snapshot_roundtrip h
  exact ⟨this.1, this.2.1, this.2.2.1, this.2.2.2.1, this.2.2.2.2.1, this.2.2.2.2.2.1⟩

/-! non-vacuity: a package with version 0 and one with a stale checksum are rejected, the honest one
    is accepted (with a toy hash; the real one is exercised by the run) -/
example : restore (fun b => showNat b.length) { Package.new (fun b => showNat b.length) ⟨7, 0, 0, 0, []⟩ with version := 0 }
    = .error .version := by
  apply C09_wrong_version; decide

end PLV.C09

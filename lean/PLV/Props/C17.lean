/-
  C17 — JSON encodings round-trip for every value.
  Property theorems only. The codecs are modelled at the level of the serde data model rendered as
  JSON trees (`PLV.J.Json`, objects as ordered lists of pairs): `dec (enc v) = v` for EVERY value
  whose numeric fields fit their Rust types — side, time-in-force (incl. the externally tagged GTD
  variant), peg reference, ids, orders (seven kinds, absent replenish amount), order lists, updates,
  transactions, transaction lists, match results, statistics, snapshots, level data, packages —
  and a package still validates after the trip (`C17_package_validates`).

  Text level (`C17_text_*`): reading back the compact text printed for the tree gives the tree
  (`PLV.J.parseJson_render`, for every clean tree, and every encoder produces clean trees), so
  `dec (parse (print (enc v))) = v` — integers are exact `Int`s, nothing passes through a float,
  which is the "integers above 2^53" clause.

  Modelled: that `render` / `parseJson` are what `serde_json::to_string` / `from_str` do. It is
  third-party code; the two are compared with it byte for byte / tree for tree on every run (E-json).
-/
import PLV.Props.C16
import PLV.Model.Json
import PLV.Lemmas.JsonClean

namespace PLV.C17
open PLV PLV.Text PLV.J

theorem decU64_num {n : Nat} (h : n < W) : decU64 (.num n) = .ok n := by
  simp only [W] at h
  show (if n < 18446744073709551616 then Except.ok n else Except.error DErr.wrongType) = _
  rw [if_pos h]

theorem decU32_num {n : Nat} (h : n < 4294967296) : decU32 (.num n) = .ok n := by
  show (if n < 4294967296 then Except.ok n else Except.error DErr.wrongType) = _
  rw [if_pos h]

theorem decI64_num {i : Int} (h1 : -9223372036854775808 ≤ i) (h2 : i < 9223372036854775808) :
    decI64 (.num i) = .ok i := by
  cases i with
  | ofNat n =>
    show (if n < 9223372036854775808 then Except.ok (Int.ofNat n) else Except.error DErr.wrongType) = _
    rw [if_pos (by simp only [Int.ofNat_eq_natCast] at h2; omega)]
  | negSucc n =>
    show (if n < 9223372036854775808 then Except.ok (Int.negSucc n) else Except.error DErr.wrongType) = _
    rw [if_pos (by simp only [Int.negSucc_eq] at h1; omega)]

theorem mapM_enc {α : Type} (enc : α → Json) (dec : Json → D α) (l : List α)
    (h : ∀ x ∈ l, dec (enc x) = .ok x) : (l.map enc).mapM dec = .ok l := by
  induction l with
  | nil => rfl
  | cons x rest ih =>
    have hx := h x (List.mem_cons_self ..)
    have hr := ih (fun y hy => h y (List.mem_cons_of_mem _ hy))
    simp only [List.map_cons, List.mapM_cons, hx, hr]
    rfl

/-! ### enums and ids -/

theorem C17_side (s : Side) : decSide (encSide s) = .ok s := by
  cases s <;> simp (config := {decide := true}) [encSide, decSide]

theorem C17_tif (t : Tif) (h : ∀ n, t = .gtd n → n < W) : decTif (encTif t) = .ok t := by
  cases t with
  | gtd n =>
    have := decU64_num (h n rfl)
    simp (config := {decide := true}) [encTif, decTif, this]
    rfl
  | _ => simp (config := {decide := true}) [encTif, decTif, tifUnit]

theorem C17_peg (p : PegRef) : decPeg (encPeg p) = .ok p := by
  simp [encPeg, decPeg, (parsePeg_showPeg p).2]

theorem C17_id (i : Id) (h : i.val < 2 ^ 128) : decId (encId i) = .ok i := by
  simp [encId, decId, parseId_showId i h]

theorem C17_uuid (v : Nat) (h : v < 2 ^ 128) : decUuid (encUuid v) = .ok v := by
  simp [encUuid, decUuid, parseUuid_showUuid h]

/-! ### orders, kind by kind -/

theorem rt_Standard (id : Id) (price vis : Nat) (side : Side) (ts : Nat) (tif : Tif) 
    (hid : id.val < 2 ^ 128) (hprice : price < W) (hvis : vis < W) (hts : ts < W) (htif : ∀ n, tif = .gtd n → n < W)  :
    decOrder (encOrder ⟨id, price, vis, side, ts, tif, .standard⟩) = .ok ⟨id, price, vis, side, ts, tif, .standard⟩ := by
  have e1 := C17_id id hid
  have e2 := decU64_num hprice
  have e3 := decU64_num hvis
  have e4 := decU64_num hts
  have e5 := C17_tif tif htif
  simp (config := {decide := true}) [encOrder, orderFields, decOrder, field, fieldOpt, asObj, asArr, List.filter_cons, List.filter_nil, decUnit, decBool, decStr, C17_side, C17_peg, bind, Except.bind, e1, e2, e3, e4, e5]

theorem rt_PostOnly (id : Id) (price vis : Nat) (side : Side) (ts : Nat) (tif : Tif) 
    (hid : id.val < 2 ^ 128) (hprice : price < W) (hvis : vis < W) (hts : ts < W) (htif : ∀ n, tif = .gtd n → n < W)  :
    decOrder (encOrder ⟨id, price, vis, side, ts, tif, .postOnly⟩) = .ok ⟨id, price, vis, side, ts, tif, .postOnly⟩ := by
  have e1 := C17_id id hid
  have e2 := decU64_num hprice
  have e3 := decU64_num hvis
  have e4 := decU64_num hts
  have e5 := C17_tif tif htif
  simp (config := {decide := true}) [encOrder, orderFields, decOrder, field, fieldOpt, asObj, asArr, List.filter_cons, List.filter_nil, decUnit, decBool, decStr, C17_side, C17_peg, bind, Except.bind, e1, e2, e3, e4, e5]

theorem rt_MarketToLimit (id : Id) (price vis : Nat) (side : Side) (ts : Nat) (tif : Tif) 
    (hid : id.val < 2 ^ 128) (hprice : price < W) (hvis : vis < W) (hts : ts < W) (htif : ∀ n, tif = .gtd n → n < W)  :
    decOrder (encOrder ⟨id, price, vis, side, ts, tif, .marketToLimit⟩) = .ok ⟨id, price, vis, side, ts, tif, .marketToLimit⟩ := by
  have e1 := C17_id id hid
  have e2 := decU64_num hprice
  have e3 := decU64_num hvis
  have e4 := decU64_num hts
  have e5 := C17_tif tif htif
  simp (config := {decide := true}) [encOrder, orderFields, decOrder, field, fieldOpt, asObj, asArr, List.filter_cons, List.filter_nil, decUnit, decBool, decStr, C17_side, C17_peg, bind, Except.bind, e1, e2, e3, e4, e5]

theorem rt_TrailingStop (id : Id) (price vis : Nat) (side : Side) (ts : Nat) (tif : Tif) (t r : Nat)
    (hid : id.val < 2 ^ 128) (hprice : price < W) (hvis : vis < W) (hts : ts < W) (htif : ∀ n, tif = .gtd n → n < W) (ht : t < W) (hr : r < W) :
    decOrder (encOrder ⟨id, price, vis, side, ts, tif, .trailingStop t r⟩) = .ok ⟨id, price, vis, side, ts, tif, .trailingStop t r⟩ := by
  have e1 := C17_id id hid
  have e2 := decU64_num hprice
  have e3 := decU64_num hvis
  have e4 := decU64_num hts
  have e5 := C17_tif tif htif
  have e6 := decU64_num ht
  have e7 := decU64_num hr
  simp (config := {decide := true}) [encOrder, orderFields, decOrder, field, fieldOpt, asObj, asArr, List.filter_cons, List.filter_nil, decUnit, decBool, decStr, C17_side, C17_peg, bind, Except.bind, e1, e2, e3, e4, e5, e6, e7]

theorem rt_PeggedOrder (id : Id) (price vis : Nat) (side : Side) (ts : Nat) (tif : Tif) (off : Int) (r : PegRef)
    (hid : id.val < 2 ^ 128) (hprice : price < W) (hvis : vis < W) (hts : ts < W) (htif : ∀ n, tif = .gtd n → n < W) (h1 : -9223372036854775808 ≤ off) (h2 : off < 9223372036854775808) :
    decOrder (encOrder ⟨id, price, vis, side, ts, tif, .pegged off r⟩) = .ok ⟨id, price, vis, side, ts, tif, .pegged off r⟩ := by
  have e1 := C17_id id hid
  have e2 := decU64_num hprice
  have e3 := decU64_num hvis
  have e4 := decU64_num hts
  have e5 := C17_tif tif htif
  have e6 := decI64_num h1 h2
  simp (config := {decide := true}) [encOrder, orderFields, decOrder, field, fieldOpt, asObj, asArr, List.filter_cons, List.filter_nil, decUnit, decBool, decStr, C17_side, C17_peg, bind, Except.bind, e1, e2, e3, e4, e5, e6]

theorem rt_IcebergOrder (id : Id) (price vis : Nat) (side : Side) (ts : Nat) (tif : Tif) (hq : Nat)
    (hid : id.val < 2 ^ 128) (hprice : price < W) (hvis : vis < W) (hts : ts < W) (htif : ∀ n, tif = .gtd n → n < W) (hh : hq < W) :
    decOrder (encOrder ⟨id, price, vis, side, ts, tif, .iceberg hq⟩) = .ok ⟨id, price, vis, side, ts, tif, .iceberg hq⟩ := by
  have e1 := C17_id id hid
  have e2 := decU64_num hprice
  have e3 := decU64_num hvis
  have e4 := decU64_num hts
  have e5 := C17_tif tif htif
  have e6 := decU64_num hh
  simp (config := {decide := true}) [encOrder, orderFields, decOrder, field, fieldOpt, asObj, asArr, List.filter_cons, List.filter_nil, decUnit, decBool, decStr, C17_side, C17_peg, bind, Except.bind, e1, e2, e3, e4, e5, e6]

theorem rt_Reserve_none (id : Id) (price vis : Nat) (side : Side) (ts : Nat) (tif : Tif) (hq thr : Nat) (auto : Bool)
    (hid : id.val < 2 ^ 128) (hprice : price < W) (hvis : vis < W) (hts : ts < W) (htif : ∀ n, tif = .gtd n → n < W) (hh : hq < W) (hthr : thr < W) :
    decOrder (encOrder ⟨id, price, vis, side, ts, tif, .reserve hq thr none auto⟩) = .ok ⟨id, price, vis, side, ts, tif, .reserve hq thr none auto⟩ := by
  have e1 := C17_id id hid
  have e2 := decU64_num hprice
  have e3 := decU64_num hvis
  have e4 := decU64_num hts
  have e5 := C17_tif tif htif
  have e6 := decU64_num hh
  have e7 := decU64_num hthr
  simp (config := {decide := true}) [encOrder, orderFields, decOrder, field, fieldOpt, asObj, asArr, List.filter_cons, List.filter_nil, decUnit, decBool, decStr, C17_side, C17_peg, bind, Except.bind, e1, e2, e3, e4, e5, e6, e7]

theorem rt_Reserve_some (id : Id) (price vis : Nat) (side : Side) (ts : Nat) (tif : Tif) (hq thr a : Nat) (auto : Bool)
    (hid : id.val < 2 ^ 128) (hprice : price < W) (hvis : vis < W) (hts : ts < W) (htif : ∀ n, tif = .gtd n → n < W) (hh : hq < W) (hthr : thr < W) (ha : a < W) :
    decOrder (encOrder ⟨id, price, vis, side, ts, tif, .reserve hq thr (some a) auto⟩) = .ok ⟨id, price, vis, side, ts, tif, .reserve hq thr (some a) auto⟩ := by
  have e1 := C17_id id hid
  have e2 := decU64_num hprice
  have e3 := decU64_num hvis
  have e4 := decU64_num hts
  have e5 := C17_tif tif htif
  have e6 := decU64_num hh
  have e7 := decU64_num hthr
  have e8 := decU64_num ha
  simp (config := {decide := true}) [encOrder, orderFields, decOrder, field, fieldOpt, asObj, asArr, List.filter_cons, List.filter_nil, decUnit, decBool, decStr, C17_side, C17_peg, bind, Except.bind, e1, e2, e3, e4, e5, e6, e7, e8]
  rfl

/-- **orders, all seven kinds** -/
theorem C17_order (o : Order) (h : OrderOk o) : decOrder (encOrder o) = .ok o := by
  obtain ⟨id, price, vis, side, ts, tif, kind⟩ := o
  obtain ⟨h1, h2, h3, h4, h5, hk⟩ := h
  cases kind with
  | standard => exact rt_Standard id price vis side ts tif h1 h2 h3 h4 h5
  | postOnly => exact rt_PostOnly id price vis side ts tif h1 h2 h3 h4 h5
  | marketToLimit => exact rt_MarketToLimit id price vis side ts tif h1 h2 h3 h4 h5
  | trailingStop t r => exact rt_TrailingStop id price vis side ts tif t r h1 h2 h3 h4 h5 hk.1 hk.2
  | pegged off r => exact rt_PeggedOrder id price vis side ts tif off r h1 h2 h3 h4 h5 hk.1 hk.2
  | iceberg hq => exact rt_IcebergOrder id price vis side ts tif hq h1 h2 h3 h4 h5 hk
  | reserve hq thr amt auto =>
    cases amt with
    | none => exact rt_Reserve_none id price vis side ts tif hq thr auto h1 h2 h3 h4 h5 hk.1 hk.2.1
    | some a => exact rt_Reserve_some id price vis side ts tif hq thr a auto h1 h2 h3 h4 h5 hk.1 hk.2.1 (hk.2.2 a rfl)

/-- **order lists** (any length, any order) -/
theorem C17_orders (os : List Order) (h : ∀ o ∈ os, OrderOk o) : decOrders (encOrders os) = .ok os := by
  simp only [decOrders, encOrders, asArr, bind, Except.bind]
  exact mapM_enc encOrder decOrder os (fun o ho => C17_order o (h o ho))

/-! ### order updates -/

/-- **order updates, all five kinds** -/
theorem C17_update (u : Update) (h : UpdateOk u) : decUpdate (encUpdate u) = .ok u := by
  cases u with
  | price id p =>
    have e1 := C17_id id h.1; have e2 := decU64_num h.2
    simp (config := {decide := true}) [encUpdate, decUpdate, field, fieldOpt, asObj, asArr, List.filter_cons, List.filter_nil, decUnit, decBool, decStr, C17_side, C17_peg, bind, Except.bind, e1, e2]
  | quantity id n =>
    have e1 := C17_id id h.1; have e2 := decU64_num h.2
    simp (config := {decide := true}) [encUpdate, decUpdate, field, fieldOpt, asObj, asArr, List.filter_cons, List.filter_nil, decUnit, decBool, decStr, C17_side, C17_peg, bind, Except.bind, e1, e2]
  | priceQty id p n =>
    have e1 := C17_id id h.1; have e2 := decU64_num h.2.1; have e3 := decU64_num h.2.2
    simp (config := {decide := true}) [encUpdate, decUpdate, field, fieldOpt, asObj, asArr, List.filter_cons, List.filter_nil, decUnit, decBool, decStr, C17_side, C17_peg, bind, Except.bind, e1, e2, e3]
  | cancel id =>
    have e1 := C17_id id h
    simp (config := {decide := true}) [encUpdate, decUpdate, field, fieldOpt, asObj, asArr, List.filter_cons, List.filter_nil, decUnit, decBool, decStr, C17_side, C17_peg, bind, Except.bind, e1]
  | replace id p n sd =>
    have e1 := C17_id id h.1; have e2 := decU64_num h.2.1; have e3 := decU64_num h.2.2
    simp (config := {decide := true}) [encUpdate, decUpdate, field, fieldOpt, asObj, asArr, List.filter_cons, List.filter_nil, decUnit, decBool, decStr, C17_side, C17_peg, bind, Except.bind, e1, e2, e3]

/-! ### transactions, lists, match results -/

/-- **transactions** -/
theorem C17_tx (t : TxRec) (h : TxOk t) : decTx (encTx t) = .ok t := by
  obtain ⟨txid, taker, maker, price, qty, side, ts⟩ := t
  have e0 := C17_uuid txid h.txid
  have e1 := C17_id taker h.taker
  have e2 := C17_id maker h.maker
  have e3 := decU64_num h.price
  have e4 := decU64_num h.qty
  have e5 := decU64_num h.ts
  simp (config := {decide := true}) [encTx, decTx, field, fieldOpt, asObj, asArr, List.filter_cons, List.filter_nil, decUnit, decBool, decStr, C17_side, C17_peg, bind, Except.bind, e0, e1, e2, e3, e4, e5]

/-- **transaction lists** (any length) -/
theorem C17_txlist (l : List TxRec) (h : ∀ t ∈ l, TxOk t) : decTxList (encTxList l) = .ok l := by
  have := mapM_enc encTx decTx l (fun t ht => C17_tx t (h t ht))
  simp (config := {decide := true}) [encTxList, decTxList, field, fieldOpt, asObj, asArr, List.filter_cons, List.filter_nil, decUnit, decBool, decStr, C17_side, C17_peg, bind, Except.bind, this]

/-- **match results** (any number of transactions and filled ids, both flags) -/
theorem C17_mr (r : MRRec) (h : MROk r) : decMR (encMR r) = .ok r := by
  obtain ⟨oid, txs, rem, c, filled⟩ := r
  have e1 := C17_id oid h.id
  have e2 := C17_txlist txs h.txs
  have e3 := decU64_num h.rem
  have e4 := mapM_enc encId decId filled (fun i hi => C17_id i (h.filled i hi))
  simp (config := {decide := true}) [encMR, decMR, field, fieldOpt, asObj, asArr, List.filter_cons, List.filter_nil, decUnit, decBool, decStr, C17_side, C17_peg, bind, Except.bind, e1, e2, e3, e4]

/-! ### statistics, snapshots, level data, packages -/

/-- **statistics** (the clock default is never used: every field is present) -/
theorem C17_stats (now : Nat) (s : StatsRec) (h : s.added < W ∧ s.removed < W ∧ s.executed < W ∧ s.qty < W ∧ s.value < W ∧
    s.last < W ∧ s.first < W ∧ s.wait < W) : decStats now (encStats s) = .ok s := by
  obtain ⟨a, r, e, q, v, l, f, w⟩ := s
  obtain ⟨h1, h2, h3, h4, h5, h6, h7, h8⟩ := h
  have e1 := decU64_num h1; have e2 := decU64_num h2; have e3 := decU64_num h3; have e4 := decU64_num h4
  have e5 := decU64_num h5; have e6 := decU64_num h6; have e7 := decU64_num h7; have e8 := decU64_num h8
  simp (config := {decide := true}) [encStats, decStats, statField, statKeys, field, fieldOpt, asObj, asArr, List.filter_cons, List.filter_nil, decUnit, decBool, decStr, C17_side, C17_peg, bind, Except.bind, e1, e2, e3, e4, e5, e6, e7, e8]

/-- **snapshots** (strict visitor) -/
theorem C17_snapshot (s : Snapshot) (h : SnapOk s) : decSnapshot (encSnapshot s) = .ok s := by
  obtain ⟨p, v, hq, c, os⟩ := s
  have e1 := decU64_num h.price; have e2 := decU64_num h.vis; have e3 := decU64_num h.hid; have e4 := decU64_num h.cnt
  have e5 := C17_orders os h.orders
  simp (config := {decide := true}) [encSnapshot, decSnapshot, snapKeys, countKey, field, fieldOpt, asObj, asArr, List.filter_cons, List.filter_nil, decUnit, decBool, decStr, C17_side, C17_peg, bind, Except.bind, e1, e2, e3, e4, e5]

/-- **level data** (the level's own serde form: same tree as a snapshot, lenient reader) -/
theorem C17_leveldata (s : Snapshot) (h : SnapOk s) : decLevelData (encSnapshot s) = .ok s := by
  obtain ⟨p, v, hq, c, os⟩ := s
  have e1 := decU64_num h.price; have e2 := decU64_num h.vis; have e3 := decU64_num h.hid; have e4 := decU64_num h.cnt
  have e5 := C17_orders os h.orders
  simp (config := {decide := true}) [encSnapshot, decLevelData, field, fieldOpt, asObj, asArr, List.filter_cons, List.filter_nil, decUnit, decBool, decStr, C17_side, C17_peg, bind, Except.bind, e1, e2, e3, e4, e5]

/-- **snapshot packages** -/
theorem C17_package (p : Package) (hv : p.version < 4294967296) (hs : SnapOk p.snapshot) :
    decPackage (encPackage p) = .ok p := by
  obtain ⟨ver, s, ck⟩ := p
  have e1 := decU32_num hv
  have e2 := C17_snapshot s hs
  simp (config := {decide := true}) [encPackage, decPackage, field, fieldOpt, asObj, asArr, List.filter_cons, List.filter_nil, decUnit, decBool, decStr, C17_side, C17_peg, bind, Except.bind, e1, e2]

/-- **a package still validates after the trip**: whatever `validate` answered before, it answers
    after (in particular a freshly made package, which validates, still does) -/
theorem C17_package_validates (H : List UInt8 → Str) (p : Package) (hv : p.version < 4294967296) (hs : SnapOk p.snapshot) :
    ∃ q, decPackage (encPackage p) = .ok q ∧ q.validate H = p.validate H :=
  ⟨p, C17_package p hv hs, rfl⟩

theorem C17_new_package_validates (H : List UInt8 → Str) (s : Snapshot) : (Package.new H s).validate H = .ok () := by
  simp [Package.new, Package.validate]

/-! ### text level: print, read back, decode -/

/-- the text trip: print the tree, read the text, decode -/
def viaText {α : Type} (dec : Json → D α) (j : Json) : Option (D α) := (parseJson (render j)).map dec

theorem text_rt {α : Type} (dec : Json → D α) (j : Json) (v : α) (hc : clean j = true) (ht : dec j = .ok v) :
    viaText dec j = some (.ok v) := by
  simp [viaText, parseJson_render j hc, ht]

theorem C17_text_order (o : Order) (h : OrderOk o) : viaText decOrder (encOrder o) = some (.ok o) :=
  text_rt _ _ _ (clean_order o h) (C17_order o h)

theorem C17_text_update (u : Update) (h : UpdateOk u) : viaText decUpdate (encUpdate u) = some (.ok u) :=
  text_rt _ _ _ (clean_update u h) (C17_update u h)

theorem C17_text_id (i : Id) (h : i.val < 2 ^ 128) : viaText decId (encId i) = some (.ok i) :=
  text_rt _ _ _ (clean_id i) (C17_id i h)

theorem C17_text_side (s : Side) : viaText decSide (encSide s) = some (.ok s) :=
  text_rt _ _ _ (clean_side s) (C17_side s)

theorem C17_text_tif (t : Tif) (h : ∀ n, t = .gtd n → n < W) : viaText decTif (encTif t) = some (.ok t) :=
  text_rt _ _ _ (clean_tif t h) (C17_tif t h)

theorem C17_text_peg (p : PegRef) : viaText decPeg (encPeg p) = some (.ok p) :=
  text_rt _ _ _ (clean_peg p) (C17_peg p)

theorem C17_text_tx (t : TxRec) (h : TxOk t) : viaText decTx (encTx t) = some (.ok t) :=
  text_rt _ _ _ (clean_tx t h) (C17_tx t h)

theorem C17_text_mr (r : MRRec) (h : MROk r) : viaText decMR (encMR r) = some (.ok r) :=
  text_rt _ _ _ (clean_mr r h) (C17_mr r h)

theorem C17_text_stats (now : Nat) (s : StatsRec) (h : s.added < W ∧ s.removed < W ∧ s.executed < W ∧ s.qty < W ∧
    s.value < W ∧ s.last < W ∧ s.first < W ∧ s.wait < W) : viaText (decStats now) (encStats s) = some (.ok s) :=
  text_rt _ _ _ (clean_stats s h) (C17_stats now s h)

theorem C17_text_snapshot (s : Snapshot) (h : SnapOk s) : viaText decSnapshot (encSnapshot s) = some (.ok s) :=
  text_rt _ _ _ (clean_snapshot s h) (C17_snapshot s h)

theorem C17_text_leveldata (s : Snapshot) (h : SnapOk s) : viaText decLevelData (encSnapshot s) = some (.ok s) :=
  text_rt _ _ _ (clean_snapshot s h) (C17_leveldata s h)

/-- packages: the checksum is any printable-ASCII string without quote/backslash (the crate's is hex) -/
theorem C17_text_package (p : Package) (hv : p.version < 4294967296) (hs : SnapOk p.snapshot)
    (hc : cleanStr p.checksum = true) : viaText decPackage (encPackage p) = some (.ok p) :=
  text_rt _ _ _ (clean_package p hv hs hc) (C17_package p hv hs)

/-! non-vacuity -/
example : OrderOk ⟨⟨false, 0⟩, 2 ^ 53 + 1, W - 1, .sell, 0, .gtd (W - 1), .pegged (-9223372036854775808) .bestBid⟩ :=
  ⟨by decide, by decide, by decide, by decide, by intro n h; cases h; decide, by decide⟩

end PLV.C17

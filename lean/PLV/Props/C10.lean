/-
  C10 — Snapshot and serialization round-trips preserve content; aggregates are derived.
  Property theorems only. (The byte-level codecs through which the package / JSON / text routes
  pass are C16 / C17; here: what is rebuilt from the orders they carry.)
-/
import PLV.Lemmas.Restore
import PLV.Judge

namespace PLV.C10
open PLV

/-- a level's order listing shows each resting order exactly once, in non-decreasing timestamp
    order -/
theorem C10_listing {l : Level} (h : l.Inv) :
    l.listing.Perm l.map ∧ (ids l.listing).Nodup ∧ SortedTs l.listing :=
  ⟨sortByTs_perm _, (perm_ids (sortByTs_perm l.map)).nodup_iff.2 h.nodup, sorted_sortByTs _⟩

/-- rebuilding a level from its own snapshot (`from_snapshot`, `From<&PriceLevelSnapshot>`, and
    the package / package-JSON routes, which go through the same function) always succeeds (the
    model function is total) and yields the same price, the same set of orders field for field and
    the same aggregates; the result is again a well-formed level -/
theorem C10_snapshot_roundtrip {l : Level} (h : l.Inv) :
    let l' := Level.fromSnapshot l.snapshot
    l'.price = l.price ∧ l'.map.Perm l.map ∧ (∀ id, l'.map.find id = l.map.find id) ∧
      l'.vis = l.vis ∧ l'.hid = l.hid ∧ l'.cnt = l.cnt ∧ l'.Inv := by
  have hg := h.snapshot_good
  obtain ⟨e0, e1, e2, e3, e4, _⟩ := Level.fromSnapshot_fields l.snapshot hg
  have hp : (Level.fromSnapshot l.snapshot).map.Perm l.map := by
    rw [e4]; exact (fromVec_perm _ hg.nodup).trans (sortByTs_perm l.map)
  have hs := perm_sums (sortByTs_perm l.map)
  have hinv := Level.fromSnapshot_inv l.snapshot hg
  refine ⟨e0, hp, fun id => find_perm hp hinv.nodup id, ?_, ?_, ?_, hinv⟩
  · rw [e1]; simp only [Level.snapshot, Level.listing]; rw [hs.1]; exact h.vis.symm
  · rw [e2]; simp only [Level.snapshot, Level.listing]; rw [hs.2.1]; exact h.hid.symm
  · rw [e3]; simp only [Level.snapshot, Level.listing]; rw [hs.2.2]; exact h.cnt.symm

/-- rebuilding by re-adding the listed orders one by one (`TryFrom<PriceLevelData>`, serde
    `Deserialize`, `FromStr`) yields the same price, orders and aggregates -/
theorem C10_data_roundtrip {l : Level} (h : l.Inv) :
    let l' := Level.fromOrders l.price l.listing
    l'.price = l.price ∧ (∀ id, id ∈ ids l'.map ↔ id ∈ ids l.map) ∧ l'.Inv ∧
      l'.vis = l.vis ∧ l'.hid = l.hid ∧ l'.cnt = l.cnt := by
  have hp := sortByTs_perm l.map
  have hs := perm_sums hp
  have hn : (ids l.listing).Nodup := (perm_ids hp).nodup_iff.2 h.nodup
  have hfold := foldl_add_inv l.listing (Level.new l.price) (Level.inv_new _) hn (by simp [Level.new])
    (by simp only [Level.new, sumVis, sumHid, Level.listing]; rw [hs.1, hs.2.1]; have := h.fits; omega)
    (by simp only [Level.new, Level.listing]; rw [hs.2.2]; have := h.cfits; simp; omega)
  obtain ⟨hinv, hids, hv, hh, hc, hpr⟩ := hfold
  refine ⟨hpr, ?_, hinv, ?_, ?_, ?_⟩
  · intro id
    rw [show Level.fromOrders l.price l.listing = l.listing.foldl Level.addOrder (Level.new l.price) from rfl, hids id]
    simp only [Level.new, ids_nil, List.not_mem_nil, false_or]
    exact (perm_ids hp).mem_iff
  · have := hinv.vis
    rw [show Level.fromOrders l.price l.listing = l.listing.foldl Level.addOrder (Level.new l.price) from rfl, this, hv]
    simp only [Level.new, sumVis, Level.listing]; rw [hs.1]; have := h.vis; omega
  · have := hinv.hid
    rw [show Level.fromOrders l.price l.listing = l.listing.foldl Level.addOrder (Level.new l.price) from rfl, this, hh]
    simp only [Level.new, sumHid, Level.listing]; rw [hs.2.1]; have := h.hid; omega
  · have := hinv.cnt
    rw [show Level.fromOrders l.price l.listing = l.listing.foldl Level.addOrder (Level.new l.price) from rfl, this, hc]
    simp only [Level.new, Level.listing]; rw [hs.2.2]; have := h.cnt; simp; omega

/-- every way of constructing a level from external data derives the aggregates from the orders it
    contains: aggregate figures carried by the input are never believed -/
theorem C10_derived (s : Snapshot) (v hd c : Nat) (hg : s.Good) :
    Level.fromSnapshot { s with vis := v, hid := hd, cnt := c } = Level.fromSnapshot s ∧
      (Level.fromSnapshot s).vis = sumVis s.orders ∧ (Level.fromSnapshot s).hid = sumHid s.orders ∧
      (Level.fromSnapshot s).cnt = s.orders.length := by
  obtain ⟨_, e1, e2, e3, _, _⟩ := Level.fromSnapshot_fields s hg
  exact ⟨by simp [Level.fromSnapshot, Snapshot.refresh], e1, e2, e3⟩

/-- … for every state reachable by an admissible history (so including partially filled and
    replenished orders) -/
theorem C10_history (p : Nat) (ops : List Op) (ha : AdmAll ⟨Level.new p, 0⟩ ops) :
    let l := (Sys.run ⟨Level.new p, 0⟩ ops).lvl
    (Level.fromSnapshot l.snapshot).map.Perm l.map ∧ (Level.fromSnapshot l.snapshot).vis = l.vis ∧
      (Level.fromSnapshot l.snapshot).hid = l.hid ∧ (Level.fromSnapshot l.snapshot).cnt = l.cnt := by
  have h := Sys.run_inv ops (Level.inv_new p) ha
  have := C10_snapshot_roundtrip h
  exact ⟨this.2.1, this.2.2.2.1, this.2.2.2.2.1, this.2.2.2.2.2.1⟩

/-! non-vacuity -/
example : ((Level.new 100).addOrder ⟨⟨false, 1⟩, 100, 5, .sell, 7, .gtc, .iceberg 20⟩).Inv :=
  (Level.inv_new 100).addOrder_inv (by unfold Adm; decide)

end PLV.C10

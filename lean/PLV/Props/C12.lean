/-
  C12 — Concurrent readers never observe wrapped or impossible aggregates.
  Property theorems only. For EVERY schedule and EVERY prefix of it (the theorem is about the
  configuration after an arbitrary schedule, so a reader's load — one more step that can be
  scheduled anywhere — sees exactly these values).
-/
import PLV.Lemmas.ConcInit

namespace PLV.C12
open PLV PLV.Conc

/-- at every instant of any execution the three stored counters are exactly the un-wrapped
    quantities (sum over the map + credits, all natural numbers: nothing is ever "owed"), and lie
    between zero and the total ever supplied to the level -/
theorem C12_in_range {l : Level} (hl : l.Inv) (g : Nat) {progs : List (List COp)} (ha : ProgAdm l progs)
    (hQ : supplyQ l progs < W) (hN : supplyC l progs < W) (sched : List Nat) :
    let c := Conc.run (Cfg.init l g progs) sched
    c.sh.vis ≤ supplyQ l progs ∧ c.sh.hid ≤ supplyQ l progs ∧ c.sh.cnt ≤ supplyC l progs ∧
      c.sh.vis = sumVis c.sh.map + sumT (fun t => cV t.pc) c.ts := by
  obtain ⟨e1, _, _, b1, b2, b3⟩ := ((init_inv hl g ha).run sched).exact hQ hN
  exact ⟨b1, b2, b3, e1⟩

/-- what a reader's load returns is the stored counter (reads are single steps that change nothing) -/
theorem C12_reader_sees_counter (s : Shared) :
    (tstep s .rdVis).2.1 = .done (toString s.vis) ∧ (tstep s .rdHid).2.1 = .done (toString s.hid) ∧
      (tstep s .rdCnt).2.1 = .done (toString s.cnt) ∧ (tstep s .rdVis).1 = s := ⟨rfl, rfl, rfl, rfl⟩

/-- the supply potential (book + credits + still to be brought) never grows: no step creates quantity -/
theorem C12_potential_monotone {Q N : Nat} (c : Cfg) (i : Nat) (h : BInv Q N c) : BInv Q N (Conc.step c i).1 :=
  h.step i

end PLV.C12

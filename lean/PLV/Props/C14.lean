/-
  C14 — Transaction ids are unique across threads and reproducible.
  Property theorems only. Every schedule, every number of threads and calls.

  The id a call returns is `Uuid::new_v5(namespace, counter.to_string())`; what is proved here is
  about the counter: every call (a thread's `next`, or the draw inside a match) is ONE atomic step
  that returns the counter and increments it, so along any interleaving the values handed out are
  g, g+1, g+2, … in the order of the draws — pairwise distinct as long as the 64-bit counter does
  not wrap, and the same sequence for any two generators started at the same value.
  Assumed, not proved: `new_v5` (SHA-1) is injective on distinct decimal strings.
-/
import PLV.Lemmas.ConcInit
import PLV.Lemmas.TextRT
import PLV.Model.Sha1

namespace PLV.C14
open PLV PLV.Conc

/-- does this program counter draw an id? -/
def isDraw : Pc → Bool
  | .nx | .mUuid _ _ => true
  | _ => false

/-- `UuidGenerator::next` is a single atomic step: it returns the counter's value and increments it -/
theorem C14_next_is_one_step (s : Shared) :
    (tstep s .nx).1.g = wadd s.g 1 ∧ (tstep s .nx).2.1 = .done (toString s.g) := ⟨rfl, rfl⟩

/-- the counter moves only at a draw, and then by exactly one -/
theorem C14_counter_step (s : Shared) (pc : Pc) :
    (tstep s pc).1.g = if isDraw pc then wadd s.g 1 else s.g := by
  cases pc with
  | can0 id => simp only [tstep, isDraw]; cases s.map.find id <;> rfl
  | am0 id n => simp only [tstep, isDraw]; cases s.map.find id <;> rfl
  | am1 id n => simp only [tstep, isDraw]; cases s.map.find id <;> rfl
  | amV o1 new => simp only [tstep, isDraw]; split <;> rfl
  | amH o1 new => simp only [tstep, isDraw]; split <;> rfl
  | mPop L => simp only [tstep, isDraw]; cases s.tickets <;> rfl
  | mRm L t => simp only [tstep, isDraw]; cases s.map.find t <;> rfl
  | _ => rfl

/-- the value drawn by thread `i`'s next step, if that step is a draw -/
def drawOf (c : Cfg) (i : Nat) : Option Nat :=
  match c.ts[i]? with
  | none => none
  | some t =>
    match t.norm with
    | none => none
    | some tn => if isDraw tn.pc then some c.sh.g else none

/-- the values drawn along a schedule, in order -/
def draws (c : Cfg) : List Nat → List Nat
  | [] => []
  | i :: rest => (match drawOf c i with | some k => [k] | none => []) ++ draws (Conc.step c i).1 rest

theorem step_g (c : Cfg) (i : Nat) :
    (Conc.step c i).1.sh.g = if (drawOf c i).isSome then wadd c.sh.g 1 else c.sh.g := by
  cases hti : c.ts[i]? with
  | none => simp [Conc.step, drawOf, hti]
  | some t =>
    cases hn : t.norm with
    | none => simp [Conc.step, drawOf, hti, hn]
    | some tn =>
      simp only [Conc.step, drawOf, hti, hn, C14_counter_step]
      by_cases hd : isDraw tn.pc = true <;> simp [hd]

/-- **the values handed out along any schedule are the consecutive counter values from the
    generator's starting point (mod 2^64), whichever threads draw them** -/
theorem C14_draws_consecutive (sched : List Nat) :
    ∀ (c : Cfg), c.sh.g < W →
      draws c sched = (List.range (draws c sched).length).map (fun k => (c.sh.g + k) % W) := by
  induction sched with
  | nil => intro c _; rfl
  | cons i rest ih =>
    intro c hg
    have hstep := step_g c i
    simp only [draws]
    cases hd : drawOf c i with
    | none =>
      simp only [hd, Option.isSome_none, Bool.false_eq_true, if_false] at hstep
      simp only [List.nil_append]
      have := ih (Conc.step c i).1 (by rw [hstep]; exact hg)
      rw [hstep] at this; exact this
    | some k =>
      have hk : k = c.sh.g := by
        unfold drawOf at hd
        cases h1 : c.ts[i]? with
        | none => simp [h1] at hd
        | some t =>
          simp only [h1] at hd
          cases h2 : t.norm with
          | none => simp [h2] at hd
          | some tn => simp only [h2] at hd; split at hd <;> simp_all
      simp only [hd, Option.isSome_some, if_true] at hstep
      have hlt : (Conc.step c i).1.sh.g < W := by rw [hstep]; exact Nat.mod_lt _ (by decide)
      have := ih (Conc.step c i).1 hlt
      simp only [List.singleton_append, List.length_cons]
      rw [this, hstep, hk, List.range_succ_eq_map]
      simp only [List.map_cons, List.map_map, Nat.add_zero, Nat.mod_eq_of_lt hg, List.length_map, List.length_range]
      congr 1
      apply List.map_congr_left
      intro a _
      simp only [Function.comp, wadd, W]
      omega

/-- hence pairwise distinct while fewer than 2^64 ids are drawn -/
theorem C14_draws_distinct (c : Cfg) (hg : c.sh.g < W) (sched : List Nat) (hn : (draws c sched).length ≤ W) :
    (draws c sched).Nodup := by
  rw [C14_draws_consecutive sched c hg, List.Nodup, List.pairwise_map]
  refine List.Pairwise.imp_of_mem ?_ List.pairwise_lt_range
  intro a b ha hb hab
  simp only [List.mem_range] at ha hb
  simp only [W] at *
  omega

/-- reproducibility: the values drawn depend only on the starting counter and on how many draws
    happen, not on the threads, the orders or the interleaving -/
theorem C14_reproducible (c c' : Cfg) (sched sched' : List Nat) (hg : c.sh.g < W) (hg' : c'.sh.g < W)
    (h0 : c.sh.g = c'.sh.g) (hn : (draws c sched).length = (draws c' sched').length) :
    draws c sched = draws c' sched' := by
  rw [C14_draws_consecutive sched c hg, C14_draws_consecutive sched' c' hg', h0, hn]

/-! ### from counters to the ids themselves

`UuidGenerator::next` returns `Uuid::new_v5(namespace, counter.to_string())`. `PLV.Sha1.txId ns c` is that id, computed
by an executable model of SHA-1 and of the version-5 construction that the correspondence run compares bit for bit with
the real generator (`v5` lines: namespaces nil / standard / all-ones / random, counters at 0 and at the boundaries).
What is proved: the name is an injective function of the counter, so two different counters can only give the same id
through a collision of the (truncated, stamped) SHA-1 — stated with the colliding messages exhibited. -/

open PLV.Sha1 in
/-- the decimal name determines the counter -/
theorem C14_name_injective (a b : Nat) (h : nameOfCounter a = nameOfCounter b) : a = b := by
  unfold nameOfCounter at h
  have back : ∀ l : List Char, (∀ c ∈ l, c.isDigit = true) →
      (l.map (fun ch => UInt8.ofNat ch.toNat)).map (fun x => Char.ofNat x.toNat) = l := by
    intro l hl
    induction l with
    | nil => rfl
    | cons c rest ih =>
      have hc := hl c (by simp)
      have hlt : c.toNat < 256 := by
        simp only [Char.isDigit, Bool.and_eq_true, decide_eq_true_eq] at hc
        have := hc.2
        simp only [UInt32.le_iff_toNat_le] at this
        exact Nat.lt_of_le_of_lt this (by decide)
      simp only [List.map_cons, List.map_map] at ih ⊢
      rw [ih (fun c' hc' => hl c' (by simp [hc']))]
      congr 1
      simp only [UInt8.toNat_ofNat', Nat.reducePow, Nat.mod_eq_of_lt hlt, Char.ofNat_toNat]
  have ha := back (Nat.toDigits 10 a) (Text.showNat_digits a)
  have hb := back (Nat.toDigits 10 b) (Text.showNat_digits b)
  have e : Nat.toDigits 10 a = Nat.toDigits 10 b := by rw [← ha, ← hb, h]
  have da := Text.digitsVal_showNat a
  have db := Text.digitsVal_showNat b
  simp only [Text.showNat] at da db
  rw [e] at da
  exact Option.some.inj (da.symm.trans db)

open PLV.Sha1 in
/-- **distinct counters give distinct ids, or SHA-1 (truncated to 122 bits as version 5 prescribes) collides**: if
    two different counter values of one generator produced the same transaction id, the two *different* messages
    `namespace ++ decimal(a)` and `namespace ++ decimal(b)` would have the same stamped digest -/
theorem C14_distinct_or_collision (ns a b : Nat) (hab : a ≠ b) (h : txId ns a = txId ns b) :
    ∃ m1 m2 : List UInt8, m1 ≠ m2 ∧ ofBytes (stamp (digestBytes m1)) = ofBytes (stamp (digestBytes m2)) :=
  ⟨bytes16 ns ++ nameOfCounter a, bytes16 ns ++ nameOfCounter b,
   fun e => hab (C14_name_injective a b (List.append_cancel_left e)), h⟩

/-- reproducibility, at the level of ids: the ids handed out are `txId namespace` of the values drawn, and those
    depend only on the starting counter and the number of draws (`C14_reproducible`) -/
theorem C14_ids_reproducible (ns : Nat) (c c' : Cfg) (sched sched' : List Nat) (hg : c.sh.g < W) (hg' : c'.sh.g < W)
    (h0 : c.sh.g = c'.sh.g) (hn : (draws c sched).length = (draws c' sched').length) :
    (draws c sched).map (PLV.Sha1.txId ns) = (draws c' sched').map (PLV.Sha1.txId ns) := by
  rw [C14_reproducible c c' sched sched' hg hg' h0 hn]

/-! non-vacuity: names are the ASCII decimal digits (the id values themselves - e.g. `txId 0 0 =
    242943767789622401472770188650165148846` - are evaluated by the compiled driver and compared with the crate on every run;
    kernel evaluation of SHA-1 exceeds the recursion limit) -/
example : PLV.Sha1.nameOfCounter 42 = [52, 50] := by decide

/-! non-vacuity: two threads drawing concurrently -/
example : draws (Cfg.init (Level.new 100) 5 [[.next, .next], [.next]]) [0, 1, 0] = [5, 6, 7] := by decide

end PLV.C14

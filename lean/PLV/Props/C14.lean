/-
  C14 — Transaction ids are unique across threads and reproducible.
  Property theorems only.
-/
import PLV.Model.Conc

namespace PLV.C14
open PLV PLV.Conc

/-- `UuidGenerator::next` is a single atomic step: it returns the counter's value and increments it -/
theorem C14_next_is_one_step (s : Shared) :
    (tstep s .nx).1.g = wadd s.g 1 ∧ (tstep s .nx).2.1 = .done (toString s.g) := ⟨rfl, rfl⟩

end PLV.C14

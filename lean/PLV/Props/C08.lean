/-
  C08 — Concurrent operations never strand or duplicate an order.
  Property theorems only; every schedule, any number of threads and operations.
-/
import PLV.Lemmas.ConcCover
import PLV.Lemmas.MatchInv
import PLV.Judge
import PLV.Lemmas.ConcSolo

namespace PLV.C08
open PLV PLV.Conc

/-- the cover invariant is inductive: every key of the map has a ticket in the queue, or a thread
    is about to push it (inserted, ticket pending), or a popper holds its ticket -/
theorem C08_cover_step (c : Cfg) (i : Nat) (hc : Cover c) (hinv : CInv c) : Cover (Conc.step c i).1 :=
  hc.step hinv i

/-- the level a quiescent configuration amounts to -/
def levelOf (s : Shared) : Level :=
  { price := s.price, vis := s.vis, hid := s.hid, cnt := s.cnt, map := s.map, tickets := s.tickets, stats := s.stats }

/-- **after any concurrent execution in which every thread has returned, the result is a
    well-formed level**: every resting order still has a ticket (is reachable by matching), keys are
    distinct, the aggregates equal the sums, nothing wraps -/
theorem C08_quiescent {l : Level} (hl : l.Inv) (g : Nat) {progs : List (List COp)} (ha : ProgAdm l progs)
    (hQ : supplyQ l progs < W) (hN : supplyC l progs < W) (sched : List Nat)
    (hd : allDone (Conc.run (Cfg.init l g progs) sched) = true) :
    (levelOf (Conc.run (Cfg.init l g progs) sched).sh).Inv := by
  have hb := (init_inv hl g ha).run sched
  have hcov0 : Cover (Cfg.init l g progs) := fun x hx => Or.inl (hl.covered x hx)
  have hcov := cover_run hcov0 (init_inv hl g ha).inv sched
  obtain ⟨e1, e2, e3, b1, b2, b3⟩ := hb.exact hQ hN
  obtain ⟨z1, z2, z3⟩ := done_credits hd
  rw [z1] at e1; rw [z2] at e2; rw [z3] at e3
  have hq := hb.hQ; have hn := hb.hC
  simp only [potQ, potC] at hq hn
  refine ⟨hb.inv.nodup, ?_, by simpa [levelOf] using e1, by simpa [levelOf] using e2, by simpa [levelOf] using e3,
    by simp only [levelOf]; omega, by simp only [levelOf]; omega⟩
  intro x hx
  rcases hcov x hx with h | ⟨j, t, hj, hp⟩
  · exact h
  · -- a finished thread has no pending ticket
    have htm : t ∈ (Conc.run (Cfg.init l g progs) sched).ts := List.mem_of_getElem? hj
    have := List.all_eq_true.1 hd t htm
    unfold Thread.finished at this
    split at this
    · rename_i h1 _; rw [h1] at hp; simp [pendingTk] at hp
    · simp at this

/-- … so a draining match issued afterwards consumes all displayed quantity and leaves aggregates
    that describe exactly what remains (C06 and C01 apply to the quiescent level) -/
theorem C08_drain {l : Level} (hl : l.Inv) (g : Nat) {progs : List (List COp)} (ha : ProgAdm l progs)
    (hQ : supplyQ l progs < W) (hN : supplyC l progs < W) (sched : List Nat)
    (hd : allDone (Conc.run (Cfg.init l g progs) sched) = true) (q : Nat) (t : Id) (g' : Nat) :
    let lq := levelOf (Conc.run (Cfg.init l g progs) sched).sh
    ((lq.matchOrder q t g').2.1.remaining > 0 → sumVis (lq.matchOrder q t g').1.map = 0) ∧
      (lq.matchOrder q t g').1.Inv := by
  have hinv := C08_quiescent hl g ha hQ hN sched hd
  have h0 : AggInv (levelOf (Conc.run (Cfg.init l g progs) sched).sh).map
      (levelOf (Conc.run (Cfg.init l g progs) sched).sh).tickets
      { vis := (levelOf (Conc.run (Cfg.init l g progs) sched).sh).vis, hid := (levelOf (Conc.run (Cfg.init l g progs) sched).sh).hid,
        cnt := (levelOf (Conc.run (Cfg.init l g progs) sched).sh).cnt,
        stats := (levelOf (Conc.run (Cfg.init l g progs) sched).sh).stats, g := g' } :=
    ⟨hinv.nodup, by simp, by simp, hinv.covered, by simpa [sumVis] using hinv.vis, by simpa [sumHid] using hinv.hid,
      by simpa using hinv.cnt, by simpa [sumVis, sumHid] using hinv.fits, by simpa using hinv.cfits⟩
  have he0 : ExhInv q (sumVis (levelOf (Conc.run (Cfg.init l g progs) sched).sh).map) q
      (levelOf (Conc.run (Cfg.init l g progs) sched).sh).map
      { vis := (levelOf (Conc.run (Cfg.init l g progs) sched).sh).vis, hid := (levelOf (Conc.run (Cfg.init l g progs) sched).sh).hid,
        cnt := (levelOf (Conc.run (Cfg.init l g progs) sched).sh).cnt,
        stats := (levelOf (Conc.run (Cfg.init l g progs) sched).sh).stats, g := g' } :=
    ⟨by simp [sumQty], by simp, by simp [sumQty]⟩
  refine ⟨?_, hinv.matchOrder_inv q t g'⟩
  -- the exhaustion argument of C06, repeated for this level
  have hl' := matchLoop_exh (levelOf (Conc.run (Cfg.init l g progs) sched).sh).price t q _ q _ _ _ ⟨h0, he0⟩
  have hstop := matchLoop_stop (levelOf (Conc.run (Cfg.init l g progs) sched).sh).price t q
    (levelOf (Conc.run (Cfg.init l g progs) sched).sh).map (levelOf (Conc.run (Cfg.init l g progs) sched).sh).tickets
    { vis := (levelOf (Conc.run (Cfg.init l g progs) sched).sh).vis, hid := (levelOf (Conc.run (Cfg.init l g progs) sched).sh).hid,
      cnt := (levelOf (Conc.run (Cfg.init l g progs) sched).sh).cnt,
      stats := (levelOf (Conc.run (Cfg.init l g progs) sched).sh).stats, g := g' }
  simp only [Level.matchOrder]
  generalize matchLoop _ t q _ _ _ = res at hl' hstop
  obtain ⟨rem, m, ts, a⟩ := res
  simp only at hl' hstop
  obtain ⟨hagg, he⟩ := hl'
  have hr := requeueAside_spec a.aside m ts hagg.nodupM hagg.nodupA hagg.disj hagg.covered
  have hz := sumVis_zero_of_all he.aside0
  simp only [Level.finishMatch]
  intro hpos
  rcases hstop with h0' | hts
  · omega
  · subst hts
    have : m = [] := ids_eq_nil hagg.covered
    subst this
    rw [hr.2.2.1, hz]; rfl

/-- the draining match of `C08_drain`, issued *in the interleaved machine* by a thread running alone
    after quiescence, is that big-step match: step by step it arrives at `lq.matchOrder q t g'` and
    returns its result (`Conc.solo_eq_seq`) — so `C08_drain` speaks about the machine the schedules
    run on, not only about the sequential function. -/
theorem C08_drain_is_sequential (sh : Shared) (ts : List Thread) (i : Nat) (q : Nat) (t : Id) (rets : List String)
    (hq : q ≠ 0) (hi : ts[i]? = some { pc := .idle, todo := [.matchQ q t], rets := rets }) :
    ∃ n, Conc.run ⟨sh, ts⟩ (List.replicate n i) =
      ⟨Shared.ofLevel ((levelOf sh).matchOrder q t sh.g).1 ((levelOf sh).matchOrder q t sh.g).2.2,
       ts.set i { pc := .idle, todo := [], rets := rets ++ [showResult (resultLoc ((levelOf sh).matchOrder q t sh.g).2.1)] }⟩ := by
  have h := solo_eq_seq (levelOf sh) sh.g ts i (.matchQ q t) [] rets hi hq
  simpa [seqOp, levelOf, Shared.ofLevel] using h

/-- every order handed to the queue is handed out at most once (ownership, C03) — and, by the cover
    invariant, never to none: a key always keeps a ticket or a thread that owes it one -/
theorem C08_never_two {l : Level} (hl : l.Inv) (g : Nat) {progs : List (List COp)} (ha : ProgAdm l progs)
    (sched : List Nat) (x : Id) :
    let c := Conc.run (Cfg.init l g progs) sched
    (ids c.sh.map).count x + sumT (fun t => (theld t).count x) c.ts ≤ 1 :=
  ((init_inv hl g ha).run sched).inv.own x

end PLV.C08

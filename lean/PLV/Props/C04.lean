/-
  C04 — Resting orders trade in arrival order (time priority).
  Property theorems only.

  The full property is FALSE of the crate (and of the model, which agrees with it): see the two
  counterexamples at the end, each replayed against the real crate by the corpus. What is proved
  here is `C04_partial`: every step a history is made of acts on the hand-out order exactly as the
  property prescribes, except (F1) a maker that survives a visit without being replenished is
  re-queued at the back instead of keeping its place, and (F2) a push of an id that still has a
  ticket in the queue lands on that ticket's position instead of the back.
  NOT proved (what is missing for the big-step statement "live (match l) = ideal (live l)"): the
  composition of the per-visit lemmas over the whole loop of one `match_order` call.
-/
import PLV.Lemmas.Queue
import PLV.Lemmas.LevelInv

namespace PLV.C04
open PLV

/-- the order in which the resting orders of a level would be executed against -/
def live (l : Level) : List Order := liveOrder l.map l.tickets

/-- a match never executes against an order while an earlier order is still waiting ahead of it:
    every maker visit takes the *head* of the hand-out order -/
theorem C04_visit_takes_head (m : OMap) (ts : List Id) {o m' ts'} (h : popLive m ts = some (o, m', ts')) :
    liveOrder m ts = o :: liveOrder m' ts' := by
  have := pop_liveOrder m ts; rw [h] at this; exact this

/-- a maker that leaves the book is simply gone; the others keep their relative order -/
theorem C04_leave (m : OMap) (ts : List Id) {o m' ts'} (h : popLive m ts = some (o, m', ts')) :
    liveOrder m' ts' = (liveOrder m ts).tail := by
  rw [C04_visit_takes_head m ts h]; rfl

/-- a maker whose display was replenished moves to the back — provided no older ticket of its id is
    left in the queue (F2 otherwise). The same code path puts a *partially filled* survivor at the
    back too, where the property wants it to keep its place: that is F1. -/
theorem C04_requeue_goes_back (m' : OMap) (ts' : List Id) (u : Order) (hid : u.id ∉ ts') (hm : u.id ∉ ids m') :
    liveOrder (m'.insert u) (ts' ++ [u.id]) = liveOrder m' ts' ++ [u] :=
  liveOrder_push_fresh u ts' m' hid hm

/-- an added order joins at the back — provided its id has no (stale) ticket left (F2 otherwise) -/
theorem C04_add_joins_back {l : Level} (h : l.Inv) (o : Order) (hfresh : o.id ∉ l.tickets) :
    live (l.addOrder o) = live l ++ [o] :=
  liveOrder_push_fresh o l.tickets l.map hfresh (fun hx => hfresh (h.covered _ hx))

/-- a cancelled (or moved) order disappears from the hand-out order; nothing else moves -/
theorem C04_cancel {l : Level} (id : Id) : live (l.removeOrder id).1 = Fifo.removeAll id (live l) := by
  cases hf : l.map.find id with
  | none =>
    rw [Level.removeOrder_none hf]
    have hx : ∀ x ∈ liveOrder l.map l.tickets, x.id ≠ id := by
      intro x hx e
      exact find_none.1 hf (e ▸ mem_ids_of_mem (liveOrder_mem hx))
    exact (removeAll_of_not_mem hx).symm
  | some o =>
    obtain ⟨_, e1, e2, _⟩ := Level.removeOrder_some hf
    simp only [live, e1, e2]
    exact liveOrder_erase id l.tickets l.map

/-- an order keeps its place when its quantity is amended at the same price -/
theorem C04_amend_keeps_place {l : Level} (h : l.Inv) (id : Id) (n : Nat) {old : Order}
    (hf : l.map.find id = some old) :
    live (l.amend id n).1 = replaceById (old.withReduced n) (live l) := by
  obtain ⟨_, e1, e2, _⟩ := Level.amend_some (n := n) hf
  have hid : (old.withReduced n).id = id := by rw [withReduced_id]; exact (find_some hf).2
  have hm : id ∈ ids l.map := (find_some hf).2 ▸ mem_ids_of_mem (find_some hf).1
  simp only [live, e1, e2]
  have := liveOrder_amend (old.withReduced n) l.tickets l.map (hid ▸ h.covered _ hm) (hid ▸ hm)
  rw [hid] at this
  exact this

/-- **C04_partial** for the operations other than match, as one statement: on a well-formed level,
    add / cancel / same-price amend act on the hand-out order exactly as the property prescribes,
    the only exception being an add whose id still has a ticket in the queue (F2) -/
theorem C04_partial {l : Level} (h : l.Inv) :
    (∀ o, o.id ∉ l.tickets → live (l.addOrder o) = live l ++ [o]) ∧
    (∀ id, live (l.removeOrder id).1 = Fifo.removeAll id (live l)) ∧
    (∀ id n old, l.map.find id = some old → live (l.amend id n).1 = replaceById (old.withReduced n) (live l)) :=
  ⟨fun o ho => C04_add_joins_back h o ho, fun id => C04_cancel id, fun id n _ hf => C04_amend_keeps_place h id n hf⟩

/-! ### the full property fails: concrete histories (model = crate, replayed by the corpus) -/

def A : Order := ⟨⟨false, 1⟩, 100, 10, .sell, 1, .gtc, .standard⟩
def B : Order := ⟨⟨false, 2⟩, 100, 10, .sell, 2, .gtc, .standard⟩
def taker : Id := ⟨false, 9⟩

/-- F1: A(10), B(10); match 4 partially fills A; the next match 4 executes against **B**, although
    A arrived first and still displays 6 -/
theorem C04_counterexample_F1 :
    let l0 := (Level.new 100).addOrder A |>.addOrder B
    let l1 := (l0.matchOrder 4 taker 0).1
    (l1.matchOrder 4 taker 1).2.1.txs.map (·.maker) = [B.id] := by
  simp [A, B, taker, Level.new, Level.addOrder, Level.matchOrder, Level.finishMatch, matchLoop, popLive,
    OMap.find, OMap.erase, OMap.insert, matchAgainst, Acc.visit, Acc.requeue, requeueAside, wadd, wsub,
    Stats.recordExec, Side.opposite]

/-- F2: add A, add B, cancel A, add A again; the next match executes against **A**, although B has
    been waiting longer (A landed on its stale ticket) -/
theorem C04_counterexample_F2 :
    let l0 := (Level.new 100).addOrder A |>.addOrder B
    let l1 := (l0.removeOrder A.id).1.addOrder A
    (l1.matchOrder 4 taker 0).2.1.txs.map (·.maker) = [A.id] := by
  simp [A, B, taker, Level.new, Level.addOrder, Level.removeOrder, Level.matchOrder, Level.finishMatch, matchLoop,
    popLive, OMap.find, OMap.erase, OMap.insert, matchAgainst, Acc.visit, Acc.requeue, requeueAside, wadd, wsub,
    Stats.recordExec, Side.opposite]

/-! non-vacuity -/
example : ((Level.new 100).addOrder A).Inv := (Level.inv_new 100).addOrder_inv (by unfold Adm; decide)

end PLV.C04

/-
  C04 — Resting orders trade in arrival order (time priority).
  Property theorems only.

  The full property is FALSE of the crate (and of the model, which agrees with it): see the two
  counterexamples at the end, each replayed against the real crate by the corpus. What is proved
  here is `C04_partial`: every step a history is made of acts on the hand-out order exactly as the
  property prescribes, except (F1) a maker that survives a visit without being replenished is
  re-queued at the back instead of keeping its place, and (F2) a push of an id that still has a
  ticket in the queue lands on that ticket's position instead of the back.
  The per-visit lemmas are composed over the whole loop of one `match_order` call in
  `C04_match_composed`: on a level without duplicate tickets the call walks the hand-out order as a
  queue — head first; a visited maker leaves, goes to the back, or is kept aside and re-queued at
  the very end — so the hand-out order after every operation of a history is characterised exactly,
  and the only places where it differs from what the property prescribes are F1 (`QStep.back` for a
  survivor that was not replenished) and F2 (the no-duplicate-ticket hypothesis).
-/
import PLV.Lemmas.Queue
import PLV.Lemmas.LevelInv

namespace PLV.C04
open PLV

/-- the order in which the resting orders of a level would be executed against -/
def live (l : Level) : List Order := liveOrder l.map l.tickets

/-- a match never executes against an order while an earlier order is still waiting ahead of it:
    every maker visit takes the *head* of the hand-out order -/
theorem C04_visit_takes_head (m : OMap) (ts : List Id) {o m' ts'} (h : popLive m ts = some (o, m', ts')) :
    liveOrder m ts = o :: liveOrder m' ts' := by
  have := pop_liveOrder m ts; rw [h] at this; exact this

/-- a maker that leaves the book is simply gone; the others keep their relative order -/
theorem C04_leave (m : OMap) (ts : List Id) {o m' ts'} (h : popLive m ts = some (o, m', ts')) :
    liveOrder m' ts' = (liveOrder m ts).tail := by
  rw [C04_visit_takes_head m ts h]; rfl

/-- a maker whose display was replenished moves to the back — provided no older ticket of its id is
    left in the queue (F2 otherwise). The same code path puts a *partially filled* survivor at the
    back too, where the property wants it to keep its place: that is F1. -/
theorem C04_requeue_goes_back (m' : OMap) (ts' : List Id) (u : Order) (hid : u.id ∉ ts') (hm : u.id ∉ ids m') :
    liveOrder (m'.insert u) (ts' ++ [u.id]) = liveOrder m' ts' ++ [u] :=
  liveOrder_push_fresh u ts' m' hid hm

/-- an added order joins at the back — provided its id has no (stale) ticket left (F2 otherwise) -/
theorem C04_add_joins_back {l : Level} (h : l.Inv) (o : Order) (hfresh : o.id ∉ l.tickets) :
    live (l.addOrder o) = live l ++ [o] :=
  liveOrder_push_fresh o l.tickets l.map hfresh (fun hx => hfresh (h.covered _ hx))

/-- a cancelled (or moved) order disappears from the hand-out order; nothing else moves -/
theorem C04_cancel {l : Level} (id : Id) : live (l.removeOrder id).1 = Fifo.removeAll id (live l) := by
  cases hf : l.map.find id with
  | none =>
    rw [Level.removeOrder_none hf]
    have hx : ∀ x ∈ liveOrder l.map l.tickets, x.id ≠ id := by
      intro x hx e
      exact find_none.1 hf (e ▸ mem_ids_of_mem (liveOrder_mem hx))
    exact (removeAll_of_not_mem hx).symm
  | some o =>
    obtain ⟨_, e1, e2, _⟩ := Level.removeOrder_some hf
    simp only [live, e1, e2]
    exact liveOrder_erase id l.tickets l.map

/-- an order keeps its place when its quantity is amended at the same price -/
theorem C04_amend_keeps_place {l : Level} (h : l.Inv) (id : Id) (n : Nat) {old : Order}
    (hf : l.map.find id = some old) :
    live (l.amend id n).1 = replaceById (old.withReduced n) (live l) := by
  obtain ⟨_, e1, e2, _⟩ := Level.amend_some (n := n) hf
  have hid : (old.withReduced n).id = id := by rw [withReduced_id]; exact (find_some hf).2
  have hm : id ∈ ids l.map := (find_some hf).2 ▸ mem_ids_of_mem (find_some hf).1
  simp only [live, e1, e2]
  have := liveOrder_amend (old.withReduced n) l.tickets l.map (hid ▸ h.covered _ hm) (hid ▸ hm)
  rw [hid] at this
  exact this

/-- **C04_partial** for the operations other than match, as one statement: on a well-formed level,
    add / cancel / same-price amend act on the hand-out order exactly as the property prescribes,
    the only exception being an add whose id still has a ticket in the queue (F2) -/
theorem C04_partial {l : Level} (h : l.Inv) :
    (∀ o, o.id ∉ l.tickets → live (l.addOrder o) = live l ++ [o]) ∧
    (∀ id, live (l.removeOrder id).1 = Fifo.removeAll id (live l)) ∧
    (∀ id n old, l.map.find id = some old → live (l.amend id n).1 = replaceById (old.withReduced n) (live l)) :=
  ⟨fun o ho => C04_add_joins_back h o ho, fun id => C04_cancel id, fun id n _ hf => C04_amend_keeps_place h id n hf⟩

/-! ### one whole match call -/

/-- one step of the abstract queue the match loop walks: the head is visited; it leaves, goes to the
    back (re-queued: partially filled or replenished), or is kept aside (nothing displayed, nothing
    to replenish with) -/
inductive QStep : Nat × List Order × List Order → Nat × List Order × List Order → Prop
  | leave (rem : Nat) (o : Order) (L aside : List Order) (h0 : rem ≠ 0) (hu : (matchAgainst o rem).updated = none) :
      QStep (rem, o :: L, aside) ((matchAgainst o rem).remaining, L, aside)
  | back (rem : Nat) (o u : Order) (L aside : List Order) (h0 : rem ≠ 0) (hu : (matchAgainst o rem).updated = some u)
      (hp : ¬ ((matchAgainst o rem).consumed = 0 ∧ (matchAgainst o rem).hiddenRed = 0)) :
      QStep (rem, o :: L, aside) ((matchAgainst o rem).remaining, L ++ [u], aside)
  | aside (rem : Nat) (o u : Order) (L aside : List Order) (h0 : rem ≠ 0) (hu : (matchAgainst o rem).updated = some u)
      (hp : (matchAgainst o rem).consumed = 0 ∧ (matchAgainst o rem).hiddenRed = 0) :
      QStep (rem, o :: L, aside) ((matchAgainst o rem).remaining, L, aside ++ [u])

inductive QSteps : Nat × List Order × List Order → Nat × List Order × List Order → Prop
  | refl (s) : QSteps s s
  | tail {s t u} : QSteps s t → QStep t u → QSteps s u

theorem popLive_nodup {m : OMap} {ts : List Id} {o m' ts'} (h : popLive m ts = some (o, m', ts')) (hn : ts.Nodup) :
    ts'.Nodup ∧ o.id ∉ ts' := by
  induction ts with
  | nil => simp [popLive] at h
  | cons t rest ih =>
    simp at hn
    unfold popLive at h
    split at h
    · rename_i o' hf
      simp at h; obtain ⟨rfl, rfl, rfl⟩ := h
      have := (find_some hf).2
      exact ⟨hn.2, this ▸ hn.1⟩
    · exact ih h hn.2

/-- what the loop keeps true of the ticket queue of a level without duplicate or stale-duplicate
    tickets: tickets and map ids without repetition, the set-aside orders out of both -/
structure QInv (m : OMap) (ts : List Id) (a : Acc) : Prop where
  tn : ts.Nodup
  mn : (ids m).Nodup
  am : ∀ x ∈ ids a.aside, x ∉ ids m
  at' : ∀ x ∈ ids a.aside, x ∉ ts
  an : (ids a.aside).Nodup


theorem QInv.popped {m : OMap} {ts : List Id} {a : Acc} (h : QInv m ts a) {o m' ts'}
    (hp : popLive m ts = some (o, m', ts')) :
    ts'.Nodup ∧ o.id ∉ ts' ∧ (ids m').Nodup ∧ o.id ∉ ids m' ∧ o.id ∈ ids m ∧ m' = m.erase o.id ∧
      (∀ x ∈ ts', x ∈ ts) ∧ liveOrder m ts = o :: liveOrder m' ts' := by
  obtain ⟨h1, h2, _, h4⟩ := popLive_spec hp
  obtain ⟨n1, n2⟩ := popLive_nodup hp h.tn
  have hl := pop_liveOrder m ts
  rw [hp] at hl
  refine ⟨n1, n2, h2 ▸ nodup_erase _ h.mn, ?_, ?_, h2, h4, hl⟩
  · rw [h2]; intro hm; exact (mem_ids_erase.1 hm).2 rfl
  · have := find_some h1; exact this.2 ▸ mem_ids_of_mem this.1

theorem QInv.step_aside {m : OMap} {ts : List Id} {a : Acc} (hi : QInv m ts a) (price : Nat) (taker : Id) {rem : Nat}
    {o m' ts' u} (hp : popLive m ts = some (o, m', ts')) (hu : (matchAgainst o rem).updated = some u) :
    QInv m' ts' ((a.visit price taker o (matchAgainst o rem)).pushAside u) := by
  obtain ⟨n1, n2, n3, n4, n5, e, hsub, _⟩ := hi.popped hp
  have hid := (ma_stay o u rem hu).1
  refine ⟨n1, n3, ?_, ?_, ?_⟩
  · intro x hx
    simp only [Acc.pushAside, visit_aside, ids_append, ids_cons, ids_nil, List.mem_append, List.mem_cons,
      List.not_mem_nil, or_false] at hx
    rcases hx with hx | rfl
    · rw [e]; intro hm; exact hi.am x hx (mem_ids_erase.1 hm).1
    · rw [hid]; exact n4
  · intro x hx
    simp only [Acc.pushAside, visit_aside, ids_append, ids_cons, ids_nil, List.mem_append, List.mem_cons,
      List.not_mem_nil, or_false] at hx
    rcases hx with hx | rfl
    · intro ht; exact hi.at' x hx (hsub x ht)
    · rw [hid]; exact n2
  · simp only [Acc.pushAside, visit_aside, ids_append, ids_cons, ids_nil]
    rw [List.nodup_append]
    refine ⟨hi.an, by simp, ?_⟩
    intro x hx y hy
    simp at hy; subst hy
    intro e2; subst e2
    rw [hid] at hx
    exact hi.am _ hx n5

theorem QInv.step_back {m : OMap} {ts : List Id} {a : Acc} (hi : QInv m ts a) (price : Nat) (taker : Id) {rem : Nat}
    {o m' ts' u} (hp : popLive m ts = some (o, m', ts')) (hu : (matchAgainst o rem).updated = some u) :
    QInv (m'.insert u) (ts' ++ [u.id]) ((a.visit price taker o (matchAgainst o rem)).requeue (matchAgainst o rem).hiddenRed) := by
  obtain ⟨n1, n2, n3, n4, n5, e, hsub, _⟩ := hi.popped hp
  have hid := (ma_stay o u rem hu).1
  refine ⟨?_, nodup_insert u n3, ?_, ?_, by simpa using hi.an⟩
  · rw [List.nodup_append]
    refine ⟨n1, by simp, ?_⟩
    intro x hx y hy; simp at hy; subst hy
    intro e2; subst e2; exact (hid ▸ n2) hx
  · intro x hx
    simp only [requeue_aside, visit_aside] at hx
    rw [ids_insert]
    rintro (hm | rfl)
    · rw [e] at hm; exact hi.am x hx (mem_ids_erase.1 hm).1
    · rw [hid] at hx; exact hi.am _ hx n5
  · intro x hx
    simp only [requeue_aside, visit_aside] at hx
    simp only [List.mem_append, List.mem_cons, List.not_mem_nil, or_false]
    rintro (ht | rfl)
    · exact hi.at' x hx (hsub x ht)
    · rw [hid] at hx; exact hi.am _ hx n5

theorem QInv.step_leave {m : OMap} {ts : List Id} {a : Acc} (hi : QInv m ts a) (price : Nat) (taker : Id) {rem : Nat}
    {o m' ts'} (hp : popLive m ts = some (o, m', ts')) :
    QInv m' ts' ((a.visit price taker o (matchAgainst o rem)).leave o (matchAgainst o rem).hiddenRed) := by
  obtain ⟨n1, n2, n3, n4, n5, e, hsub, _⟩ := hi.popped hp
  refine ⟨n1, n3, ?_, ?_, by simpa using hi.an⟩
  · intro x hx
    simp only [leave_aside, visit_aside] at hx
    rw [e]; intro hm; exact hi.am x hx (mem_ids_erase.1 hm).1
  · intro x hx
    simp only [leave_aside, visit_aside] at hx
    intro ht; exact hi.at' x hx (hsub x ht)

/-- **the match loop is a sweep of the hand-out queue**: on a level whose ticket queue has no
    duplicate tickets, the loop of `match_order` performs, visit by visit, exactly the abstract queue
    steps `QStep` on the hand-out order — head first; leave, go to the back, or be kept aside -/
theorem C04_loop_sweeps (price : Nat) (taker : Id) (rem0 : Nat) (m0 : OMap) (ts0 : List Id) (a0 : Acc)
    (h0 : QInv m0 ts0 a0) :
    let res := matchLoop price taker rem0 m0 ts0 a0
    QInv res.2.1 res.2.2.1 res.2.2.2 ∧
      QSteps (rem0, liveOrder m0 ts0, a0.aside) (res.1, liveOrder res.2.1 res.2.2.1, res.2.2.2.aside) := by
  have := matchLoop_ind price taker
    (fun rem m ts a => QInv m ts a ∧ QSteps (rem0, liveOrder m0 ts0, a0.aside) (rem, liveOrder m ts, a.aside))
    ?hnone ?haside ?hrequeue ?hleave rem0 m0 ts0 a0 ⟨h0, QSteps.refl _⟩
  · exact this
  case hnone =>
    intro rem m ts a _ hp ⟨hi, hs⟩
    have hl := pop_liveOrder m ts
    rw [hp] at hl
    refine ⟨⟨List.nodup_nil, hi.mn, hi.am, fun _ _ => List.not_mem_nil, hi.an⟩, ?_⟩
    simpa [liveOrder, hl] using hs
  case haside =>
    intro rem m ts a o m' ts' u hz hp hu hs ⟨hi, hst⟩
    obtain ⟨n1, n2, n3, n4, n5, e, hsub, hl⟩ := hi.popped hp
    have hid := (ma_stay o u rem hu).1
    refine ⟨⟨n1, n3, ?_, ?_, ?_⟩, ?_⟩
    · intro x hx
      simp only [Acc.pushAside, visit_aside, ids_append, ids_cons, ids_nil, List.mem_append, List.mem_cons,
        List.not_mem_nil, or_false] at hx
      rcases hx with hx | rfl
      · rw [e]; intro hm; exact hi.am x hx (mem_ids_erase.1 hm).1
      · rw [hid]; exact n4
    · intro x hx
      simp only [Acc.pushAside, visit_aside, ids_append, ids_cons, ids_nil, List.mem_append, List.mem_cons,
        List.not_mem_nil, or_false] at hx
      rcases hx with hx | rfl
      · intro ht; exact hi.at' x hx (hsub x ht)
      · rw [hid]; exact n2
    · simp only [Acc.pushAside, visit_aside, ids_append, ids_cons, ids_nil]
      rw [List.nodup_append]
      refine ⟨hi.an, by simp, ?_⟩
      intro x hx y hy
      simp at hy; subst hy
      intro e2; subst e2
      rw [hid] at hx
      exact hi.am _ hx n5
    · rw [hl] at hst
      have := QSteps.tail hst (QStep.aside rem o u (liveOrder m' ts') a.aside hz hu hs)
      simpa [Acc.pushAside] using this
  case hrequeue =>
    intro rem m ts a o m' ts' u hz hp hu hs ⟨hi, hst⟩
    obtain ⟨n1, n2, n3, n4, n5, e, hsub, hl⟩ := hi.popped hp
    have hid := (ma_stay o u rem hu).1
    have hpush := liveOrder_push_fresh u ts' m' (hid ▸ n2) (hid ▸ n4)
    refine ⟨⟨?_, nodup_insert u n3, ?_, ?_, by simpa using hi.an⟩, ?_⟩
    · rw [List.nodup_append]
      refine ⟨n1, by simp, ?_⟩
      intro x hx y hy; simp at hy; subst hy
      intro e2; subst e2; exact (hid ▸ n2) hx
    · intro x hx
      simp only [requeue_aside, visit_aside] at hx
      rw [ids_insert]
      rintro (hm | rfl)
      · rw [e] at hm; exact hi.am x hx (mem_ids_erase.1 hm).1
      · rw [hid] at hx; exact hi.am _ hx n5
    · intro x hx
      simp only [requeue_aside, visit_aside] at hx
      simp only [List.mem_append, List.mem_cons, List.not_mem_nil, or_false]
      rintro (ht | rfl)
      · exact hi.at' x hx (hsub x ht)
      · rw [hid] at hx; exact hi.am _ hx n5
    · rw [hl] at hst
      have := QSteps.tail hst (QStep.back rem o u (liveOrder m' ts') a.aside hz hu hs)
      simpa [hpush] using this
  case hleave =>
    intro rem m ts a o m' ts' hz hp hu ⟨hi, hst⟩
    obtain ⟨n1, n2, n3, n4, n5, e, hsub, hl⟩ := hi.popped hp
    refine ⟨⟨n1, n3, ?_, ?_, by simpa using hi.an⟩, ?_⟩
    · intro x hx
      simp only [leave_aside, visit_aside] at hx
      rw [e]; intro hm; exact hi.am x hx (mem_ids_erase.1 hm).1
    · intro x hx
      simp only [leave_aside, visit_aside] at hx
      intro ht; exact hi.at' x hx (hsub x ht)
    · rw [hl] at hst
      have := QSteps.tail hst (QStep.leave rem o (liveOrder m' ts') a.aside hz hu)
      simpa using this


/-- re-queueing the set-aside orders appends them, in order, to the hand-out order -/
theorem requeueAside_live (aside : List Order) : ∀ (m : OMap) (ts : List Id),
    (∀ x ∈ ids aside, x ∉ ids m) → (∀ x ∈ ids aside, x ∉ ts) → (ids aside).Nodup →
    liveOrder (requeueAside m ts aside).1 (requeueAside m ts aside).2 = liveOrder m ts ++ aside := by
  induction aside with
  | nil => intro m ts _ _ _; simp [requeueAside]
  | cons o rest ih =>
    intro m ts hm ht hn
    simp only [ids_cons, List.nodup_cons] at hn
    have h1 : o.id ∉ ids m := hm o.id (by simp)
    have h2 : o.id ∉ ts := ht o.id (by simp)
    simp only [requeueAside]
    rw [ih (m.insert o) (ts ++ [o.id]) ?_ ?_ hn.2, liveOrder_push_fresh o ts m h2 h1]
    · simp
    · intro x hx
      rw [ids_insert]
      rintro (hxm | rfl)
      · exact hm x (by simp [hx]) hxm
      · exact hn.1 hx
    · intro x hx
      simp only [List.mem_append, List.mem_cons, List.not_mem_nil, or_false]
      rintro (hxt | rfl)
      · exact ht x (by simp [hx]) hxt
      · exact hn.1 hx

/-- **one whole `match_order` call, composed**: on a well-formed level whose ticket queue holds no
    duplicate tickets, the call walks the hand-out order as a queue (`QSteps`: head first; a visited
    maker leaves, goes to the back, or is kept aside) and afterwards the orders kept aside are at the
    very back, in the order they were stepped over. Together with `C04_partial` this characterises
    the hand-out order after every operation; the deviation from the property is visible in `QStep.back`:
    a partially filled survivor goes to the back (F1) where the property wants it to keep its place. -/
theorem C04_match_composed {l : Level} (hn : l.tickets.Nodup) (hm : (ids l.map).Nodup) (q : Nat) (taker : Id) (g : Nat) :
    ∃ rem' L' aside', QSteps (q, live l, []) (rem', L', aside') ∧ live (l.matchOrder q taker g).1 = L' ++ aside' := by
  have h0 : QInv l.map l.tickets { vis := l.vis, hid := l.hid, cnt := l.cnt, stats := l.stats, g := g } :=
    ⟨hn, hm, by simp, by simp, by simp⟩
  obtain ⟨hi, hs⟩ := C04_loop_sweeps l.price taker q l.map l.tickets _ h0
  refine ⟨_, _, _, hs, ?_⟩
  simp only [live, Level.matchOrder, Level.finishMatch]
  exact requeueAside_live _ _ _ hi.am hi.at' hi.an


/-! ### the full property fails: concrete histories (model = crate, replayed by the corpus) -/

def A : Order := ⟨⟨false, 1⟩, 100, 10, .sell, 1, .gtc, .standard⟩
def B : Order := ⟨⟨false, 2⟩, 100, 10, .sell, 2, .gtc, .standard⟩
def taker : Id := ⟨false, 9⟩

/-- F1: A(10), B(10); match 4 partially fills A; the next match 4 executes against **B**, although
    A arrived first and still displays 6 -/
theorem C04_counterexample_F1 :
    let l0 := (Level.new 100).addOrder A |>.addOrder B
    let l1 := (l0.matchOrder 4 taker 0).1
    (l1.matchOrder 4 taker 1).2.1.txs.map (·.maker) = [B.id] := by
  simp [A, B, taker, Level.new, Level.addOrder, Level.matchOrder, Level.finishMatch, matchLoop, popLive,
    OMap.find, OMap.erase, OMap.insert, matchAgainst, Acc.visit, Acc.requeue, requeueAside, wadd, wsub,
    Stats.recordExec, Side.opposite]

/-- F2: add A, add B, cancel A, add A again; the next match executes against **A**, although B has
    been waiting longer (A landed on its stale ticket) -/
theorem C04_counterexample_F2 :
    let l0 := (Level.new 100).addOrder A |>.addOrder B
    let l1 := (l0.removeOrder A.id).1.addOrder A
    (l1.matchOrder 4 taker 0).2.1.txs.map (·.maker) = [A.id] := by
  simp [A, B, taker, Level.new, Level.addOrder, Level.removeOrder, Level.matchOrder, Level.finishMatch, matchLoop,
    popLive, OMap.find, OMap.erase, OMap.insert, matchAgainst, Acc.visit, Acc.requeue, requeueAside, wadd, wsub,
    Stats.recordExec, Side.opposite]

/-! non-vacuity -/
example : ((Level.new 100).addOrder A).Inv := (Level.inv_new 100).addOrder_inv (by unfold Adm; decide)

end PLV.C04

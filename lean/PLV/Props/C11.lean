/-
  C11 — A restored level trades in the same order as the level it was taken from.
  Property theorems only.

  The full property is FALSE of the crate (and of the model): `C11_counterexample`. A snapshot
  lists the orders by timestamp; a restore queues them in listed order; the original queues them
  in arrival order. Proved (`C11_partial`): the restored level's hand-out order is exactly the
  listing it was built from, so original and restored level trade in the same order *iff* the
  original's hand-out order equals its timestamp-sorted listing at the moment of the snapshot
  (and the continuation does not meet a stale ticket of the original, C04/F2).
  NOT proved: the lifting of "same map and same hand-out order" to equal outputs for every
  continuation (a bisimulation up to the order of the map's entries).
-/
import PLV.Lemmas.Restore
import PLV.Props.C19

namespace PLV.C11
open PLV

def live (l : Level) : List Order := liveOrder l.map l.tickets

/-- the restored level hands its orders out in the order the snapshot lists them -/
theorem C11_restored_order (s : Snapshot) (hg : s.Good) : live (Level.fromSnapshot s) = s.orders := by
  obtain ⟨_, _, _, _, e4, e5⟩ := Level.fromSnapshot_fields s hg
  simp only [live, e4, e5]
  exact (C19.C19_from_vec s.orders hg.nodup).2

/-- **C11_partial**: restoring from the level's own snapshot reproduces the original hand-out
    order exactly when that order was already the timestamp-sorted listing -/
theorem C11_partial {l : Level} (h : l.Inv) :
    live (Level.fromSnapshot l.snapshot) = live l ↔ live l = l.listing := by
  rw [C11_restored_order l.snapshot h.snapshot_good]
  exact ⟨fun e => e.symm, fun e => e.symm⟩

def A : Order := ⟨⟨false, 1⟩, 100, 10, .sell, 5, .gtc, .standard⟩   -- arrives first, timestamp 5
def B : Order := ⟨⟨false, 2⟩, 100, 10, .sell, 3, .gtc, .standard⟩   -- arrives second, timestamp 3
def taker : Id := ⟨false, 9⟩

/-- **the full property fails**: add A (ts 5), add B (ts 3). The original level executes a match of
    4 against A; the level restored from its snapshot executes it against B. -/
theorem C11_counterexample :
    let l := (Level.new 100).addOrder A |>.addOrder B
    (l.matchOrder 4 taker 0).2.1.txs.map (·.maker) = [A.id] ∧
      ((Level.fromSnapshot l.snapshot).matchOrder 4 taker 0).2.1.txs.map (·.maker) = [B.id] := by
  constructor <;>
  simp [A, B, taker, Level.new, Level.addOrder, Level.matchOrder, Level.finishMatch, matchLoop, popLive,
    OMap.find, OMap.erase, OMap.insert, matchAgainst, Acc.visit, Acc.requeue, requeueAside, wadd, wsub,
    Stats.recordExec, Side.opposite, Level.fromSnapshot, Level.snapshot, Level.listing, sortByTs, insertByTs,
    Snapshot.refresh, satFold, sadd, Q.fromVec, Q.push, Order.hid, Kind.hidden]

/-! non-vacuity: a level whose hand-out order is its listing (timestamps in arrival order) -/
example : live ((Level.new 100).addOrder B |>.addOrder A) = ((Level.new 100).addOrder B |>.addOrder A).listing := by
  decide

end PLV.C11

/-
  C11 — A restored level trades in the same order as the level it was taken from.
  Property theorems only.

  The full property is FALSE of the crate (and of the model): `C11_counterexample`. A snapshot
  lists the orders by timestamp; a restore queues them in listed order; the original queues them
  in arrival order. Proved (`C11_partial`): the restored level's hand-out order is exactly the
  listing it was built from, so original and restored level trade in the same order *iff* the
  original's hand-out order equals its timestamp-sorted listing at the moment of the snapshot
  (and the continuation does not meet a stale ticket of the original, C04/F2).
  The lifting to continuations is proved for continuations made of match requests
  (`C11_matches`, via a lockstep bisimulation of the match loop on two ticket queues that hand out
  the same orders in the same order, `loop_sim`, and the irrelevance of the statistics,
  `loop_stats_irrel`): on such a level the restored copy answers every sequence of matches with
  identical transactions, ids, remaining quantities and filled lists. Lifted further to EVERY
  continuation (`C11_continuations`): adds, cancels, quantity amends, price moves, replaces and
  matches in any order and number, under the one proviso that the continuation does not re-add an
  id whose stale ticket the original still queues (that is C04/F2, a known finding). The relation
  used there (`RelQ`: equal maps, ticket queues equal once the tickets of dead ids are deleted)
  tolerates duplicate tickets, which a same-price amend creates on both sides alike.
-/
import PLV.Lemmas.Restore
import PLV.Props.C19
import PLV.Props.C04
import PLV.Props.C10

namespace PLV.C11
open PLV PLV.C04

def live (l : Level) : List Order := liveOrder l.map l.tickets

/-- the restored level hands its orders out in the order the snapshot lists them -/
theorem C11_restored_order (s : Snapshot) (hg : s.Good) : live (Level.fromSnapshot s) = s.orders := by
  obtain ⟨_, _, _, _, e4, e5⟩ := Level.fromSnapshot_fields s hg
  simp only [live, e4, e5]
  exact (C19.C19_from_vec s.orders hg.nodup).2

/-- **C11_partial**: restoring from the level's own snapshot reproduces the original hand-out
    order exactly when that order was already the timestamp-sorted listing -/
theorem C11_partial {l : Level} (h : l.Inv) :
    live (Level.fromSnapshot l.snapshot) = live l ↔ live l = l.listing := by
  rw [C11_restored_order l.snapshot h.snapshot_good]
  exact ⟨fun e => e.symm, fun e => e.symm⟩

/-! ### lifting to continuations of match requests -/

/-- two queue states that hand out the same orders in the same order and agree on every lookup -/
structure SimQ (m1 : OMap) (ts1 : List Id) (m2 : OMap) (ts2 : List Id) : Prop where
  live : liveOrder m1 ts1 = liveOrder m2 ts2
  find : ∀ id, m1.find id = m2.find id

theorem simq_pop {m1 ts1 m2 ts2} (h : SimQ m1 ts1 m2 ts2) :
    (popLive m1 ts1 = none ∧ popLive m2 ts2 = none) ∨
    ∃ o m1' ts1' m2' ts2', popLive m1 ts1 = some (o, m1', ts1') ∧ popLive m2 ts2 = some (o, m2', ts2') ∧
      liveOrder m1' ts1' = liveOrder m2' ts2' ∧ m1' = m1.erase o.id ∧ m2' = m2.erase o.id := by
  have p1 := pop_liveOrder m1 ts1
  have p2 := pop_liveOrder m2 ts2
  cases h1 : popLive m1 ts1 with
  | none =>
    rw [h1] at p1
    cases h2 : popLive m2 ts2 with
    | none => exact Or.inl ⟨rfl, rfl⟩
    | some x =>
      obtain ⟨o, m2', ts2'⟩ := x
      rw [h2] at p2; simp only at p1 p2
      rw [h.live, p2] at p1; simp at p1
  | some x =>
    obtain ⟨o, m1', ts1'⟩ := x
    rw [h1] at p1
    cases h2 : popLive m2 ts2 with
    | none => rw [h2] at p2; simp only at p1 p2; rw [h.live, p2] at p1; simp at p1
    | some y =>
      obtain ⟨o2, m2', ts2'⟩ := y
      rw [h2] at p2; simp only at p1 p2
      rw [h.live, p2] at p1
      simp only [List.cons.injEq] at p1
      obtain ⟨rfl, hl⟩ := p1
      exact Or.inr ⟨_, _, _, _, _, rfl, rfl, hl.symm, (popLive_spec h1).2.1, (popLive_spec h2).2.1⟩


theorem find_erase_agree {m1 m2 : OMap} (h : ∀ id, m1.find id = m2.find id) (t : Id) :
    ∀ id, (m1.erase t).find id = (m2.erase t).find id := by
  intro id
  by_cases e : id = t
  · subst e; rw [find_erase_self, find_erase_self]
  · rw [find_erase_ne e, find_erase_ne e]; exact h id

theorem find_insert_agree {m1 m2 : OMap} (h : ∀ id, m1.find id = m2.find id) (u : Order) :
    ∀ id, (m1.insert u).find id = (m2.insert u).find id := by
  intro id
  by_cases e : id = u.id
  · subst e; rw [find_insert_same, find_insert_same]
  · rw [find_insert_ne e, find_insert_ne e]; exact h id

/-! one-step unfoldings of the match loop, by what `pop` returns -/

theorem matchLoop_zero (price : Nat) (taker : Id) (m : OMap) (ts : List Id) (a : Acc) :
    matchLoop price taker 0 m ts a = (0, m, ts, a) := by
  rw [matchLoop]; simp

theorem matchLoop_none (price : Nat) (taker : Id) (rem : Nat) (m : OMap) (ts : List Id) (a : Acc) (hz : rem ≠ 0)
    (hp : popLive m ts = none) : matchLoop price taker rem m ts a = (rem, m, [], a) := by
  rw [matchLoop]; simp only [dif_neg hz]
  split
  · rfl
  · rename_i o m' ts' heq; rw [hp] at heq; simp at heq

theorem matchLoop_some (price : Nat) (taker : Id) (rem : Nat) (m : OMap) (ts : List Id) (a : Acc) (hz : rem ≠ 0)
    {o : Order} {m' : OMap} {ts' : List Id} (hp : popLive m ts = some (o, m', ts')) :
    matchLoop price taker rem m ts a =
      (match (matchAgainst o rem).updated with
       | some u =>
         if (matchAgainst o rem).consumed = 0 ∧ (matchAgainst o rem).hiddenRed = 0 then
           matchLoop price taker (matchAgainst o rem).remaining m' ts' ((a.visit price taker o (matchAgainst o rem)).pushAside u)
         else
           matchLoop price taker (matchAgainst o rem).remaining (m'.insert u) (ts' ++ [u.id])
             ((a.visit price taker o (matchAgainst o rem)).requeue (matchAgainst o rem).hiddenRed)
       | none =>
         matchLoop price taker (matchAgainst o rem).remaining m' ts'
           ((a.visit price taker o (matchAgainst o rem)).leave o (matchAgainst o rem).hiddenRed)) := by
  rw [matchLoop]; simp only [dif_neg hz]
  split
  · rename_i heq; rw [hp] at heq; simp at heq
  · rename_i o2 m2 ts2 heq
    rw [hp] at heq
    simp only [Option.some.injEq, Prod.mk.injEq] at heq
    obtain ⟨rfl, rfl, rfl⟩ := heq
    split
    · rename_i u hu
      simp only [hu]
      split <;> rfl
    · rename_i hu
      simp only [hu]

/-- **lockstep**: two ticket queues that hand out the same orders in the same order (and have no
    duplicate tickets) take the match loop through the same visits: same remaining quantity, same
    accumulator (transactions, filled ids, counters, statistics, set-aside orders), and they are
    again in the same relation afterwards -/
theorem loop_sim (price : Nat) (taker : Id) (rem : Nat) (m1 : OMap) (ts1 : List Id) (a : Acc) :
    ∀ (m2 : OMap) (ts2 : List Id), SimQ m1 ts1 m2 ts2 → QInv m1 ts1 a → QInv m2 ts2 a →
      (matchLoop price taker rem m1 ts1 a).1 = (matchLoop price taker rem m2 ts2 a).1 ∧
      (matchLoop price taker rem m1 ts1 a).2.2.2 = (matchLoop price taker rem m2 ts2 a).2.2.2 ∧
      SimQ (matchLoop price taker rem m1 ts1 a).2.1 (matchLoop price taker rem m1 ts1 a).2.2.1
        (matchLoop price taker rem m2 ts2 a).2.1 (matchLoop price taker rem m2 ts2 a).2.2.1 := by
  fun_induction matchLoop price taker rem m1 ts1 a with
  | case1 m1 ts1 a =>
    intro m2 ts2 hs _ _
    rw [matchLoop_zero]
    exact ⟨rfl, rfl, hs⟩
  | case2 rem m1 ts1 a hz hp =>
    intro m2 ts2 hs _ _
    rcases simq_pop hs with ⟨_, h2⟩ | ⟨o, _, _, _, _, h1, _⟩
    · rw [matchLoop_none _ _ _ _ _ _ hz h2]
      exact ⟨rfl, rfl, ⟨by simp [liveOrder], hs.find⟩⟩
    · rw [hp] at h1; simp at h1
  | case3 rem m1 ts1 a hz o m1' ts1' hp r a2 u hu hs' ih =>
    intro m2 ts2 hs hi1 hi2
    rcases simq_pop hs with ⟨h1, _⟩ | ⟨o2, m1x, ts1x, m2', ts2', h1, h2, hl, e1, e2⟩
    · rw [hp] at h1; simp at h1
    · rw [hp] at h1; simp only [Option.some.injEq, Prod.mk.injEq] at h1
      obtain ⟨rfl, rfl, rfl⟩ := h1
      rw [matchLoop_some _ _ _ _ _ _ hz h2]
      simp only [show (matchAgainst o rem).updated = some u from hu]
      rw [if_pos (show (matchAgainst o rem).consumed = 0 ∧ (matchAgainst o rem).hiddenRed = 0 from hs')]
      have hq1 := (hi1.step_aside price taker hp hu)
      have hq2 := (hi2.step_aside price taker h2 hu)
      exact ih m2' ts2' ⟨hl, by rw [e1, e2]; exact find_erase_agree hs.find _⟩ hq1 hq2
  | case4 rem m1 ts1 a hz o m1' ts1' hp r a2 u hu hs' ih =>
    intro m2 ts2 hs hi1 hi2
    rcases simq_pop hs with ⟨h1, _⟩ | ⟨o2, m1x, ts1x, m2', ts2', h1, h2, hl, e1, e2⟩
    · rw [hp] at h1; simp at h1
    · rw [hp] at h1; simp only [Option.some.injEq, Prod.mk.injEq] at h1
      obtain ⟨rfl, rfl, rfl⟩ := h1
      rw [matchLoop_some _ _ _ _ _ _ hz h2]
      simp only [show (matchAgainst o rem).updated = some u from hu]
      rw [if_neg (show ¬ ((matchAgainst o rem).consumed = 0 ∧ (matchAgainst o rem).hiddenRed = 0) from hs')]
      have hq1 := (hi1.step_back price taker hp hu)
      have hq2 := (hi2.step_back price taker h2 hu)
      obtain ⟨n1, n2, n3, n4, _, _, _, _⟩ := hi1.popped hp
      obtain ⟨k1, k2, k3, k4, _, _, _, _⟩ := hi2.popped h2
      have hid := (ma_stay o u rem hu).1
      refine ih (m2'.insert u) (ts2' ++ [u.id]) ⟨?_, ?_⟩ hq1 hq2
      · rw [liveOrder_push_fresh u ts1' m1' (hid ▸ n2) (hid ▸ n4), liveOrder_push_fresh u ts2' m2' (hid ▸ k2) (hid ▸ k4), hl]
      · rw [e1, e2]; exact find_insert_agree (find_erase_agree hs.find _) u
  | case5 rem m1 ts1 a hz o m1' ts1' hp r a2 hu ih =>
    intro m2 ts2 hs hi1 hi2
    rcases simq_pop hs with ⟨h1, _⟩ | ⟨o2, m1x, ts1x, m2', ts2', h1, h2, hl, e1, e2⟩
    · rw [hp] at h1; simp at h1
    · rw [hp] at h1; simp only [Option.some.injEq, Prod.mk.injEq] at h1
      obtain ⟨rfl, rfl, rfl⟩ := h1
      rw [matchLoop_some _ _ _ _ _ _ hz h2]
      simp only [show (matchAgainst o rem).updated = none from hu]
      have hq1 := (hi1.step_leave price taker (rem := rem) hp)
      have hq2 := (hi2.step_leave price taker (rem := rem) h2)
      exact ih m2' ts2' ⟨hl, by rw [e1, e2]; exact find_erase_agree hs.find _⟩ hq1 hq2


theorem visit_with_stats (a : Acc) (s' : Stats) (p : Nat) (t : Id) (o : Order) (r : MatchOut) :
    ({ a with stats := s' } : Acc).visit p t o r = { a.visit p t o r with stats := s'.recordExec r.consumed o.price } := by
  by_cases h : r.consumed > 0 <;> simp [Acc.visit, h]

theorem requeue_with_stats (a : Acc) (s' : Stats) (hr : Nat) :
    ({ a with stats := s' } : Acc).requeue hr = { a.requeue hr with stats := s' } := by
  by_cases h : hr > 0 <;> simp [Acc.requeue, h]

/-- the statistics never influence a match: same loop, other statistics, same everything else -/
theorem loop_stats_irrel (price : Nat) (taker : Id) (rem : Nat) (m : OMap) (ts : List Id) (a : Acc) :
    ∀ (s' : Stats), ∃ s'',
      matchLoop price taker rem m ts { a with stats := s' } =
        ((matchLoop price taker rem m ts a).1, (matchLoop price taker rem m ts a).2.1, (matchLoop price taker rem m ts a).2.2.1,
          { (matchLoop price taker rem m ts a).2.2.2 with stats := s'' }) := by
  fun_induction matchLoop price taker rem m ts a with
  | case1 m ts a => intro s'; exact ⟨s', by rw [matchLoop_zero]⟩
  | case2 rem m ts a hz hp => intro s'; exact ⟨s', by rw [matchLoop_none _ _ _ _ _ _ hz hp]⟩
  | case3 rem m ts a hz o m' ts' hp r a2 u hu hs ih =>
    intro s'
    obtain ⟨s'', h⟩ := ih (s'.recordExec (matchAgainst o rem).consumed o.price)
    refine ⟨s'', ?_⟩
    rw [matchLoop_some _ _ _ _ _ _ hz hp]
    simp only [show (matchAgainst o rem).updated = some u from hu]
    rw [if_pos (show (matchAgainst o rem).consumed = 0 ∧ (matchAgainst o rem).hiddenRed = 0 from hs), visit_with_stats]
    exact h
  | case4 rem m ts a hz o m' ts' hp r a2 u hu hs ih =>
    intro s'
    obtain ⟨s'', h⟩ := ih (s'.recordExec (matchAgainst o rem).consumed o.price)
    refine ⟨s'', ?_⟩
    rw [matchLoop_some _ _ _ _ _ _ hz hp]
    simp only [show (matchAgainst o rem).updated = some u from hu]
    rw [if_neg (show ¬ ((matchAgainst o rem).consumed = 0 ∧ (matchAgainst o rem).hiddenRed = 0) from hs), visit_with_stats,
      requeue_with_stats]
    exact h
  | case5 rem m ts a hz o m' ts' hp r a2 hu ih =>
    intro s'
    obtain ⟨s'', h⟩ := ih (s'.recordExec (matchAgainst o rem).consumed o.price)
    refine ⟨s'', ?_⟩
    rw [matchLoop_some _ _ _ _ _ _ hz hp]
    simp only [show (matchAgainst o rem).updated = none from hu]
    rw [visit_with_stats]
    exact h


theorem requeueAside_nodup (aside : List Order) : ∀ (m : OMap) (ts : List Id),
    (∀ x ∈ ids aside, x ∉ ids m) → (∀ x ∈ ids aside, x ∉ ts) → (ids aside).Nodup → ts.Nodup → (ids m).Nodup →
    (requeueAside m ts aside).2.Nodup ∧ (ids (requeueAside m ts aside).1).Nodup := by
  induction aside with
  | nil => intro m ts _ _ _ t n; exact ⟨t, n⟩
  | cons o rest ih =>
    intro m ts a b hn t n
    simp only [ids_cons, List.nodup_cons] at hn
    simp only [requeueAside]
    apply ih (m.insert o) (ts ++ [o.id])
    · intro x hx; rw [ids_insert]; rintro (h | rfl)
      · exact a x (by simp [hx]) h
      · exact hn.1 hx
    · intro x hx; simp only [List.mem_append, List.mem_cons, List.not_mem_nil, or_false]; rintro (h | rfl)
      · exact b x (by simp [hx]) h
      · exact hn.1 hx
    · exact hn.2
    · rw [List.nodup_append]; exact ⟨t, by simp, by intro x hx y hy; simp at hy; subst hy; intro e; subst e; exact b _ (by simp) hx⟩
    · exact nodup_insert o n

/-- re-queueing the same set-aside orders keeps two queues in the relation, without duplicate tickets -/
theorem requeueAside_sim (aside : List Order) : ∀ (m1 : OMap) (ts1 : List Id) (m2 : OMap) (ts2 : List Id),
    SimQ m1 ts1 m2 ts2 →
    (∀ x ∈ ids aside, x ∉ ids m1) → (∀ x ∈ ids aside, x ∉ ts1) → (∀ x ∈ ids aside, x ∉ ids m2) → (∀ x ∈ ids aside, x ∉ ts2) →
    (ids aside).Nodup → ts1.Nodup → ts2.Nodup → (ids m1).Nodup → (ids m2).Nodup →
    SimQ (requeueAside m1 ts1 aside).1 (requeueAside m1 ts1 aside).2 (requeueAside m2 ts2 aside).1 (requeueAside m2 ts2 aside).2 ∧
      (requeueAside m1 ts1 aside).2.Nodup ∧ (requeueAside m2 ts2 aside).2.Nodup ∧
      (ids (requeueAside m1 ts1 aside).1).Nodup ∧ (ids (requeueAside m2 ts2 aside).1).Nodup := by
  intro m1 ts1 m2 ts2 hs a1 b1 a2 b2 hn t1 t2 n1 n2
  have l1 := requeueAside_live aside m1 ts1 a1 b1 hn
  have l2 := requeueAside_live aside m2 ts2 a2 b2 hn
  refine ⟨⟨by rw [l1, l2, hs.live], ?_⟩, ?_, ?_, ?_, ?_⟩
  · clear l1 l2
    induction aside generalizing m1 ts1 m2 ts2 with
    | nil => simpa [requeueAside] using hs.find
    | cons o rest ih =>
      simp only [ids_cons, List.nodup_cons] at hn
      simp only [requeueAside]
      apply ih (m1.insert o) (ts1 ++ [o.id]) (m2.insert o) (ts2 ++ [o.id])
      · exact ⟨by
          rw [liveOrder_push_fresh o ts1 m1 (b1 _ (by simp)) (a1 _ (by simp)),
            liveOrder_push_fresh o ts2 m2 (b2 _ (by simp)) (a2 _ (by simp)), hs.live], find_insert_agree hs.find o⟩
      · intro x hx; rw [ids_insert]; rintro (h | rfl)
        · exact a1 x (by simp [hx]) h
        · exact hn.1 hx
      · intro x hx; simp only [List.mem_append, List.mem_cons, List.not_mem_nil, or_false]; rintro (h | rfl)
        · exact b1 x (by simp [hx]) h
        · exact hn.1 hx
      · intro x hx; rw [ids_insert]; rintro (h | rfl)
        · exact a2 x (by simp [hx]) h
        · exact hn.1 hx
      · intro x hx; simp only [List.mem_append, List.mem_cons, List.not_mem_nil, or_false]; rintro (h | rfl)
        · exact b2 x (by simp [hx]) h
        · exact hn.1 hx
      · exact hn.2
      · rw [List.nodup_append]; exact ⟨t1, by simp, by intro x hx y hy; simp at hy; subst hy; intro e; subst e; exact b1 _ (by simp) hx⟩
      · rw [List.nodup_append]; exact ⟨t2, by simp, by intro x hx y hy; simp at hy; subst hy; intro e; subst e; exact b2 _ (by simp) hx⟩
      · exact nodup_insert o n1
      · exact nodup_insert o n2
  · exact (requeueAside_nodup aside m1 ts1 a1 b1 hn t1 n1).1
  · exact (requeueAside_nodup aside m2 ts2 a2 b2 hn t2 n2).1
  · exact (requeueAside_nodup aside m1 ts1 a1 b1 hn t1 n1).2
  · exact (requeueAside_nodup aside m2 ts2 a2 b2 hn t2 n2).2


/-- two levels that a trader cannot tell apart: same price and aggregates, the same orders under
    every id, the same hand-out order, no duplicate tickets -/
structure LSim (l1 l2 : Level) : Prop where
  price : l1.price = l2.price
  vis : l1.vis = l2.vis
  hid : l1.hid = l2.hid
  cnt : l1.cnt = l2.cnt
  q : SimQ l1.map l1.tickets l2.map l2.tickets
  t1 : l1.tickets.Nodup
  t2 : l2.tickets.Nodup
  n1 : (ids l1.map).Nodup
  n2 : (ids l2.map).Nodup

/-- **one match on indistinguishable levels**: the same match result (transactions with their ids,
    makers, quantities; remaining quantity; completion flag; filled ids), the same generator counter
    afterwards, and the levels are indistinguishable again -/
theorem match_sim {l1 l2 : Level} (h : LSim l1 l2) (q : Nat) (taker : Id) (g : Nat) :
    (l1.matchOrder q taker g).2 = (l2.matchOrder q taker g).2 ∧
      LSim (l1.matchOrder q taker g).1 (l2.matchOrder q taker g).1 := by
  let a1 : Acc := { vis := l1.vis, hid := l1.hid, cnt := l1.cnt, stats := l1.stats, g := g }
  have ha2 : ({ vis := l2.vis, hid := l2.hid, cnt := l2.cnt, stats := l2.stats, g := g } : Acc) = { a1 with stats := l2.stats } := by
    simp [a1, h.vis, h.hid, h.cnt]
  have hi1 : QInv l1.map l1.tickets a1 := ⟨h.t1, h.n1, by simp [a1], by simp [a1], by simp [a1]⟩
  have hi2 : QInv l2.map l2.tickets a1 := ⟨h.t2, h.n2, by simp [a1], by simp [a1], by simp [a1]⟩
  obtain ⟨e1, e2, e3⟩ := loop_sim l1.price taker q l1.map l1.tickets a1 l2.map l2.tickets h.q hi1 hi2
  obtain ⟨s'', hirr⟩ := loop_stats_irrel l1.price taker q l2.map l2.tickets a1 l2.stats
  obtain ⟨q1, _⟩ := C04_loop_sweeps l1.price taker q l1.map l1.tickets a1 hi1
  obtain ⟨q2, _⟩ := C04_loop_sweeps l1.price taker q l2.map l2.tickets a1 hi2
  have hrq := requeueAside_sim (matchLoop l1.price taker q l1.map l1.tickets a1).2.2.2.aside _ _ _ _ e3
    q1.am q1.at' (e2 ▸ q2.am) (e2 ▸ q2.at') q1.an q1.tn q2.tn q1.mn q2.mn
  have hR2 : matchLoop l2.price taker q l2.map l2.tickets { vis := l2.vis, hid := l2.hid, cnt := l2.cnt, stats := l2.stats, g := g } =
      ((matchLoop l1.price taker q l2.map l2.tickets a1).1, (matchLoop l1.price taker q l2.map l2.tickets a1).2.1,
        (matchLoop l1.price taker q l2.map l2.tickets a1).2.2.1,
        { (matchLoop l1.price taker q l2.map l2.tickets a1).2.2.2 with stats := s'' }) := by
    rw [← h.price, ha2]; exact hirr
  generalize hA : matchLoop l1.price taker q l1.map l1.tickets a1 = R1 at e1 e2 e3 q1 hrq
  generalize hB : matchLoop l1.price taker q l2.map l2.tickets a1 = R2 at e1 e2 e3 q2 hrq hR2
  have hm1 : l1.matchOrder q taker g = l1.finishMatch taker R1 := by simp only [Level.matchOrder]; rw [hA]
  have hm2 : l2.matchOrder q taker g = l2.finishMatch taker (R2.1, R2.2.1, R2.2.2.1, { R2.2.2.2 with stats := s'' }) := by
    simp only [Level.matchOrder]; rw [hR2]
  rw [hm1, hm2]
  obtain ⟨r1, m1', t1', ac1⟩ := R1
  obtain ⟨r2, m2', t2', ac2⟩ := R2
  simp only at e1 e2 e3 hrq
  subst e1; subst e2
  refine ⟨?_, ?_⟩
  · simp only [Level.finishMatch]
  · simp only [Level.finishMatch]
    exact ⟨h.price, rfl, rfl, rfl, hrq.1, hrq.2.1, hrq.2.2.1, hrq.2.2.2.1, hrq.2.2.2.2⟩


theorem fromVec_tickets (os : List Order) : (Q.fromVec os).tickets = ids os := by
  have gen : ∀ (os : List Order) (q : Q), (os.foldl Q.push q).tickets = q.tickets ++ ids os := by
    intro os
    induction os with
    | nil => intro q; simp
    | cons o rest ih => intro q; rw [List.foldl_cons, ih]; simp [Q.push]
  simpa [Q.fromVec] using gen os {}

/-- a continuation made of match requests: quantity, taker id -/
def runMatches (l : Level) (g : Nat) : List (Nat × Id) → List MatchResult × Level × Nat
  | [] => ([], l, g)
  | (q, t) :: rest =>
    let r := l.matchOrder q t g
    let rr := runMatches r.1 r.2.2 rest
    (r.2.1 :: rr.1, rr.2.1, rr.2.2)

/-- **every continuation of matches**: indistinguishable levels answer every sequence of match
    requests identically — transaction by transaction, id by id -/
theorem matches_sim : ∀ (reqs : List (Nat × Id)) {l1 l2 : Level} (_ : LSim l1 l2) (g : Nat),
    (runMatches l1 g reqs).1 = (runMatches l2 g reqs).1 ∧ (runMatches l1 g reqs).2.2 = (runMatches l2 g reqs).2.2
  | [], _, _, _, _ => ⟨rfl, rfl⟩
  | (q, t) :: rest, l1, l2, h, g => by
    obtain ⟨e, hs⟩ := match_sim h q t g
    have e1 : (l1.matchOrder q t g).2.1 = (l2.matchOrder q t g).2.1 := congrArg Prod.fst e
    have e2 : (l1.matchOrder q t g).2.2 = (l2.matchOrder q t g).2.2 := congrArg Prod.snd e
    have ih := matches_sim rest hs (l1.matchOrder q t g).2.2
    simp only [runMatches]
    rw [e1, ← e2]
    exact ⟨by rw [ih.1], ih.2⟩

/-- **C11 for the levels where it holds**: if the original's hand-out order is its timestamp-sorted
    listing at the moment of the snapshot (and its ticket queue holds no duplicate tickets), then the
    level restored from the snapshot answers every continuation of match requests exactly as the
    original does -/
theorem C11_matches {l : Level} (h : l.Inv) (ht : l.tickets.Nodup) (hl : live l = l.listing)
    (reqs : List (Nat × Id)) (g : Nat) :
    (runMatches (Level.fromSnapshot l.snapshot) g reqs).1 = (runMatches l g reqs).1 := by
  have hg := h.snapshot_good
  obtain ⟨e0, e1, e2, e3, e4, e5⟩ := Level.fromSnapshot_fields l.snapshot hg
  have hrt := C10.C10_snapshot_roundtrip h
  have hsim : LSim (Level.fromSnapshot l.snapshot) l := by
    refine ⟨hrt.1, hrt.2.2.2.1, hrt.2.2.2.2.1, hrt.2.2.2.2.2.1, ⟨?_, hrt.2.2.1⟩, ?_, ht, hrt.2.2.2.2.2.2.nodup, h.nodup⟩
    · exact (C11_partial h).2 hl
    · rw [e5, fromVec_tickets]; exact hg.nodup
  exact (matches_sim reqs hsim g).1


def A : Order := ⟨⟨false, 1⟩, 100, 10, .sell, 5, .gtc, .standard⟩   -- arrives first, timestamp 5
def B : Order := ⟨⟨false, 2⟩, 100, 10, .sell, 3, .gtc, .standard⟩   -- arrives second, timestamp 3
def taker : Id := ⟨false, 9⟩

/-- **the full property fails**: add A (ts 5), add B (ts 3). The original level executes a match of
    4 against A; the level restored from its snapshot executes it against B. -/
theorem C11_counterexample :
    let l := (Level.new 100).addOrder A |>.addOrder B
    (l.matchOrder 4 taker 0).2.1.txs.map (·.maker) = [A.id] ∧
      ((Level.fromSnapshot l.snapshot).matchOrder 4 taker 0).2.1.txs.map (·.maker) = [B.id] := by
  constructor <;>
  simp [A, B, taker, Level.new, Level.addOrder, Level.matchOrder, Level.finishMatch, matchLoop, popLive,
    OMap.find, OMap.erase, OMap.insert, matchAgainst, Acc.visit, Acc.requeue, requeueAside, wadd, wsub,
    Stats.recordExec, Side.opposite, Level.fromSnapshot, Level.snapshot, Level.listing, sortByTs, insertByTs,
    Snapshot.refresh, satFold, sadd, Q.fromVec, Q.push, Order.hid, Kind.hidden]

/-! non-vacuity: a level whose hand-out order is its listing (timestamps in arrival order) -/
example : live ((Level.new 100).addOrder B |>.addOrder A) = ((Level.new 100).addOrder B |>.addOrder A).listing := by
  decide


/-! ### lifting to every continuation: adds, cancels, amends, price moves, replaces and matches

  The relation used for matches only (`SimQ`, no duplicate tickets) does not survive a same-price
  amend, which appends a second ticket for the amended id. The relation below does: the two ticket
  queues are equal as lists once the tickets of a fixed set `D` of ids are deleted, where `D` holds
  ids that are in neither map and that the continuation never adds — their tickets are skipped by
  every `pop` for good. Duplicate tickets outside `D` are allowed (they are the same on both sides). -/

/-- ids in `D` are dead for good: absent from the maps; the ticket queues agree up to their tickets -/
structure RelQ (D : Id → Bool) (m1 : OMap) (ts1 : List Id) (m2 : OMap) (ts2 : List Id) : Prop where
  find : ∀ id, m1.find id = m2.find id
  dead : ∀ id, D id = true → m1.find id = none
  tick : ts1.filter (fun id => !D id) = ts2.filter (fun id => !D id)

theorem popLive_skip (m : OMap) (pre ts : List Id) (h : ∀ x ∈ pre, m.find x = none) :
    popLive m (pre ++ ts) = popLive m ts := by
  induction pre with
  | nil => rfl
  | cons x rest ih =>
    have hx := h x (by simp)
    simp only [List.cons_append, popLive, hx]
    exact ih (fun y hy => h y (by simp [hy]))

theorem popLive_all_dead (m : OMap) (ts : List Id) (h : ∀ x ∈ ts, m.find x = none) : popLive m ts = none := by
  have := popLive_skip m ts [] h
  simpa [popLive] using this

theorem find_erase_none {m : OMap} {id : Id} (h : m.find id = none) (t : Id) : (m.erase t).find id = none := by
  by_cases e : id = t
  · subst e; exact find_erase_self m id
  · rw [find_erase_ne e]; exact h

theorem filter_split (p : Id → Bool) (t : Id) (rest : List Id) : ∀ (ts : List Id), ts.filter p = t :: rest →
    ∃ pre post, ts = pre ++ t :: post ∧ (∀ x ∈ pre, p x = false) ∧ post.filter p = rest := by
  intro ts
  induction ts with
  | nil => intro h; simp at h
  | cons x xs ih =>
    intro h
    by_cases hx : p x = true
    · rw [List.filter_cons_of_pos hx] at h
      simp only [List.cons.injEq] at h
      obtain ⟨rfl, h2⟩ := h
      exact ⟨[], xs, rfl, by simp, h2⟩
    · have hx' : p x = false := by simpa using hx
      rw [List.filter_cons_of_neg (by simp [hx'])] at h
      obtain ⟨pre, post, e, hp, hf⟩ := ih h
      refine ⟨x :: pre, post, by simp [e], ?_, hf⟩
      intro y hy
      simp only [List.mem_cons] at hy
      rcases hy with rfl | hy
      · exact hx'
      · exact hp y hy

/-- `pop` on two related queues: both empty-handed, or the same order, and related tickets remain -/
theorem pop_rel (D : Id → Bool) (m1 m2 : OMap) (hf : ∀ id, m1.find id = m2.find id)
    (hd : ∀ id, D id = true → m1.find id = none) :
    ∀ (ts1 ts2 : List Id), ts1.filter (fun id => !D id) = ts2.filter (fun id => !D id) →
    (popLive m1 ts1 = none ∧ popLive m2 ts2 = none) ∨
    ∃ o ts1' ts2', popLive m1 ts1 = some (o, m1.erase o.id, ts1') ∧ popLive m2 ts2 = some (o, m2.erase o.id, ts2') ∧
      ts1'.filter (fun id => !D id) = ts2'.filter (fun id => !D id) ∧ D o.id = false := by
  intro ts1
  induction ts1 with
  | nil =>
    intro ts2 h
    left
    refine ⟨rfl, popLive_all_dead m2 ts2 ?_⟩
    intro x hx
    have : x ∉ ts2.filter (fun id => !D id) := by rw [← h]; simp
    have hDx : D x = true := by
      cases hv : D x with
      | true => rfl
      | false => exact absurd (List.mem_filter.2 ⟨hx, by simp [hv]⟩) this
    rw [← hf]; exact hd x hDx
  | cons t r ih =>
    intro ts2 h
    cases hD : D t with
    | true =>
      have hn := hd t hD
      have e1 : popLive m1 (t :: r) = popLive m1 r := by simp [popLive, hn]
      rw [e1]
      refine ih ts2 ?_
      rw [← h, List.filter_cons_of_neg (by simp [hD])]
    | false =>
      rw [List.filter_cons_of_pos (by simp [hD])] at h
      obtain ⟨pre, post, e, hp, hfl⟩ := filter_split _ t _ ts2 h.symm
      have hpre : ∀ x ∈ pre, m2.find x = none := by
        intro x hx
        have := hp x hx
        rw [← hf]; exact hd x (by simpa using this)
      have e2 : popLive m2 ts2 = popLive m2 (t :: post) := by rw [e]; exact popLive_skip m2 pre _ hpre
      rw [e2]
      cases h1 : m1.find t with
      | none =>
        have h2 : m2.find t = none := by rw [← hf]; exact h1
        have a1 : popLive m1 (t :: r) = popLive m1 r := by simp [popLive, h1]
        have a2 : popLive m2 (t :: post) = popLive m2 post := by simp [popLive, h2]
        rw [a1, a2]
        exact ih post hfl.symm
      | some o =>
        have h2 : m2.find t = some o := by rw [← hf]; exact h1
        have hid : o.id = t := (find_some h1).2
        right
        refine ⟨o, r, post, ?_, ?_, hfl.symm, by rw [hid]; exact hD⟩
        · simp [popLive, h1, hid]
        · simp [popLive, h2, hid]

theorem relq_erase {D m1 ts1 m2 ts2} (h : RelQ D m1 ts1 m2 ts2) (t : Id) {ts1' ts2' : List Id}
    (ht : ts1'.filter (fun id => !D id) = ts2'.filter (fun id => !D id)) :
    RelQ D (m1.erase t) ts1' (m2.erase t) ts2' :=
  ⟨find_erase_agree h.find t, fun id hid => find_erase_none (h.dead id hid) t, ht⟩

theorem relq_push {D m1 ts1 m2 ts2} (h : RelQ D m1 ts1 m2 ts2) (u : Order) (hu : D u.id = false) :
    RelQ D (m1.insert u) (ts1 ++ [u.id]) (m2.insert u) (ts2 ++ [u.id]) := by
  refine ⟨find_insert_agree h.find u, ?_, ?_⟩
  · intro id hid
    have hne : id ≠ u.id := by intro e; rw [e, hu] at hid; cases hid
    rw [find_insert_ne hne]; exact h.dead id hid
  · rw [List.filter_append, List.filter_append, h.tick]

theorem visit_aside (a : Acc) (p : Nat) (t : Id) (o : Order) (r : MatchOut) : (a.visit p t o r).aside = a.aside := by
  unfold Acc.visit; split <;> rfl

theorem requeue_aside (a : Acc) (hr : Nat) : (a.requeue hr).aside = a.aside := by
  unfold Acc.requeue; split <;> rfl

theorem leave_aside (a : Acc) (o : Order) (hr : Nat) : (a.leave o hr).aside = a.aside := rfl

/-- **lockstep, with duplicate and dead tickets allowed**: related queues take the match loop through
    the same visits and stay related; every order set aside has an id outside `D` -/
theorem loop_rel (D : Id → Bool) (price : Nat) (taker : Id) (rem : Nat) (m1 : OMap) (ts1 : List Id) (a : Acc) :
    ∀ (m2 : OMap) (ts2 : List Id), RelQ D m1 ts1 m2 ts2 → (∀ u ∈ a.aside, D u.id = false) →
      (matchLoop price taker rem m1 ts1 a).1 = (matchLoop price taker rem m2 ts2 a).1 ∧
      (matchLoop price taker rem m1 ts1 a).2.2.2 = (matchLoop price taker rem m2 ts2 a).2.2.2 ∧
      RelQ D (matchLoop price taker rem m1 ts1 a).2.1 (matchLoop price taker rem m1 ts1 a).2.2.1
        (matchLoop price taker rem m2 ts2 a).2.1 (matchLoop price taker rem m2 ts2 a).2.2.1 ∧
      (∀ u ∈ (matchLoop price taker rem m1 ts1 a).2.2.2.aside, D u.id = false) := by
  fun_induction matchLoop price taker rem m1 ts1 a with
  | case1 m1 ts1 a =>
    intro m2 ts2 hs ha
    rw [matchLoop_zero]
    exact ⟨rfl, rfl, hs, ha⟩
  | case2 rem m1 ts1 a hz hp =>
    intro m2 ts2 hs ha
    rcases pop_rel D m1 m2 hs.find hs.dead ts1 ts2 hs.tick with ⟨_, h2⟩ | ⟨o, _, _, h1, _⟩
    · rw [matchLoop_none _ _ _ _ _ _ hz h2]
      exact ⟨rfl, rfl, ⟨hs.find, hs.dead, rfl⟩, ha⟩
    · rw [hp] at h1; simp at h1
  | case3 rem m1 ts1 a hz o m1' ts1' hp r a2 u hu hs' ih =>
    intro m2 ts2 hs ha
    rcases pop_rel D m1 m2 hs.find hs.dead ts1 ts2 hs.tick with ⟨h1, _⟩ | ⟨o2, t1x, ts2', h1, h2, hl, hDo⟩
    · rw [hp] at h1; simp at h1
    · rw [hp] at h1; simp only [Option.some.injEq, Prod.mk.injEq] at h1
      obtain ⟨rfl, rfl, rfl⟩ := h1
      rw [matchLoop_some _ _ _ _ _ _ hz h2]
      simp only [show (matchAgainst o rem).updated = some u from hu]
      rw [if_pos (show (matchAgainst o rem).consumed = 0 ∧ (matchAgainst o rem).hiddenRed = 0 from hs')]
      refine ih (m2.erase o.id) ts2' (relq_erase hs o.id hl) ?_
      intro x hx
      simp only [Acc.pushAside, List.mem_append, List.mem_singleton] at hx
      rcases hx with hx | rfl
      · rw [visit_aside] at hx; exact ha x hx
      · rw [(ma_stay o x rem hu).1]; exact hDo
  | case4 rem m1 ts1 a hz o m1' ts1' hp r a2 u hu hs' ih =>
    intro m2 ts2 hs ha
    rcases pop_rel D m1 m2 hs.find hs.dead ts1 ts2 hs.tick with ⟨h1, _⟩ | ⟨o2, t1x, ts2', h1, h2, hl, hDo⟩
    · rw [hp] at h1; simp at h1
    · rw [hp] at h1; simp only [Option.some.injEq, Prod.mk.injEq] at h1
      obtain ⟨rfl, rfl, rfl⟩ := h1
      rw [matchLoop_some _ _ _ _ _ _ hz h2]
      simp only [show (matchAgainst o rem).updated = some u from hu]
      rw [if_neg (show ¬ ((matchAgainst o rem).consumed = 0 ∧ (matchAgainst o rem).hiddenRed = 0) from hs')]
      have hDu : D u.id = false := by rw [(ma_stay o u rem hu).1]; exact hDo
      refine ih ((m2.erase o.id).insert u) (ts2' ++ [u.id]) (relq_push (relq_erase hs o.id hl) u hDu) ?_
      intro x hx
      rw [requeue_aside, visit_aside] at hx; exact ha x hx
  | case5 rem m1 ts1 a hz o m1' ts1' hp r a2 hu ih =>
    intro m2 ts2 hs ha
    rcases pop_rel D m1 m2 hs.find hs.dead ts1 ts2 hs.tick with ⟨h1, _⟩ | ⟨o2, t1x, ts2', h1, h2, hl, hDo⟩
    · rw [hp] at h1; simp at h1
    · rw [hp] at h1; simp only [Option.some.injEq, Prod.mk.injEq] at h1
      obtain ⟨rfl, rfl, rfl⟩ := h1
      rw [matchLoop_some _ _ _ _ _ _ hz h2]
      simp only [show (matchAgainst o rem).updated = none from hu]
      refine ih (m2.erase o.id) ts2' (relq_erase hs o.id hl) ?_
      intro x hx
      rw [leave_aside, visit_aside] at hx; exact ha x hx

theorem requeueAside_rel (D : Id → Bool) (aside : List Order) : ∀ (m1 : OMap) (ts1 : List Id) (m2 : OMap) (ts2 : List Id),
    RelQ D m1 ts1 m2 ts2 → (∀ u ∈ aside, D u.id = false) →
    RelQ D (requeueAside m1 ts1 aside).1 (requeueAside m1 ts1 aside).2 (requeueAside m2 ts2 aside).1 (requeueAside m2 ts2 aside).2 := by
  induction aside with
  | nil => intro m1 ts1 m2 ts2 h _; simpa [requeueAside] using h
  | cons o rest ih =>
    intro m1 ts1 m2 ts2 h ha
    simp only [requeueAside]
    exact ih _ _ _ _ (relq_push h o (ha o (by simp))) (fun u hu => ha u (by simp [hu]))

/-- two levels no sequence of operations avoiding `D` can tell apart (statistics aside) -/
structure LRel (D : Id → Bool) (l1 l2 : Level) : Prop where
  price : l1.price = l2.price
  vis : l1.vis = l2.vis
  hid : l1.hid = l2.hid
  cnt : l1.cnt = l2.cnt
  q : RelQ D l1.map l1.tickets l2.map l2.tickets

theorem match_rel {D : Id → Bool} {l1 l2 : Level} (h : LRel D l1 l2) (q : Nat) (taker : Id) (g : Nat) :
    (l1.matchOrder q taker g).2 = (l2.matchOrder q taker g).2 ∧
      LRel D (l1.matchOrder q taker g).1 (l2.matchOrder q taker g).1 := by
  let a1 : Acc := { vis := l1.vis, hid := l1.hid, cnt := l1.cnt, stats := l1.stats, g := g }
  have ha2 : ({ vis := l2.vis, hid := l2.hid, cnt := l2.cnt, stats := l2.stats, g := g } : Acc) = { a1 with stats := l2.stats } := by
    simp [a1, h.vis, h.hid, h.cnt]
  obtain ⟨e1, e2, e3, e4⟩ := loop_rel D l1.price taker q l1.map l1.tickets a1 l2.map l2.tickets h.q (by simp [a1])
  obtain ⟨s'', hirr⟩ := loop_stats_irrel l1.price taker q l2.map l2.tickets a1 l2.stats
  have hrq := requeueAside_rel D (matchLoop l1.price taker q l1.map l1.tickets a1).2.2.2.aside _ _ _ _ e3 e4
  have hR2 : matchLoop l2.price taker q l2.map l2.tickets { vis := l2.vis, hid := l2.hid, cnt := l2.cnt, stats := l2.stats, g := g } =
      ((matchLoop l1.price taker q l2.map l2.tickets a1).1, (matchLoop l1.price taker q l2.map l2.tickets a1).2.1,
        (matchLoop l1.price taker q l2.map l2.tickets a1).2.2.1,
        { (matchLoop l1.price taker q l2.map l2.tickets a1).2.2.2 with stats := s'' }) := by
    rw [← h.price, ha2]; exact hirr
  generalize hA : matchLoop l1.price taker q l1.map l1.tickets a1 = R1 at e1 e2 e3 e4 hrq
  generalize hB : matchLoop l1.price taker q l2.map l2.tickets a1 = R2 at e1 e2 e3 hrq hR2
  have hm1 : l1.matchOrder q taker g = l1.finishMatch taker R1 := by simp only [Level.matchOrder]; rw [hA]
  have hm2 : l2.matchOrder q taker g = l2.finishMatch taker (R2.1, R2.2.1, R2.2.2.1, { R2.2.2.2 with stats := s'' }) := by
    simp only [Level.matchOrder]; rw [hR2]
  rw [hm1, hm2]
  obtain ⟨r1, m1', t1', ac1⟩ := R1
  obtain ⟨r2, m2', t2', ac2⟩ := R2
  simp only at e1 e2 e3 hrq
  subst e1; subst e2
  refine ⟨?_, ?_⟩
  · simp only [Level.finishMatch]
  · simp only [Level.finishMatch]
    exact ⟨h.price, rfl, rfl, rfl, hrq⟩

theorem add_rel {D : Id → Bool} {l1 l2 : Level} (h : LRel D l1 l2) (o : Order) (ho : D o.id = false) :
    LRel D (l1.addOrder o) (l2.addOrder o) := by
  refine ⟨h.price, ?_, ?_, ?_, ?_⟩
  · simp [Level.addOrder, h.vis]
  · simp [Level.addOrder, h.hid]
  · simp [Level.addOrder, h.cnt]
  · simpa [Level.addOrder] using relq_push h.q o ho

theorem remove_rel {D : Id → Bool} {l1 l2 : Level} (h : LRel D l1 l2) (id : Id) :
    (l1.removeOrder id).2 = (l2.removeOrder id).2 ∧ LRel D (l1.removeOrder id).1 (l2.removeOrder id).1 := by
  have hf := h.q.find id
  cases h1 : l1.map.find id with
  | none =>
    have h2 : l2.map.find id = none := by rw [← hf]; exact h1
    simp only [Level.removeOrder, h1, h2]
    exact ⟨trivial, h⟩
  | some o =>
    have h2 : l2.map.find id = some o := by rw [← hf]; exact h1
    simp only [Level.removeOrder, h1, h2]
    refine ⟨trivial, ⟨h.price, by simp [h.vis], by simp [h.hid], by simp [h.cnt], ?_⟩⟩
    exact relq_erase h.q id h.q.tick

theorem amend_rel {D : Id → Bool} {l1 l2 : Level} (h : LRel D l1 l2) (id : Id) (n : Nat) :
    (l1.amend id n).2 = (l2.amend id n).2 ∧ LRel D (l1.amend id n).1 (l2.amend id n).1 := by
  have hf := h.q.find id
  cases h1 : l1.map.find id with
  | none =>
    have h2 : l2.map.find id = none := by rw [← hf]; exact h1
    simp only [Level.amend, h1, h2]
    exact ⟨trivial, h⟩
  | some o =>
    have h2 : l2.map.find id = some o := by rw [← hf]; exact h1
    have hDid : D id = false := by
      cases hv : D id with
      | false => rfl
      | true => have := h.q.dead id hv; rw [h1] at this; cases this
    have hoid : o.id = id := (find_some h1).2
    simp only [Level.amend, h1, h2]
    refine ⟨trivial, ⟨h.price, by simp [h.vis], by simp [h.hid], ?_, ?_⟩⟩
    · exact h.cnt
    · have hp := relq_push (relq_erase h.q id h.q.tick) (o.withReduced n) (by rw [withReduced_id, hoid]; exact hDid)
      rw [withReduced_id, hoid] at hp
      exact hp

theorem update_rel {D : Id → Bool} {l1 l2 : Level} (h : LRel D l1 l2) (u : Update) :
    (l1.update u).2 = (l2.update u).2 ∧ LRel D (l1.update u).1 (l2.update u).1 := by
  cases u with
  | price id p =>
    simp only [Level.update, h.price]
    split
    · exact remove_rel h id
    · exact ⟨rfl, h⟩
  | quantity id n => exact amend_rel h id n
  | priceQty id p n =>
    simp only [Level.update, h.price]
    split
    · exact remove_rel h id
    · exact amend_rel h id n
  | cancel id => exact remove_rel h id
  | replace id p n sd =>
    simp only [Level.update, h.price]
    split
    · exact remove_rel h id
    · exact amend_rel h id n

/-- one operation of a continuation -/
inductive COp where
  | add (o : Order)
  | upd (u : Update)
  | mtch (q : Nat) (taker : Id)

/-- what its caller sees -/
inductive COut where
  | added (o : Order)
  | upd (r : UpdOut)
  | matched (r : MatchResult)

def stepC (l : Level) (g : Nat) : COp → COut × Level × Nat
  | .add o => (.added o, l.addOrder o, g)
  | .upd u => (.upd (l.update u).2, (l.update u).1, g)
  | .mtch q t => (.matched (l.matchOrder q t g).2.1, (l.matchOrder q t g).1, (l.matchOrder q t g).2.2)

def runC (l : Level) (g : Nat) : List COp → List COut × Level × Nat
  | [] => ([], l, g)
  | op :: rest =>
    let r := stepC l g op
    let rr := runC r.2.1 r.2.2 rest
    (r.1 :: rr.1, rr.2.1, rr.2.2)

/-- the continuation never adds an id of `D` -/
def Avoids (D : Id → Bool) (ops : List COp) : Prop := ∀ o, COp.add o ∈ ops → D o.id = false

theorem step_rel {D : Id → Bool} {l1 l2 : Level} (h : LRel D l1 l2) (g : Nat) (op : COp)
    (hop : ∀ o, op = .add o → D o.id = false) :
    (stepC l1 g op).1 = (stepC l2 g op).1 ∧ (stepC l1 g op).2.2 = (stepC l2 g op).2.2 ∧
      LRel D (stepC l1 g op).2.1 (stepC l2 g op).2.1 := by
  cases op with
  | add o => exact ⟨rfl, rfl, add_rel h o (hop o rfl)⟩
  | upd u =>
    obtain ⟨e, hr⟩ := update_rel h u
    exact ⟨by simp only [stepC]; rw [e], rfl, hr⟩
  | mtch q t =>
    obtain ⟨e, hr⟩ := match_rel h q t g
    have e1 : (l1.matchOrder q t g).2.1 = (l2.matchOrder q t g).2.1 := congrArg Prod.fst e
    have e2 : (l1.matchOrder q t g).2.2 = (l2.matchOrder q t g).2.2 := congrArg Prod.snd e
    exact ⟨by simp only [stepC]; rw [e1], e2, hr⟩

/-- **every continuation**: related levels answer every sequence of adds, cancels, amends, price moves,
    replaces and matches identically, as long as no id of `D` is added -/
theorem run_rel (D : Id → Bool) : ∀ (ops : List COp) {l1 l2 : Level} (_ : LRel D l1 l2) (g : Nat), Avoids D ops →
    (runC l1 g ops).1 = (runC l2 g ops).1
  | [], _, _, _, _, _ => rfl
  | op :: rest, l1, l2, h, g, hav => by
    obtain ⟨e1, e2, hr⟩ := step_rel h g op (fun o e => hav o (by simp [e]))
    have ih := run_rel D rest hr (stepC l1 g op).2.2 (fun o ho => hav o (by simp [ho]))
    simp only [runC]
    rw [e1, ← e2, ih]

/-- the ids whose tickets are still queued although the order is gone (cancelled, or amended or moved away) -/
def staleIds (l : Level) (id : Id) : Bool := decide (id ∈ l.tickets) && (l.map.find id).isNone

theorem filter_live (m : OMap) : ∀ (ts : List Id), ts.Nodup →
    ts.filter (fun id => (m.find id).isSome) = ids (liveOrder m ts) := by
  intro ts
  induction ts generalizing m with
  | nil => intro _; rfl
  | cons t r ih =>
    intro hn
    have hnr : r.Nodup := (List.nodup_cons.1 hn).2
    have htr : t ∉ r := (List.nodup_cons.1 hn).1
    cases hf : m.find t with
    | none =>
      rw [List.filter_cons_of_neg (by simp [hf])]
      simp only [liveOrder, hf]
      exact ih m hnr
    | some o =>
      rw [List.filter_cons_of_pos (by simp [hf])]
      simp only [liveOrder, hf, ids, List.map_cons]
      rw [(find_some hf).2]
      congr 1
      rw [← ids, ← ih (m.erase t) hnr]
      apply List.filter_congr
      intro x hx
      have hne : x ≠ t := fun e => htr (e ▸ hx)
      rw [find_erase_ne hne]

/-- **C11 for the levels where it holds, every continuation**: if the original's hand-out order is its
    timestamp-sorted listing at the moment of the snapshot and its ticket queue holds no duplicate
    tickets, the restored level answers every continuation — adds, cancels, quantity amends, price
    moves, replaces, matches, in any order and number — exactly as the original does, provided the
    continuation does not re-add an id whose stale ticket the original still queues (C04/F2) -/
theorem C11_continuations {l : Level} (h : l.Inv) (ht : l.tickets.Nodup) (hl : live l = l.listing)
    (ops : List COp) (g : Nat) (hav : Avoids (staleIds l) ops) :
    (runC (Level.fromSnapshot l.snapshot) g ops).1 = (runC l g ops).1 := by
  have hg := h.snapshot_good
  obtain ⟨e0, e1, e2, e3, e4, e5⟩ := Level.fromSnapshot_fields l.snapshot hg
  have hrt := C10.C10_snapshot_roundtrip h
  have hrel : LRel (staleIds l) (Level.fromSnapshot l.snapshot) l := by
    refine ⟨hrt.1, hrt.2.2.2.1, hrt.2.2.2.2.1, hrt.2.2.2.2.2.1, ⟨hrt.2.2.1, ?_, ?_⟩⟩
    · intro id hid
      simp only [staleIds, Bool.and_eq_true, Option.isNone_iff_eq_none] at hid
      rw [hrt.2.2.1]; exact hid.2
    · rw [e5, fromVec_tickets]
      have hlist : ids l.snapshot.orders = ids (liveOrder l.map l.tickets) := by
        show ids l.listing = _; rw [← hl]; rfl
      rw [hlist, ← filter_live l.map l.tickets ht]
      rw [List.filter_filter]
      apply List.filter_congr
      intro x hx
      simp only [staleIds, hx, decide_true, Bool.true_and]
      cases l.map.find x <;> simp
  exact run_rel (staleIds l) ops hrel g hav

/-! non-vacuity: the relation is inhabited by a level with a stale ticket (A cancelled) and its restore,
    and a continuation with an add, an amend and a match meets the hypotheses -/
example :
    let l := ((Level.new 100).addOrder B |>.addOrder A |>.update (.cancel B.id)).1
    l.tickets.Nodup ∧ live l = l.listing ∧
      Avoids (staleIds l) [.add ⟨⟨false, 7⟩, 100, 3, .sell, 9, .gtc, .standard⟩, .upd (.quantity A.id 4), .mtch 5 taker] := by
  refine ⟨by decide, by decide, ?_⟩
  intro o ho
  simp at ho
  subst ho
  decide

end PLV.C11

/-
  C06 — Matching always terminates and exhausts the displayed liquidity.
  Property theorems only.
-/
import PLV.Judge
import PLV.Lemmas.MatchInv

namespace PLV.C06
open PLV

/-! ### (1) every match request returns

`matchLoop` — the model of the loop of `match_order` — is a *total* Lean function: Lean accepted it
only together with a proof that the measure `(remaining + Σ hidden in the map, number of tickets)`
decreases lexicographically at each of its three recursive calls. That holds for **every** state:
orders with nothing displayed, replenish amount 0, stale tickets, states no history reaches.
The three facts that proof rests on are restated here as theorems. -/

/-- a visited order that stays in the queue (is not set aside) lowers `remaining + hidden` -/
theorem C06_requeue_progress (o u : Order) (q : Nat) (hq : q ≠ 0)
    (hu : (matchAgainst o q).updated = some u)
    (hp : ¬ ((matchAgainst o q).consumed = 0 ∧ (matchAgainst o q).hiddenRed = 0)) :
    (matchAgainst o q).remaining + u.hid < q + o.hid := visit_progress o q u hq hu hp

/-- every `pop` shortens the ticket queue and never raises the hidden total of the map -/
theorem C06_pop_progress {m : OMap} {ts : List Id} {o m' ts'} (h : popLive m ts = some (o, m', ts')) :
    ts'.length < ts.length ∧ sumHid m' + o.hid ≤ sumHid m := ⟨popLive_len h, popLive_sumHid h⟩

/-- a visit never increases the remaining quantity -/
theorem C06_remaining_le (o : Order) (q : Nat) : (matchAgainst o q).remaining ≤ q :=
  matchAgainst_remaining_le o q

/-- the call returns a result, for every level state whatsoever (no invariant assumed) -/
theorem C06_returns (l : Level) (q : Nat) (t : Id) (g : Nat) :
    ∃ l' r g', l.matchOrder q t g = (l', r, g') := ⟨_, _, _, rfl⟩

/-! ### (2), (3) exhaustion and the lower bound, from any well-formed state -/

theorem C06_exhausts_and_at_least {l : Level} (h : l.Inv) (q : Nat) (t : Id) (g : Nat) :
    ((l.matchOrder q t g).2.1.remaining > 0 → sumVis (l.matchOrder q t g).1.map = 0) ∧
      min q (sumVis l.map) ≤ sumQty (l.matchOrder q t g).2.1.txs ∧
      sumQty (l.matchOrder q t g).2.1.txs + (l.matchOrder q t g).2.1.remaining = q := by
  have h0 : AggInv l.map l.tickets { vis := l.vis, hid := l.hid, cnt := l.cnt, stats := l.stats, g := g } :=
    ⟨h.nodup, by simp, by simp, h.covered, by simpa [sumVis] using h.vis, by simpa [sumHid] using h.hid,
      by simpa using h.cnt, by simpa [sumVis, sumHid] using h.fits, by simpa using h.cfits⟩
  have he0 : ExhInv q (sumVis l.map) q l.map
      { vis := l.vis, hid := l.hid, cnt := l.cnt, stats := l.stats, g := g } :=
    ⟨by simp [sumQty], by simp, by simp [sumQty]⟩
  have hl := matchLoop_exh l.price t q (sumVis l.map) q l.map l.tickets _ ⟨h0, he0⟩
  have hstop := matchLoop_stop l.price t q l.map l.tickets
    { vis := l.vis, hid := l.hid, cnt := l.cnt, stats := l.stats, g := g }
  simp only [Level.matchOrder]
  generalize matchLoop l.price t q l.map l.tickets _ = res at hl hstop
  obtain ⟨rem, m, ts, a⟩ := res
  simp only at hl hstop
  obtain ⟨ha, he⟩ := hl
  have hr := requeueAside_spec a.aside m ts ha.nodupM ha.nodupA ha.disj ha.covered
  have hz := sumVis_zero_of_all he.aside0
  simp only [Level.finishMatch]
  refine ⟨?_, ?_, he.acct⟩
  · intro hpos
    rcases hstop with h0 | hts
    · omega
    · subst hts
      have : m = [] := ids_eq_nil ha.covered
      subst this
      rw [hr.2.2.1, hz]; rfl
  · have := he.mono; have := he.acct
    rcases hstop with h0 | hts
    · omega
    · subst hts
      have : m = [] := ids_eq_nil ha.covered
      subst this
      simp [sumVis] at this; omega

/-- the same, as the observation predicate the driver evaluates on the real crate -/
theorem C06_ok {l : Level} (h : l.Inv) (q : Nat) (t : Id) (g : Nat) :
    C06.ok q (l.matchOrder q t g).2.1 l.listing (l.matchOrder q t g).1.listing = true := by
  obtain ⟨h1, h2, _⟩ := C06_exhausts_and_at_least h q t g
  have hs := sums_sortByTs l.map
  have hs' := sums_sortByTs (l.matchOrder q t g).1.map
  simp only [C06.ok, Level.listing, hs.1, hs'.1, Bool.and_eq_true, Bool.or_eq_true, beq_iff_eq,
    decide_eq_true_eq]
  refine ⟨?_, h2⟩
  by_cases hr : (l.matchOrder q t g).2.1.remaining = 0
  · exact Or.inl hr
  · exact Or.inr (h1 (by omega))

/-- **C06 over histories**: in every state reachable by an admissible history (zero quantities
    allowed), every match request returns, exhausts and executes at least the minimum. -/
theorem C06_history (p : Nat) (ops : List Op) (ha : AdmAll ⟨Level.new p, 0⟩ ops) (q : Nat) (t : Id) :
    let s := Sys.run ⟨Level.new p, 0⟩ ops
    C06.ok q (s.lvl.matchOrder q t s.g).2.1 s.lvl.listing (s.lvl.matchOrder q t s.g).1.listing = true :=
  C06_ok (Sys.run_inv ops (Level.inv_new p) ha) q t _

/-! non-vacuity: the state on which the unrepaired crate never returned is well-formed -/
example : (Level.addOrder (Level.new 100) ⟨⟨false, 1⟩, 100, 0, .sell, 1, .gtc, .iceberg 5⟩).Inv :=
  (Level.inv_new 100).addOrder_inv (by unfold Adm; decide)

end PLV.C06

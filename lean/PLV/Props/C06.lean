import PLV.Model.Level
namespace PLV.C06
open PLV
/-- placeholder obligation, replaced below by the real C06 theorems -/
theorem C06_total (l : Level) (q : Nat) (t : Id) (g : Nat) : ∃ r, l.matchOrder q t g = r := ⟨_, rfl⟩
end PLV.C06

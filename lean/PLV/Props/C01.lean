/-
  C01 — Level aggregates always equal the sums over the resting orders.
  Property theorems only. Quantifiers: every finite history of add / match / cancel / price-move /
  quantity-amend / replace operations (`List Op`, any length), all seven order kinds, any
  quantities and match sizes, under the admissibility conditions the property itself states
  (`AdmAll`: ids unique among resting orders, sums fit in 64 bits).
-/
import PLV.Judge
import PLV.Lemmas.Construct

namespace PLV.C01
open PLV

/-- what a reader observes: counters and listing of a level -/
def observed (l : Level) : Bool := C01.ok l.vis l.hid l.cnt l.listing

/-- the invariant gives the observation: the (wrapping) counters equal the sums over the listing,
    the count equals its length, and visible + hidden does not overflow -/
theorem C01_observed_of_inv {l : Level} (h : l.Inv) : observed l = true := by
  have hs := sums_sortByTs l.map
  have := h.vis; have := h.hid; have := h.cnt; have := h.fits
  simp [observed, C01.ok, Level.listing, hs.1, hs.2.1, hs.2.2]
  omega

/-- one operation preserves the invariant (add, match of any size, the five updates, reads) -/
theorem C01_step (s : Sys) (op : Op) (h : s.lvl.Inv) (ha : Adm s.lvl op) : (s.step op).1.lvl.Inv :=
  Sys.step_inv h op ha

/-- **C01 over histories**: after every admissible history from a fresh level, the reported
    visible quantity, hidden quantity and order count equal the sums over the listed orders. -/
theorem C01_history (p : Nat) (ops : List Op) (ha : AdmAll ⟨Level.new p, 0⟩ ops) :
    observed (Sys.run ⟨Level.new p, 0⟩ ops).lvl = true :=
  C01_observed_of_inv (Sys.run_inv ops (Level.inv_new p) ha)

/-- … and after every prefix of it (the property says "after every operation") -/
theorem C01_every_prefix (p : Nat) (ops : List Op) (ha : AdmAll ⟨Level.new p, 0⟩ ops) (n : Nat) :
    observed (Sys.run ⟨Level.new p, 0⟩ (ops.take n)).lvl = true := by
  have hpre : ∀ (ops : List Op) (s : Sys) (n : Nat), AdmAll s ops → AdmAll s (ops.take n) := by
    intro ops
    induction ops with
    | nil => intro s n h; simpa using h
    | cons op rest ih =>
      intro s n h
      cases n with
      | zero => simp [AdmAll]
      | succ k => exact ⟨h.1, ih _ k h.2⟩
  exact C01_history p _ (hpre ops _ n ha)

/-- total quantity is visible plus hidden, and no aggregate wraps: the stored 64-bit counters are
    the true (unbounded) sums, all below 2^64 -/
theorem C01_no_wrap (p : Nat) (ops : List Op) (ha : AdmAll ⟨Level.new p, 0⟩ ops) :
    let l := (Sys.run ⟨Level.new p, 0⟩ ops).lvl
    l.vis + l.hid = sumVis l.map + sumHid l.map ∧ l.vis + l.hid < W ∧ l.cnt < W := by
  have h := Sys.run_inv ops (Level.inv_new p) ha
  have := h.vis; have := h.hid; have := h.cnt; have := h.fits; have := h.cfits
  simp only; omega

/-- rebuilding from a snapshot (`from_snapshot`, `From<&PriceLevelSnapshot>`, and through them the
    package and package-JSON constructors) derives the aggregates from the orders -/
theorem C01_from_snapshot (s : Snapshot) (h : s.Good) : observed (Level.fromSnapshot s) = true :=
  C01_observed_of_inv (Level.fromSnapshot_inv s h)

/-- whatever aggregate figures the snapshot carried are ignored -/
theorem C01_snapshot_aggregates_ignored (s : Snapshot) (v h c : Nat) :
    Level.fromSnapshot { s with vis := v, hid := h, cnt := c } = Level.fromSnapshot s := by
  simp [Level.fromSnapshot, Snapshot.refresh]

/-- rebuilding by re-adding the orders one by one (`TryFrom<PriceLevelData>`, serde `Deserialize`,
    `FromStr`) derives the aggregates from the orders -/
theorem C01_from_orders (p : Nat) (os : List Order) (hn : (ids os).Nodup)
    (hf : sumVis os + sumHid os < W) (hc : os.length < W) :
    observed (Level.fromOrders p os) = true :=
  C01_observed_of_inv (Level.fromOrders_inv p os hn hf hc).1

/-- a rebuilt level can be operated on like any other: the invariant is the same one -/
theorem C01_history_after_restore (s : Snapshot) (h : s.Good) (ops : List Op)
    (ha : AdmAll ⟨Level.fromSnapshot s, 0⟩ ops) :
    observed (Sys.run ⟨Level.fromSnapshot s, 0⟩ ops).lvl = true :=
  C01_observed_of_inv (Sys.run_inv ops (Level.fromSnapshot_inv s h) ha)

/-! non-vacuity: a concrete admissible history with a partial fill of a pegged order followed by
    another match (the input on which the unrepaired crate wrapped its counter), an iceberg
    replenishment and an amend -/
def demoOps : List Op :=
  [ .add ⟨⟨false, 1⟩, 100, 10, .sell, 1, .gtc, .pegged (-3) .midPrice⟩,
    .add ⟨⟨false, 2⟩, 100, 5, .sell, 2, .gtc, .iceberg 20⟩,
    .update (.quantity ⟨false, 2⟩ 9),
    .matchQ 7 ⟨false, 9⟩, .matchQ 7 ⟨false, 9⟩, .matchQ 40 ⟨false, 9⟩, .update (.cancel ⟨false, 2⟩) ]

example : AdmAll ⟨Level.new 100, 0⟩ demoOps := by
  refine ⟨by unfold Adm; decide, by unfold Adm; decide, ?_, trivial, trivial, trivial, trivial, trivial⟩
  intro old h
  simp [Sys.step, Level.addOrder, Level.new, OMap.insert, OMap.erase, OMap.find] at h
  subst h
  decide

end PLV.C01

/-
  C05 — Per-order matching follows the documented iceberg / reserve / plain rules.
  Property theorems only (helper lemmas live elsewhere). Every theorem quantifies over *all*
  orders and *all* incoming quantities; no bound on any value.
-/
import PLV.Judge

namespace PLV.C05
open PLV

/-- `DEFAULT_RESERVE_REPLENISH_AMOUNT`, regenerated from the source on every run, is the
    documented 80. -/
theorem C05_default_replenish : defaultReplenish = 80 := by decide

/-- The full documented rule (`C05.ok`, the predicate the driver also evaluates on the real
    crate's results) holds of the model's `match_against`, for every order and incoming quantity. -/
theorem C05_rule (o : Order) (q : Nat) : C05.ok o q (matchAgainst o q) = true := by
  have hd : defaultReplenish = 80 := C05_default_replenish
  obtain ⟨id, price, vis, side, ts, tif, kind⟩ := o
  cases kind <;>
    simp [C05.ok, matchAgainst, staysWith, leaves, Order.sameIdentity, Kind.sameParams, Order.hid,
      Kind.hidden, hd] <;>
    grind

/-- consumes exactly the smaller of incoming and displayed -/
theorem C05_consumed (o : Order) (q : Nat) : (matchAgainst o q).consumed = min q o.vis := by
  grind [matchAgainst]

theorem C05_remaining (o : Order) (q : Nat) :
    (matchAgainst o q).remaining = q - (matchAgainst o q).consumed := by
  grind [matchAgainst]

/-- conservation: displayed + hidden afterwards = before − consumed, unless the order leaves -/
theorem C05_conservation (o u : Order) (q : Nat) (h : (matchAgainst o q).updated = some u) :
    u.vis + u.hid + (matchAgainst o q).consumed = o.vis + o.hid := by
  grind [matchAgainst, Order.hid, Kind.hidden]

/-- what leaves hidden is exactly what is reported as "hidden reduced", and it reappears displayed -/
theorem C05_hidden_reduced (o u : Order) (q : Nat) (h : (matchAgainst o q).updated = some u) :
    u.hid + (matchAgainst o q).hiddenRed = o.hid := by
  grind [matchAgainst, Order.hid, Kind.hidden]

/-- id, price, side, timestamp, time-in-force and the type parameters never change -/
theorem C05_identity (o u : Order) (q : Nat) (h : (matchAgainst o q).updated = some u) :
    u.id = o.id ∧ u.price = o.price ∧ u.side = o.side ∧ u.ts = o.ts ∧ u.tif = o.tif ∧
      Kind.sameParams o.kind u.kind = true := by
  obtain ⟨id, price, vis, side, ts, tif, kind⟩ := o
  cases kind <;> simp [matchAgainst] at h <;> grind [Kind.sameParams]

/-- an iceberg whose display is exhausted shows a new tranche no larger than the exhausted one,
    taken from hidden quantity -/
theorem C05_iceberg_tranche (o : Order) (q h : Nat) (hk : o.kind = .iceberg h) (hv : o.vis ≤ q)
    (hh : 0 < h) :
    ∃ u, (matchAgainst o q).updated = some u ∧ u.vis = min h o.vis ∧ u.vis ≤ o.vis ∧
      u.hid + u.vis = h := by
  obtain ⟨id, price, vis, side, ts, tif, kind⟩ := o
  simp at hk hv; subst hk
  simp [matchAgainst, Order.hid, Kind.hidden, hv, hh]
  omega

/-- … and leaves when nothing is hidden -/
theorem C05_iceberg_leaves (o : Order) (q : Nat) (hk : o.kind = .iceberg 0) (hv : o.vis ≤ q) :
    (matchAgainst o q).updated = none := by
  obtain ⟨id, price, vis, side, ts, tif, kind⟩ := o
  simp at hk; subst hk
  simp [matchAgainst]; grind

/-- a reserve order replenishes exactly when auto-replenish is on, something is hidden, and its
    display is exhausted or falls below its threshold (0 counts as 1); by its configured amount
    (default 80) capped by the hidden quantity -/
theorem C05_reserve (o : Order) (q h thr : Nat) (amt : Option Nat) (auto : Bool)
    (hk : o.kind = .reserve h thr amt auto) :
    let safeThr := if auto && thr == 0 then 1 else thr
    let amount := min (amt.getD 80) h
    if auto = true ∧ 0 < h ∧ (o.vis ≤ q ∨ o.vis - q < safeThr) then
      ∃ u, (matchAgainst o q).updated = some u ∧ u.vis = o.vis - min q o.vis + amount ∧
        u.hid = h - amount ∧ (matchAgainst o q).hiddenRed = amount
    else if o.vis ≤ q then (matchAgainst o q).updated = none
    else ∃ u, (matchAgainst o q).updated = some u ∧ u.vis = o.vis - q ∧ u.hid = h := by
  have hd : defaultReplenish = 80 := C05_default_replenish
  obtain ⟨id, price, vis, side, ts, tif, kind⟩ := o
  simp at hk; subst hk
  simp only [matchAgainst, Order.hid, Kind.hidden, hd]
  by_cases hv : vis ≤ q <;> by_cases ha : auto = true <;> by_cases hh : 0 < h <;>
    simp [hv, ha, hh] <;> (try split) <;> simp_all <;> (try omega)

/-- every other type just shrinks and leaves when filled -/
theorem C05_plain (o : Order) (q : Nat) (hk : o.kind.hasHidden = false) :
    if o.vis ≤ q then (matchAgainst o q).updated = none
    else (matchAgainst o q).updated = some { o with vis := o.vis - q } := by
  obtain ⟨id, price, vis, side, ts, tif, kind⟩ := o
  cases kind <;> simp [Kind.hasHidden] at hk <;> simp [matchAgainst] <;> grind

/-- no 64-bit overflow: with displayed + hidden below 2^64 every quantity the rule produces is too,
    so the model's unbounded arithmetic and the crate's `u64` arithmetic coincide -/
theorem C05_fits (o u : Order) (q : Nat) (hfit : o.vis + o.hid < W)
    (h : (matchAgainst o q).updated = some u) :
    u.vis + u.hid < W ∧ (matchAgainst o q).consumed ≤ o.vis ∧ (matchAgainst o q).hiddenRed ≤ o.hid := by
  have := C05_conservation o u q h
  have := C05_hidden_reduced o u q h
  have := C05_consumed o q
  omega

/-! non-vacuity: concrete orders on which the interesting branches are taken -/
example : (matchAgainst ⟨⟨false, 1⟩, 100, 5, .sell, 1, .gtc, .iceberg 20⟩ 7).updated =
    some ⟨⟨false, 1⟩, 100, 5, .sell, 1, .gtc, .iceberg 15⟩ := by decide
example : (matchAgainst ⟨⟨false, 1⟩, 100, 10, .sell, 1, .gtc, .reserve 200 3 none true⟩ 8).updated =
    some ⟨⟨false, 1⟩, 100, 82, .sell, 1, .gtc, .reserve 120 3 none true⟩ := by decide
example : (matchAgainst ⟨⟨false, 1⟩, 100, 10, .sell, 1, .gtc, .pegged (-3) .midPrice⟩ 7).updated =
    some ⟨⟨false, 1⟩, 100, 3, .sell, 1, .gtc, .pegged (-3) .midPrice⟩ := by decide

/-! ### The tranche helper `refresh_iceberg` (order_type.rs:342-407)

The crate exports the step "show a new tranche taken from hidden quantity" on its own. The statements
below hold for every order and every refresh amount; `C05_match_is_refresh_*` says the replenish steps of
`match_against` are this helper applied to the capped amount, so the two cannot drift apart unnoticed. -/

/-- the full rule of the helper (`C05.refreshOk`, also evaluated on the real crate's results) -/
theorem C05_refresh_rule (o : Order) (n : Nat) :
    C05.refreshOk o n (o.refresh n).1 (o.refresh n).2 = true := by
  obtain ⟨id, price, vis, side, ts, tif, kind⟩ := o
  cases kind <;>
    simp [C05.refreshOk, Order.refresh, Order.sameIdentity, Kind.sameParams, Kind.hasHidden, Order.hid,
      Kind.hidden] <;> omega

/-- what is used is the smaller of the hidden quantity and the amount asked for -/
theorem C05_refresh_used (o : Order) (n : Nat) : (o.refresh n).2 = if o.kind.hasHidden then min o.hid n else 0 := by
  obtain ⟨id, price, vis, side, ts, tif, kind⟩ := o
  cases kind <;> simp [Order.refresh, Kind.hasHidden, Order.hid, Kind.hidden] <;> omega

/-- hidden quantity is conserved: what is left plus what was used is what there was -/
theorem C05_refresh_hidden_conserved (o : Order) (n : Nat) : (o.refresh n).1.hid + (o.refresh n).2 = o.hid := by
  obtain ⟨id, price, vis, side, ts, tif, kind⟩ := o
  cases kind <;> simp [Order.refresh, Order.hid, Kind.hidden] <;> omega

/-- the display shown afterwards is the amount asked for — so it is covered by hidden quantity exactly when
    the caller caps the amount (`n ≤ hidden`), which is what `match_against` does -/
theorem C05_refresh_covered (o : Order) (n : Nat) (hk : o.kind.hasHidden = true) (hn : n ≤ o.hid) :
    (o.refresh n).1.vis = (o.refresh n).2 ∧ (o.refresh n).1.vis + (o.refresh n).1.hid = o.hid := by
  obtain ⟨id, price, vis, side, ts, tif, kind⟩ := o
  cases kind <;> simp [Kind.hasHidden] at hk <;>
    simp [Order.refresh, Order.hid, Kind.hidden] at hn ⊢ <;> omega

/-- id, price, side, timestamp, time-in-force and type parameters never change -/
theorem C05_refresh_identity (o : Order) (n : Nat) : o.sameIdentity (o.refresh n).1 = true := by
  obtain ⟨id, price, vis, side, ts, tif, kind⟩ := o
  cases kind <;> simp [Order.refresh, Order.sameIdentity, Kind.sameParams]

/-- the plain variants are returned unchanged -/
theorem C05_refresh_plain (o : Order) (n : Nat) (hk : o.kind.hasHidden = false) : o.refresh n = (o, 0) := by
  obtain ⟨id, price, vis, side, ts, tif, kind⟩ := o
  cases kind <;> simp [Kind.hasHidden] at hk <;> simp [Order.refresh]

/-- an exhausted iceberg's new tranche is the helper applied to `min hidden display` -/
theorem C05_match_is_refresh_iceberg (o : Order) (q h : Nat) (hk : o.kind = .iceberg h) (hq : o.vis ≤ q)
    (hh : 0 < h) :
    (matchAgainst o q).updated = some (o.refresh (min h o.vis)).1 ∧
      (matchAgainst o q).hiddenRed = (o.refresh (min h o.vis)).2 := by
  obtain ⟨id, price, vis, side, ts, tif, kind⟩ := o
  simp at hk; subst hk
  simp [matchAgainst, Order.refresh, hq, hh] <;> omega

/-- an exhausted auto-replenishing reserve order's refill is the helper applied to the capped amount -/
theorem C05_match_is_refresh_reserve (o : Order) (q h thr : Nat) (amt : Option Nat)
    (hk : o.kind = .reserve h thr amt true) (hq : o.vis ≤ q) (hh : 0 < h) :
    (matchAgainst o q).updated = some (o.refresh (min (amt.getD defaultReplenish) h)).1 ∧
      (matchAgainst o q).hiddenRed = (o.refresh (min (amt.getD defaultReplenish) h)).2 := by
  obtain ⟨id, price, vis, side, ts, tif, kind⟩ := o
  simp at hk; subst hk
  simp [matchAgainst, Order.refresh, hq, hh] <;> omega

/-- no 64-bit overflow in the helper: every quantity it produces is bounded by its inputs -/
theorem C05_refresh_fits (o : Order) (n : Nat) (hn : n < W) (hh : o.hid < W) :
    (o.refresh n).1.hid < W ∧ (o.refresh n).2 < W ∧ ((o.refresh n).1.vis = n ∨ (o.refresh n).1.vis = o.vis) := by
  obtain ⟨id, price, vis, side, ts, tif, kind⟩ := o
  cases kind <;> simp [Order.refresh, Order.hid, Kind.hidden] at hh ⊢ <;> omega

/-- tranches compose: two refreshes in a row take out of the hidden quantity what one refresh by the sum takes,
    never more than was hidden, and leave the same hidden quantity behind -/
theorem C05_refresh_twice (o : Order) (a b : Nat) :
    (o.refresh a).2 + ((o.refresh a).1.refresh b).2 = (o.refresh (a + b)).2 ∧
      ((o.refresh a).1.refresh b).1.hid = (o.refresh (a + b)).1.hid ∧
      (o.refresh a).2 + ((o.refresh a).1.refresh b).2 ≤ o.hid := by
  obtain ⟨id, price, vis, side, ts, tif, kind⟩ := o
  cases kind <;> simp [Order.refresh, Order.hid, Kind.hidden] <;> omega

example : (⟨⟨false, 1⟩, 100, 0, .sell, 1, .gtc, .iceberg 20⟩ : Order).refresh 7 =
    (⟨⟨false, 1⟩, 100, 7, .sell, 1, .gtc, .iceberg 13⟩, 7) := by decide
example : (⟨⟨false, 1⟩, 100, 4, .sell, 1, .gtc, .reserve 5 3 none true⟩ : Order).refresh 80 =
    (⟨⟨false, 1⟩, 100, 80, .sell, 1, .gtc, .reserve 0 3 none true⟩, 5) := by decide

/-! ### Time-in-force predicates (`TimeInForce::is_immediate / has_expiry / is_expired`, the order's
`is_immediate / is_fill_or_kill / is_post_only`): modelled, compared with the crate on every run of E-pure. -/

/-- fill-or-kill orders are immediate; an immediate order never carries an expiry -/
theorem C05_tif_consistent (o : Order) :
    (o.isFok = true → o.isImmediate = true) ∧ (o.isImmediate = true → o.tif.hasExpiry = false) ∧
      (o.tif.hasExpiry = false → ∀ now close, o.tif.isExpired now close = false) := by
  obtain ⟨id, price, vis, side, ts, tif, kind⟩ := o
  cases tif <;> simp [Order.isFok, Order.isImmediate, Tif.isImmediate, Tif.hasExpiry, Tif.isExpired]

/-- expiry is monotone in time: once expired, expired at every later instant -/
theorem C05_tif_expired_mono (t : Tif) (now later : Nat) (close : Option Nat) (h : now ≤ later)
    (he : t.isExpired now close = true) : t.isExpired later close = true := by
  cases t <;> cases close <;> simp_all [Tif.isExpired] <;> omega

/-- matching never changes any of the predicates -/
theorem C05_match_keeps_predicates (o u : Order) (q : Nat) (h : (matchAgainst o q).updated = some u) :
    u.isImmediate = o.isImmediate ∧ u.isFok = o.isFok ∧ u.isPostOnly = o.isPostOnly := by
  obtain ⟨id, price, vis, side, ts, tif, kind⟩ := o
  cases kind <;> simp only [matchAgainst] at h <;> (repeat' split at h) <;> simp_all <;>
    (subst h; simp [Order.isImmediate, Order.isFok, Order.isPostOnly])

end PLV.C05

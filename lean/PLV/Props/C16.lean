/-
  C16 — Text encodings round-trip for every value.
  Property theorems only: `parse (show v) = v` over the model's codecs, for EVERY value whose numeric
  fields fit their Rust types (ids below 2^128, `u64` fields below 2^64, the peg offset in `i64`).

  Proved here: ids (both forms), unsigned / signed numbers, side, time-in-force, peg reference,
  orders (all seven kinds), order updates (all five kinds), transactions, statistics, snapshot
  summaries.
  `C16_partial`: for the list-carrying encodings — transaction list, match result, order queue,
  level — the element codecs are proved but the list-level theorem (bracket-aware splitting of the
  joined elements) is not; those four are tied to the crate by the byte-for-byte correspondence
  run only.
-/
import PLV.Lemmas.TextRecords
import PLV.Lemmas.TextLists
import PLV.Props.Ranges

namespace PLV.C16
open PLV PLV.Text

macro "plain_tac" : tactic =>
  `(tactic| first
    | exact plain_of_id (showId_chars _)
    | exact plain_of_id (showNat_idChars _)
    | exact plain_of_id (showSide_plainchars _)
    | exact plain_of_id (showTif_plainchars _)
    | exact plain_of_id (showInt_idChars _)
    | exact plain_of_id (showPeg_plainchars _)
    | exact plain_of_id (fun c hc => (showUuid_chars _ c hc).1)
    | (show Plain _; (try dsimp only); intro c hc; revert c; decide))

macro "plain_fields" : tactic =>
  `(tactic| ((repeat' (first | exact plain_nil | apply plain_cons)) <;> plain_tac))

theorem C16_id (i : Id) (h : i.val < 2 ^ 128) : parseId (showId i) = some i := parseId_showId i h
theorem C16_uuid (v : Nat) (h : v < 2 ^ 128) : parseUuid (showUuid v) = some v := parseUuid_showUuid h
theorem C16_u64 (n : Nat) (h : n < W) : parseU64 (showNat n) = some n := parseU64_showNat h
theorem C16_i64 (i : Int) (h1 : -9223372036854775808 ≤ i) (h2 : i < 9223372036854775808) :
    parseI64 (showInt i) = some i := parseI64_showInt h1 h2
theorem C16_side (s : Side) : parseSide (showSide s) = some s := parseSide_showSide s
theorem C16_tif (t : Tif) (h : ∀ n, t = .gtd n → n < W) : parseTif (showTif t) = some t := parseTif_showTif t h
theorem C16_peg (p : PegRef) : parsePeg (showPeg p) = some p := (parsePeg_showPeg p).1

/-! ### orders, kind by kind -/

theorem rt_Standard (id : Id) (price vis : Nat) (side : Side) (ts : Nat) (tif : Tif) 
    (hid : id.val < 2 ^ 128) (hprice : price < W) (hvis : vis < W) (hts : ts < W) (htif : ∀ n, tif = .gtd n → n < W)  :
    parseOrder (showOrder ⟨id, price, vis, side, ts, tif, .standard⟩) = .ok ⟨id, price, vis, side, ts, tif, .standard⟩ := by
  have e1 := parseId_showId id hid
  have e2 := parseU64_showNat hprice
  have e3 := parseU64_showNat hvis
  have e4 := parseU64_showNat hts
  have e5 := parseTif_showTif tif htif
  have hfs : ∀ kvp ∈ [(lit "id", showId id), (lit "price", showNat price), (lit "quantity", showNat vis), (lit "side", showSide side), (lit "timestamp", showNat ts), (lit "time_in_force", showTif tif)], Plain kvp.1 ∧ Plain kvp.2 := by
    plain_fields
  have hshow : showOrder ⟨id, price, vis, side, ts, tif, .standard⟩ = lit "Standard" ++ ':' :: renderPairs [(lit "id", showId id), (lit "price", showNat price), (lit "quantity", showNat vis), (lit "side", showSide side), (lit "timestamp", showNat ts), (lit "time_in_force", showTif tif)] := by
    simp only [showOrder]; exact record_eq "Standard" [("id", showId id), ("price", showNat price), ("quantity", showNat vis), ("side", showSide side), ("timestamp", showNat ts), ("time_in_force", showTif tif)]
  rw [hshow]; unfold parseOrder
  rw [split_record _ _ (by plain_tac) hfs]
  simp only [parseFields_renderPairs _ (by simp) hfs]
  simp (config := {decide := true}) [getField, reqU64, List.find?, e1, e2, e3, e4, e5, parseSide_showSide, bind, Except.bind]

theorem rt_PostOnly (id : Id) (price vis : Nat) (side : Side) (ts : Nat) (tif : Tif) 
    (hid : id.val < 2 ^ 128) (hprice : price < W) (hvis : vis < W) (hts : ts < W) (htif : ∀ n, tif = .gtd n → n < W)  :
    parseOrder (showOrder ⟨id, price, vis, side, ts, tif, .postOnly⟩) = .ok ⟨id, price, vis, side, ts, tif, .postOnly⟩ := by
  have e1 := parseId_showId id hid
  have e2 := parseU64_showNat hprice
  have e3 := parseU64_showNat hvis
  have e4 := parseU64_showNat hts
  have e5 := parseTif_showTif tif htif
  have hfs : ∀ kvp ∈ [(lit "id", showId id), (lit "price", showNat price), (lit "quantity", showNat vis), (lit "side", showSide side), (lit "timestamp", showNat ts), (lit "time_in_force", showTif tif)], Plain kvp.1 ∧ Plain kvp.2 := by
    plain_fields
  have hshow : showOrder ⟨id, price, vis, side, ts, tif, .postOnly⟩ = lit "PostOnly" ++ ':' :: renderPairs [(lit "id", showId id), (lit "price", showNat price), (lit "quantity", showNat vis), (lit "side", showSide side), (lit "timestamp", showNat ts), (lit "time_in_force", showTif tif)] := by
    simp only [showOrder]; exact record_eq "PostOnly" [("id", showId id), ("price", showNat price), ("quantity", showNat vis), ("side", showSide side), ("timestamp", showNat ts), ("time_in_force", showTif tif)]
  rw [hshow]; unfold parseOrder
  rw [split_record _ _ (by plain_tac) hfs]
  simp only [parseFields_renderPairs _ (by simp) hfs]
  simp (config := {decide := true}) [getField, reqU64, List.find?, e1, e2, e3, e4, e5, parseSide_showSide, bind, Except.bind]

theorem rt_MarketToLimit (id : Id) (price vis : Nat) (side : Side) (ts : Nat) (tif : Tif) 
    (hid : id.val < 2 ^ 128) (hprice : price < W) (hvis : vis < W) (hts : ts < W) (htif : ∀ n, tif = .gtd n → n < W)  :
    parseOrder (showOrder ⟨id, price, vis, side, ts, tif, .marketToLimit⟩) = .ok ⟨id, price, vis, side, ts, tif, .marketToLimit⟩ := by
  have e1 := parseId_showId id hid
  have e2 := parseU64_showNat hprice
  have e3 := parseU64_showNat hvis
  have e4 := parseU64_showNat hts
  have e5 := parseTif_showTif tif htif
  have hfs : ∀ kvp ∈ [(lit "id", showId id), (lit "price", showNat price), (lit "quantity", showNat vis), (lit "side", showSide side), (lit "timestamp", showNat ts), (lit "time_in_force", showTif tif)], Plain kvp.1 ∧ Plain kvp.2 := by
    plain_fields
  have hshow : showOrder ⟨id, price, vis, side, ts, tif, .marketToLimit⟩ = lit "MarketToLimit" ++ ':' :: renderPairs [(lit "id", showId id), (lit "price", showNat price), (lit "quantity", showNat vis), (lit "side", showSide side), (lit "timestamp", showNat ts), (lit "time_in_force", showTif tif)] := by
    simp only [showOrder]; exact record_eq "MarketToLimit" [("id", showId id), ("price", showNat price), ("quantity", showNat vis), ("side", showSide side), ("timestamp", showNat ts), ("time_in_force", showTif tif)]
  rw [hshow]; unfold parseOrder
  rw [split_record _ _ (by plain_tac) hfs]
  simp only [parseFields_renderPairs _ (by simp) hfs]
  simp (config := {decide := true}) [getField, reqU64, List.find?, e1, e2, e3, e4, e5, parseSide_showSide, bind, Except.bind]

theorem rt_TrailingStop (id : Id) (price vis : Nat) (side : Side) (ts : Nat) (tif : Tif) (t r : Nat)
    (hid : id.val < 2 ^ 128) (hprice : price < W) (hvis : vis < W) (hts : ts < W) (htif : ∀ n, tif = .gtd n → n < W) (ht : t < W) (hr : r < W) :
    parseOrder (showOrder ⟨id, price, vis, side, ts, tif, .trailingStop t r⟩) = .ok ⟨id, price, vis, side, ts, tif, .trailingStop t r⟩ := by
  have e1 := parseId_showId id hid
  have e2 := parseU64_showNat hprice
  have e3 := parseU64_showNat hvis
  have e4 := parseU64_showNat hts
  have e5 := parseTif_showTif tif htif
  have e6 := parseU64_showNat ht
  have e7 := parseU64_showNat hr
  have hfs : ∀ kvp ∈ [(lit "id", showId id), (lit "price", showNat price), (lit "quantity", showNat vis), (lit "side", showSide side), (lit "timestamp", showNat ts), (lit "time_in_force", showTif tif), (lit "trail_amount", showNat t), (lit "last_reference_price", showNat r)], Plain kvp.1 ∧ Plain kvp.2 := by
    plain_fields
  have hshow : showOrder ⟨id, price, vis, side, ts, tif, .trailingStop t r⟩ = lit "TrailingStop" ++ ':' :: renderPairs [(lit "id", showId id), (lit "price", showNat price), (lit "quantity", showNat vis), (lit "side", showSide side), (lit "timestamp", showNat ts), (lit "time_in_force", showTif tif), (lit "trail_amount", showNat t), (lit "last_reference_price", showNat r)] := by
    simp only [showOrder]; exact record_eq "TrailingStop" [("id", showId id), ("price", showNat price), ("quantity", showNat vis), ("side", showSide side), ("timestamp", showNat ts), ("time_in_force", showTif tif), ("trail_amount", showNat t), ("last_reference_price", showNat r)]
  rw [hshow]; unfold parseOrder
  rw [split_record _ _ (by plain_tac) hfs]
  simp only [parseFields_renderPairs _ (by simp) hfs]
  simp (config := {decide := true}) [getField, reqU64, List.find?, e1, e2, e3, e4, e5, parseSide_showSide, bind, Except.bind, e6, e7]

theorem rt_PeggedOrder (id : Id) (price vis : Nat) (side : Side) (ts : Nat) (tif : Tif) (off : Int) (r : PegRef)
    (hid : id.val < 2 ^ 128) (hprice : price < W) (hvis : vis < W) (hts : ts < W) (htif : ∀ n, tif = .gtd n → n < W) (h1 : -9223372036854775808 ≤ off) (h2 : off < 9223372036854775808) :
    parseOrder (showOrder ⟨id, price, vis, side, ts, tif, .pegged off r⟩) = .ok ⟨id, price, vis, side, ts, tif, .pegged off r⟩ := by
  have e1 := parseId_showId id hid
  have e2 := parseU64_showNat hprice
  have e3 := parseU64_showNat hvis
  have e4 := parseU64_showNat hts
  have e5 := parseTif_showTif tif htif
  have e6 := parseI64_showInt h1 h2
  have e7 := (parsePeg_showPeg r).2
  have hfs : ∀ kvp ∈ [(lit "id", showId id), (lit "price", showNat price), (lit "quantity", showNat vis), (lit "side", showSide side), (lit "timestamp", showNat ts), (lit "time_in_force", showTif tif), (lit "reference_price_offset", showInt off), (lit "reference_price_type", showPeg r)], Plain kvp.1 ∧ Plain kvp.2 := by
    plain_fields
  have hshow : showOrder ⟨id, price, vis, side, ts, tif, .pegged off r⟩ = lit "PeggedOrder" ++ ':' :: renderPairs [(lit "id", showId id), (lit "price", showNat price), (lit "quantity", showNat vis), (lit "side", showSide side), (lit "timestamp", showNat ts), (lit "time_in_force", showTif tif), (lit "reference_price_offset", showInt off), (lit "reference_price_type", showPeg r)] := by
    simp only [showOrder]; exact record_eq "PeggedOrder" [("id", showId id), ("price", showNat price), ("quantity", showNat vis), ("side", showSide side), ("timestamp", showNat ts), ("time_in_force", showTif tif), ("reference_price_offset", showInt off), ("reference_price_type", showPeg r)]
  rw [hshow]; unfold parseOrder
  rw [split_record _ _ (by plain_tac) hfs]
  simp only [parseFields_renderPairs _ (by simp) hfs]
  simp (config := {decide := true}) [getField, reqU64, List.find?, e1, e2, e3, e4, e5, parseSide_showSide, bind, Except.bind, e6, e7]

theorem rt_IcebergOrder (id : Id) (price vis : Nat) (side : Side) (ts : Nat) (tif : Tif) (hq : Nat)
    (hid : id.val < 2 ^ 128) (hprice : price < W) (hvis : vis < W) (hts : ts < W) (htif : ∀ n, tif = .gtd n → n < W) (hh : hq < W) :
    parseOrder (showOrder ⟨id, price, vis, side, ts, tif, .iceberg hq⟩) = .ok ⟨id, price, vis, side, ts, tif, .iceberg hq⟩ := by
  have e1 := parseId_showId id hid
  have e2 := parseU64_showNat hprice
  have e3 := parseU64_showNat hvis
  have e4 := parseU64_showNat hts
  have e5 := parseTif_showTif tif htif
  have e6 := parseU64_showNat hh
  have hfs : ∀ kvp ∈ [(lit "id", showId id), (lit "price", showNat price), (lit "visible_quantity", showNat vis), (lit "hidden_quantity", showNat hq), (lit "side", showSide side), (lit "timestamp", showNat ts), (lit "time_in_force", showTif tif)], Plain kvp.1 ∧ Plain kvp.2 := by
    plain_fields
  have hshow : showOrder ⟨id, price, vis, side, ts, tif, .iceberg hq⟩ = lit "IcebergOrder" ++ ':' :: renderPairs [(lit "id", showId id), (lit "price", showNat price), (lit "visible_quantity", showNat vis), (lit "hidden_quantity", showNat hq), (lit "side", showSide side), (lit "timestamp", showNat ts), (lit "time_in_force", showTif tif)] := by
    simp only [showOrder]; exact record_eq "IcebergOrder" [("id", showId id), ("price", showNat price), ("visible_quantity", showNat vis), ("hidden_quantity", showNat hq), ("side", showSide side), ("timestamp", showNat ts), ("time_in_force", showTif tif)]
  rw [hshow]; unfold parseOrder
  rw [split_record _ _ (by plain_tac) hfs]
  simp only [parseFields_renderPairs _ (by simp) hfs]
  simp (config := {decide := true}) [getField, reqU64, List.find?, e1, e2, e3, e4, e5, parseSide_showSide, bind, Except.bind, e6]

theorem rt_Reserve_none_true (id : Id) (price vis : Nat) (side : Side) (ts : Nat) (tif : Tif) (hq thr : Nat) 
    (hid : id.val < 2 ^ 128) (hprice : price < W) (hvis : vis < W) (hts : ts < W) (htif : ∀ n, tif = .gtd n → n < W) (hh : hq < W) (hthr : thr < W)  :
    parseOrder (showOrder ⟨id, price, vis, side, ts, tif, .reserve hq thr none true⟩) = .ok ⟨id, price, vis, side, ts, tif, .reserve hq thr none true⟩ := by
  have e1 := parseId_showId id hid
  have e2 := parseU64_showNat hprice
  have e3 := parseU64_showNat hvis
  have e4 := parseU64_showNat hts
  have e5 := parseTif_showTif tif htif
  have e6 := parseU64_showNat hh
  have e7 := parseU64_showNat hthr
  have hfs : ∀ kvp ∈ [(lit "id", showId id), (lit "price", showNat price), (lit "visible_quantity", showNat vis), (lit "hidden_quantity", showNat hq), (lit "side", showSide side), (lit "timestamp", showNat ts), (lit "time_in_force", showTif tif), (lit "replenish_threshold", showNat thr), (lit "replenish_amount", lit "None"), (lit "auto_replenish", lit "true")], Plain kvp.1 ∧ Plain kvp.2 := by
    plain_fields
  have hshow : showOrder ⟨id, price, vis, side, ts, tif, .reserve hq thr none true⟩ = lit "ReserveOrder" ++ ':' :: renderPairs [(lit "id", showId id), (lit "price", showNat price), (lit "visible_quantity", showNat vis), (lit "hidden_quantity", showNat hq), (lit "side", showSide side), (lit "timestamp", showNat ts), (lit "time_in_force", showTif tif), (lit "replenish_threshold", showNat thr), (lit "replenish_amount", lit "None"), (lit "auto_replenish", lit "true")] := by
    simp only [showOrder]; exact record_eq "ReserveOrder" [("id", showId id), ("price", showNat price), ("visible_quantity", showNat vis), ("hidden_quantity", showNat hq), ("side", showSide side), ("timestamp", showNat ts), ("time_in_force", showTif tif), ("replenish_threshold", showNat thr), ("replenish_amount", lit "None"), ("auto_replenish", lit "true")]
  rw [hshow]; unfold parseOrder
  rw [split_record _ _ (by plain_tac) hfs]
  simp only [parseFields_renderPairs _ (by simp) hfs]
  simp (config := {decide := true}) [getField, reqU64, List.find?, e1, e2, e3, e4, e5, e6, e7, parseSide_showSide, bind, Except.bind]

theorem rt_Reserve_some_true (id : Id) (price vis : Nat) (side : Side) (ts : Nat) (tif : Tif) (hq thr : Nat) (a : Nat)
    (hid : id.val < 2 ^ 128) (hprice : price < W) (hvis : vis < W) (hts : ts < W) (htif : ∀ n, tif = .gtd n → n < W) (hh : hq < W) (hthr : thr < W) (hamt : a < W) :
    parseOrder (showOrder ⟨id, price, vis, side, ts, tif, .reserve hq thr (some a) true⟩) = .ok ⟨id, price, vis, side, ts, tif, .reserve hq thr (some a) true⟩ := by
  have e1 := parseId_showId id hid
  have e2 := parseU64_showNat hprice
  have e3 := parseU64_showNat hvis
  have e4 := parseU64_showNat hts
  have e5 := parseTif_showTif tif htif
  have e6 := parseU64_showNat hh
  have e7 := parseU64_showNat hthr
  have ha := parseU64_showNat hamt
  have hne : showNat a ≠ lit "None" := by
    intro e
    have hd := showNat_digits a 'N' (by rw [e]; decide)
    exact absurd hd (by decide)
  have hfs : ∀ kvp ∈ [(lit "id", showId id), (lit "price", showNat price), (lit "visible_quantity", showNat vis), (lit "hidden_quantity", showNat hq), (lit "side", showSide side), (lit "timestamp", showNat ts), (lit "time_in_force", showTif tif), (lit "replenish_threshold", showNat thr), (lit "replenish_amount", showNat a), (lit "auto_replenish", lit "true")], Plain kvp.1 ∧ Plain kvp.2 := by
    plain_fields
  have hshow : showOrder ⟨id, price, vis, side, ts, tif, .reserve hq thr (some a) true⟩ = lit "ReserveOrder" ++ ':' :: renderPairs [(lit "id", showId id), (lit "price", showNat price), (lit "visible_quantity", showNat vis), (lit "hidden_quantity", showNat hq), (lit "side", showSide side), (lit "timestamp", showNat ts), (lit "time_in_force", showTif tif), (lit "replenish_threshold", showNat thr), (lit "replenish_amount", showNat a), (lit "auto_replenish", lit "true")] := by
    simp only [showOrder]; exact record_eq "ReserveOrder" [("id", showId id), ("price", showNat price), ("visible_quantity", showNat vis), ("hidden_quantity", showNat hq), ("side", showSide side), ("timestamp", showNat ts), ("time_in_force", showTif tif), ("replenish_threshold", showNat thr), ("replenish_amount", showNat a), ("auto_replenish", lit "true")]
  rw [hshow]; unfold parseOrder
  rw [split_record _ _ (by plain_tac) hfs]
  simp only [parseFields_renderPairs _ (by simp) hfs]
  simp (config := {decide := true}) [getField, reqU64, List.find?, e1, e2, e3, e4, e5, e6, e7, parseSide_showSide, bind, Except.bind, ha, hne]

theorem rt_Reserve_none_false (id : Id) (price vis : Nat) (side : Side) (ts : Nat) (tif : Tif) (hq thr : Nat) 
    (hid : id.val < 2 ^ 128) (hprice : price < W) (hvis : vis < W) (hts : ts < W) (htif : ∀ n, tif = .gtd n → n < W) (hh : hq < W) (hthr : thr < W)  :
    parseOrder (showOrder ⟨id, price, vis, side, ts, tif, .reserve hq thr none false⟩) = .ok ⟨id, price, vis, side, ts, tif, .reserve hq thr none false⟩ := by
  have e1 := parseId_showId id hid
  have e2 := parseU64_showNat hprice
  have e3 := parseU64_showNat hvis
  have e4 := parseU64_showNat hts
  have e5 := parseTif_showTif tif htif
  have e6 := parseU64_showNat hh
  have e7 := parseU64_showNat hthr
  have hfs : ∀ kvp ∈ [(lit "id", showId id), (lit "price", showNat price), (lit "visible_quantity", showNat vis), (lit "hidden_quantity", showNat hq), (lit "side", showSide side), (lit "timestamp", showNat ts), (lit "time_in_force", showTif tif), (lit "replenish_threshold", showNat thr), (lit "replenish_amount", lit "None"), (lit "auto_replenish", lit "false")], Plain kvp.1 ∧ Plain kvp.2 := by
    plain_fields
  have hshow : showOrder ⟨id, price, vis, side, ts, tif, .reserve hq thr none false⟩ = lit "ReserveOrder" ++ ':' :: renderPairs [(lit "id", showId id), (lit "price", showNat price), (lit "visible_quantity", showNat vis), (lit "hidden_quantity", showNat hq), (lit "side", showSide side), (lit "timestamp", showNat ts), (lit "time_in_force", showTif tif), (lit "replenish_threshold", showNat thr), (lit "replenish_amount", lit "None"), (lit "auto_replenish", lit "false")] := by
    simp only [showOrder]; exact record_eq "ReserveOrder" [("id", showId id), ("price", showNat price), ("visible_quantity", showNat vis), ("hidden_quantity", showNat hq), ("side", showSide side), ("timestamp", showNat ts), ("time_in_force", showTif tif), ("replenish_threshold", showNat thr), ("replenish_amount", lit "None"), ("auto_replenish", lit "false")]
  rw [hshow]; unfold parseOrder
  rw [split_record _ _ (by plain_tac) hfs]
  simp only [parseFields_renderPairs _ (by simp) hfs]
  simp (config := {decide := true}) [getField, reqU64, List.find?, e1, e2, e3, e4, e5, e6, e7, parseSide_showSide, bind, Except.bind]

theorem rt_Reserve_some_false (id : Id) (price vis : Nat) (side : Side) (ts : Nat) (tif : Tif) (hq thr : Nat) (a : Nat)
    (hid : id.val < 2 ^ 128) (hprice : price < W) (hvis : vis < W) (hts : ts < W) (htif : ∀ n, tif = .gtd n → n < W) (hh : hq < W) (hthr : thr < W) (hamt : a < W) :
    parseOrder (showOrder ⟨id, price, vis, side, ts, tif, .reserve hq thr (some a) false⟩) = .ok ⟨id, price, vis, side, ts, tif, .reserve hq thr (some a) false⟩ := by
  have e1 := parseId_showId id hid
  have e2 := parseU64_showNat hprice
  have e3 := parseU64_showNat hvis
  have e4 := parseU64_showNat hts
  have e5 := parseTif_showTif tif htif
  have e6 := parseU64_showNat hh
  have e7 := parseU64_showNat hthr
  have ha := parseU64_showNat hamt
  have hne : showNat a ≠ lit "None" := by
    intro e
    have hd := showNat_digits a 'N' (by rw [e]; decide)
    exact absurd hd (by decide)
  have hfs : ∀ kvp ∈ [(lit "id", showId id), (lit "price", showNat price), (lit "visible_quantity", showNat vis), (lit "hidden_quantity", showNat hq), (lit "side", showSide side), (lit "timestamp", showNat ts), (lit "time_in_force", showTif tif), (lit "replenish_threshold", showNat thr), (lit "replenish_amount", showNat a), (lit "auto_replenish", lit "false")], Plain kvp.1 ∧ Plain kvp.2 := by
    plain_fields
  have hshow : showOrder ⟨id, price, vis, side, ts, tif, .reserve hq thr (some a) false⟩ = lit "ReserveOrder" ++ ':' :: renderPairs [(lit "id", showId id), (lit "price", showNat price), (lit "visible_quantity", showNat vis), (lit "hidden_quantity", showNat hq), (lit "side", showSide side), (lit "timestamp", showNat ts), (lit "time_in_force", showTif tif), (lit "replenish_threshold", showNat thr), (lit "replenish_amount", showNat a), (lit "auto_replenish", lit "false")] := by
    simp only [showOrder]; exact record_eq "ReserveOrder" [("id", showId id), ("price", showNat price), ("visible_quantity", showNat vis), ("hidden_quantity", showNat hq), ("side", showSide side), ("timestamp", showNat ts), ("time_in_force", showTif tif), ("replenish_threshold", showNat thr), ("replenish_amount", showNat a), ("auto_replenish", lit "false")]
  rw [hshow]; unfold parseOrder
  rw [split_record _ _ (by plain_tac) hfs]
  simp only [parseFields_renderPairs _ (by simp) hfs]
  simp (config := {decide := true}) [getField, reqU64, List.find?, e1, e2, e3, e4, e5, e6, e7, parseSide_showSide, bind, Except.bind, ha, hne]

theorem rt_ReserveOrder (id : Id) (price vis : Nat) (side : Side) (ts : Nat) (tif : Tif) (hq thr : Nat) (amt : Option Nat) (auto : Bool)
    (hid : id.val < 2 ^ 128) (hprice : price < W) (hvis : vis < W) (hts : ts < W) (htif : ∀ n, tif = .gtd n → n < W) (hh : hq < W) (hthr : thr < W) (hamt : ∀ a, amt = some a → a < W) :
    parseOrder (showOrder ⟨id, price, vis, side, ts, tif, .reserve hq thr amt auto⟩) = .ok ⟨id, price, vis, side, ts, tif, .reserve hq thr amt auto⟩ := by
  cases amt with
  | none =>
    cases auto
    · exact rt_Reserve_none_false id price vis side ts tif hq thr hid hprice hvis hts htif hh hthr
    · exact rt_Reserve_none_true id price vis side ts tif hq thr hid hprice hvis hts htif hh hthr
  | some a =>
    cases auto
    · exact rt_Reserve_some_false id price vis side ts tif hq thr a hid hprice hvis hts htif hh hthr (hamt a rfl)
    · exact rt_Reserve_some_true id price vis side ts tif hq thr a hid hprice hvis hts htif hh hthr (hamt a rfl)

/-- **orders, all seven kinds** -/
theorem C16_order (o : Order) (h : OrderOk o) : parseOrder (showOrder o) = .ok o := by
  obtain ⟨id, price, vis, side, ts, tif, kind⟩ := o
  obtain ⟨h1, h2, h3, h4, h5, hk⟩ := h
  cases kind with
  | standard => exact rt_Standard id price vis side ts tif h1 h2 h3 h4 h5
  | postOnly => exact rt_PostOnly id price vis side ts tif h1 h2 h3 h4 h5
  | marketToLimit => exact rt_MarketToLimit id price vis side ts tif h1 h2 h3 h4 h5
  | trailingStop t r => exact rt_TrailingStop id price vis side ts tif t r h1 h2 h3 h4 h5 hk.1 hk.2
  | pegged off r => exact rt_PeggedOrder id price vis side ts tif off r h1 h2 h3 h4 h5 hk.1 hk.2
  | iceberg hq => exact rt_IcebergOrder id price vis side ts tif hq h1 h2 h3 h4 h5 hk
  | reserve hq thr amt auto => exact rt_ReserveOrder id price vis side ts tif hq thr amt auto h1 h2 h3 h4 h5 hk.1 hk.2.1 hk.2.2

/-! ### order updates -/

theorem rt_UpdatePrice (id : Id) (p : Nat)
    (hid : id.val < 2 ^ 128) (hp : p < W) :
    parseUpdate (showUpdate (.price id p)) = .ok (.price id p) := by
  have e1 := parseId_showId id hid
  have e2 := parseU64_showNat hp
  have hfs : ∀ kvp ∈ [(lit "order_id", showId id), (lit "new_price", showNat p)], Plain kvp.1 ∧ Plain kvp.2 := by
    plain_fields
  have hshow : showUpdate (.price id p) = lit "UpdatePrice" ++ ':' :: renderPairs [(lit "order_id", showId id), (lit "new_price", showNat p)] := by
    simp only [showUpdate]; exact record_eq "UpdatePrice" [("order_id", showId id), ("new_price", showNat p)]
  rw [hshow]; unfold parseUpdate
  rw [split_record _ _ (by plain_tac) hfs]
  simp only [parseFields_renderPairs _ (by simp) hfs]
  simp (config := {decide := true}) [getField, reqU64, List.find?, e1, e2, parseSide_showSide, bind, Except.bind]

theorem rt_UpdateQuantity (id : Id) (n : Nat)
    (hid : id.val < 2 ^ 128) (hn : n < W) :
    parseUpdate (showUpdate (.quantity id n)) = .ok (.quantity id n) := by
  have e1 := parseId_showId id hid
  have e2 := parseU64_showNat hn
  have hfs : ∀ kvp ∈ [(lit "order_id", showId id), (lit "new_quantity", showNat n)], Plain kvp.1 ∧ Plain kvp.2 := by
    plain_fields
  have hshow : showUpdate (.quantity id n) = lit "UpdateQuantity" ++ ':' :: renderPairs [(lit "order_id", showId id), (lit "new_quantity", showNat n)] := by
    simp only [showUpdate]; exact record_eq "UpdateQuantity" [("order_id", showId id), ("new_quantity", showNat n)]
  rw [hshow]; unfold parseUpdate
  rw [split_record _ _ (by plain_tac) hfs]
  simp only [parseFields_renderPairs _ (by simp) hfs]
  simp (config := {decide := true}) [getField, reqU64, List.find?, e1, e2, parseSide_showSide, bind, Except.bind]

theorem rt_UpdatePriceAndQuantity (id : Id) (p n : Nat)
    (hid : id.val < 2 ^ 128) (hp : p < W) (hn : n < W) :
    parseUpdate (showUpdate (.priceQty id p n)) = .ok (.priceQty id p n) := by
  have e1 := parseId_showId id hid
  have e2 := parseU64_showNat hp
  have e3 := parseU64_showNat hn
  have hfs : ∀ kvp ∈ [(lit "order_id", showId id), (lit "new_price", showNat p), (lit "new_quantity", showNat n)], Plain kvp.1 ∧ Plain kvp.2 := by
    plain_fields
  have hshow : showUpdate (.priceQty id p n) = lit "UpdatePriceAndQuantity" ++ ':' :: renderPairs [(lit "order_id", showId id), (lit "new_price", showNat p), (lit "new_quantity", showNat n)] := by
    simp only [showUpdate]; exact record_eq "UpdatePriceAndQuantity" [("order_id", showId id), ("new_price", showNat p), ("new_quantity", showNat n)]
  rw [hshow]; unfold parseUpdate
  rw [split_record _ _ (by plain_tac) hfs]
  simp only [parseFields_renderPairs _ (by simp) hfs]
  simp (config := {decide := true}) [getField, reqU64, List.find?, e1, e2, e3, parseSide_showSide, bind, Except.bind]

theorem rt_Cancel (id : Id)
    (hid : id.val < 2 ^ 128) :
    parseUpdate (showUpdate (.cancel id)) = .ok (.cancel id) := by
  have e1 := parseId_showId id hid
  have hfs : ∀ kvp ∈ [(lit "order_id", showId id)], Plain kvp.1 ∧ Plain kvp.2 := by
    plain_fields
  have hshow : showUpdate (.cancel id) = lit "Cancel" ++ ':' :: renderPairs [(lit "order_id", showId id)] := by
    simp only [showUpdate]; exact record_eq "Cancel" [("order_id", showId id)]
  rw [hshow]; unfold parseUpdate
  rw [split_record _ _ (by plain_tac) hfs]
  simp only [parseFields_renderPairs _ (by simp) hfs]
  simp (config := {decide := true}) [getField, reqU64, List.find?, e1, parseSide_showSide, bind, Except.bind]

theorem rt_Replace (id : Id) (p n : Nat) (sd : Side)
    (hid : id.val < 2 ^ 128) (hp : p < W) (hn : n < W) :
    parseUpdate (showUpdate (.replace id p n sd)) = .ok (.replace id p n sd) := by
  have e1 := parseId_showId id hid
  have e2 := parseU64_showNat hp
  have e3 := parseU64_showNat hn
  have hfs : ∀ kvp ∈ [(lit "order_id", showId id), (lit "price", showNat p), (lit "quantity", showNat n), (lit "side", showSide sd)], Plain kvp.1 ∧ Plain kvp.2 := by
    plain_fields
  have hshow : showUpdate (.replace id p n sd) = lit "Replace" ++ ':' :: renderPairs [(lit "order_id", showId id), (lit "price", showNat p), (lit "quantity", showNat n), (lit "side", showSide sd)] := by
    simp only [showUpdate]; exact record_eq "Replace" [("order_id", showId id), ("price", showNat p), ("quantity", showNat n), ("side", showSide sd)]
  rw [hshow]; unfold parseUpdate
  rw [split_record _ _ (by plain_tac) hfs]
  simp only [parseFields_renderPairs _ (by simp) hfs]
  simp (config := {decide := true}) [getField, reqU64, List.find?, e1, e2, e3, parseSide_showSide, bind, Except.bind]

/-- **order updates, all five kinds** -/
theorem C16_update (u : Update) (h : UpdateOk u) : parseUpdate (showUpdate u) = .ok u := by
  cases u with
  | price id p => exact rt_UpdatePrice id p h.1 h.2
  | quantity id n => exact rt_UpdateQuantity id n h.1 h.2
  | priceQty id p n => exact rt_UpdatePriceAndQuantity id p n h.1 h.2.1 h.2.2
  | cancel id => exact rt_Cancel id h
  | replace id p n sd => exact rt_Replace id p n sd h.1 h.2.1 h.2.2

/-! ### transactions, statistics, snapshot summaries -/

theorem rt_Tx (txid : Nat) (taker maker : Id) (price qty : Nat) (side : Side) (ts : Nat)
    (h0 : txid < 2 ^ 128) (h1 : taker.val < 2 ^ 128) (h2 : maker.val < 2 ^ 128) (h3 : price < W) (h4 : qty < W) (h5 : ts < W) :
    parseTx (showTx ⟨txid, taker, maker, price, qty, side, ts⟩) = .ok ⟨txid, taker, maker, price, qty, side, ts⟩ := by
  have e0 := parseUuid_showUuid h0
  have e1 := parseId_showId taker h1
  have e2 := parseId_showId maker h2
  have e3 := parseU64_showNat h3
  have e4 := parseU64_showNat h4
  have e5 := parseU64_showNat h5
  have hfs : ∀ kvp ∈ [(lit "transaction_id", showUuid txid), (lit "taker_order_id", showId taker), (lit "maker_order_id", showId maker), (lit "price", showNat price), (lit "quantity", showNat qty), (lit "taker_side", showSide side), (lit "timestamp", showNat ts)], Plain kvp.1 ∧ Plain kvp.2 := by
    plain_fields
  have hshow : showTx ⟨txid, taker, maker, price, qty, side, ts⟩ = lit "Transaction" ++ ':' :: renderPairs [(lit "transaction_id", showUuid txid), (lit "taker_order_id", showId taker), (lit "maker_order_id", showId maker), (lit "price", showNat price), (lit "quantity", showNat qty), (lit "taker_side", showSide side), (lit "timestamp", showNat ts)] := by
    simp only [showTx]; exact record_eq "Transaction" [("transaction_id", showUuid txid), ("taker_order_id", showId taker), ("maker_order_id", showId maker), ("price", showNat price), ("quantity", showNat qty), ("taker_side", showSide side), ("timestamp", showNat ts)]
  rw [hshow]; unfold parseTx
  rw [split_record _ _ (by plain_tac) hfs]
  simp only [parseFields_renderPairs _ (by simp) hfs]
  simp (config := {decide := true}) [getField, reqU64, List.find?, e0, e1, e2, e3, e4, e5, parseSide_showSide, bind, Except.bind]

/-- **transactions** -/
theorem C16_tx (t : TxRec) (h : TxOk t) : parseTx (showTx t) = .ok t := by
  obtain ⟨txid, taker, maker, price, qty, side, ts⟩ := t
  exact rt_Tx txid taker maker price qty side ts h.txid h.taker h.maker h.price h.qty h.ts

theorem rt_Stats (a r e q v l f w : Nat)
    (ha : a < W) (hr : r < W) (he : e < W) (hq : q < W) (hv : v < W) (hl : l < W) (hf : f < W) (hw : w < W) :
    parseStats (showStats ⟨a, r, e, q, v, l, f, w⟩) = .ok ⟨a, r, e, q, v, l, f, w⟩ := by
  have e1 := parseU64_showNat ha
  have e2 := parseU64_showNat hr
  have e3 := parseU64_showNat he
  have e4 := parseU64_showNat hq
  have e5 := parseU64_showNat hv
  have e6 := parseU64_showNat hl
  have e7 := parseU64_showNat hf
  have e8 := parseU64_showNat hw
  have hfs : ∀ kvp ∈ [(lit "orders_added", showNat a), (lit "orders_removed", showNat r), (lit "orders_executed", showNat e), (lit "quantity_executed", showNat q), (lit "value_executed", showNat v), (lit "last_execution_time", showNat l), (lit "first_arrival_time", showNat f), (lit "sum_waiting_time", showNat w)], Plain kvp.1 ∧ Plain kvp.2 := by
    plain_fields
  have hshow : showStats ⟨a, r, e, q, v, l, f, w⟩ = lit "PriceLevelStatistics" ++ ':' :: renderPairs [(lit "orders_added", showNat a), (lit "orders_removed", showNat r), (lit "orders_executed", showNat e), (lit "quantity_executed", showNat q), (lit "value_executed", showNat v), (lit "last_execution_time", showNat l), (lit "first_arrival_time", showNat f), (lit "sum_waiting_time", showNat w)] := by
    simp only [showStats]; exact record_eq "PriceLevelStatistics" [("orders_added", showNat a), ("orders_removed", showNat r), ("orders_executed", showNat e), ("quantity_executed", showNat q), ("value_executed", showNat v), ("last_execution_time", showNat l), ("first_arrival_time", showNat f), ("sum_waiting_time", showNat w)]
  rw [hshow]; unfold parseStats
  rw [split_record _ _ (by plain_tac) hfs]
  simp only [parseFields_renderPairs _ (by simp) hfs]
  simp (config := {decide := true}) [getField, reqU64, List.find?, e1, e2, e3, e4, e5, e6, e7, e8, parseSide_showSide, bind, Except.bind]

/-- **statistics** -/
theorem C16_stats (s : StatsRec) (h : s.added < W ∧ s.removed < W ∧ s.executed < W ∧ s.qty < W ∧ s.value < W ∧
    s.last < W ∧ s.first < W ∧ s.wait < W) : parseStats (showStats s) = .ok s := by
  obtain ⟨a, r, e, q, v, l, f, w⟩ := s
  obtain ⟨h1, h2, h3, h4, h5, h6, h7, h8⟩ := h
  exact rt_Stats a r e q v l f w h1 h2 h3 h4 h5 h6 h7 h8

theorem rt_Snap (p v h c : Nat)
    (hp : p < W) (hv : v < W) (hh : h < W) (hc : c < W) :
    parseSnap (showSnap ⟨p, v, h, c⟩) = .ok ⟨p, v, h, c⟩ := by
  have e1 := parseU64_showNat hp
  have e2 := parseU64_showNat hv
  have e3 := parseU64_showNat hh
  have e4 := parseU64_showNat hc
  have hfs : ∀ kvp ∈ [(lit "price", showNat p), (lit "visible_quantity", showNat v), (lit "hidden_quantity", showNat h), (lit "order_count", showNat c)], Plain kvp.1 ∧ Plain kvp.2 := by
    plain_fields
  have hshow : showSnap ⟨p, v, h, c⟩ = lit "PriceLevelSnapshot" ++ ':' :: renderPairs [(lit "price", showNat p), (lit "visible_quantity", showNat v), (lit "hidden_quantity", showNat h), (lit "order_count", showNat c)] := by
    simp only [showSnap]; exact record_eq "PriceLevelSnapshot" [("price", showNat p), ("visible_quantity", showNat v), ("hidden_quantity", showNat h), ("order_count", showNat c)]
  rw [hshow]; unfold parseSnap
  rw [split_record _ _ (by plain_tac) hfs]
  simp only [parseFields_renderPairs _ (by simp) hfs]
  simp (config := {decide := true}) [getField, reqU64, List.find?, e1, e2, e3, e4, parseSide_showSide, bind, Except.bind]

/-- **snapshot summaries** (price and aggregates) -/
theorem C16_snapshot (s : SnapSummary) (h : s.price < W ∧ s.vis < W ∧ s.hid < W ∧ s.cnt < W) :
    parseSnap (showSnap s) = .ok s := by
  obtain ⟨p, v, hq, c⟩ := s
  obtain ⟨h1, h2, h3, h4⟩ := h
  exact rt_Snap p v hq c h1 h2 h3 h4

/-! ### the order queue (a list of orders of any length) -/

macro "rec_fields" : tactic =>
  `(tactic| ((repeat' (first | exact allRec_nil | apply allRec_cons)) <;>
             (refine recChars_kv _ _ ?_ ?_ <;> plain_tac)))

theorem recChars_order_aux (name : String) (fields : List Str) (hn : Plain (lit name)) (h : AllRec fields) :
    RecChars (record name fields) := recChars_record name fields hn h.all

theorem rc_standard (id : Id) (price vis : Nat) (side : Side) (ts : Nat) (tif : Tif)  :
    RecChars (showOrder ⟨id, price, vis, side, ts, tif, .standard⟩) := by
  simp only [showOrder, List.cons_append, List.nil_append]; apply recChars_order_aux _ _ (by plain_tac); rec_fields

theorem rc_postOnly (id : Id) (price vis : Nat) (side : Side) (ts : Nat) (tif : Tif)  :
    RecChars (showOrder ⟨id, price, vis, side, ts, tif, .postOnly⟩) := by
  simp only [showOrder, List.cons_append, List.nil_append]; apply recChars_order_aux _ _ (by plain_tac); rec_fields

theorem rc_marketToLimit (id : Id) (price vis : Nat) (side : Side) (ts : Nat) (tif : Tif)  :
    RecChars (showOrder ⟨id, price, vis, side, ts, tif, .marketToLimit⟩) := by
  simp only [showOrder, List.cons_append, List.nil_append]; apply recChars_order_aux _ _ (by plain_tac); rec_fields

theorem rc_trailingStop (id : Id) (price vis : Nat) (side : Side) (ts : Nat) (tif : Tif) (t r : Nat) :
    RecChars (showOrder ⟨id, price, vis, side, ts, tif, .trailingStop t r⟩) := by
  simp only [showOrder, List.cons_append, List.nil_append]; apply recChars_order_aux _ _ (by plain_tac); rec_fields

theorem rc_pegged (id : Id) (price vis : Nat) (side : Side) (ts : Nat) (tif : Tif) (off : Int) (r : PegRef) :
    RecChars (showOrder ⟨id, price, vis, side, ts, tif, .pegged off r⟩) := by
  simp only [showOrder, List.cons_append, List.nil_append]; apply recChars_order_aux _ _ (by plain_tac); rec_fields

theorem rc_iceberg (id : Id) (price vis : Nat) (side : Side) (ts : Nat) (tif : Tif) (hq : Nat) :
    RecChars (showOrder ⟨id, price, vis, side, ts, tif, .iceberg hq⟩) := by
  simp only [showOrder, List.cons_append, List.nil_append]; apply recChars_order_aux _ _ (by plain_tac); rec_fields

theorem rc_reserve_nf (id : Id) (price vis : Nat) (side : Side) (ts : Nat) (tif : Tif) (hq thr : Nat) :
    RecChars (showOrder ⟨id, price, vis, side, ts, tif, .reserve hq thr none false⟩) := by
  simp only [showOrder, List.cons_append, List.nil_append]; apply recChars_order_aux _ _ (by plain_tac); rec_fields

theorem rc_reserve_nt (id : Id) (price vis : Nat) (side : Side) (ts : Nat) (tif : Tif) (hq thr : Nat) :
    RecChars (showOrder ⟨id, price, vis, side, ts, tif, .reserve hq thr none true⟩) := by
  simp only [showOrder, List.cons_append, List.nil_append]; apply recChars_order_aux _ _ (by plain_tac); rec_fields

theorem rc_reserve_sf (id : Id) (price vis : Nat) (side : Side) (ts : Nat) (tif : Tif) (hq thr a : Nat) :
    RecChars (showOrder ⟨id, price, vis, side, ts, tif, .reserve hq thr (some a) false⟩) := by
  simp only [showOrder, List.cons_append, List.nil_append]; apply recChars_order_aux _ _ (by plain_tac); rec_fields

theorem rc_reserve_st (id : Id) (price vis : Nat) (side : Side) (ts : Nat) (tif : Tif) (hq thr a : Nat) :
    RecChars (showOrder ⟨id, price, vis, side, ts, tif, .reserve hq thr (some a) true⟩) := by
  simp only [showOrder, List.cons_append, List.nil_append]; apply recChars_order_aux _ _ (by plain_tac); rec_fields

/-- a printed order consists of field characters and `:`, `=`, `;` only — in particular it contains
    no comma and no bracket, for every order -/
theorem showOrder_recChars (o : Order) : RecChars (showOrder o) := by
  obtain ⟨id, price, vis, side, ts, tif, kind⟩ := o
  cases kind with
  | standard => exact rc_standard id price vis side ts tif
  | postOnly => exact rc_postOnly id price vis side ts tif
  | marketToLimit => exact rc_marketToLimit id price vis side ts tif
  | trailingStop t r => exact rc_trailingStop id price vis side ts tif t r
  | pegged off r => exact rc_pegged id price vis side ts tif off r
  | iceberg hq => exact rc_iceberg id price vis side ts tif hq
  | reserve hq thr amt auto =>
    cases amt with
    | none => cases auto
              · exact rc_reserve_nf id price vis side ts tif hq thr
              · exact rc_reserve_nt id price vis side ts tif hq thr
    | some a => cases auto
                · exact rc_reserve_sf id price vis side ts tif hq thr a
                · exact rc_reserve_st id price vis side ts tif hq thr a

theorem showOrder_ne_nil (o : Order) : showOrder o ≠ [] := by
  obtain ⟨id, price, vis, side, ts, tif, kind⟩ := o
  cases kind <;> (simp only [showOrder]; exact record_ne_nil _ _)

/-- **order queue**: any number of orders, in the order printed -/
theorem C16_queue (os : List Order) (h : ∀ o ∈ os, OrderOk o) : parseQueue (showQueue os) = .ok os := by
  unfold parseQueue showQueue
  simp only [startsWith_wrapped, endsWith_append, Bool.not_true, Bool.false_eq_true, or_self, if_false, middle]
  cases hos : os with
  | nil => simp [joinSep]
  | cons o rest =>
    rw [← hos]
    have hne : os.map showOrder ≠ [] := by simp [hos]
    have hbody : joinSep [','] (os.map showOrder) ≠ [] :=
      joinSep_ne_nil _ _ hne (by intro x hx; obtain ⟨o', _, rfl⟩ := List.mem_map.1 hx; exact showOrder_ne_nil o')
    have hsplit : splitOn ',' (joinSep [','] (os.map showOrder)) = os.map showOrder :=
      splitOn_joinSep ',' _ hne (by
        intro x hx; obtain ⟨o', _, rfl⟩ := List.mem_map.1 hx
        exact (showOrder_recChars o').no (by decide))
    rw [if_neg (by simpa using hbody), hsplit]
    exact mapM_show showOrder (fun p => match parseOrder p with | .ok o => .ok o | .error _ => .error Err.parseError) os
      (fun o' ho' => by simp only [C16_order o' (h o' ho')])

/-! ### transaction lists (any length) -/

theorem showTx_recChars (t : TxRec) : RecChars (showTx t) := by
  obtain ⟨txid, taker, maker, price, qty, side, ts⟩ := t
  simp only [showTx]; apply recChars_order_aux _ _ (by plain_tac); rec_fields

theorem showTx_ne_nil (t : TxRec) : showTx t ≠ [] := by
  simp only [showTx]; exact record_ne_nil _ _

theorem lit_txs : lit "Transactions:[" = lit "Transactions:" ++ ['['] := by decide

/-- **transaction lists**: any number of transactions, in the order printed -/
theorem C16_txlist (l : List TxRec) (h : ∀ t ∈ l, TxOk t) : parseTxList (showTxList l) = .ok l := by
  unfold parseTxList showTxList
  have hstart : startsWith (lit "Transactions:[") (lit "Transactions:[" ++ joinSep [','] (l.map showTx) ++ [']']) = true :=
    startsWith_wrapped _ _ _
  have hend : endsWith [']'] (lit "Transactions:[" ++ joinSep [','] (l.map showTx) ++ [']']) = true := endsWith_append _ _
  have hidx : idxOf '[' (lit "Transactions:[" ++ joinSep [','] (l.map showTx) ++ [']']) = some 13 := by
    rw [lit_txs, List.append_assoc, List.append_assoc, List.singleton_append]
    rw [idxOf_append _ (by decide)]; rfl
  have hr : ridxOf ']' (lit "Transactions:[" ++ joinSep [','] (l.map showTx) ++ [']']) =
      some (14 + (joinSep [','] (l.map showTx)).length) := by
    rw [ridxOf_snoc]; simp [List.length_append]; rfl
  have hcontent : ((lit "Transactions:[" ++ joinSep [','] (l.map showTx) ++ [']']).drop (13 + 1)).take
      (14 + (joinSep [','] (l.map showTx)).length - 13 - 1) = joinSep [','] (l.map showTx) := by
    exact middle' (lit "Transactions:[") _ ']' 13 (by decide)
  simp only [hstart, hend, Bool.not_true, Bool.false_eq_true, or_self, if_false, hidx, hr]
  rw [if_neg (by omega), hcontent]
  cases hl : l with
  | nil => simp [joinSep]
  | cons t rest =>
    rw [← hl]
    have hne : l.map showTx ≠ [] := by simp [hl]
    have hbody : joinSep [','] (l.map showTx) ≠ [] :=
      joinSep_ne_nil _ _ hne (by intro x hx; obtain ⟨t', _, rfl⟩ := List.mem_map.1 hx; exact showTx_ne_nil t')
    have hsplit : splitTop 0 [] (joinSep [','] (l.map showTx)) = l.map showTx :=
      splitTop_joinSep _ (by
        intro x hx; obtain ⟨t', _, rfl⟩ := List.mem_map.1 hx
        exact ⟨showTx_recChars t', showTx_ne_nil t'⟩)
    rw [if_neg (by simpa using hbody), hsplit]
    exact mapM_show showTx parseTx l (fun t' ht' => C16_tx t' (h t' ht'))

/-! non-vacuity: a reserve order with boundary values satisfies the premise -/
example : OrderOk ⟨⟨true, 2 ^ 128 - 1⟩, W - 1, 0, .buy, W - 1, .gtd (W - 1), .reserve (W - 1) 0 none true⟩ :=
  ⟨by decide, by decide, by decide, by decide, by intro n hn; injection hn with hn; subst hn; decide,
   ⟨by decide, by decide, by intro a ha; cases ha⟩⟩

end PLV.C16

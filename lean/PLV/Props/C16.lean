/-
  C16 — Text encodings round-trip for every value.
  Property theorems only: `parse (show v) = v` over the model's codecs, for EVERY value whose numeric
  fields fit their Rust types (ids below 2^128, `u64` fields below 2^64, the peg offset in `i64`).

  Proved here: ids (both forms), unsigned / signed numbers, side, time-in-force, peg reference,
  orders (all seven kinds), order updates (all five kinds), transactions, statistics, snapshot
  summaries.
  and the four list-carrying encodings: order queue (`C16_queue`), transaction list (`C16_txlist`),
  level (`C16_level`: price and orders; the aggregates in the text are ignored by the parser) and
  match result (`C16_mr`: the field loop with its position arithmetic and bracket scanner), each for
  lists of any length. Nothing of C16 is left to the correspondence run alone.
-/
import PLV.Lemmas.TextRecords
import PLV.Lemmas.TextLists
import PLV.Props.Ranges

namespace PLV.C16
open PLV PLV.Text

macro "plain_tac" : tactic =>
  `(tactic| first
    | exact plain_of_id (showId_chars _)
    | exact plain_of_id (showNat_idChars _)
    | exact plain_of_id (showSide_plainchars _)
    | exact plain_of_id (showTif_plainchars _)
    | exact plain_of_id (showInt_idChars _)
    | exact plain_of_id (showPeg_plainchars _)
    | exact plain_of_id (fun c hc => (showUuid_chars _ c hc).1)
    | (show Plain _; (try dsimp only); intro c hc; revert c; decide))

macro "plain_fields" : tactic =>
  `(tactic| ((repeat' (first | exact plain_nil | apply plain_cons)) <;> plain_tac))

theorem C16_id (i : Id) (h : i.val < 2 ^ 128) : parseId (showId i) = some i := parseId_showId i h
theorem C16_uuid (v : Nat) (h : v < 2 ^ 128) : parseUuid (showUuid v) = some v := parseUuid_showUuid h
theorem C16_u64 (n : Nat) (h : n < W) : parseU64 (showNat n) = some n := parseU64_showNat h
theorem C16_i64 (i : Int) (h1 : -9223372036854775808 ≤ i) (h2 : i < 9223372036854775808) :
    parseI64 (showInt i) = some i := parseI64_showInt h1 h2
theorem C16_side (s : Side) : parseSide (showSide s) = some s := parseSide_showSide s
theorem C16_tif (t : Tif) (h : ∀ n, t = .gtd n → n < W) : parseTif (showTif t) = some t := parseTif_showTif t h
theorem C16_peg (p : PegRef) : parsePeg (showPeg p) = some p := (parsePeg_showPeg p).1

/-! ### orders, kind by kind -/

theorem rt_Standard (id : Id) (price vis : Nat) (side : Side) (ts : Nat) (tif : Tif) 
    (hid : id.val < 2 ^ 128) (hprice : price < W) (hvis : vis < W) (hts : ts < W) (htif : ∀ n, tif = .gtd n → n < W)  :
    parseOrder (showOrder ⟨id, price, vis, side, ts, tif, .standard⟩) = .ok ⟨id, price, vis, side, ts, tif, .standard⟩ := by
  have e1 := parseId_showId id hid
  have e2 := parseU64_showNat hprice
  have e3 := parseU64_showNat hvis
  have e4 := parseU64_showNat hts
  have e5 := parseTif_showTif tif htif
  have hfs : ∀ kvp ∈ [(lit "id", showId id), (lit "price", showNat price), (lit "quantity", showNat vis), (lit "side", showSide side), (lit "timestamp", showNat ts), (lit "time_in_force", showTif tif)], Plain kvp.1 ∧ Plain kvp.2 := by
    plain_fields
  have hshow : showOrder ⟨id, price, vis, side, ts, tif, .standard⟩ = lit "Standard" ++ ':' :: renderPairs [(lit "id", showId id), (lit "price", showNat price), (lit "quantity", showNat vis), (lit "side", showSide side), (lit "timestamp", showNat ts), (lit "time_in_force", showTif tif)] := by
    simp only [showOrder]; exact record_eq "Standard" [("id", showId id), ("price", showNat price), ("quantity", showNat vis), ("side", showSide side), ("timestamp", showNat ts), ("time_in_force", showTif tif)]
  rw [hshow]; unfold parseOrder
  rw [split_record _ _ (by plain_tac) hfs]
  simp only [parseFields_renderPairs _ (by simp) hfs]
  simp (config := {decide := true}) [getField, reqU64, List.find?, e1, e2, e3, e4, e5, parseSide_showSide, bind, Except.bind]

theorem rt_PostOnly (id : Id) (price vis : Nat) (side : Side) (ts : Nat) (tif : Tif) 
    (hid : id.val < 2 ^ 128) (hprice : price < W) (hvis : vis < W) (hts : ts < W) (htif : ∀ n, tif = .gtd n → n < W)  :
    parseOrder (showOrder ⟨id, price, vis, side, ts, tif, .postOnly⟩) = .ok ⟨id, price, vis, side, ts, tif, .postOnly⟩ := by
  have e1 := parseId_showId id hid
  have e2 := parseU64_showNat hprice
  have e3 := parseU64_showNat hvis
  have e4 := parseU64_showNat hts
  have e5 := parseTif_showTif tif htif
  have hfs : ∀ kvp ∈ [(lit "id", showId id), (lit "price", showNat price), (lit "quantity", showNat vis), (lit "side", showSide side), (lit "timestamp", showNat ts), (lit "time_in_force", showTif tif)], Plain kvp.1 ∧ Plain kvp.2 := by
    plain_fields
  have hshow : showOrder ⟨id, price, vis, side, ts, tif, .postOnly⟩ = lit "PostOnly" ++ ':' :: renderPairs [(lit "id", showId id), (lit "price", showNat price), (lit "quantity", showNat vis), (lit "side", showSide side), (lit "timestamp", showNat ts), (lit "time_in_force", showTif tif)] := by
    simp only [showOrder]; exact record_eq "PostOnly" [("id", showId id), ("price", showNat price), ("quantity", showNat vis), ("side", showSide side), ("timestamp", showNat ts), ("time_in_force", showTif tif)]
  rw [hshow]; unfold parseOrder
  rw [split_record _ _ (by plain_tac) hfs]
  simp only [parseFields_renderPairs _ (by simp) hfs]
  simp (config := {decide := true}) [getField, reqU64, List.find?, e1, e2, e3, e4, e5, parseSide_showSide, bind, Except.bind]

theorem rt_MarketToLimit (id : Id) (price vis : Nat) (side : Side) (ts : Nat) (tif : Tif) 
    (hid : id.val < 2 ^ 128) (hprice : price < W) (hvis : vis < W) (hts : ts < W) (htif : ∀ n, tif = .gtd n → n < W)  :
    parseOrder (showOrder ⟨id, price, vis, side, ts, tif, .marketToLimit⟩) = .ok ⟨id, price, vis, side, ts, tif, .marketToLimit⟩ := by
  have e1 := parseId_showId id hid
  have e2 := parseU64_showNat hprice
  have e3 := parseU64_showNat hvis
  have e4 := parseU64_showNat hts
  have e5 := parseTif_showTif tif htif
  have hfs : ∀ kvp ∈ [(lit "id", showId id), (lit "price", showNat price), (lit "quantity", showNat vis), (lit "side", showSide side), (lit "timestamp", showNat ts), (lit "time_in_force", showTif tif)], Plain kvp.1 ∧ Plain kvp.2 := by
    plain_fields
  have hshow : showOrder ⟨id, price, vis, side, ts, tif, .marketToLimit⟩ = lit "MarketToLimit" ++ ':' :: renderPairs [(lit "id", showId id), (lit "price", showNat price), (lit "quantity", showNat vis), (lit "side", showSide side), (lit "timestamp", showNat ts), (lit "time_in_force", showTif tif)] := by
    simp only [showOrder]; exact record_eq "MarketToLimit" [("id", showId id), ("price", showNat price), ("quantity", showNat vis), ("side", showSide side), ("timestamp", showNat ts), ("time_in_force", showTif tif)]
  rw [hshow]; unfold parseOrder
  rw [split_record _ _ (by plain_tac) hfs]
  simp only [parseFields_renderPairs _ (by simp) hfs]
  simp (config := {decide := true}) [getField, reqU64, List.find?, e1, e2, e3, e4, e5, parseSide_showSide, bind, Except.bind]

theorem rt_TrailingStop (id : Id) (price vis : Nat) (side : Side) (ts : Nat) (tif : Tif) (t r : Nat)
    (hid : id.val < 2 ^ 128) (hprice : price < W) (hvis : vis < W) (hts : ts < W) (htif : ∀ n, tif = .gtd n → n < W) (ht : t < W) (hr : r < W) :
    parseOrder (showOrder ⟨id, price, vis, side, ts, tif, .trailingStop t r⟩) = .ok ⟨id, price, vis, side, ts, tif, .trailingStop t r⟩ := by
  have e1 := parseId_showId id hid
  have e2 := parseU64_showNat hprice
  have e3 := parseU64_showNat hvis
  have e4 := parseU64_showNat hts
  have e5 := parseTif_showTif tif htif
  have e6 := parseU64_showNat ht
  have e7 := parseU64_showNat hr
  have hfs : ∀ kvp ∈ [(lit "id", showId id), (lit "price", showNat price), (lit "quantity", showNat vis), (lit "side", showSide side), (lit "timestamp", showNat ts), (lit "time_in_force", showTif tif), (lit "trail_amount", showNat t), (lit "last_reference_price", showNat r)], Plain kvp.1 ∧ Plain kvp.2 := by
    plain_fields
  have hshow : showOrder ⟨id, price, vis, side, ts, tif, .trailingStop t r⟩ = lit "TrailingStop" ++ ':' :: renderPairs [(lit "id", showId id), (lit "price", showNat price), (lit "quantity", showNat vis), (lit "side", showSide side), (lit "timestamp", showNat ts), (lit "time_in_force", showTif tif), (lit "trail_amount", showNat t), (lit "last_reference_price", showNat r)] := by
    simp only [showOrder]; exact record_eq "TrailingStop" [("id", showId id), ("price", showNat price), ("quantity", showNat vis), ("side", showSide side), ("timestamp", showNat ts), ("time_in_force", showTif tif), ("trail_amount", showNat t), ("last_reference_price", showNat r)]
  rw [hshow]; unfold parseOrder
  rw [split_record _ _ (by plain_tac) hfs]
  simp only [parseFields_renderPairs _ (by simp) hfs]
  simp (config := {decide := true}) [getField, reqU64, List.find?, e1, e2, e3, e4, e5, parseSide_showSide, bind, Except.bind, e6, e7]

theorem rt_PeggedOrder (id : Id) (price vis : Nat) (side : Side) (ts : Nat) (tif : Tif) (off : Int) (r : PegRef)
    (hid : id.val < 2 ^ 128) (hprice : price < W) (hvis : vis < W) (hts : ts < W) (htif : ∀ n, tif = .gtd n → n < W) (h1 : -9223372036854775808 ≤ off) (h2 : off < 9223372036854775808) :
    parseOrder (showOrder ⟨id, price, vis, side, ts, tif, .pegged off r⟩) = .ok ⟨id, price, vis, side, ts, tif, .pegged off r⟩ := by
  have e1 := parseId_showId id hid
  have e2 := parseU64_showNat hprice
  have e3 := parseU64_showNat hvis
  have e4 := parseU64_showNat hts
  have e5 := parseTif_showTif tif htif
  have e6 := parseI64_showInt h1 h2
  have e7 := (parsePeg_showPeg r).2
  have hfs : ∀ kvp ∈ [(lit "id", showId id), (lit "price", showNat price), (lit "quantity", showNat vis), (lit "side", showSide side), (lit "timestamp", showNat ts), (lit "time_in_force", showTif tif), (lit "reference_price_offset", showInt off), (lit "reference_price_type", showPeg r)], Plain kvp.1 ∧ Plain kvp.2 := by
    plain_fields
  have hshow : showOrder ⟨id, price, vis, side, ts, tif, .pegged off r⟩ = lit "PeggedOrder" ++ ':' :: renderPairs [(lit "id", showId id), (lit "price", showNat price), (lit "quantity", showNat vis), (lit "side", showSide side), (lit "timestamp", showNat ts), (lit "time_in_force", showTif tif), (lit "reference_price_offset", showInt off), (lit "reference_price_type", showPeg r)] := by
    simp only [showOrder]; exact record_eq "PeggedOrder" [("id", showId id), ("price", showNat price), ("quantity", showNat vis), ("side", showSide side), ("timestamp", showNat ts), ("time_in_force", showTif tif), ("reference_price_offset", showInt off), ("reference_price_type", showPeg r)]
  rw [hshow]; unfold parseOrder
  rw [split_record _ _ (by plain_tac) hfs]
  simp only [parseFields_renderPairs _ (by simp) hfs]
  simp (config := {decide := true}) [getField, reqU64, List.find?, e1, e2, e3, e4, e5, parseSide_showSide, bind, Except.bind, e6, e7]

theorem rt_IcebergOrder (id : Id) (price vis : Nat) (side : Side) (ts : Nat) (tif : Tif) (hq : Nat)
    (hid : id.val < 2 ^ 128) (hprice : price < W) (hvis : vis < W) (hts : ts < W) (htif : ∀ n, tif = .gtd n → n < W) (hh : hq < W) :
    parseOrder (showOrder ⟨id, price, vis, side, ts, tif, .iceberg hq⟩) = .ok ⟨id, price, vis, side, ts, tif, .iceberg hq⟩ := by
  have e1 := parseId_showId id hid
  have e2 := parseU64_showNat hprice
  have e3 := parseU64_showNat hvis
  have e4 := parseU64_showNat hts
  have e5 := parseTif_showTif tif htif
  have e6 := parseU64_showNat hh
  have hfs : ∀ kvp ∈ [(lit "id", showId id), (lit "price", showNat price), (lit "visible_quantity", showNat vis), (lit "hidden_quantity", showNat hq), (lit "side", showSide side), (lit "timestamp", showNat ts), (lit "time_in_force", showTif tif)], Plain kvp.1 ∧ Plain kvp.2 := by
    plain_fields
  have hshow : showOrder ⟨id, price, vis, side, ts, tif, .iceberg hq⟩ = lit "IcebergOrder" ++ ':' :: renderPairs [(lit "id", showId id), (lit "price", showNat price), (lit "visible_quantity", showNat vis), (lit "hidden_quantity", showNat hq), (lit "side", showSide side), (lit "timestamp", showNat ts), (lit "time_in_force", showTif tif)] := by
    simp only [showOrder]; exact record_eq "IcebergOrder" [("id", showId id), ("price", showNat price), ("visible_quantity", showNat vis), ("hidden_quantity", showNat hq), ("side", showSide side), ("timestamp", showNat ts), ("time_in_force", showTif tif)]
  rw [hshow]; unfold parseOrder
  rw [split_record _ _ (by plain_tac) hfs]
  simp only [parseFields_renderPairs _ (by simp) hfs]
  simp (config := {decide := true}) [getField, reqU64, List.find?, e1, e2, e3, e4, e5, parseSide_showSide, bind, Except.bind, e6]

theorem rt_Reserve_none_true (id : Id) (price vis : Nat) (side : Side) (ts : Nat) (tif : Tif) (hq thr : Nat) 
    (hid : id.val < 2 ^ 128) (hprice : price < W) (hvis : vis < W) (hts : ts < W) (htif : ∀ n, tif = .gtd n → n < W) (hh : hq < W) (hthr : thr < W)  :
    parseOrder (showOrder ⟨id, price, vis, side, ts, tif, .reserve hq thr none true⟩) = .ok ⟨id, price, vis, side, ts, tif, .reserve hq thr none true⟩ := by
  have e1 := parseId_showId id hid
  have e2 := parseU64_showNat hprice
  have e3 := parseU64_showNat hvis
  have e4 := parseU64_showNat hts
  have e5 := parseTif_showTif tif htif
  have e6 := parseU64_showNat hh
  have e7 := parseU64_showNat hthr
  have hfs : ∀ kvp ∈ [(lit "id", showId id), (lit "price", showNat price), (lit "visible_quantity", showNat vis), (lit "hidden_quantity", showNat hq), (lit "side", showSide side), (lit "timestamp", showNat ts), (lit "time_in_force", showTif tif), (lit "replenish_threshold", showNat thr), (lit "replenish_amount", lit "None"), (lit "auto_replenish", lit "true")], Plain kvp.1 ∧ Plain kvp.2 := by
    plain_fields
  have hshow : showOrder ⟨id, price, vis, side, ts, tif, .reserve hq thr none true⟩ = lit "ReserveOrder" ++ ':' :: renderPairs [(lit "id", showId id), (lit "price", showNat price), (lit "visible_quantity", showNat vis), (lit "hidden_quantity", showNat hq), (lit "side", showSide side), (lit "timestamp", showNat ts), (lit "time_in_force", showTif tif), (lit "replenish_threshold", showNat thr), (lit "replenish_amount", lit "None"), (lit "auto_replenish", lit "true")] := by
    simp only [showOrder]; exact record_eq "ReserveOrder" [("id", showId id), ("price", showNat price), ("visible_quantity", showNat vis), ("hidden_quantity", showNat hq), ("side", showSide side), ("timestamp", showNat ts), ("time_in_force", showTif tif), ("replenish_threshold", showNat thr), ("replenish_amount", lit "None"), ("auto_replenish", lit "true")]
  rw [hshow]; unfold parseOrder
  rw [split_record _ _ (by plain_tac) hfs]
  simp only [parseFields_renderPairs _ (by simp) hfs]
  simp (config := {decide := true}) [getField, reqU64, List.find?, e1, e2, e3, e4, e5, e6, e7, parseSide_showSide, bind, Except.bind]

theorem rt_Reserve_some_true (id : Id) (price vis : Nat) (side : Side) (ts : Nat) (tif : Tif) (hq thr : Nat) (a : Nat)
    (hid : id.val < 2 ^ 128) (hprice : price < W) (hvis : vis < W) (hts : ts < W) (htif : ∀ n, tif = .gtd n → n < W) (hh : hq < W) (hthr : thr < W) (hamt : a < W) :
    parseOrder (showOrder ⟨id, price, vis, side, ts, tif, .reserve hq thr (some a) true⟩) = .ok ⟨id, price, vis, side, ts, tif, .reserve hq thr (some a) true⟩ := by
  have e1 := parseId_showId id hid
  have e2 := parseU64_showNat hprice
  have e3 := parseU64_showNat hvis
  have e4 := parseU64_showNat hts
  have e5 := parseTif_showTif tif htif
  have e6 := parseU64_showNat hh
  have e7 := parseU64_showNat hthr
  have ha := parseU64_showNat hamt
  have hne : showNat a ≠ lit "None" := by
    intro e
    have hd := showNat_digits a 'N' (by rw [e]; decide)
    exact absurd hd (by decide)
  have hfs : ∀ kvp ∈ [(lit "id", showId id), (lit "price", showNat price), (lit "visible_quantity", showNat vis), (lit "hidden_quantity", showNat hq), (lit "side", showSide side), (lit "timestamp", showNat ts), (lit "time_in_force", showTif tif), (lit "replenish_threshold", showNat thr), (lit "replenish_amount", showNat a), (lit "auto_replenish", lit "true")], Plain kvp.1 ∧ Plain kvp.2 := by
    plain_fields
  have hshow : showOrder ⟨id, price, vis, side, ts, tif, .reserve hq thr (some a) true⟩ = lit "ReserveOrder" ++ ':' :: renderPairs [(lit "id", showId id), (lit "price", showNat price), (lit "visible_quantity", showNat vis), (lit "hidden_quantity", showNat hq), (lit "side", showSide side), (lit "timestamp", showNat ts), (lit "time_in_force", showTif tif), (lit "replenish_threshold", showNat thr), (lit "replenish_amount", showNat a), (lit "auto_replenish", lit "true")] := by
    simp only [showOrder]; exact record_eq "ReserveOrder" [("id", showId id), ("price", showNat price), ("visible_quantity", showNat vis), ("hidden_quantity", showNat hq), ("side", showSide side), ("timestamp", showNat ts), ("time_in_force", showTif tif), ("replenish_threshold", showNat thr), ("replenish_amount", showNat a), ("auto_replenish", lit "true")]
  rw [hshow]; unfold parseOrder
  rw [split_record _ _ (by plain_tac) hfs]
  simp only [parseFields_renderPairs _ (by simp) hfs]
  simp (config := {decide := true}) [getField, reqU64, List.find?, e1, e2, e3, e4, e5, e6, e7, parseSide_showSide, bind, Except.bind, ha, hne]

theorem rt_Reserve_none_false (id : Id) (price vis : Nat) (side : Side) (ts : Nat) (tif : Tif) (hq thr : Nat) 
    (hid : id.val < 2 ^ 128) (hprice : price < W) (hvis : vis < W) (hts : ts < W) (htif : ∀ n, tif = .gtd n → n < W) (hh : hq < W) (hthr : thr < W)  :
    parseOrder (showOrder ⟨id, price, vis, side, ts, tif, .reserve hq thr none false⟩) = .ok ⟨id, price, vis, side, ts, tif, .reserve hq thr none false⟩ := by
  have e1 := parseId_showId id hid
  have e2 := parseU64_showNat hprice
  have e3 := parseU64_showNat hvis
  have e4 := parseU64_showNat hts
  have e5 := parseTif_showTif tif htif
  have e6 := parseU64_showNat hh
  have e7 := parseU64_showNat hthr
  have hfs : ∀ kvp ∈ [(lit "id", showId id), (lit "price", showNat price), (lit "visible_quantity", showNat vis), (lit "hidden_quantity", showNat hq), (lit "side", showSide side), (lit "timestamp", showNat ts), (lit "time_in_force", showTif tif), (lit "replenish_threshold", showNat thr), (lit "replenish_amount", lit "None"), (lit "auto_replenish", lit "false")], Plain kvp.1 ∧ Plain kvp.2 := by
    plain_fields
  have hshow : showOrder ⟨id, price, vis, side, ts, tif, .reserve hq thr none false⟩ = lit "ReserveOrder" ++ ':' :: renderPairs [(lit "id", showId id), (lit "price", showNat price), (lit "visible_quantity", showNat vis), (lit "hidden_quantity", showNat hq), (lit "side", showSide side), (lit "timestamp", showNat ts), (lit "time_in_force", showTif tif), (lit "replenish_threshold", showNat thr), (lit "replenish_amount", lit "None"), (lit "auto_replenish", lit "false")] := by
    simp only [showOrder]; exact record_eq "ReserveOrder" [("id", showId id), ("price", showNat price), ("visible_quantity", showNat vis), ("hidden_quantity", showNat hq), ("side", showSide side), ("timestamp", showNat ts), ("time_in_force", showTif tif), ("replenish_threshold", showNat thr), ("replenish_amount", lit "None"), ("auto_replenish", lit "false")]
  rw [hshow]; unfold parseOrder
  rw [split_record _ _ (by plain_tac) hfs]
  simp only [parseFields_renderPairs _ (by simp) hfs]
  simp (config := {decide := true}) [getField, reqU64, List.find?, e1, e2, e3, e4, e5, e6, e7, parseSide_showSide, bind, Except.bind]

theorem rt_Reserve_some_false (id : Id) (price vis : Nat) (side : Side) (ts : Nat) (tif : Tif) (hq thr : Nat) (a : Nat)
    (hid : id.val < 2 ^ 128) (hprice : price < W) (hvis : vis < W) (hts : ts < W) (htif : ∀ n, tif = .gtd n → n < W) (hh : hq < W) (hthr : thr < W) (hamt : a < W) :
    parseOrder (showOrder ⟨id, price, vis, side, ts, tif, .reserve hq thr (some a) false⟩) = .ok ⟨id, price, vis, side, ts, tif, .reserve hq thr (some a) false⟩ := by
  have e1 := parseId_showId id hid
  have e2 := parseU64_showNat hprice
  have e3 := parseU64_showNat hvis
  have e4 := parseU64_showNat hts
  have e5 := parseTif_showTif tif htif
  have e6 := parseU64_showNat hh
  have e7 := parseU64_showNat hthr
  have ha := parseU64_showNat hamt
  have hne : showNat a ≠ lit "None" := by
    intro e
    have hd := showNat_digits a 'N' (by rw [e]; decide)
    exact absurd hd (by decide)
  have hfs : ∀ kvp ∈ [(lit "id", showId id), (lit "price", showNat price), (lit "visible_quantity", showNat vis), (lit "hidden_quantity", showNat hq), (lit "side", showSide side), (lit "timestamp", showNat ts), (lit "time_in_force", showTif tif), (lit "replenish_threshold", showNat thr), (lit "replenish_amount", showNat a), (lit "auto_replenish", lit "false")], Plain kvp.1 ∧ Plain kvp.2 := by
    plain_fields
  have hshow : showOrder ⟨id, price, vis, side, ts, tif, .reserve hq thr (some a) false⟩ = lit "ReserveOrder" ++ ':' :: renderPairs [(lit "id", showId id), (lit "price", showNat price), (lit "visible_quantity", showNat vis), (lit "hidden_quantity", showNat hq), (lit "side", showSide side), (lit "timestamp", showNat ts), (lit "time_in_force", showTif tif), (lit "replenish_threshold", showNat thr), (lit "replenish_amount", showNat a), (lit "auto_replenish", lit "false")] := by
    simp only [showOrder]; exact record_eq "ReserveOrder" [("id", showId id), ("price", showNat price), ("visible_quantity", showNat vis), ("hidden_quantity", showNat hq), ("side", showSide side), ("timestamp", showNat ts), ("time_in_force", showTif tif), ("replenish_threshold", showNat thr), ("replenish_amount", showNat a), ("auto_replenish", lit "false")]
  rw [hshow]; unfold parseOrder
  rw [split_record _ _ (by plain_tac) hfs]
  simp only [parseFields_renderPairs _ (by simp) hfs]
  simp (config := {decide := true}) [getField, reqU64, List.find?, e1, e2, e3, e4, e5, e6, e7, parseSide_showSide, bind, Except.bind, ha, hne]

theorem rt_ReserveOrder (id : Id) (price vis : Nat) (side : Side) (ts : Nat) (tif : Tif) (hq thr : Nat) (amt : Option Nat) (auto : Bool)
    (hid : id.val < 2 ^ 128) (hprice : price < W) (hvis : vis < W) (hts : ts < W) (htif : ∀ n, tif = .gtd n → n < W) (hh : hq < W) (hthr : thr < W) (hamt : ∀ a, amt = some a → a < W) :
    parseOrder (showOrder ⟨id, price, vis, side, ts, tif, .reserve hq thr amt auto⟩) = .ok ⟨id, price, vis, side, ts, tif, .reserve hq thr amt auto⟩ := by
  cases amt with
  | none =>
    cases auto
    · exact rt_Reserve_none_false id price vis side ts tif hq thr hid hprice hvis hts htif hh hthr
    · exact rt_Reserve_none_true id price vis side ts tif hq thr hid hprice hvis hts htif hh hthr
  | some a =>
    cases auto
    · exact rt_Reserve_some_false id price vis side ts tif hq thr a hid hprice hvis hts htif hh hthr (hamt a rfl)
    · exact rt_Reserve_some_true id price vis side ts tif hq thr a hid hprice hvis hts htif hh hthr (hamt a rfl)

/-- **orders, all seven kinds** -/
theorem C16_order (o : Order) (h : OrderOk o) : parseOrder (showOrder o) = .ok o := by
  obtain ⟨id, price, vis, side, ts, tif, kind⟩ := o
  obtain ⟨h1, h2, h3, h4, h5, hk⟩ := h
  cases kind with
  | standard => exact rt_Standard id price vis side ts tif h1 h2 h3 h4 h5
  | postOnly => exact rt_PostOnly id price vis side ts tif h1 h2 h3 h4 h5
  | marketToLimit => exact rt_MarketToLimit id price vis side ts tif h1 h2 h3 h4 h5
  | trailingStop t r => exact rt_TrailingStop id price vis side ts tif t r h1 h2 h3 h4 h5 hk.1 hk.2
  | pegged off r => exact rt_PeggedOrder id price vis side ts tif off r h1 h2 h3 h4 h5 hk.1 hk.2
  | iceberg hq => exact rt_IcebergOrder id price vis side ts tif hq h1 h2 h3 h4 h5 hk
  | reserve hq thr amt auto => exact rt_ReserveOrder id price vis side ts tif hq thr amt auto h1 h2 h3 h4 h5 hk.1 hk.2.1 hk.2.2

/-! ### order updates -/

theorem rt_UpdatePrice (id : Id) (p : Nat)
    (hid : id.val < 2 ^ 128) (hp : p < W) :
    parseUpdate (showUpdate (.price id p)) = .ok (.price id p) := by
  have e1 := parseId_showId id hid
  have e2 := parseU64_showNat hp
  have hfs : ∀ kvp ∈ [(lit "order_id", showId id), (lit "new_price", showNat p)], Plain kvp.1 ∧ Plain kvp.2 := by
    plain_fields
  have hshow : showUpdate (.price id p) = lit "UpdatePrice" ++ ':' :: renderPairs [(lit "order_id", showId id), (lit "new_price", showNat p)] := by
    simp only [showUpdate]; exact record_eq "UpdatePrice" [("order_id", showId id), ("new_price", showNat p)]
  rw [hshow]; unfold parseUpdate
  rw [split_record _ _ (by plain_tac) hfs]
  simp only [parseFields_renderPairs _ (by simp) hfs]
  simp (config := {decide := true}) [getField, reqU64, List.find?, e1, e2, parseSide_showSide, bind, Except.bind]

theorem rt_UpdateQuantity (id : Id) (n : Nat)
    (hid : id.val < 2 ^ 128) (hn : n < W) :
    parseUpdate (showUpdate (.quantity id n)) = .ok (.quantity id n) := by
  have e1 := parseId_showId id hid
  have e2 := parseU64_showNat hn
  have hfs : ∀ kvp ∈ [(lit "order_id", showId id), (lit "new_quantity", showNat n)], Plain kvp.1 ∧ Plain kvp.2 := by
    plain_fields
  have hshow : showUpdate (.quantity id n) = lit "UpdateQuantity" ++ ':' :: renderPairs [(lit "order_id", showId id), (lit "new_quantity", showNat n)] := by
    simp only [showUpdate]; exact record_eq "UpdateQuantity" [("order_id", showId id), ("new_quantity", showNat n)]
  rw [hshow]; unfold parseUpdate
  rw [split_record _ _ (by plain_tac) hfs]
  simp only [parseFields_renderPairs _ (by simp) hfs]
  simp (config := {decide := true}) [getField, reqU64, List.find?, e1, e2, parseSide_showSide, bind, Except.bind]

theorem rt_UpdatePriceAndQuantity (id : Id) (p n : Nat)
    (hid : id.val < 2 ^ 128) (hp : p < W) (hn : n < W) :
    parseUpdate (showUpdate (.priceQty id p n)) = .ok (.priceQty id p n) := by
  have e1 := parseId_showId id hid
  have e2 := parseU64_showNat hp
  have e3 := parseU64_showNat hn
  have hfs : ∀ kvp ∈ [(lit "order_id", showId id), (lit "new_price", showNat p), (lit "new_quantity", showNat n)], Plain kvp.1 ∧ Plain kvp.2 := by
    plain_fields
  have hshow : showUpdate (.priceQty id p n) = lit "UpdatePriceAndQuantity" ++ ':' :: renderPairs [(lit "order_id", showId id), (lit "new_price", showNat p), (lit "new_quantity", showNat n)] := by
    simp only [showUpdate]; exact record_eq "UpdatePriceAndQuantity" [("order_id", showId id), ("new_price", showNat p), ("new_quantity", showNat n)]
  rw [hshow]; unfold parseUpdate
  rw [split_record _ _ (by plain_tac) hfs]
  simp only [parseFields_renderPairs _ (by simp) hfs]
  simp (config := {decide := true}) [getField, reqU64, List.find?, e1, e2, e3, parseSide_showSide, bind, Except.bind]

theorem rt_Cancel (id : Id)
    (hid : id.val < 2 ^ 128) :
    parseUpdate (showUpdate (.cancel id)) = .ok (.cancel id) := by
  have e1 := parseId_showId id hid
  have hfs : ∀ kvp ∈ [(lit "order_id", showId id)], Plain kvp.1 ∧ Plain kvp.2 := by
    plain_fields
  have hshow : showUpdate (.cancel id) = lit "Cancel" ++ ':' :: renderPairs [(lit "order_id", showId id)] := by
    simp only [showUpdate]; exact record_eq "Cancel" [("order_id", showId id)]
  rw [hshow]; unfold parseUpdate
  rw [split_record _ _ (by plain_tac) hfs]
  simp only [parseFields_renderPairs _ (by simp) hfs]
  simp (config := {decide := true}) [getField, reqU64, List.find?, e1, parseSide_showSide, bind, Except.bind]

theorem rt_Replace (id : Id) (p n : Nat) (sd : Side)
    (hid : id.val < 2 ^ 128) (hp : p < W) (hn : n < W) :
    parseUpdate (showUpdate (.replace id p n sd)) = .ok (.replace id p n sd) := by
  have e1 := parseId_showId id hid
  have e2 := parseU64_showNat hp
  have e3 := parseU64_showNat hn
  have hfs : ∀ kvp ∈ [(lit "order_id", showId id), (lit "price", showNat p), (lit "quantity", showNat n), (lit "side", showSide sd)], Plain kvp.1 ∧ Plain kvp.2 := by
    plain_fields
  have hshow : showUpdate (.replace id p n sd) = lit "Replace" ++ ':' :: renderPairs [(lit "order_id", showId id), (lit "price", showNat p), (lit "quantity", showNat n), (lit "side", showSide sd)] := by
    simp only [showUpdate]; exact record_eq "Replace" [("order_id", showId id), ("price", showNat p), ("quantity", showNat n), ("side", showSide sd)]
  rw [hshow]; unfold parseUpdate
  rw [split_record _ _ (by plain_tac) hfs]
  simp only [parseFields_renderPairs _ (by simp) hfs]
  simp (config := {decide := true}) [getField, reqU64, List.find?, e1, e2, e3, parseSide_showSide, bind, Except.bind]

/-- **order updates, all five kinds** -/
theorem C16_update (u : Update) (h : UpdateOk u) : parseUpdate (showUpdate u) = .ok u := by
  cases u with
  | price id p => exact rt_UpdatePrice id p h.1 h.2
  | quantity id n => exact rt_UpdateQuantity id n h.1 h.2
  | priceQty id p n => exact rt_UpdatePriceAndQuantity id p n h.1 h.2.1 h.2.2
  | cancel id => exact rt_Cancel id h
  | replace id p n sd => exact rt_Replace id p n sd h.1 h.2.1 h.2.2

/-! ### transactions, statistics, snapshot summaries -/

theorem rt_Tx (txid : Nat) (taker maker : Id) (price qty : Nat) (side : Side) (ts : Nat)
    (h0 : txid < 2 ^ 128) (h1 : taker.val < 2 ^ 128) (h2 : maker.val < 2 ^ 128) (h3 : price < W) (h4 : qty < W) (h5 : ts < W) :
    parseTx (showTx ⟨txid, taker, maker, price, qty, side, ts⟩) = .ok ⟨txid, taker, maker, price, qty, side, ts⟩ := by
  have e0 := parseUuid_showUuid h0
  have e1 := parseId_showId taker h1
  have e2 := parseId_showId maker h2
  have e3 := parseU64_showNat h3
  have e4 := parseU64_showNat h4
  have e5 := parseU64_showNat h5
  have hfs : ∀ kvp ∈ [(lit "transaction_id", showUuid txid), (lit "taker_order_id", showId taker), (lit "maker_order_id", showId maker), (lit "price", showNat price), (lit "quantity", showNat qty), (lit "taker_side", showSide side), (lit "timestamp", showNat ts)], Plain kvp.1 ∧ Plain kvp.2 := by
    plain_fields
  have hshow : showTx ⟨txid, taker, maker, price, qty, side, ts⟩ = lit "Transaction" ++ ':' :: renderPairs [(lit "transaction_id", showUuid txid), (lit "taker_order_id", showId taker), (lit "maker_order_id", showId maker), (lit "price", showNat price), (lit "quantity", showNat qty), (lit "taker_side", showSide side), (lit "timestamp", showNat ts)] := by
    simp only [showTx]; exact record_eq "Transaction" [("transaction_id", showUuid txid), ("taker_order_id", showId taker), ("maker_order_id", showId maker), ("price", showNat price), ("quantity", showNat qty), ("taker_side", showSide side), ("timestamp", showNat ts)]
  rw [hshow]; unfold parseTx
  rw [split_record _ _ (by plain_tac) hfs]
  simp only [parseFields_renderPairs _ (by simp) hfs]
  simp (config := {decide := true}) [getField, reqU64, List.find?, e0, e1, e2, e3, e4, e5, parseSide_showSide, bind, Except.bind]

/-- **transactions** -/
theorem C16_tx (t : TxRec) (h : TxOk t) : parseTx (showTx t) = .ok t := by
  obtain ⟨txid, taker, maker, price, qty, side, ts⟩ := t
  exact rt_Tx txid taker maker price qty side ts h.txid h.taker h.maker h.price h.qty h.ts

theorem rt_Stats (a r e q v l f w : Nat)
    (ha : a < W) (hr : r < W) (he : e < W) (hq : q < W) (hv : v < W) (hl : l < W) (hf : f < W) (hw : w < W) :
    parseStats (showStats ⟨a, r, e, q, v, l, f, w⟩) = .ok ⟨a, r, e, q, v, l, f, w⟩ := by
  have e1 := parseU64_showNat ha
  have e2 := parseU64_showNat hr
  have e3 := parseU64_showNat he
  have e4 := parseU64_showNat hq
  have e5 := parseU64_showNat hv
  have e6 := parseU64_showNat hl
  have e7 := parseU64_showNat hf
  have e8 := parseU64_showNat hw
  have hfs : ∀ kvp ∈ [(lit "orders_added", showNat a), (lit "orders_removed", showNat r), (lit "orders_executed", showNat e), (lit "quantity_executed", showNat q), (lit "value_executed", showNat v), (lit "last_execution_time", showNat l), (lit "first_arrival_time", showNat f), (lit "sum_waiting_time", showNat w)], Plain kvp.1 ∧ Plain kvp.2 := by
    plain_fields
  have hshow : showStats ⟨a, r, e, q, v, l, f, w⟩ = lit "PriceLevelStatistics" ++ ':' :: renderPairs [(lit "orders_added", showNat a), (lit "orders_removed", showNat r), (lit "orders_executed", showNat e), (lit "quantity_executed", showNat q), (lit "value_executed", showNat v), (lit "last_execution_time", showNat l), (lit "first_arrival_time", showNat f), (lit "sum_waiting_time", showNat w)] := by
    simp only [showStats]; exact record_eq "PriceLevelStatistics" [("orders_added", showNat a), ("orders_removed", showNat r), ("orders_executed", showNat e), ("quantity_executed", showNat q), ("value_executed", showNat v), ("last_execution_time", showNat l), ("first_arrival_time", showNat f), ("sum_waiting_time", showNat w)]
  rw [hshow]; unfold parseStats
  rw [split_record _ _ (by plain_tac) hfs]
  simp only [parseFields_renderPairs _ (by simp) hfs]
  simp (config := {decide := true}) [getField, reqU64, List.find?, e1, e2, e3, e4, e5, e6, e7, e8, parseSide_showSide, bind, Except.bind]

/-- **statistics** -/
theorem C16_stats (s : StatsRec) (h : s.added < W ∧ s.removed < W ∧ s.executed < W ∧ s.qty < W ∧ s.value < W ∧
    s.last < W ∧ s.first < W ∧ s.wait < W) : parseStats (showStats s) = .ok s := by
  obtain ⟨a, r, e, q, v, l, f, w⟩ := s
  obtain ⟨h1, h2, h3, h4, h5, h6, h7, h8⟩ := h
  exact rt_Stats a r e q v l f w h1 h2 h3 h4 h5 h6 h7 h8

theorem rt_Snap (p v h c : Nat)
    (hp : p < W) (hv : v < W) (hh : h < W) (hc : c < W) :
    parseSnap (showSnap ⟨p, v, h, c⟩) = .ok ⟨p, v, h, c⟩ := by
  have e1 := parseU64_showNat hp
  have e2 := parseU64_showNat hv
  have e3 := parseU64_showNat hh
  have e4 := parseU64_showNat hc
  have hfs : ∀ kvp ∈ [(lit "price", showNat p), (lit "visible_quantity", showNat v), (lit "hidden_quantity", showNat h), (lit "order_count", showNat c)], Plain kvp.1 ∧ Plain kvp.2 := by
    plain_fields
  have hshow : showSnap ⟨p, v, h, c⟩ = lit "PriceLevelSnapshot" ++ ':' :: renderPairs [(lit "price", showNat p), (lit "visible_quantity", showNat v), (lit "hidden_quantity", showNat h), (lit "order_count", showNat c)] := by
    simp only [showSnap]; exact record_eq "PriceLevelSnapshot" [("price", showNat p), ("visible_quantity", showNat v), ("hidden_quantity", showNat h), ("order_count", showNat c)]
  rw [hshow]; unfold parseSnap
  rw [split_record _ _ (by plain_tac) hfs]
  simp only [parseFields_renderPairs _ (by simp) hfs]
  simp (config := {decide := true}) [getField, reqU64, List.find?, e1, e2, e3, e4, parseSide_showSide, bind, Except.bind]

/-- **snapshot summaries** (price and aggregates) -/
theorem C16_snapshot (s : SnapSummary) (h : s.price < W ∧ s.vis < W ∧ s.hid < W ∧ s.cnt < W) :
    parseSnap (showSnap s) = .ok s := by
  obtain ⟨p, v, hq, c⟩ := s
  obtain ⟨h1, h2, h3, h4⟩ := h
  exact rt_Snap p v hq c h1 h2 h3 h4

/-! ### the order queue (a list of orders of any length) -/

macro "rec_fields" : tactic =>
  `(tactic| ((repeat' (first | exact allRec_nil | apply allRec_cons)) <;>
             (refine recChars_kv _ _ ?_ ?_ <;> plain_tac)))

theorem recChars_order_aux (name : String) (fields : List Str) (hn : Plain (lit name)) (h : AllRec fields) :
    RecChars (record name fields) := recChars_record name fields hn h.all

theorem rc_standard (id : Id) (price vis : Nat) (side : Side) (ts : Nat) (tif : Tif)  :
    RecChars (showOrder ⟨id, price, vis, side, ts, tif, .standard⟩) := by
  simp only [showOrder, List.cons_append, List.nil_append]; apply recChars_order_aux _ _ (by plain_tac); rec_fields

theorem rc_postOnly (id : Id) (price vis : Nat) (side : Side) (ts : Nat) (tif : Tif)  :
    RecChars (showOrder ⟨id, price, vis, side, ts, tif, .postOnly⟩) := by
  simp only [showOrder, List.cons_append, List.nil_append]; apply recChars_order_aux _ _ (by plain_tac); rec_fields

theorem rc_marketToLimit (id : Id) (price vis : Nat) (side : Side) (ts : Nat) (tif : Tif)  :
    RecChars (showOrder ⟨id, price, vis, side, ts, tif, .marketToLimit⟩) := by
  simp only [showOrder, List.cons_append, List.nil_append]; apply recChars_order_aux _ _ (by plain_tac); rec_fields

theorem rc_trailingStop (id : Id) (price vis : Nat) (side : Side) (ts : Nat) (tif : Tif) (t r : Nat) :
    RecChars (showOrder ⟨id, price, vis, side, ts, tif, .trailingStop t r⟩) := by
  simp only [showOrder, List.cons_append, List.nil_append]; apply recChars_order_aux _ _ (by plain_tac); rec_fields

theorem rc_pegged (id : Id) (price vis : Nat) (side : Side) (ts : Nat) (tif : Tif) (off : Int) (r : PegRef) :
    RecChars (showOrder ⟨id, price, vis, side, ts, tif, .pegged off r⟩) := by
  simp only [showOrder, List.cons_append, List.nil_append]; apply recChars_order_aux _ _ (by plain_tac); rec_fields

theorem rc_iceberg (id : Id) (price vis : Nat) (side : Side) (ts : Nat) (tif : Tif) (hq : Nat) :
    RecChars (showOrder ⟨id, price, vis, side, ts, tif, .iceberg hq⟩) := by
  simp only [showOrder, List.cons_append, List.nil_append]; apply recChars_order_aux _ _ (by plain_tac); rec_fields

theorem rc_reserve_nf (id : Id) (price vis : Nat) (side : Side) (ts : Nat) (tif : Tif) (hq thr : Nat) :
    RecChars (showOrder ⟨id, price, vis, side, ts, tif, .reserve hq thr none false⟩) := by
  simp only [showOrder, List.cons_append, List.nil_append]; apply recChars_order_aux _ _ (by plain_tac); rec_fields

theorem rc_reserve_nt (id : Id) (price vis : Nat) (side : Side) (ts : Nat) (tif : Tif) (hq thr : Nat) :
    RecChars (showOrder ⟨id, price, vis, side, ts, tif, .reserve hq thr none true⟩) := by
  simp only [showOrder, List.cons_append, List.nil_append]; apply recChars_order_aux _ _ (by plain_tac); rec_fields

theorem rc_reserve_sf (id : Id) (price vis : Nat) (side : Side) (ts : Nat) (tif : Tif) (hq thr a : Nat) :
    RecChars (showOrder ⟨id, price, vis, side, ts, tif, .reserve hq thr (some a) false⟩) := by
  simp only [showOrder, List.cons_append, List.nil_append]; apply recChars_order_aux _ _ (by plain_tac); rec_fields

theorem rc_reserve_st (id : Id) (price vis : Nat) (side : Side) (ts : Nat) (tif : Tif) (hq thr a : Nat) :
    RecChars (showOrder ⟨id, price, vis, side, ts, tif, .reserve hq thr (some a) true⟩) := by
  simp only [showOrder, List.cons_append, List.nil_append]; apply recChars_order_aux _ _ (by plain_tac); rec_fields

/-- a printed order consists of field characters and `:`, `=`, `;` only — in particular it contains
    no comma and no bracket, for every order -/
theorem showOrder_recChars (o : Order) : RecChars (showOrder o) := by
  obtain ⟨id, price, vis, side, ts, tif, kind⟩ := o
  cases kind with
  | standard => exact rc_standard id price vis side ts tif
  | postOnly => exact rc_postOnly id price vis side ts tif
  | marketToLimit => exact rc_marketToLimit id price vis side ts tif
  | trailingStop t r => exact rc_trailingStop id price vis side ts tif t r
  | pegged off r => exact rc_pegged id price vis side ts tif off r
  | iceberg hq => exact rc_iceberg id price vis side ts tif hq
  | reserve hq thr amt auto =>
    cases amt with
    | none => cases auto
              · exact rc_reserve_nf id price vis side ts tif hq thr
              · exact rc_reserve_nt id price vis side ts tif hq thr
    | some a => cases auto
                · exact rc_reserve_sf id price vis side ts tif hq thr a
                · exact rc_reserve_st id price vis side ts tif hq thr a

theorem showOrder_ne_nil (o : Order) : showOrder o ≠ [] := by
  obtain ⟨id, price, vis, side, ts, tif, kind⟩ := o
  cases kind <;> (simp only [showOrder]; exact record_ne_nil _ _)

/-- **order queue**: any number of orders, in the order printed -/
theorem C16_queue (os : List Order) (h : ∀ o ∈ os, OrderOk o) : parseQueue (showQueue os) = .ok os := by
  unfold parseQueue showQueue
  simp only [startsWith_wrapped, endsWith_append, Bool.not_true, Bool.false_eq_true, or_self, if_false, middle]
  cases hos : os with
  | nil => simp [joinSep]
  | cons o rest =>
    rw [← hos]
    have hne : os.map showOrder ≠ [] := by simp [hos]
    have hbody : joinSep [','] (os.map showOrder) ≠ [] :=
      joinSep_ne_nil _ _ hne (by intro x hx; obtain ⟨o', _, rfl⟩ := List.mem_map.1 hx; exact showOrder_ne_nil o')
    have hsplit : splitOn ',' (joinSep [','] (os.map showOrder)) = os.map showOrder :=
      splitOn_joinSep ',' _ hne (by
        intro x hx; obtain ⟨o', _, rfl⟩ := List.mem_map.1 hx
        exact (showOrder_recChars o').no (by decide))
    rw [if_neg (by simpa using hbody), hsplit]
    exact mapM_show showOrder (fun p => match parseOrder p with | .ok o => .ok o | .error _ => .error Err.parseError) os
      (fun o' ho' => by simp only [C16_order o' (h o' ho')])

/-! ### transaction lists (any length) -/

theorem showTx_recChars (t : TxRec) : RecChars (showTx t) := by
  obtain ⟨txid, taker, maker, price, qty, side, ts⟩ := t
  simp only [showTx]; apply recChars_order_aux _ _ (by plain_tac); rec_fields

theorem showTx_ne_nil (t : TxRec) : showTx t ≠ [] := by
  simp only [showTx]; exact record_ne_nil _ _

theorem lit_txs : lit "Transactions:[" = lit "Transactions:" ++ ['['] := by decide

/-- **transaction lists**: any number of transactions, in the order printed -/
theorem C16_txlist (l : List TxRec) (h : ∀ t ∈ l, TxOk t) : parseTxList (showTxList l) = .ok l := by
  unfold parseTxList showTxList
  have hstart : startsWith (lit "Transactions:[") (lit "Transactions:[" ++ joinSep [','] (l.map showTx) ++ [']']) = true :=
    startsWith_wrapped _ _ _
  have hend : endsWith [']'] (lit "Transactions:[" ++ joinSep [','] (l.map showTx) ++ [']']) = true := endsWith_append _ _
  have hidx : idxOf '[' (lit "Transactions:[" ++ joinSep [','] (l.map showTx) ++ [']']) = some 13 := by
    rw [lit_txs, List.append_assoc, List.append_assoc, List.singleton_append]
    rw [idxOf_append _ (by decide)]; rfl
  have hr : ridxOf ']' (lit "Transactions:[" ++ joinSep [','] (l.map showTx) ++ [']']) =
      some (14 + (joinSep [','] (l.map showTx)).length) := by
    rw [ridxOf_snoc]; simp [List.length_append]; rfl
  have hcontent : ((lit "Transactions:[" ++ joinSep [','] (l.map showTx) ++ [']']).drop (13 + 1)).take
      (14 + (joinSep [','] (l.map showTx)).length - 13 - 1) = joinSep [','] (l.map showTx) := by
    exact middle' (lit "Transactions:[") _ ']' 13 (by decide)
  simp only [hstart, hend, Bool.not_true, Bool.false_eq_true, or_self, if_false, hidx, hr]
  rw [if_neg (by omega), hcontent]
  cases hl : l with
  | nil => simp [joinSep]
  | cons t rest =>
    rw [← hl]
    have hne : l.map showTx ≠ [] := by simp [hl]
    have hbody : joinSep [','] (l.map showTx) ≠ [] :=
      joinSep_ne_nil _ _ hne (by intro x hx; obtain ⟨t', _, rfl⟩ := List.mem_map.1 hx; exact showTx_ne_nil t')
    have hsplit : splitTop 0 [] (joinSep [','] (l.map showTx)) = l.map showTx :=
      splitTop_joinSep _ (by
        intro x hx; obtain ⟨t', _, rfl⟩ := List.mem_map.1 hx
        exact ⟨showTx_recChars t', showTx_ne_nil t'⟩)
    rw [if_neg (by simpa using hbody), hsplit]
    exact mapM_show showTx parseTx l (fun t' ht' => C16_tx t' (h t' ht'))

/-! ### levels (price and any number of orders) -/

theorem not_startsWith (t pre rest : Str) (c : Char) (hc : c ∉ pre) (hl : t.length < pre.length) :
    startsWith (t ++ [c]) (pre ++ rest) = false := by
  simp only [startsWith]
  apply decide_eq_false
  intro h
  have hm : c ∈ (pre ++ rest).take (t ++ [c]).length := by rw [h]; simp
  rw [List.take_append_of_le_length (by simp; omega)] at hm
  exact hc (List.mem_of_mem_take hm)

/-- the first occurrence of a pattern ending in a character that does not occur before it -/
theorem findSub_unique (tagInit : Str) (c : Char) (a b : Str) (hc : c ∉ a) (hci : c ∉ tagInit) :
    findSub (tagInit ++ [c]) (a ++ (tagInit ++ c :: b)) = some a.length := by
  induction a with
  | nil =>
    have : startsWith (tagInit ++ [c]) (tagInit ++ c :: b) = true := by
      have := startsWith_append (tagInit ++ [c]) b
      simpa using this
    cases hb : tagInit ++ c :: b with
    | nil => simp at hb
    | cons x xs =>
      rw [hb] at this
      simp only [List.nil_append, hb, findSub, this, if_true]
      rfl
  | cons x a ih =>
    have hca : c ∉ a := fun h => hc (List.mem_cons_of_mem _ h)
    have hns : startsWith (tagInit ++ [c]) ((x :: a ++ tagInit) ++ ([c] ++ b)) = false :=
      not_startsWith tagInit (x :: a ++ tagInit) ([c] ++ b) c
        (by simp only [List.cons_append, List.mem_cons, List.mem_append, not_or]
            exact ⟨fun e => hc (by simp [e]), hca, hci⟩) (by simp; omega)
    have hns' : startsWith (tagInit ++ [c]) (x :: (a ++ (tagInit ++ c :: b))) = false := by simpa using hns
    simp only [List.cons_append, findSub, hns', Bool.false_eq_true, if_false, ih hca]
    simp

theorem splitOrders_elem (cur p rest : Str) (hp : RecChars p) :
    splitOrders 0 cur (p ++ rest) = splitOrders 0 (cur ++ p) rest := by
  induction p generalizing cur with
  | nil => simp
  | cons c p ih =>
    have hc := hp c (List.mem_cons_self ..)
    have h1 : c ≠ ',' := by rintro rfl; revert hc; decide
    have h2 : c ≠ '[' := by rintro rfl; revert hc; decide
    have h3 : c ≠ ']' := by rintro rfl; revert hc; decide
    have h4 : c ≠ '(' := by rintro rfl; revert hc; decide
    have h5 : c ≠ ')' := by rintro rfl; revert hc; decide
    rw [List.cons_append, splitOrders]
    simp only [h1, h2, h3, h4, h5, false_and, or_self, if_false]
    rw [ih _ (fun x hx => hp x (List.mem_cons_of_mem _ hx))]
    simp

theorem splitOrders_joinSep (ps : List Str) (hne : ps ≠ []) (h : ∀ p ∈ ps, RecChars p) :
    splitOrders 0 [] (joinSep [','] ps) = ps := by
  induction ps with
  | nil => exact absurd rfl hne
  | cons p rest ih =>
    have hp := h p (List.mem_cons_self ..)
    cases rest with
    | nil =>
      have := splitOrders_elem [] p [] hp
      simp only [List.append_nil, List.nil_append] at this
      simp [joinSep, this, splitOrders]
    | cons q rest' =>
      have := splitOrders_elem [] p (',' :: joinSep [','] (q :: rest')) hp
      simp only [List.nil_append] at this
      simp only [joinSep, List.append_assoc, List.singleton_append]
      rw [this, splitOrders]
      simp (config := {decide := true}) only [if_false, and_self, if_true]
      rw [ih (by simp) (fun x hx => h x (List.mem_cons_of_mem _ hx))]


/-- the header of a printed level, after `PriceLevel:` and before `orders=[` -/
def hdr (price vis hid cnt : Nat) : Str :=
  pair (lit "price", showNat price) ++ ';' :: (pair (lit "visible_quantity", showNat vis) ++ ';' ::
    (pair (lit "hidden_quantity", showNat hid) ++ ';' :: (pair (lit "order_count", showNat cnt) ++ [';'])))

theorem idxOf_pair (k v : Str) (hk : Plain k) : idxOf '=' (pair (k, v)) = some k.length := by
  unfold pair; exact idxOf_append v (hk.no (by decide))

theorem kvsplit (k v : Str) (hk : Plain k) : kvOf (pair (k, v)) = some (k, v) := by
  unfold kvOf
  rw [idxOf_pair k v hk]
  simp [pair]

theorem pair_ne_nil (k v : Str) : pair (k, v) ≠ [] := by simp [pair]

theorem hdr_parts (price vis hid cnt : Nat) :
    ((splitOn ';' (hdr price vis hid cnt)).filter (fun p => !p.isEmpty)).filterMap kvOf =
      [(lit "price", showNat price), (lit "visible_quantity", showNat vis), (lit "hidden_quantity", showNat hid),
       (lit "order_count", showNat cnt)] := by
  have k1 : Plain (lit "price") := by plain_tac
  have k2 : Plain (lit "visible_quantity") := by plain_tac
  have k3 : Plain (lit "hidden_quantity") := by plain_tac
  have k4 : Plain (lit "order_count") := by plain_tac
  have n1 := pair_no_semi (p := (lit "price", showNat price)) k1 (plain_of_id (showNat_idChars _))
  have n2 := pair_no_semi (p := (lit "visible_quantity", showNat vis)) k2 (plain_of_id (showNat_idChars _))
  have n3 := pair_no_semi (p := (lit "hidden_quantity", showNat hid)) k3 (plain_of_id (showNat_idChars _))
  have n4 := pair_no_semi (p := (lit "order_count", showNat cnt)) k4 (plain_of_id (showNat_idChars _))
  unfold hdr
  rw [splitOn_append n1, splitOn_append n2, splitOn_append n3, splitOn_append n4]
  simp only [splitOn, List.filter_cons, List.filter_nil, List.isEmpty_nil, Bool.not_true, Bool.false_eq_true, if_false]
  have e1 : (pair (lit "price", showNat price)).isEmpty = false := by simp [pair]
  have e2 : (pair (lit "visible_quantity", showNat vis)).isEmpty = false := by simp [pair]
  have e3 : (pair (lit "hidden_quantity", showNat hid)).isEmpty = false := by simp [pair]
  have e4 : (pair (lit "order_count", showNat cnt)).isEmpty = false := by simp [pair]
  simp only [e1, e2, e3, e4, Bool.not_false, if_true, List.filterMap_cons, List.filterMap_nil, kvsplit _ _ k1, kvsplit _ _ k2,
    kvsplit _ _ k3, kvsplit _ _ k4]


theorem finish_hdr (price vis hid cnt : Nat) (body : Str) (hp : price < W) :
    parseLevel.finish (hdr price vis hid cnt) (some body) =
      (if body.isEmpty then .ok (price, []) else
        let pieces := splitOrders 0 [] body
        let pieces' := match pieces.reverse with
          | last :: initRev => if last.isEmpty then initRev.reverse else pieces
          | [] => pieces
        match pieces'.mapM (fun p => match parseOrder p with
            | .ok o => (.ok o : Res Order)
            | .error _ => .error .parseError) with
        | .ok l => .ok (price, l)
        | .error e => .error e) := by
  unfold parseLevel.finish
  simp only [hdr_parts]
  have e := parseU64_showNat hp
  simp (config := {decide := true}) [List.find?, e]
  rfl


theorem lit_level_pre : lit "PriceLevel:price=" = lit "PriceLevel:" ++ lit "price=" := by decide
theorem lit_orders_tag : lit ";orders=[" = ';' :: (lit "orders=" ++ ['[']) := by decide
theorem lit_tag : lit "orders=[" = lit "orders=" ++ ['['] := by decide
theorem lit_vq : lit ";visible_quantity=" = ';' :: (lit "visible_quantity" ++ ['=']) := by decide
theorem lit_hq : lit ";hidden_quantity=" = ';' :: (lit "hidden_quantity" ++ ['=']) := by decide
theorem lit_oc : lit ";order_count=" = ';' :: (lit "order_count" ++ ['=']) := by decide
theorem lit_pe : lit "price=" = lit "price" ++ ['='] := by decide

/-- the printed level, taken apart -/
theorem showLevel_eq (price vis hid cnt : Nat) (os : List Order) :
    showLevel price vis hid cnt os =
      lit "PriceLevel:" ++ (hdr price vis hid cnt ++ (lit "orders=" ++ '[' :: (joinSep [','] (os.map showOrder) ++ [']']))) := by
  simp only [showLevel, hdr, pair, lit_level_pre, lit_orders_tag, lit_vq, lit_hq, lit_oc, lit_pe, List.append_assoc,
    List.cons_append, List.nil_append, List.singleton_append]

theorem hdr_recChars (price vis hid cnt : Nat) : RecChars (hdr price vis hid cnt) := by
  have semi : RecChars [';'] := fun c hc => by simp at hc; subst hc; decide
  have pp : ∀ (k : String) (n : Nat), Plain (lit k) → RecChars (pair (lit k, showNat n)) := by
    intro k n hk
    have := recChars_kv k (showNat n) hk (plain_of_id (showNat_idChars n))
    simpa [kv, pair] using this
  unfold hdr
  have h1 := pp "price" price (by plain_tac)
  have h2 := pp "visible_quantity" vis (by plain_tac)
  have h3 := pp "hidden_quantity" hid (by plain_tac)
  have h4 := pp "order_count" cnt (by plain_tac)
  have cons : ∀ (a b : Str), RecChars a → RecChars b → RecChars (a ++ ';' :: b) := by
    intro a b ha hb
    have := (ha.append semi).append hb
    simpa using this
  exact cons _ _ h1 (cons _ _ h2 (cons _ _ h3 (h4.append semi)))


theorem mem_joinSep {c : Char} {sep : Str} {l : List Str} (h : c ∈ joinSep sep l) : c ∈ sep ∨ ∃ x ∈ l, c ∈ x := by
  induction l with
  | nil => simp [joinSep] at h
  | cons x rest ih =>
    cases rest with
    | nil => exact Or.inr ⟨x, by simp, by simpa [joinSep] using h⟩
    | cons y ys =>
      simp only [joinSep, List.mem_append] at h
      rcases h with (h | h) | h
      · exact Or.inr ⟨x, by simp, h⟩
      · exact Or.inl h
      · rcases ih h with h' | ⟨z, hz, hc⟩
        · exact Or.inl h'
        · exact Or.inr ⟨z, by simp [hz], hc⟩

/-- **levels**: the printed level parses back to its price and its orders, in the order printed
    (the aggregates in the text are ignored by the parser: they are re-derived, C10) -/
theorem C16_level (price vis hid cnt : Nat) (os : List Order) (hp : price < W) (h : ∀ o ∈ os, OrderOk o) :
    parseLevel (showLevel price vis hid cnt os) = .ok (price, os) := by
  have hbodyRC : RecChars (joinSep [','] (os.map showOrder)) → True := fun _ => trivial
  rw [showLevel_eq]
  unfold parseLevel
  simp only [startsWith_append, Bool.not_true, Bool.false_eq_true, if_false, List.drop_left]
  -- where the orders section starts
  have hH := hdr_recChars price vis hid cnt
  have hfind : findSub (lit "orders=[") (hdr price vis hid cnt ++ (lit "orders=" ++ '[' :: (joinSep [','] (os.map showOrder) ++ [']'])))
      = some (hdr price vis hid cnt).length := by
    rw [lit_tag]
    exact findSub_unique (lit "orders=") '[' _ _ (hH.no (by decide)) (by decide)
  rw [hfind]
  simp only [List.drop_left, List.take_left]
  -- where it ends
  have hbody : ∀ x ∈ os.map showOrder, RecChars x := by
    intro x hx; obtain ⟨o', _, rfl⟩ := List.mem_map.1 hx; exact showOrder_recChars o'
  have hjoin : RecChars (joinSep [','] (os.map showOrder)) ∨ True := Or.inr trivial
  have hno : ']' ∉ (lit "orders=" ++ '[' :: joinSep [','] (os.map showOrder)) := by
    intro hm
    simp only [List.mem_append, List.mem_cons] at hm
    rcases hm with hm | hm | hm
    · revert hm; decide
    · revert hm; decide
    · rcases mem_joinSep hm with hc | ⟨x, hx, hc⟩
      · revert hc; decide
      · exact ((hbody x hx).no (by decide)) hc
  have hshape : lit "orders=" ++ '[' :: (joinSep [','] (os.map showOrder) ++ [']']) =
      (lit "orders=" ++ '[' :: joinSep [','] (os.map showOrder)) ++ ']' :: [] := by simp
  have hidx : idxOf ']' (lit "orders=" ++ '[' :: (joinSep [','] (os.map showOrder) ++ [']'])) =
      some (8 + (joinSep [','] (os.map showOrder)).length) := by
    rw [hshape, idxOf_append [] hno]
    have : (lit "orders=").length = 7 := by decide
    simp [this]; omega
  have hlen : (lit "orders=[").length = 8 := by decide
  have hl7 : (lit "orders=").length = 7 := by decide
  rw [hidx]
  simp only [hlen]
  have hdrop : List.drop (8 + (joinSep [','] (os.map showOrder)).length + 1)
      (lit "orders=" ++ '[' :: (joinSep [','] (os.map showOrder) ++ [']'])) = [] := by
    apply List.drop_eq_nil_of_le; simp [hl7]; omega
  have htake : List.take (8 + (joinSep [','] (os.map showOrder)).length - 8)
      (List.drop 8 (lit "orders=" ++ '[' :: (joinSep [','] (os.map showOrder) ++ [']']))) = joinSep [','] (os.map showOrder) := by
    have e8 : List.drop 8 (lit "orders=" ++ '[' :: (joinSep [','] (os.map showOrder) ++ [']'])) =
        joinSep [','] (os.map showOrder) ++ [']'] := by
      have : lit "orders=" ++ '[' :: (joinSep [','] (os.map showOrder) ++ [']']) =
          (lit "orders=" ++ ['[']) ++ (joinSep [','] (os.map showOrder) ++ [']']) := by simp
      rw [this]
      have h8 : (lit "orders=" ++ ['[']).length = 8 := by decide
      rw [← h8, List.drop_left]
    rw [e8]
    have : 8 + (joinSep [','] (os.map showOrder)).length - 8 = (joinSep [','] (os.map showOrder)).length := by omega
    rw [this, List.take_left]
  rw [hdrop, htake, List.append_nil, finish_hdr _ _ _ _ _ hp]
  cases hos : os with
  | nil => simp [joinSep]
  | cons o rest =>
    rw [← hos]
    have hne : os.map showOrder ≠ [] := by simp [hos]
    have hb : joinSep [','] (os.map showOrder) ≠ [] :=
      joinSep_ne_nil _ _ hne (by intro x hx; obtain ⟨o', _, rfl⟩ := List.mem_map.1 hx; exact showOrder_ne_nil o')
    have hsplit := splitOrders_joinSep (os.map showOrder) hne hbody
    rw [if_neg (by simpa using hb)]
    simp only [hsplit]
    -- the last piece is a printed order, hence not empty
    have hlast : ∀ last initRev, (os.map showOrder).reverse = last :: initRev → last.isEmpty = false := by
      intro last initRev hr
      have : last ∈ os.map showOrder := by
        have : last ∈ (os.map showOrder).reverse := by rw [hr]; simp
        simpa using this
      obtain ⟨o', _, rfl⟩ := List.mem_map.1 this
      simpa using showOrder_ne_nil o'
    have hm := mapM_show showOrder (fun p => match parseOrder p with | .ok o => (.ok o : Res Order) | .error _ => .error Err.parseError) os
      (fun o' ho' => by simp only [C16_order o' (h o' ho')])
    cases hr : (os.map showOrder).reverse with
    | nil => simp at hr; exact absurd hr (by simp [hos])
    | cons last initRev =>
      have := hlast last initRev hr
      simp only [this, Bool.false_eq_true, if_false, hm]

/-! ### match results (field loop, bracket scanner, two lists) -/

theorem get_at (pre : Str) (c : Char) (rest : Str) : (pre ++ c :: rest)[pre.length]? = some c := by
  simp

/-- the bracket scanner on a body without brackets stops at the closing bracket -/
theorem scanClose_body (pre body rest : Str) (hb : ∀ c ∈ body, c ≠ '[' ∧ c ≠ ']') (fuel : Nat) (hf : body.length < fuel) :
    scanClose (pre ++ body ++ ']' :: rest) pre.length 1 fuel = some (pre.length + body.length) := by
  induction body generalizing pre fuel with
  | nil =>
    obtain ⟨f, rfl⟩ : ∃ f, fuel = f + 1 := ⟨fuel - 1, by simp at hf; omega⟩
    simp [scanClose]
  | cons c body ih =>
    obtain ⟨f, rfl⟩ : ∃ f, fuel = f + 1 := ⟨fuel - 1, by simp at hf; omega⟩
    have hc := hb c (List.mem_cons_self ..)
    have := ih (pre ++ [c]) (fun x hx => hb x (List.mem_cons_of_mem _ hx)) f (by simp at hf; omega)
    simp only [List.append_assoc, List.singleton_append, List.length_append, List.length_cons, List.length_nil,
      List.cons_append, List.nil_append, Nat.zero_add] at this
    rw [scanClose]
    simp only [List.append_assoc, List.cons_append, get_at, hc.1, hc.2, if_false]
    rw [this]; simp; omega


theorem drop_at (pre x : Str) : (pre ++ x).drop pre.length = x := List.drop_left

/-- one simple `name=value;` field consumed by the field loop -/
theorem mrLoop_field (pre name value rest : Str) (acc : MRFields) (fuel : Nat) (hn : '=' ∉ name) (hv : ';' ∉ value) :
    ∃ s2 : Str, s2 = pre ++ (name ++ '=' :: (value ++ ';' :: rest)) ∧
      (idxOf '=' (s2.drop pre.length) = some name.length) ∧
      ((s2.drop pre.length).take name.length = name) ∧
      (s2.drop (pre.length + name.length + 1) = value ++ ';' :: rest) ∧
      (idxOf ';' (s2.drop (pre.length + name.length + 1)) = some value.length) ∧
      ((s2.drop (pre.length + name.length + 1)).take value.length = value) ∧
      (pre.length + name.length + 1 + value.length + 1 = (pre ++ (name ++ '=' :: (value ++ [';']))).length) ∧
      ¬ (pre.length ≥ s2.length) := by
  refine ⟨_, rfl, ?_, ?_, ?_, ?_, ?_, ?_, ?_⟩
  · rw [drop_at]; exact idxOf_append _ hn
  · rw [drop_at]; simp
  · have : pre ++ (name ++ '=' :: (value ++ ';' :: rest)) = (pre ++ (name ++ ['='])) ++ (value ++ ';' :: rest) := by simp
    rw [this]
    have hl : pre.length + name.length + 1 = (pre ++ (name ++ ['='])).length := by simp; omega
    rw [hl, drop_at]
  · have : pre ++ (name ++ '=' :: (value ++ ';' :: rest)) = (pre ++ (name ++ ['='])) ++ (value ++ ';' :: rest) := by simp
    rw [this]
    have hl : pre.length + name.length + 1 = (pre ++ (name ++ ['='])).length := by simp; omega
    rw [hl, drop_at]; exact idxOf_append _ hv
  · have : pre ++ (name ++ '=' :: (value ++ ';' :: rest)) = (pre ++ (name ++ ['='])) ++ (value ++ ';' :: rest) := by simp
    rw [this]
    have hl : pre.length + name.length + 1 = (pre ++ (name ++ ['='])).length := by simp; omega
    rw [hl, drop_at]; simp
  · simp; omega
  · simp; omega


theorem mrLoop_oid (pre value rest : Str) (acc : MRFields) (fuel : Nat) (hv : ';' ∉ value) :
    mrLoop (pre ++ (lit "order_id" ++ '=' :: (value ++ ';' :: rest))) pre.length acc (fuel + 1) =
      mrLoop (pre ++ (lit "order_id" ++ '=' :: (value ++ ';' :: rest)))
        (pre ++ (lit "order_id" ++ '=' :: (value ++ [';']))).length { acc with orderId := some value } fuel := by
  obtain ⟨s2, hs2, f1, f2, f3, f4, f5, f6, f7⟩ := mrLoop_field pre (lit "order_id") value rest acc fuel (by decide) hv
  subst hs2
  rw [mrLoop]
  simp only [if_neg f7, f1, f2, f4, f5, ← f6]
  simp (config := {decide := true}) only [if_true, if_false]

theorem mrLoop_rem (pre value rest : Str) (acc : MRFields) (fuel : Nat) (hv : ';' ∉ value) :
    mrLoop (pre ++ (lit "remaining_quantity" ++ '=' :: (value ++ ';' :: rest))) pre.length acc (fuel + 1) =
      mrLoop (pre ++ (lit "remaining_quantity" ++ '=' :: (value ++ ';' :: rest)))
        (pre ++ (lit "remaining_quantity" ++ '=' :: (value ++ [';']))).length { acc with remaining := some value } fuel := by
  obtain ⟨s2, hs2, f1, f2, f3, f4, f5, f6, f7⟩ := mrLoop_field pre (lit "remaining_quantity") value rest acc fuel (by decide) hv
  subst hs2
  rw [mrLoop]
  simp only [if_neg f7, f1, f2, f4, f5, ← f6]
  simp (config := {decide := true}) only [if_true, if_false]

theorem mrLoop_comp (pre value rest : Str) (acc : MRFields) (fuel : Nat) (hv : ';' ∉ value) :
    mrLoop (pre ++ (lit "is_complete" ++ '=' :: (value ++ ';' :: rest))) pre.length acc (fuel + 1) =
      mrLoop (pre ++ (lit "is_complete" ++ '=' :: (value ++ ';' :: rest)))
        (pre ++ (lit "is_complete" ++ '=' :: (value ++ [';']))).length { acc with complete := some value } fuel := by
  obtain ⟨s2, hs2, f1, f2, f3, f4, f5, f6, f7⟩ := mrLoop_field pre (lit "is_complete") value rest acc fuel (by decide) hv
  subst hs2
  rw [mrLoop]
  simp only [if_neg f7, f1, f2, f4, f5, ← f6]
  simp (config := {decide := true}) only [if_true, if_false]

theorem lit_txs_len : (lit "Transactions:[").length = 14 := by decide
theorem lit_trans_len : (lit "transactions").length = 12 := by decide
theorem lit_filled_len : (lit "filled_order_ids").length = 16 := by decide

/-- the `transactions=Transactions:[…];` field -/
theorem mrLoop_txs (pre body rest : Str) (acc : MRFields) (fuel : Nat) (hb : ∀ c ∈ body, c ≠ '[' ∧ c ≠ ']') :
    mrLoop (pre ++ (lit "transactions" ++ '=' :: (lit "Transactions:[" ++ (body ++ ']' :: ';' :: rest)))) pre.length acc (fuel + 1) =
      mrLoop (pre ++ (lit "transactions" ++ '=' :: (lit "Transactions:[" ++ (body ++ ']' :: ';' :: rest))))
        (pre ++ (lit "transactions" ++ '=' :: (lit "Transactions:[" ++ (body ++ [']', ';'])))).length
        { acc with txs := some (lit "Transactions:[" ++ (body ++ [']'])) } fuel := by
  -- the whole text, the prefix up to the value, and up to the list body
  let s := pre ++ (lit "transactions" ++ '=' :: (lit "Transactions:[" ++ (body ++ ']' :: ';' :: rest)))
  have hs1 : s = (pre ++ (lit "transactions" ++ ['='])) ++ (lit "Transactions:[" ++ (body ++ ']' :: ';' :: rest)) := by simp [s]
  have hs2 : s = (pre ++ (lit "transactions" ++ ['='] ++ lit "Transactions:[")) ++ body ++ ']' :: (';' :: rest) := by simp [s]
  have hp : pre.length + 12 + 1 = (pre ++ (lit "transactions" ++ ['='])).length := by simp [lit_trans_len]
  have hp14 : pre.length + 12 + 1 + 14 = (pre ++ (lit "transactions" ++ ['='] ++ lit "Transactions:[")).length := by
    simp [lit_trans_len, lit_txs_len]
  have h1 : idxOf '=' (s.drop pre.length) = some 12 := by
    simp only [s, drop_at]; rw [idxOf_append _ (by decide), lit_trans_len]
  have h2 : (s.drop pre.length).take 12 = lit "transactions" := by
    simp only [s, drop_at]; rw [← lit_trans_len, List.take_left]
  have h3 : s.drop (pre.length + 12 + 1) = lit "Transactions:[" ++ (body ++ ']' :: ';' :: rest) := by
    rw [hp, hs1, drop_at]
  have h4 : scanClose s (pre.length + 12 + 1 + 14) 1 (s.length + 1) = some (pre.length + 12 + 1 + 14 + body.length) := by
    rw [hp14, hs2]
    exact scanClose_body _ body _ hb _ (by simp; omega)
  have hlen : s.length = pre.length + 12 + 1 + 14 + body.length + 2 + rest.length := by
    simp [s, lit_trans_len, lit_txs_len]; omega
  have h5 : s[pre.length + 12 + 1 + 14 + body.length + 1]? = some ';' := by
    have : s = (pre ++ (lit "transactions" ++ ['='] ++ lit "Transactions:[") ++ body ++ [']']) ++ ';' :: rest := by simp [s]
    have hl : pre.length + 12 + 1 + 14 + body.length + 1 = (pre ++ (lit "transactions" ++ ['='] ++ lit "Transactions:[") ++ body ++ [']']).length := by
      simp [lit_trans_len, lit_txs_len]; omega
    rw [hl, this]; exact get_at _ _ _
  have h6 : (s.drop (pre.length + 12 + 1)).take (pre.length + 12 + 1 + 14 + body.length + 1 - (pre.length + 12 + 1)) =
      lit "Transactions:[" ++ (body ++ [']']) := by
    rw [h3]
    have : pre.length + 12 + 1 + 14 + body.length + 1 - (pre.length + 12 + 1) = (lit "Transactions:[" ++ (body ++ [']'])).length := by
      simp [lit_txs_len]; omega
    rw [this]
    have : lit "Transactions:[" ++ (body ++ ']' :: ';' :: rest) = (lit "Transactions:[" ++ (body ++ [']'])) ++ (';' :: rest) := by simp
    rw [this, List.take_left]
  have h7 : ¬ (pre.length ≥ s.length) := by omega
  have h8 : (pre ++ (lit "transactions" ++ '=' :: (lit "Transactions:[" ++ (body ++ [']', ';'])))).length =
      pre.length + 12 + 1 + 14 + body.length + 1 + 1 := by simp [lit_trans_len, lit_txs_len]; omega
  show mrLoop s pre.length acc (fuel + 1) = mrLoop s _ _ fuel
  rw [mrLoop, h8]
  simp only [if_neg h7, h1, h2, h3, startsWith_append, Bool.not_true, Bool.false_eq_true, if_false, h4, h5, h6]
  simp (config := {decide := true}) only [if_true, if_false]
  rw [if_pos (by omega)]
  rw [h3] at h6
  rw [h6]

/-- the last field, `filled_order_ids=[…]`, after which the loop ends -/
theorem mrLoop_filled (pre body : Str) (acc : MRFields) (fuel : Nat) (hb : ∀ c ∈ body, c ≠ '[' ∧ c ≠ ']') :
    mrLoop (pre ++ (lit "filled_order_ids" ++ '=' :: ('[' :: (body ++ [']'])))) pre.length acc (fuel + 2) =
      .ok { acc with filled := some ('[' :: (body ++ [']'])) } := by
  let s := pre ++ (lit "filled_order_ids" ++ '=' :: ('[' :: (body ++ [']'])))
  have hs1 : s = (pre ++ (lit "filled_order_ids" ++ ['='])) ++ ('[' :: (body ++ [']'])) := by simp [s]
  have hs2 : s = (pre ++ (lit "filled_order_ids" ++ ['=', '['])) ++ body ++ ']' :: [] := by simp [s]
  have hp : pre.length + 16 + 1 = (pre ++ (lit "filled_order_ids" ++ ['='])).length := by simp [lit_filled_len]
  have hp1 : pre.length + 16 + 1 + 1 = (pre ++ (lit "filled_order_ids" ++ ['=', '['])).length := by simp [lit_filled_len]
  have h1 : idxOf '=' (s.drop pre.length) = some 16 := by
    simp only [s, drop_at]; rw [idxOf_append _ (by decide), lit_filled_len]
  have h2 : (s.drop pre.length).take 16 = lit "filled_order_ids" := by
    simp only [s, drop_at]; rw [← lit_filled_len, List.take_left]
  have h3 : s.drop (pre.length + 16 + 1) = '[' :: (body ++ [']']) := by rw [hp, hs1, drop_at]
  have h4 : scanClose s (pre.length + 16 + 1 + 1) 1 (s.length + 1) = some (pre.length + 16 + 1 + 1 + body.length) := by
    rw [hp1, hs2]
    exact scanClose_body _ body _ hb _ (by simp; omega)
  have hlen : s.length = pre.length + 16 + 1 + 1 + body.length + 1 := by simp [s, lit_filled_len]; omega
  have h6 : ('[' :: (body ++ [']'])).take (pre.length + 16 + 1 + 1 + body.length + 1 - (pre.length + 16 + 1)) = '[' :: (body ++ [']']) := by
    apply List.take_of_length_le; simp; omega
  have h7 : ¬ (pre.length ≥ s.length) := by omega
  show mrLoop s pre.length acc (fuel + 2) = _
  rw [mrLoop]
  simp only [if_neg h7, h1, h2, h3]
  simp (config := {decide := true}) only [if_true, if_false, startsWith, List.take, List.length_cons, List.length_nil]
  simp only [h4, h6]
  rw [if_neg (by omega), mrLoop, if_pos (by omega)]

theorem mapM_show_opt {α : Type} (sh : α → Str) (parse : Str → Option α) (l : List α)
    (h : ∀ x ∈ l, parse (sh x) = some x) : (l.map sh).mapM parse = some l := by
  induction l with
  | nil => rfl
  | cons x rest ih =>
    have hx := h x (List.mem_cons_self ..)
    have hr := ih (fun y hy => h y (List.mem_cons_of_mem _ hy))
    simp only [List.map_cons, List.mapM_cons, hx, hr]
    rfl

theorem lit_mr0 : lit "MatchResult:order_id=" = lit "MatchResult:" ++ (lit "order_id" ++ ['=']) := by decide
theorem lit_mr1 : lit ";remaining_quantity=" = ';' :: (lit "remaining_quantity" ++ ['=']) := by decide
theorem lit_mr2 : lit ";is_complete=" = ';' :: (lit "is_complete" ++ ['=']) := by decide
theorem lit_mr3 : lit ";transactions=" = ';' :: (lit "transactions" ++ ['=']) := by decide
theorem lit_mr4 : lit ";filled_order_ids=[" = ';' :: (lit "filled_order_ids" ++ ['=', '[']) := by decide

/-- the printed match result in the nested shape the field loop walks through -/
theorem showMR_eq (r : MRRec) :
    showMR r = lit "MatchResult:" ++ (lit "order_id" ++ '=' :: (showId r.orderId ++ ';' ::
      (lit "remaining_quantity" ++ '=' :: (showNat r.remaining ++ ';' ::
        (lit "is_complete" ++ '=' :: (showBool r.complete ++ ';' ::
          (lit "transactions" ++ '=' :: (lit "Transactions:[" ++ (joinSep [','] (r.txs.map showTx) ++ ']' :: ';' ::
            (lit "filled_order_ids" ++ '=' :: ('[' :: (joinSep [','] (r.filled.map showId) ++ [']'])))))))))))) := by
  simp only [showMR, showTxList, lit_mr0, lit_mr1, lit_mr2, lit_mr3, lit_mr4, List.append_assoc, List.cons_append,
    List.nil_append, List.singleton_append]

theorem showId_no (i : Id) (c : Char) (hc : idChar c = false) : c ∉ showId i :=
  fun hm => by have := showId_chars i c hm; simp [this] at hc

theorem showId_ne_nil (i : Id) : showId i ≠ [] := by
  intro e
  have h1 := showUuid_length i.val
  have h2 := showUlid_length i.val
  unfold showId at e
  split at e <;> simp_all

theorem lit_brackets : lit "[]" = ['[', ']'] := by decide

/-- **match results**: any number of transactions and filled ids, both values of the flag -/
theorem C16_mr (r : MRRec) (h : MROk r) : parseMR (showMR r) = .ok r := by
  obtain ⟨oid, txs, rem, comp, filled⟩ := r
  obtain ⟨hid, htx, hrem, hfl⟩ := h
  simp only at hid htx hrem hfl
  -- character facts
  have hID : ';' ∉ showId oid := showId_no oid ';' (by decide)
  have hREM : ';' ∉ showNat rem := showNat_no rem ';' (by decide)
  have hB : ';' ∉ showBool comp := by cases comp <;> decide
  have hTB : ∀ c ∈ joinSep [','] (txs.map showTx), c ≠ '[' ∧ c ≠ ']' := by
    intro c hc
    rcases mem_joinSep hc with h1 | ⟨x, hx, hcx⟩
    · simp at h1; subst h1; decide
    · obtain ⟨t, _, rfl⟩ := List.mem_map.1 hx
      have := showTx_recChars t c hcx
      constructor <;> (rintro rfl; revert this; decide)
  have hF : ∀ c ∈ joinSep [','] (filled.map showId), c ≠ '[' ∧ c ≠ ']' := by
    intro c hc
    rcases mem_joinSep hc with h1 | ⟨x, hx, hcx⟩
    · simp at h1; subst h1; decide
    · obtain ⟨i, _, rfl⟩ := List.mem_map.1 hx
      have := showId_chars i c hcx
      constructor <;> (rintro rfl; revert this; decide)
  rw [showMR_eq]
  unfold parseMR
  simp only [startsWith_append, Bool.not_true, Bool.false_eq_true, if_false]
  -- name the nested suffixes
  obtain ⟨R4, hR4⟩ : ∃ R4, R4 = lit "filled_order_ids" ++ '=' :: ('[' :: (joinSep [','] (filled.map showId) ++ [']'])) := ⟨_, rfl⟩
  rw [← hR4]
  obtain ⟨R3, hR3⟩ : ∃ R3, R3 = lit "transactions" ++ '=' :: (lit "Transactions:[" ++ (joinSep [','] (txs.map showTx) ++ ']' :: ';' :: R4)) := ⟨_, rfl⟩
  rw [← hR3]
  obtain ⟨R2, hR2⟩ : ∃ R2, R2 = lit "is_complete" ++ '=' :: (showBool comp ++ ';' :: R3) := ⟨_, rfl⟩
  rw [← hR2]
  obtain ⟨R1, hR1⟩ : ∃ R1, R1 = lit "remaining_quantity" ++ '=' :: (showNat rem ++ ';' :: R2) := ⟨_, rfl⟩
  rw [← hR1]
  have hl0 : (lit "MatchResult:").length = 12 := by decide
  obtain ⟨k, hk⟩ : ∃ k, (lit "MatchResult:" ++ (lit "order_id" ++ '=' :: (showId oid ++ ';' :: R1))).length + 1 = k + 6 :=
    ⟨(lit "MatchResult:" ++ (lit "order_id" ++ '=' :: (showId oid ++ ';' :: R1))).length - 5, by simp [hl0]; omega⟩
  rw [hk, ← hl0]
  -- field 1: order_id
  rw [show k + 6 = (k + 5) + 1 from rfl, mrLoop_oid (lit "MatchResult:") (showId oid) R1 ({} : MRFields) (k + 5) hID]
  have e1 : lit "MatchResult:" ++ (lit "order_id" ++ '=' :: (showId oid ++ ';' :: R1)) =
      (lit "MatchResult:" ++ (lit "order_id" ++ '=' :: (showId oid ++ [';']))) ++ R1 := by simp
  rw [e1]
  generalize hP1 : lit "MatchResult:" ++ (lit "order_id" ++ '=' :: (showId oid ++ [';'])) = P1
  -- field 2: remaining_quantity
  rw [hR1, show k + 5 = (k + 4) + 1 from rfl, mrLoop_rem P1 (showNat rem) R2 _ (k + 4) hREM]
  have e2 : P1 ++ (lit "remaining_quantity" ++ '=' :: (showNat rem ++ ';' :: R2)) =
      (P1 ++ (lit "remaining_quantity" ++ '=' :: (showNat rem ++ [';']))) ++ R2 := by simp
  rw [e2]
  generalize hP2 : P1 ++ (lit "remaining_quantity" ++ '=' :: (showNat rem ++ [';'])) = P2
  -- field 3: is_complete
  rw [hR2, show k + 4 = (k + 3) + 1 from rfl, mrLoop_comp P2 (showBool comp) R3 _ (k + 3) hB]
  have e3 : P2 ++ (lit "is_complete" ++ '=' :: (showBool comp ++ ';' :: R3)) =
      (P2 ++ (lit "is_complete" ++ '=' :: (showBool comp ++ [';']))) ++ R3 := by simp
  rw [e3]
  generalize hP3 : P2 ++ (lit "is_complete" ++ '=' :: (showBool comp ++ [';'])) = P3
  -- field 4: transactions
  rw [hR3, show k + 3 = (k + 2) + 1 from rfl, mrLoop_txs P3 (joinSep [','] (txs.map showTx)) R4 _ (k + 2) hTB]
  have e4 : P3 ++ (lit "transactions" ++ '=' :: (lit "Transactions:[" ++ (joinSep [','] (txs.map showTx) ++ ']' :: ';' :: R4))) =
      (P3 ++ (lit "transactions" ++ '=' :: (lit "Transactions:[" ++ (joinSep [','] (txs.map showTx) ++ [']', ';'])))) ++ R4 := by simp
  rw [e4]
  generalize hP4 : P3 ++ (lit "transactions" ++ '=' :: (lit "Transactions:[" ++ (joinSep [','] (txs.map showTx) ++ [']', ';']))) = P4
  -- field 5: filled_order_ids, and the loop ends
  rw [hR4, mrLoop_filled P4 (joinSep [','] (filled.map showId)) _ k hF]
  dsimp only
  have etl : lit "Transactions:[" ++ (joinSep [','] (txs.map showTx) ++ [']']) = showTxList txs := by simp [showTxList]
  have htl := C16_txlist txs htx
  rw [etl]
  -- the filled-ids list
  have hfin : ∀ c : Bool, parseMR.finishMR oid rem c (showTxList txs) ('[' :: (joinSep [','] (filled.map showId) ++ [']'])) =
      .ok ⟨oid, txs, rem, c, filled⟩ := by
    intro c
    unfold parseMR.finishMR
    simp only [htl]
    cases hfl' : filled with
    | nil => simp [joinSep, lit_brackets]
    | cons i rest =>
      rw [← hfl']
      have hne : filled.map showId ≠ [] := by simp [hfl']
      have hb : joinSep [','] (filled.map showId) ≠ [] :=
        joinSep_ne_nil _ _ hne (by intro x hx; obtain ⟨j, _, rfl⟩ := List.mem_map.1 hx; exact showId_ne_nil j)
      have hsplit : splitOn ',' (joinSep [','] (filled.map showId)) = filled.map showId :=
        splitOn_joinSep ',' _ hne (by
          intro x hx; obtain ⟨j, _, rfl⟩ := List.mem_map.1 hx; exact showId_no j ',' (by decide))
      have hmap := mapM_show_opt showId parseId filled (fun j hj => parseId_showId j (hfl j hj))
      have hnb : ('[' :: (joinSep [','] (filled.map showId) ++ [']'])) ≠ lit "[]" := by
        rw [lit_brackets]
        intro e
        cases hj : joinSep [','] (filled.map showId) with
        | nil => exact hb hj
        | cons x xs => rw [hj] at e; simp at e
      rw [if_neg hnb]
      have hcontent : (('[' :: (joinSep [','] (filled.map showId) ++ [']'])).drop 1).take
          (('[' :: (joinSep [','] (filled.map showId) ++ [']'])).length - 2) = joinSep [','] (filled.map showId) := by
        simp
      simp only [hcontent]
      rw [if_neg (by simpa using hb), hsplit, hmap]
  simp only [parseId_showId oid hid, parseU64_showNat hrem]
  cases comp
  · simp (config := {decide := true}) only [showBool, if_false, if_true, hfin]
  · simp (config := {decide := true}) only [showBool, if_false, if_true, hfin]

/-! non-vacuity: a reserve order with boundary values satisfies the premise -/
example : OrderOk ⟨⟨true, 2 ^ 128 - 1⟩, W - 1, 0, .buy, W - 1, .gtd (W - 1), .reserve (W - 1) 0 none true⟩ :=
  ⟨by decide, by decide, by decide, by decide, by intro n hn; injection hn with hn; subst hn; decide,
   ⟨by decide, by decide, by intro a ha; cases ha⟩⟩

end PLV.C16
